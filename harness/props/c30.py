"""C30 — a workflow instance never runs more concurrent runs than its limit."""
from __future__ import annotations

import json
import os
import random
import re
from typing import Any

from ..boot import VERIF
from ..runner import Divergence, Driver, Env, Outcome, Violation, diff_streams

THEOREMS = [
    "C30_source_shape",
    "C30_bound",
    "C30_conservation",
    "C30_no_permit_leak",
    "C30_no_semaphore_no_holder",
    "C30_unlimited",
    "C30_gc_transparent",
    "C30_instances_independent",
    "C30_instances_local",
    "C30_instances_commute",
    "C30_fifo_order",
    "C30_no_barging",
    "C30_no_lost_wakeup",
    "C30_progress_enabled",
    "C30_fifo_progress",
    "C30_woken_executes",
    "C30_run_ids_unique",
    "C30_schedule_refines",
    "C30_nested_start_refines",
    "C30_nested_bound",
    "C30_nested_start_counted",
    "C30_cancel_keeps_slot",
    "C30_slot_kept_until_finish",
]
LEAN_TARGETS = ["WfProps.C30"]
EXPLANATION = (
    "Lean: LTS of BasicRuntime's per-instance run limit (WfModel/RunLimit.lean): a registry keyed by workflow instance holding "
    "asyncio.Semaphore's exact state (value, FIFO deque of waiter futures pending/woken/cancelled/woken-then-cancelled), runs as tasks "
    "(created, waiting, holding, finished), actions = the await-free sections (run(), first task step, task.cancel(), stepping a waiter whose "
    "future is done, the run function ending with any outcome, the weak registry dropping an unreferenced semaphore). Theorems over arbitrary "
    "action lists (any number of instances, runs, limits incl. 0 and None): at most N runs inside the limit; value + holders + in-flight permits "
    "= N (no leak on any exit path); None = no semaphore; the registry entry only disappears when it equals a fresh semaphore; actions of "
    "different instances commute and never change each other's state or enabledness; FIFO wake order, no barging, no lost wake-up; progress: a "
    "helpful action is always enabled while a run waits (N>=1) and the measure 2*(pending up to r)+(woken) bounds the helpful actions that can "
    "happen before r is woken; run ids unique; the FIFO ready-queue layer used by the driver only performs LTS actions; runs started from inside "
    "a step of a run that holds its slot (nested starts, same or other instance) add no reachable state, keep the bound, and with all N slots "
    "taken such a run queues as a pending waiter; task.cancel() on a run inside its limit changes nothing and wakes nobody, and until that run's "
    "own run function has ended it stays inside the limit whatever else happens (so at most N-1 others are). Tie: (gen) the source of "
    "_maybe_acquire_max_concurrent_runs / run_with_concurrency_limit re-extracted into C30_source_shape; (K1) real Workflow instances on the real "
    "BasicRuntime under the virtual-time loop with gate-controlled steps, scheduler-chosen starts (from top-level code and NESTED: the step of "
    "an executing run, or a task it spawned, calls run() of its own or another instance, fire-and-forget or awaited)/finishes/failures/time-outs/hard and soft "
    "cancels/snipes/instance replacement, steps with an asynchronous cancellation clean-up (a cancelled holder is still inside its step, "
    "and its slot, at the next quiescent points, until the scheduler lets the clean-up end), runs started under the run_id of an aborted run "
    "(abort + restart + one more run at the same instant), gc.collect() after every op: semaphore value, waiter queue, executing runs and outcomes compared with "
    "the model driver after every op; (K2) asyncio.Semaphore itself stepped one ready handle at a time against the model's micro actions incl. "
    "the FIFO order of the ready queue. Search: monitors on step entry/exit events (step code incl. its cancellation clean-up) and quiescent snapshots (bound, "
    "classified by whether one of the runs is a cancelled run still in its step or shares its run_id with an aborted run; step outliving its run, "
    "conservation, waiting with a free permit, FIFO entry order, every started uncancelled run executes, permits restored, solo-vs-side-by-side "
    "independence)."
)
LEVEL_TEXT = "proof (Lean 4) over an executable LTS; tied to the code by regenerated source shape and two correspondences; monitors on the real runtime"
ASSUMPTIONS = [
    "progress is proved as: (1) while a run is a pending waiter and N>=1, a finish of some holder or a deliver of some done waiter is enabled; "
    "(2) along any schedule at most mu(r) such helpful actions happen while r stays pending. Turning this into 'eventually executes' assumes "
    "fairness for exactly these actions: every run that holds a permit eventually finishes (step bodies terminate or time out), and the event "
    "loop eventually steps every task whose future is done (asyncio's FIFO ready queue)",
    "a run counts as executing from entering to leaving `async with sem`; that its step bodies do not outlive this window is not part of the "
    "model: it is checked on the real runtime by the monitor C30/step_outlives_run (step bodies are assumed to honour cancellation within "
    "cleanup_tasks' 0.5 s grace). Steps with an asynchronous cancellation clean-up are generated, but the scheduler always lets the clean-up end "
    "before it advances the clock past that grace period, and it never calls handler.cancel() a second time on a run whose step is in its "
    "clean-up: both end the run while its step still executes (the wait for the cancelled workers is bounded / is itself cancellable) -- "
    "signatures C30/step_outlives_run[cleanup_longer_than_grace_period] and [hard_cancelled_again_during_cleanup] keep these two apart from "
    "any other way a step can outlive its run",
    "run ids of the model are the order of the run() calls; the run_id STRINGS of the implementation are not modelled (a run started under the "
    "run_id of an aborted run is just the next run): that re-use changes nothing is checked by K1/S on the real runtime only",
    "instance identity is id(workflow): uniqueness among live instances and 'a live semaphore keeps its workflow alive' (both are locals of the "
    "same generator frame) are by reading; exercised by the drop/re-create ops with gc.collect()",
    "limits are naturals (a negative num_concurrent_runs makes asyncio.Semaphore raise inside the task; not modelled); workflow._num_concurrent_runs "
    "is not mutated after construction",
    "CPython 3.12 asyncio.Semaphore / Task.cancel semantics are transcribed by hand and validated by K2 on the interpreter that runs the check; "
    "real threads, other event loops and other runtimes (DBOS) are out of scope",
    "nested starts: the model lets any run inside its limit start runs of any instance and treats the call exactly like a top-level start (the code "
    "passes nothing about the caller to the limit: C30_source_shape pins that body); the harness makes the call from the step coroutine or from a "
    "task created by it, not from threads or executor callbacks. A step that AWAITS a run of an instance whose slots are all held by runs "
    "that themselves wait (e.g. its own instance at limit 1) deadlocks by design; the generator avoids exactly these (decided by simulating the "
    "specified N-slot FIFO semantics on the harness's own bookkeeping), so 'every started run eventually executes' is checked for all others",
    "K1 compares states at quiescent points only; the order of semaphore events inside one loop run is the model's FIFO ready queue, and a run "
    "function's exit is assumed to come after everything that was ready when its gate opened",
]
TRUSTED_EXTRA = [
    "harness/runlimit.py reads private attributes (BasicRuntime._max_concurrent_runs, Semaphore._value/_waiters, Task._fut_waiter/_must_cancel, "
    "loop._ready) to observe, never to change, the implementation",
    "harness/gen/runlimit.py (AST canonicalisation of basic.py)",
]

CORPUS_FILE = os.path.join(VERIF, "harness", "corpus", "C30_scenarios.json")

# --------------------------------------------------------------------------
# scenario generation (online: ops are chosen from the observed state)


class Chooser:
    def __init__(self, rng: random.Random, nops: int, next_inst: int, indep: bool):
        self.rng = rng
        self.nops = nops
        self.next_inst = next_inst
        self.queue: list = []
        self.indep = indep
        self.drain_left = 80

    def _simple_options(self, live: Any) -> list:
        rng = self.rng
        opts: list = []
        for i, c in live.cfg.items():
            if i in live.dropped:
                continue
            alive = live.live_runs(i)
            ex = [r for r in live.executing[i] if r in alive]
            waiting = [r for r in alive if r not in ex]
            if live.nruns[i] < 9:
                opts += [self._start_op(i) for _ in range(4 if len(alive) < 3 else 2)]
                # the run_id of an aborted run is free again (abort() forgets it at once): start a run under it,
                # as the server's idle-release runtime does when it reloads a run it released
                for r0 in free_ids(live, i):
                    opts += [self._start_op(i, r0)] * 2
            for r in ex:
                if (i, r) in live.cleaning:
                    # its cancelled step is inside its asynchronous clean-up: the scheduler decides when that ends.
                    # (Not generated: a second handler.cancel() now, and letting the 0.5 s worker-cancel grace
                    # period run out first -- see ASSUMPTIONS.)
                    if live.cleanup.get((i, r)) == "gate":
                        opts += [["clean", i, r]] * 3
                    if (i, r) not in live.soft:
                        opts.append(["soft", i, r])
                    continue
                if (i, r) in live.awaiting:
                    # its step is blocked on a nested run: it can only be cancelled from outside
                    opts.append(["hard", i, r])
                    if (i, r) not in live.soft:
                        opts.append(["soft", i, r])
                    continue
                opts += [["open", i, r, "ok"]] * 2 + [["open", i, r, "fail"]]
                opts.append(["hard", i, r])
                if (i, r) not in live.soft:
                    opts.append(["soft", i, r])
                if waiting:
                    opts += [["snipe", i, r]] * 2
                # nested starts: this step calls run() of its own instance / of another one
                for j, cj in live.cfg.items():
                    if j in live.dropped or live.nruns[j] >= 9:
                        continue
                    how = rng.choice(["ff", "ff", "task", "await", "await"])
                    if how == "await" and ((self.indep and j != i) or not await_safe(live, (i, r), j)):
                        how = "ff"
                    opts += [["nstart", i, r, j, how]] * (2 if j == i else 1)
            for r in waiting:
                opts.append(["hard", i, r])
                if (i, r) not in live.soft:
                    opts.append(["soft", i, r])
            # (not a run whose run_id a later run was started under: abort() forgets the id, i.e. the later run's entry)
            done = [r for r in range(1, live.nruns[i] + 1) if r not in alive and not superseded(live, i, r)]
            if done and rng.random() < 0.15:
                opts.append(["hard", i, rng.choice(done)])
        return opts

    def _start_op(self, i: int, rid_of: Any = None) -> list:
        """a top-level start; some runs get a step with an asynchronous cancellation clean-up"""
        rng = self.rng
        opts: dict = {}
        x = rng.random()
        if x < 0.25:
            opts["cleanup"] = "gate"
        elif x < 0.4:
            opts["cleanup"] = rng.choice([1, 2, 5, 20, 60])
        if rid_of is not None:
            opts["rid_of"] = rid_of
        return ["start", i, opts] if opts else ["start", i]

    def _reload(self, live: Any) -> Any:
        """abort a run that holds a slot and start a run under the same run_id at the same instant (plus, often,
        one more run of the instance)"""
        rng = self.rng
        cands = []
        for i, c in live.cfg.items():
            if i in live.dropped or live.nruns[i] >= 8:
                continue
            alive = live.live_runs(i)
            cands += [(i, r) for r in live.executing[i] if r in alive and (i, r) not in live.cleaning and (i, r) not in live.aborted]
        if not cands:
            return None
        i, r = rng.choice(cands)
        subs = [["hard", i, r], self._start_op(i, r)]
        if rng.random() < 0.7:
            subs.append(self._start_op(i))
        return ["multi", subs]

    def __call__(self, live: Any, n: int) -> Any:
        rng = self.rng
        if self.queue:
            return self.queue.pop(0)
        if n >= self.nops:
            return self._drain(live)
        opts = self._simple_options(live)
        special: list = []
        if any(c["lim"] is not None and live.executing[i] for i, c in live.cfg.items() if i not in live.dropped):
            special += [["reload"]] * 2
        if not live.cleaning and not self.indep and any(c["timeout"] is not None and live.executing[i] for i, c in live.cfg.items() if i not in live.dropped):
            special += [["advance"]] * 3
        for i, c in live.cfg.items():
            if i not in live.dropped and not live.live_runs(i) and live.nruns[i] >= 1 and not live.executing[i]:
                special += [["drop", i]] * 3
        if len(opts) >= 2:
            special += [["multi"]] * 6
        pick = rng.choice(opts + special) if (opts or special) else None
        if pick is None:
            return None
        if pick[0] == "reload":
            return self._reload(live) or (rng.choice(opts) if opts else None)
        if pick[0] == "drop":
            i = pick[1]
            c = live.cfg[i]
            new = self.next_inst
            self.next_inst += 1
            lim = rng.choice([1, 2, 3, 4, c["lim"] if c["lim"] is not None else 2])
            self.queue.append(["mk", new, lim, c["cls"] if rng.random() < 0.7 else 1 - c["cls"] % 2, c["timeout"]])
            return pick
        if pick[0] == "multi":
            k = rng.choice([2, 2, 3])
            subs: list = []
            used: set = set()
            extra_runs: dict[int, int] = {}
            has_nested = has_other = has_await = False
            for _ in range(k * 3):
                if len(subs) >= k:
                    break
                o = rng.choice(opts)
                if o[0] == "snipe":
                    continue
                # a nested start shares its quiescent point only with other starts (the call happens a loop
                # iteration later than the op; next to finishes/cancels the order of events would be a guess),
                # and at most one of them is awaited (each was found deadlock-free on its own only)
                if o[0] == "nstart":
                    if has_other or (o[4] == "await" and has_await) or (self.indep and o[1] != o[3]):
                        continue
                elif o[0] != "start" and has_nested:
                    continue
                key = (o[1], o[2]) if o[0] != "start" else None
                if o[0] == "start" and len(o) > 2 and o[2].get("rid_of") is not None:
                    key = (o[1], o[2]["rid_of"])  # one run per freed run_id, and no further abort of its former owner
                if key is not None and key in used:
                    continue
                if key is not None:
                    used.add(key)
                subs.append(o)
                if o[0] == "nstart":
                    has_nested = True
                    has_await = has_await or o[4] == "await"
                elif o[0] != "start":
                    has_other = True
                if o[0] == "start":
                    extra_runs[o[1]] = extra_runs.get(o[1], 0) + 1
                    if not has_nested and rng.random() < 0.25:
                        has_other = True
                        # cancel the new run before its task was stepped at all
                        subs.append(["hard", o[1], live.nruns[o[1]] + extra_runs[o[1]]])
            return ["multi", subs] if len(subs) >= 2 else (subs[0] if subs else ["start", next(iter(live.cfg))])
        return pick

    def _drain(self, live: Any) -> Any:
        """let every run through: open gates until nothing is left"""
        self.drain_left -= 1
        if self.drain_left <= 0:
            return None
        for (i, r) in live.cleaning:
            if i not in live.dropped and live.cleanup.get((i, r)) == "gate" and not live.cgates[(i, r)].is_set():
                return ["clean", i, r]
        for i in live.cfg:
            if i in live.dropped:
                continue
            alive = live.live_runs(i)
            ex = [r for r in live.executing[i] if r in alive and (i, r) not in live.awaiting and (i, r) not in live.cleaning]
            if ex:
                return ["open", i, ex[0], "ok"]
        return None


def superseded(live: Any, i: int, r: int) -> bool:
    rid = live.run_ids.get((i, r))
    return rid is not None and live.id_owner.get(rid) != (i, r)


def free_ids(live: Any, i: int) -> list:
    """runs of instance i whose run_id string is free again: handler.cancel() was called on them (abort() drops the
    id from the runtime's table at once) and no later run was started under it"""
    return [r0 for (ii, r0) in live.aborted if ii == i and i not in live.dropped
            and live.id_owner.get(live.run_ids.get((ii, r0))) == (ii, r0)]


def await_safe(live: Any, parent: tuple, j: int) -> bool:
    """May the step of `parent` start a run of instance `j` and WAIT for it?  A step that waits for a run of its
    own instance at limit 1 deadlocks by design (the child needs the slot its parent keeps) -- that is the
    documented meaning of the limit, not a violation, so the generator does not go there.  Decided on the
    harness's own picture of the system under the *specified* semantics (N slots per instance, FIFO): add the
    awaited child, then let every run end whose step waits for nothing (or for a run that ended), handing freed
    slots to the queue; safe iff everything ends."""
    lim_j = live.cfg[j]["lim"]
    if lim_j == 0:
        return False
    ex: dict[int, list] = {}
    waiting: dict[int, list] = {}
    lims: dict[int, Any] = {}
    for i, c in live.cfg.items():
        if i in live.dropped:
            continue
        alive = live.live_runs(i)
        ex[i] = [r for r in live.executing[i] if r in alive]
        waiting[i] = sorted(r for r in alive if r not in ex[i])
        lims[i] = c["lim"]
    aw = {k: v for k, v in live.awaiting.items()}
    aw[parent] = (j, "new")
    waiting[j].append("new")

    def admit(i: int) -> None:
        while waiting[i] and (lims[i] is None or len(ex[i]) < lims[i]):
            ex[i].append(waiting[i].pop(0))

    for i in ex:
        admit(i)
    progress = True
    while progress:
        progress = False
        for i in ex:
            for r in list(ex[i]):
                a = aw.get((i, r))
                if a is None or a[0] not in ex or (a[1] not in ex[a[0]] and a[1] not in waiting[a[0]]):
                    ex[i].remove(r)
                    admit(i)
                    progress = True
    return all(not ex[i] for i in ex) and all(not waiting[i] or lims[i] == 0 for i in waiting)


def gen_scenario_head(rng: random.Random, indep: bool) -> tuple[dict, int]:
    ninst = rng.choice([1, 2, 2, 2, 3])
    same_cls = rng.random() < 0.6
    ops = []
    for k in range(ninst):
        lim = rng.choice([1, 1, 2, 2, 3, 4, None]) if rng.random() > 0.03 else 0
        cls = 0 if same_cls else k % 2
        timeout = None if (indep or rng.random() < 0.65) else 10.0
        ops.append(["mk", k + 1, lim, cls, timeout])
    return {"default_rt": (not indep) and rng.random() < 0.12, "ops": ops}, ninst + 1


# --------------------------------------------------------------------------
# monitors (on the implementation's events and snapshots only)


def monitor(res: dict, drained: bool) -> list[tuple[str, str, int]]:
    """-> [(signature, what, snapshot index at which it shows)]"""
    out: list[tuple[str, str, int]] = []
    cfg = {int(i): c for i, c in res["cfg"].items()}
    seen: set = set()

    def add(sig: str, what: str, idx: int) -> None:
        if sig not in seen:
            seen.add(sig)
            out.append((sig, what, idx))

    # --- events: bound, steps outliving their run, FIFO entry order
    ev_to_snap = []
    for k, s in enumerate(res["snaps"]):
        if "ev" in s:
            ev_to_snap.append((s["ev"][1], k))

    def snap_of(evidx: int) -> int:
        for hi, k in ev_to_snap:
            if evidx < hi:
                return k
        return len(res["snaps"]) - 1

    nested = {tuple(int(x) for x in k.split(".")): v for k, v in res.get("nested", {}).items()}

    def origin(i: int, rs: list) -> tuple[str, str]:
        """classifying fact for the bound: were all runs started from top-level code, or some from inside a step?"""
        ns = [r for r in rs if (i, r) in nested]
        if not ns:
            return "", ""
        same = [r for r in ns if nested[(i, r)][0] == i]
        txt = "; ".join(f"run {r} was started from inside the step of run {nested[(i, r)][0]}.{nested[(i, r)][1]} ({nested[(i, r)][2]})" for r in ns)
        return ("[nested_start_same_instance]" if same else "[nested_start_other_instance]"), " -- " + txt

    aborted = {tuple(int(x) for x in k.split(".")): v for k, v in res.get("aborted", {}).items()}
    reused = {tuple(int(x) for x in k.split(".")): v for k, v in res.get("reused", {}).items()}
    id_shared = set(reused) | {(k[0], v) for k, v in reused.items()}

    def facts(i: int, rs: list, cleaning: set) -> tuple[str, str]:
        """classifying facts for the bound: which of the runs that execute step code at once is a cancelled run whose
        step has not finished its (asynchronous) cancellation clean-up, or shares its run_id with an aborted run"""
        cl = [q for q in rs if (i, q) in cleaning]
        if cl:
            ab = [q for q in cl if (i, q) in aborted]
            txt = "; ".join(f"run {q} was {'hard-cancelled (handler.cancel())' if q in ab else 'cancelled'} and its step is still executing its "
                            f"cancellation clean-up: it must keep its slot until that step has returned" for q in cl)
            return ("[aborted_run_still_in_its_step]" if ab else "[cancelled_run_still_in_its_step]"), " -- " + txt
        sh = [q for q in rs if (i, q) in id_shared]
        if sh:
            txt = "; ".join(f"run {q} was started under the run_id of run {reused[(i, q)]}, which had been aborted (handler.cancel())"
                            for q in sh if (i, q) in reused)
            return "[run_id_reused_after_abort]", " -- " + txt
        return origin(i, rs)

    inside: dict[int, list] = {}
    taskdone: set = set()
    cleaning_now: set = set()
    cleanup_at: dict[tuple, float] = {}
    done_at: dict[tuple, float] = {}
    last_enter: dict[int, int] = {}

    def hard_cancels(i: int, q: int, upto: int) -> int:
        """handler.cancel() calls on run q of instance i among the ops up to snapshot `upto`"""
        n = 0
        for sn in res["snaps"][: upto + 1]:
            for x in (sn["op"][1] if sn["op"][0] == "multi" else [sn["op"]]):
                if x[0] == "hard" and x[1] == i and x[2] == q:
                    n += 1
        return n

    def why_outlives(i: int, zs: list, cleaning: set, upto: int) -> str:
        """classifying fact for a step that outlives its run"""
        if any((i, q) in cleaning and hard_cancels(i, q, upto) >= 2 for q in zs):
            return "[hard_cancelled_again_during_cleanup]"
        if any((i, q) in cleaning and done_at.get((i, q), 0.0) - cleanup_at.get((i, q), 0.0) >= 0.5 for q in zs):
            return "[cleanup_longer_than_grace_period]"
        return ""

    for n, e in enumerate(res["events"]):
        kind, i, r = e[0], e[1], e[2]
        lim = cfg[i]["lim"]
        if kind == "taskdone":
            taskdone.add((i, r))
            done_at[(i, r)] = e[3]
        elif kind == "cleanup":
            cleaning_now.add((i, r))
            cleanup_at[(i, r)] = e[3]
        elif kind == "enter":
            cur = inside.setdefault(i, [])
            zombies = [q for q in cur if (i, q) in taskdone]
            if zombies:
                add("C30/step_outlives_run" + why_outlives(i, zombies, cleaning_now, snap_of(n)),
                    f"instance {i} (limit {lim}): run {r} enters its step while the step of run(s) {zombies} is still executing although their "
                    f"run task has already ended (outcomes {[res['outcome'].get(f'{i}.{q}') for q in zombies]})", snap_of(n))
            cur.append(r)
            if lim is not None and len([q for q in cur if (i, q) not in taskdone]) > lim:
                tag, txt = facts(i, [q for q in cur if (i, q) not in taskdone], cleaning_now)
                add("C30/bound_exceeded" + tag, f"instance {i}: {len(cur)} runs {cur} execute step code at once, limit {lim}{txt}", snap_of(n))
            if i in last_enter and r < last_enter[i]:
                add("C30/fifo_violated", f"instance {i}: run {r} (started earlier) enters its step after run {last_enter[i]}", snap_of(n))
            last_enter[i] = max(last_enter.get(i, 0), r)
        elif kind == "exit":
            cleaning_now.discard((i, r))
            if r in inside.get(i, []):
                inside[i].remove(r)
    # --- quiescent snapshots
    for k, s in enumerate(res["snaps"]):
        snap_cleaning = {tuple(x) for x in s.get("cleaning", [])}
        for i_s, o in s["obs"].items():
            i = int(i_s)
            lim = o["lim"]
            ex_live = [r for r in o["exec"] if r not in o["zombies"]]
            if o["zombies"]:
                zt = why_outlives(i, o["zombies"], snap_cleaning, k)
                add("C30/step_outlives_run" + zt, f"instance {i} (limit {lim}): steps of runs {o['zombies']} still executing at a quiescent point "
                    f"although their run task has ended", k)
            if lim is None:
                if o["waiters"] or o["sem"] is not None or sorted(o["live"]) != sorted(ex_live):
                    add("C30/unlimited_run_waits", f"instance {i} has no limit but live runs {o['live']} vs executing {ex_live}, "
                        f"semaphore {o['sem']}", k)
                continue
            if o["sem"] is None:
                if ex_live or [r for r in o["live"] if r not in ex_live]:
                    add("C30/registry_lost_live_semaphore", f"instance {i}: no registry entry while runs {o['live']} are live", k)
            else:
                if o["sem"] + len(ex_live) != lim:
                    add("C30/conservation", f"instance {i}: semaphore value {o['sem']} + {len(ex_live)} executing runs != limit {lim}", k)
            if len(ex_live) > lim:
                tag, txt = facts(i, ex_live, snap_cleaning)
                add("C30/bound_exceeded" + tag, f"instance {i}: runs {ex_live} execute step code at a quiescent point, limit {lim}{txt}", k)
            waiting = [r for r in o["live"] if r not in ex_live]
            if waiting and len(ex_live) < lim:
                add("C30/waits_with_free_permit", f"instance {i}: runs {waiting} wait although only {len(ex_live)} of {lim} permits are in use", k)
    # --- after the drain phase: everybody got through, permits are back
    if drained and res["snaps"]:
        k = len(res["snaps"]) - 1
        last = res["snaps"][-1]["obs"]
        hard = {tuple(x) for x in res["hard"]}
        soft = {tuple(x) for x in res["soft"]}
        entered = {tuple(x) for x in res["entered"]}
        for i_s, o in last.items():
            i = int(i_s)
            lim = o["lim"]
            if lim == 0:
                continue
            missing = [r for r in range(1, o["started"] + 1) if (i, r) not in entered and (i, r) not in hard and (i, r) not in soft]
            if missing:
                add("C30/started_run_never_executed", f"instance {i} (limit {lim}): runs {missing} were started, never cancelled, and never "
                    f"executed a step although every other run was allowed to finish (live: {o['live']})", k)
            if lim is not None and o["sem"] is not None and not o["live"] and o["sem"] != lim:
                add("C30/permit_leak", f"instance {i}: all runs ended but the semaphore holds {o['sem']} of {lim} permits", k)
    return out


def proj_op(op: list, i: int) -> Any:
    """what instance i sees of a (non-multi) op when it runs alone; None = nothing.  A run of i started from a
    step of ANOTHER instance is, for i, just a start (that is the independence claim); the other instance sees
    nothing of it (fire-and-forget / task modes only: an awaiting step would be held up by the other instance)."""
    if op[0] == "advance":
        return None
    if op[0] == "nstart":
        if op[1] == i and op[3] == i:
            return op
        if op[3] == i and op[4] != "await":
            return ["start", i]
        if op[1] == i and op[4] == "await":
            return op  # (not generated for independence scenarios; keeps the comparison honest if it ever is)
        return None
    return op if op[1] == i else None


def project(ops: list, i: int) -> list:
    res = []
    for op in ops:
        if op[0] == "multi":
            subs = [q for q in (proj_op(x, i) for x in op[1]) if q is not None]
            if subs:
                res.append(["multi", subs])
        else:
            q = proj_op(op, i)
            if q is not None:
                res.append(q)
    return res


def inst_states(res: dict, i: int, only_own: bool) -> list[str]:
    """state strings of instance i after each op that touches i"""
    out = []
    pat = re.compile(rf"(?:^| ; )(I{i} [^;]*?)(?= ; |$)")
    for s in res["snaps"]:
        op = s["op"]
        touches = any(proj_op(x, i) is not None for x in (op[1] if op[0] == "multi" else [op]))
        if only_own and not touches:
            continue
        m = pat.search(s["state"])
        out.append(m.group(1) if m else "<absent>")
    return out


# --------------------------------------------------------------------------


def _syntax_ok(line: str) -> bool:
    """independent re-statement of the driver's op syntax (for the malformed stream)"""
    t = line.split(" ")
    nat = lambda s: s.isdigit() and s.isascii()  # noqa: E731
    if t[0] == "mk":
        return len(t) == 3 and nat(t[1]) and (t[2] == "-" or nat(t[2]))
    if t[0] == "nstart":
        return len(t) == 5 and all(nat(x) for x in t[1:])
    if t[0] in ("start", "begin", "cancel", "deliver"):
        return len(t) == 3 and nat(t[1]) and nat(t[2])
    if t[0] == "finish":
        return len(t) == 4 and nat(t[1]) and nat(t[2]) and t[3] in ("c", "f", "x", "t")
    if t[0] == "gc":
        return len(t) == 2 and nat(t[1])
    if t[0] == "gcsync":
        return len(t) == 3 and nat(t[1]) and t[2] in ("0", "1")
    return line in ("tick", "settle", "drain", "show", "reset")


MALFORMED = [
    ("reset", "ok"), ("mk 1", "bad-op"), ("mk 1 two", "bad-op"), ("mk 1 1", "ok"), ("mk 1 1", "disabled"), ("start 1", "bad-op"),
    ("start x 1", "bad-op"), ("start 9 1", "disabled"), ("start 1 1", "ok"), ("start 1 1", "disabled"), ("begin 1 5", "disabled"),
    ("deliver 1 1", "disabled"), ("finish 1 1 c", "disabled"), ("finish 1 1 z", "bad-op"), ("gc 1", "disabled"), ("gcsync 1 2", "bad-op"),
    ("gcsync 7 1", "no-instance"), ("gcsync 1 1", "no-sem"), ("tick 1", "bad-op"), ("", "bad-op"), ("tick", "tick 1 1 begin"),
    ("tick", "idle"), ("cancel 1 3", "disabled"), ("cancel 1 1", "ok"), ("finish 1 1 f", "ok"), ("gcsync 1 0", "ok"),
    ("show", "I1 lim=1 sem=- W=[] C=[] H=[] F=[1f]"), ("START 1 2", "bad-op"), ("start 1 2 ", "bad-op"), ("mk 2 -", "ok"),
    ("start 2 1", "ok"), ("start 2 2", "ok"), ("settle", "I1 lim=1 sem=- W=[] C=[] H=[] F=[1f] ; I2 lim=- sem=- W=[] C=[] H=[1,2] F=[]"),
    ("gc 2", "disabled"), ("deliver 2 1", "disabled"),
    # nested starts: the caller must be inside its limit; the new run is an ordinary task of its instance
    ("reset", "ok"), ("mk 1 1", "ok"), ("mk 2 1", "ok"), ("start 1 1", "ok"), ("nstart 1 1 1 2", "disabled"), ("nstart 1 1 1", "bad-op"),
    ("nstart 1 1 1 x", "bad-op"), ("nstart 1 1 1 2 3", "bad-op"), ("drain", "ok"), ("nstart 1 1 1 1", "disabled"), ("nstart 1 2 1 2", "disabled"),
    ("nstart 3 1 1 2", "disabled"), ("nstart 1 1 3 1", "disabled"), ("nstart 1 1 1 2", "ok"), ("nstart 1 1 2 1", "ok"), ("nstart 1 2 1 3", "disabled"),
    ("settle", "I1 lim=1 sem=0 W=[2p] C=[] H=[1] F=[] ; I2 lim=1 sem=0 W=[] C=[] H=[1] F=[]"), ("nstart 2 1 1 3", "ok"),
    ("finish 1 1 c", "ok"), ("nstart 1 1 1 4", "disabled"),
    ("settle", "I1 lim=1 sem=0 W=[3p] C=[] H=[2] F=[1c] ; I2 lim=1 sem=0 W=[] C=[] H=[1] F=[]"),
]


def load_corpus() -> list[dict]:
    try:
        return json.load(open(CORPUS_FILE))["scenarios"]
    except OSError:
        return []


def run(env: Env) -> Outcome:
    import gc

    from .. import runlimit as _RL  # noqa: F401  (import the runtime before freezing)

    # the scenarios call gc.collect() after every op (weak registry); keep the interpreter's
    # long-lived objects out of those collections
    gc.collect()
    gc.freeze()
    try:
        return _run(env)
    finally:
        gc.unfreeze()


def _run(env: Env) -> Outcome:
    from .. import runlimit as RL

    out = Outcome()
    out.rule = ("K1: 1-3 workflow instances (limits 1-4, None, rarely 0; shared or distinct class; optional 10 s timeout; own or default runtime) "
                "driven by online-chosen ops start/NESTED start (a step of a running run calls run() of its own or another instance: fire-and-forget, "
                "from a task it spawned, or awaited where that cannot deadlock by design)/open ok|fail/hard cancel/soft cancel/snipe/advance/"
                "drop+re-create/multi; some runs have a step with an ASYNCHRONOUS cancellation clean-up (k loop iterations, or until the scheduler's "
                "`clean` op) so that a cancelled holder is still inside its step at the next quiescent point; runs started under the run_id of an "
                "aborted run (`rid_of`; also abort+restart+one more run at the same instant = what the idle-release runtime does); then a drain phase; "
                "K2: asyncio.Semaphore(0..4) with random start/tick/go/cancel; non-trivial = some run had to wait; distinct by concrete op list")
    rng = random.Random(env.rng.randrange(1 << 30))
    cases: list[tuple[str, dict, Any]] = []  # (kind, scenario, chooser-args)
    if env.replay is not None:
        c = env.replay["payload"].get("case")
        if isinstance(c, dict) and "ops" in c:
            cases.append(("replay", c, None))
    for sc in load_corpus():
        cases.append(("corpus", sc, None))
    n_gen = env.budget(70, 1400)
    for k in range(n_gen):
        indep = (k % 4 == 3)
        head, nxt = gen_scenario_head(rng, indep)
        cases.append(("indep" if indep else "gen", head, (random.Random(rng.randrange(1 << 30)), rng.randint(6, 34), nxt, indep)))

    all_ops: list[str] = []
    all_impl: list[str] = []
    spans: list[tuple[int, int, dict]] = []
    for kind, sc, ch in cases:
        chooser = Chooser(*ch) if ch is not None else None
        res = RL.run_scenario(sc, chooser)
        concrete = {"default_rt": bool(sc.get("default_rt")), "ops": res["ops_concrete"]}
        out.evaluations += len(res["snaps"])
        out.count(f"scenario:{kind}")
        for s in res["snaps"]:
            out.count("op:" + s["op"][0])
            for x in (s["op"][1] if s["op"][0] == "multi" else [s["op"]]):
                if x[0] == "nstart":
                    out.count(f"nested:{x[4]}:{'same' if x[1] == x[3] else 'other'}_instance")
            if s.get("awaiting"):
                out.count("snapshot:some_step_awaits_nested_run")
            if s.get("cleaning"):
                out.count("snapshot:cancelled_step_still_in_cleanup")
                if any(o["waiters"] for o in s["obs"].values()):
                    out.count("snapshot:cancelled_step_still_in_cleanup_while_runs_wait")
            for x in (s["op"][1] if s["op"][0] == "multi" else [s["op"]]):
                if x[0] == "start" and len(x) > 2:
                    if x[2].get("cleanup"):
                        out.count("start:cleanup_" + ("gate" if x[2]["cleanup"] == "gate" else "iterations"))
                    if x[2].get("rid_of") is not None:
                        out.count("start:under_run_id_of_aborted_run")
                        if s["op"][0] == "multi" and ["hard", x[1], x[2]["rid_of"]] in s["op"][1]:
                            out.count("start:abort_and_restart_same_instant")
        for key, (pi, _pr, _how) in res.get("nested", {}).items():
            j, c = (int(x) for x in key.split("."))
            lim = res["cfg"][j]["lim"] if j in res["cfg"] else None
            if pi == j and lim is not None and any(s["obs"].get(j, {}).get("waiters") and c in s["obs"][j]["waiters"] for s in res["snaps"]):
                out.count("nested:child_of_same_instance_had_to_wait")
            if s.get("sniped") and any(v is not None for v in s["sniped"].values()):
                out.count("snipe:hit")
        for o in res["outcome"].values():
            out.count("outcome:" + o)
        if any(s["obs"] and any(o["waiters"] for o in s["obs"].values()) for s in res["snaps"]):
            out.nontrivial(json.dumps(concrete["ops"]))
        if any(o["sem"] is None and o["lim"] is not None and o["started"] for s in res["snaps"] for o in s["obs"].values()):
            out.count("registry:entry_collected")
        out.sample({"scenario": concrete["ops"][:14], "final": res["snaps"][-1]["state"] if res["snaps"] else ""}, cap=4)
        for e in res["errors"]:
            out.violations.append(Violation("C30/scenario_error", f"scenario could not be run: {e}", concrete))
        drained = ch is not None or bool(sc.get("drained"))
        for sig, what, idx in monitor(res, drained):
            prefix = {"default_rt": concrete["default_rt"], "ops": concrete["ops"][: idx + 1] if not sig.startswith(
                ("C30/started_run", "C30/permit_leak")) else concrete["ops"], "drained": sig.startswith(("C30/started_run", "C30/permit_leak"))}
            out.violations.append(Violation(sig, what, prefix))
        # independence: every instance alone behaves exactly as it did side by side
        if kind == "indep" and len(res["cfg"]) >= 2 and not res["errors"]:
            for i in sorted(int(x) for x in res["cfg"]):
                solo_ops = project(concrete["ops"], i)
                solo = RL.run_scenario({"default_rt": False, "ops": solo_ops})
                out.evaluations += len(solo["snaps"])
                a = inst_states(res, i, True)
                b = inst_states(solo, i, True)
                out.count("independence:compared")
                if a != b:
                    k = next((n for n in range(min(len(a), len(b))) if a[n] != b[n]), min(len(a), len(b)))
                    out.violations.append(Violation(
                        "C30/instances_interfere",
                        f"instance {i} behaves differently next to other instances: after its op #{k} alone {b[k] if k < len(b) else '<end>'!r}, "
                        f"side by side {a[k] if k < len(a) else '<end>'!r}", concrete))
                ea = [e[:3] for e in res["events"] if e[1] == i and e[0] in ("enter", "exit")]
                eb = [e[:3] for e in solo["events"] if e[1] == i and e[0] in ("enter", "exit")]
                if ea != eb and a == b:
                    out.violations.append(Violation("C30/instances_interfere", f"instance {i}: step entry/exit order differs alone vs side by side",
                                                    concrete))
        spans.append((len(all_ops), len(res["ops"]) + 1, concrete))
        all_ops += ["reset"] + res["ops"]
        all_impl += ["ok"] + res["impl"]

    # the most direct statement of the property first (the runner reports the first unlisted one)
    prio = ["C30/bound_exceeded", "C30/step_outlives_run", "C30/instances_interfere", "C30/started_run_never_executed", "C30/fifo_violated",
            "C30/waits_with_free_permit", "C30/permit_leak", "C30/unlimited_run_waits", "C30/conservation", "C30/registry_lost_live_semaphore"]
    base = lambda v: v.signature.split("[")[0]  # noqa: E731
    # (a violation that shows without nested starts is reported before one whose runs were started from inside steps)
    out.violations.sort(key=lambda v: (prio.index(base(v)) if base(v) in prio else len(prio),
                                       1 if "[" in v.signature else 0,
                                       1 if any(o[0] == "mk" and o[2] == 0 for o in v.replay.get("ops", [])) else 0,
                                       len(json.dumps(v.replay))))

    # ---- K1 correspondence (one driver batch)
    try:
        mo = Driver("runlimit").run(all_ops)
    except Exception as ex:
        out.divergences.append(Divergence("runlimit", 0, "<driver>", repr(ex), ""))
        mo = None
    if mo is not None:
        out.traces_validated += len(spans)
        out.disagreements_checked += len(all_ops)
        for start, n, concrete in spans:
            d = diff_streams("runlimit", all_ops[start:start + n], mo[start:start + n], all_impl[start:start + n], context=concrete)
            if d is not None:
                out.divergences.append(d)
                break

    # ---- K2: asyncio.Semaphore one handle at a time
    ops2: list[str] = []
    impl2: list[str] = []
    spans2: list[tuple[int, int, Any]] = []
    fixed2 = [
        (1, [["start"], ["start"], ["start"], ["tick"], ["tick"], ["tick"], ["go", 1, "ok"], ["tick"], ["cancel", 2], ["tick"], ["tick"]]),
        (1, [["start"], ["cancel", 1], ["tick"], ["start"], ["tick"], ["start"], ["tick"], ["cancel", 3], ["go", 2, "fail"], ["tick"], ["tick"]]),
        (2, [["start"]] * 4 + [["tick"]] * 4 + [["go", 1, "ok"], ["go", 2, "ok"], ["tick"], ["tick"], ["start"], ["tick"], ["tick"], ["tick"], ["tick"]]),
        (0, [["start"], ["tick"], ["cancel", 1], ["tick"]]),
    ]
    for lim, script in fixed2:
        r2 = RL.run_sem_micro(lim, script)
        spans2.append((len(ops2), len(r2["ops"]) + 1, {"limit": lim, "script": r2["script"]}))
        ops2 += ["reset"] + r2["ops"]
        impl2 += ["ok"] + r2["impl"]
    for _ in range(env.budget(250, 5000)):
        r2 = RL.run_sem_micro(rng.choice([0, 1, 1, 2, 2, 3, 4]), [], random.Random(rng.randrange(1 << 30)), rng.randint(5, 70))
        spans2.append((len(ops2), len(r2["ops"]) + 1, {"limit": r2["limit"], "script": r2["script"]}))
        ops2 += ["reset"] + r2["ops"]
        impl2 += ["ok"] + r2["impl"]
        out.evaluations += len(r2["script"])
        out.count("k2:runs")
        if any("y" in l.split(" C=")[0] for l in r2["impl"] if l.startswith("I1")):
            out.count("k2:woken_then_cancelled")
            out.nontrivial(json.dumps(r2["script"]))
    # malformed / disabled ops
    bad_ops = [m[0] for m in MALFORMED]
    bad_exp = [m[1] for m in MALFORMED]
    toks = ["mk", "start", "nstart", "finish", "gc", "gcsync", "tick", "1", "2", "x", "-", "c", "", "settle", "99999999999999999999", "-1", "１"]
    for _ in range(env.budget(60, 600)):
        line = " ".join(rng.choice(toks) for _ in range(rng.randint(1, 5)))
        if not _syntax_ok(line):
            bad_ops.append(line)
            bad_exp.append("bad-op")
            out.count("malformed")
    try:
        mo2 = Driver("runlimit").run(ops2 + bad_ops)
    except Exception as ex:
        out.divergences.append(Divergence("runlimit-sem", 0, "<driver>", repr(ex), ""))
        mo2 = None
    if mo2 is not None:
        out.traces_validated += len(spans2) + 1
        out.disagreements_checked += len(ops2) + len(bad_ops)
        for start, n, ctx in spans2:
            d = diff_streams("runlimit-sem", ops2[start:start + n], mo2[start:start + n], impl2[start:start + n], context=ctx)
            if d is not None:
                out.divergences.append(d)
                break
        d = diff_streams("runlimit-malformed", bad_ops, mo2[len(ops2):], bad_exp)
        if d is not None:
            out.divergences.append(d)
    return out
