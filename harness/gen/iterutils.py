"""Facts about llama_agents/core/iter_utils.py re-extracted from the current source
for the C29 model (lean/WfModel/GenIterUtils.lean).

What is extracted (each with a sentinel when the expected shape is missing):
  * passMode     - which condition switches debounced_sorted_prefix to pass-through:
                   `debouncer.is_complete` (onIsComplete) or a local flag that is
                   initialised False and set True in the marker branch (onMarkerConsumed)
  * markerCmp / markerYield - the literal compared against in the consumer loop and the
                   literal yielded by Debouncer.aiter
  * mergeDefaultStop - default of merge_generators(stop_on_first_completion=...)
  * dspMergeStop - the flag debounced_sorted_prefix passes to merge_generators
  * dspSources   - number of positional sources it passes (inner, debouncer.aiter())
  * waitFirstCompleted - asyncio.wait(..., return_when=asyncio.FIRST_COMPLETED)
  * sortStableByKey - the flush is `buffer.sort(key=key)` (list.sort is stable) followed by
                   yielding the buffer in order
"""
from __future__ import annotations

import ast

from ..boot import repo_path

LEAN_MODULE = "GenIterUtils"
REL = "packages/llama-agents-core/src/llama_agents/core/iter_utils.py"


def _find_func(tree: ast.AST, name: str):
    for n in ast.walk(tree):
        if isinstance(n, (ast.AsyncFunctionDef, ast.FunctionDef)) and n.name == name:
            return n
    return None


def _lean_str(s: str | None) -> str:
    if s is None:
        return '"<missing>"'
    return '"' + s.replace("\\", "\\\\").replace('"', '\\"') + '"'


def extract() -> dict:
    """Returns the extracted facts (also used by the check itself)."""
    facts: dict = {"passMode": "unknown", "markerCmp": None, "markerYield": None, "mergeDefaultStop": None,
                   "dspMergeStop": None, "dspSources": None, "waitFirstCompleted": False, "sortStableByKey": False,
                   "notes": []}
    notes = facts["notes"]
    tree = ast.parse(open(repo_path(REL)).read())
    dsp = _find_func(tree, "debounced_sorted_prefix")
    mg = _find_func(tree, "merge_generators")
    deb = None
    for n in ast.walk(tree):
        if isinstance(n, ast.ClassDef) and n.name == "Debouncer":
            deb = n
    if dsp is None or mg is None or deb is None:
        notes.append("iterutils: debounced_sorted_prefix / merge_generators / Debouncer not found")
        return facts

    # ---- consumer loop of debounced_sorted_prefix
    loop = next((n for n in dsp.body if isinstance(n, ast.AsyncFor)), None)
    top_if = None
    if loop is not None and len(loop.body) == 1 and isinstance(loop.body[0], ast.If):
        top_if = loop.body[0]
    if top_if is None:
        notes.append("iterutils: consumer loop of debounced_sorted_prefix is not `async for ...: if item == MARK: ... else: ...`")
    else:
        t = top_if.test
        if (isinstance(t, ast.Compare) and len(t.ops) == 1 and isinstance(t.ops[0], ast.Eq)
                and isinstance(t.comparators[0], ast.Constant) and isinstance(t.comparators[0].value, str)):
            facts["markerCmp"] = t.comparators[0].value
        else:
            notes.append("iterutils: marker test is not `item == <str literal>`")
        # marker branch: sort(key=key), yield loop, buffer reset (, flag := True)
        mb = top_if.body
        sort_ok = any(isinstance(s, ast.Expr) and isinstance(s.value, ast.Call) and isinstance(s.value.func, ast.Attribute)
                      and s.value.func.attr == "sort" and [k.arg for k in s.value.keywords] == ["key"]
                      and isinstance(s.value.keywords[0].value, ast.Name) and s.value.keywords[0].value.id == "key"
                      for s in mb)
        sort_idx = next((i for i, s in enumerate(mb) if isinstance(s, ast.Expr) and isinstance(s.value, ast.Call)
                         and isinstance(s.value.func, ast.Attribute) and s.value.func.attr == "sort"), None)
        yield_ok = False
        if sort_idx is not None:
            for s in mb[sort_idx + 1:]:
                if (isinstance(s, ast.For) and isinstance(s.iter, ast.Name) and len(s.body) == 1
                        and isinstance(s.body[0], ast.Expr) and isinstance(s.body[0].value, ast.Yield)
                        and isinstance(s.body[0].value.value, ast.Name) and isinstance(s.target, ast.Name)
                        and s.body[0].value.value.id == s.target.id):
                    yield_ok = True
        facts["sortStableByKey"] = bool(sort_ok and yield_ok)
        if not facts["sortStableByKey"]:
            notes.append("iterutils: flush is not `buffer.sort(key=key)` followed by yielding the buffer in order")
        true_flags = {s.targets[0].id for s in mb if isinstance(s, ast.Assign) and len(s.targets) == 1
                      and isinstance(s.targets[0], ast.Name) and isinstance(s.value, ast.Constant) and s.value.value is True}
        false_init = {s.targets[0].id for s in dsp.body if isinstance(s, ast.Assign) and len(s.targets) == 1
                      and isinstance(s.targets[0], ast.Name) and isinstance(s.value, ast.Constant) and s.value.value is False}
        # every other assignment to a candidate flag disqualifies it
        assigned_elsewhere: set[str] = set()
        for n in ast.walk(dsp):
            if isinstance(n, (ast.Assign, ast.AugAssign, ast.AnnAssign)):
                tg = n.targets if isinstance(n, ast.Assign) else [n.target]
                for x in tg:
                    if isinstance(x, ast.Name) and n not in mb and n not in dsp.body:
                        assigned_elsewhere.add(x.id)
        # else branch: find the `if <cond>: yield item else: buffer.append`
        inner_if = next((s for s in top_if.orelse if isinstance(s, ast.If)), None)
        if inner_if is None:
            notes.append("iterutils: else branch has no pass-through test")
        else:
            c = inner_if.test
            yields = any(isinstance(s, ast.Expr) and isinstance(s.value, ast.Yield) for s in inner_if.body)
            appends = any(isinstance(s, ast.Expr) and isinstance(s.value, ast.Call) and isinstance(s.value.func, ast.Attribute)
                          and s.value.func.attr == "append" for s in inner_if.orelse)
            if not (yields and appends):
                notes.append("iterutils: pass-through test does not have the shape `if c: yield x else: ... buffer.append(x)`")
            elif isinstance(c, ast.Attribute) and c.attr == "is_complete":
                facts["passMode"] = "onIsComplete"
            elif (isinstance(c, ast.Name) and c.id in true_flags and c.id in false_init
                  and c.id not in assigned_elsewhere):
                facts["passMode"] = "onMarkerConsumed"
            else:
                notes.append("iterutils: pass-through condition is neither debouncer.is_complete nor a flag set in the marker branch")

    # ---- merge call inside debounced_sorted_prefix
    for n in ast.walk(dsp):
        if isinstance(n, ast.Call) and isinstance(n.func, ast.Name) and n.func.id == "merge_generators":
            facts["dspSources"] = len(n.args) if not any(isinstance(a, ast.Starred) for a in n.args) else None
            kw = {k.arg: k.value for k in n.keywords}
            if "stop_on_first_completion" in kw:
                v = kw["stop_on_first_completion"]
                facts["dspMergeStop"] = v.value if isinstance(v, ast.Constant) and isinstance(v.value, bool) else None
            else:
                facts["dspMergeStop"] = "default"
    # ---- merge_generators signature and wait mode
    kwd = {a.arg: d for a, d in zip(mg.args.kwonlyargs, mg.args.kw_defaults)}
    d = kwd.get("stop_on_first_completion")
    if isinstance(d, ast.Constant) and isinstance(d.value, bool):
        facts["mergeDefaultStop"] = d.value
    else:
        notes.append("iterutils: merge_generators has no bool default for stop_on_first_completion")
    if facts["dspMergeStop"] == "default":
        facts["dspMergeStop"] = facts["mergeDefaultStop"]
    for n in ast.walk(mg):
        if isinstance(n, ast.Call) and isinstance(n.func, ast.Attribute) and n.func.attr == "wait":
            for k in n.keywords:
                if k.arg == "return_when" and isinstance(k.value, ast.Attribute) and k.value.attr == "FIRST_COMPLETED":
                    facts["waitFirstCompleted"] = True
    if not facts["waitFirstCompleted"]:
        notes.append("iterutils: merge_generators does not wait with return_when=FIRST_COMPLETED")
    # ---- Debouncer.aiter yields the marker
    ait = _find_func(deb, "aiter")
    if ait is not None:
        ys = [n for n in ast.walk(ait) if isinstance(n, ast.Yield)]
        if len(ys) == 1 and isinstance(ys[0].value, ast.Constant) and isinstance(ys[0].value.value, str):
            facts["markerYield"] = ys[0].value.value
    if facts["markerYield"] is None:
        notes.append("iterutils: Debouncer.aiter does not yield exactly one string literal")
    return facts


def _b(v) -> str:
    return "true" if v is True else "false"


def generate(notes: list[str]) -> list[str]:
    f = extract()
    notes += f["notes"]
    mode = {"onIsComplete": ".onIsComplete", "onMarkerConsumed": ".onMarkerConsumed"}.get(f["passMode"], ".unknown")
    L = [
        "namespace IterUtils",
        "",
        "/-- What `debounced_sorted_prefix` tests to decide that an item is passed through. -/",
        "inductive PassMode where",
        "  | onIsComplete      -- `if debouncer.is_complete:` (the flag flips when the timer fires)",
        "  | onMarkerConsumed  -- a local flag set in the branch that consumes the marker",
        "  | unknown           -- the extractor did not recognise the source",
        "deriving DecidableEq, Repr",
        "",
        "namespace Gen",
        f"def passMode : PassMode := {mode}",
        f"def markerCmp : String := {_lean_str(f['markerCmp'])}",
        f"def markerYield : String := {_lean_str(f['markerYield'])}",
        f"def mergeDefaultStop : Bool := {_b(f['mergeDefaultStop'])}",
        f"def mergeDefaultStopKnown : Bool := {_b(isinstance(f['mergeDefaultStop'], bool))}",
        f"def dspMergeStop : Bool := {_b(f['dspMergeStop'])}",
        f"def dspMergeStopKnown : Bool := {_b(isinstance(f['dspMergeStop'], bool))}",
        f"def dspSources : Nat := {f['dspSources'] if isinstance(f['dspSources'], int) else 0}",
        f"def waitFirstCompleted : Bool := {_b(f['waitFirstCompleted'])}",
        f"def sortStableByKey : Bool := {_b(f['sortStableByKey'])}",
        "end Gen",
        "end IterUtils",
    ]
    return L
