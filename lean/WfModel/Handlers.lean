/-!
M10 (part) — `@catch_error` handler tables: `validate_catch_error_handlers` and
`_collect_catch_error_handlers` (`representation/validate.py`).
Step names are `Nat`s; a handler declares `for_steps` (`none` = wildcard) and `max_recoveries`.
-/
namespace Handlers

structure Decl where
  name : Nat
  forSteps : Option (List Nat)
  maxRec : Nat
deriving Repr, DecidableEq

def names (hs : List Decl) : List Nat := hs.map (·.name)

/-- scoped claims `(target, handler)` in the order the code visits them -/
def claims (hs : List Decl) : List (Nat × Nat) :=
  hs.flatMap fun h => (h.forSteps.getD []).map fun t => (t, h.name)

def wildcards (hs : List Decl) : List Decl := hs.filter (·.forSteps.isNone)

/-- no error from `validate_catch_error_handlers`, and every `max_recoveries ≥ 1` -/
def valid (steps : List Nat) (hs : List Decl) : Bool :=
  decide ((wildcards hs).length ≤ 1) &&
  (claims hs).all (fun c => steps.contains c.1 && !(names hs).contains c.1) &&
  decide ((claims hs).map (·.1)).Nodup &&
  hs.all (fun h => decide (1 ≤ h.maxRec))

/-- `handler_for_step.get(s)`: scoped claims first (a dict: the last assignment wins), then the
wildcard fills every step that is neither a handler nor claimed -/
def handlerFor (steps : List Nat) (hs : List Decl) (s : Nat) : Option Nat :=
  match (claims hs).reverse.find? (fun c => c.1 == s) with
  | some c => some c.2
  | none =>
    match (wildcards hs).head? with
    | some w => if steps.contains s && !(names hs).contains s then some w.name else none
    | none => none

/-! ### which layouts are rejected, and why

`validate_catch_error_handlers` does not stop at the first problem: it returns one message per
problem, in a fixed order -- the wildcard count first, then one verdict per scoped claim in
declaration order (unknown step / covers a handler step / step claimed twice); only a claim with
no problem is entered into `claim_owner`, so "claimed twice" is judged against the *accepted*
claims before it. -/

inductive LayoutErr where
  /-- more than one wildcard handler (`n` of them) -/
  | wildcards (n : Nat)
  /-- handler `h` lists `t`, which is no step -/
  | unknown (h t : Nat)
  /-- handler `h` lists `t`, which is a handler step (another scoped handler, the wildcard handler, `h` itself) -/
  | coversHandler (h t : Nat)
  /-- step `t` is already claimed by `owner` when handler `h` lists it -/
  | claimedTwice (t owner h : Nat)
deriving Repr, DecidableEq

/-- the claim loop: `owners` is `claim_owner` so far (latest first) -/
def claimErrs (steps hnames : List Nat) : List (Nat × Nat) → List (Nat × Nat) → List LayoutErr
  | _, [] => []
  | owners, (t, h) :: cs =>
    if !steps.contains t then .unknown h t :: claimErrs steps hnames owners cs
    else if hnames.contains t then .coversHandler h t :: claimErrs steps hnames owners cs
    else
      match owners.find? (fun o => o.1 == t) with
      | some o => .claimedTwice t o.2 h :: claimErrs steps hnames owners cs
      | none => claimErrs steps hnames ((t, h) :: owners) cs

/-- the messages of `validate_catch_error_handlers(handlers, step_names)`, classified -/
def errors (steps : List Nat) (hs : List Decl) : List LayoutErr :=
  (if 1 < (wildcards hs).length then [.wildcards (wildcards hs).length] else []) ++
    claimErrs steps (names hs) [] (claims hs)

end Handlers
