import WfModel.Version
theorem C34_stub : True := trivial
