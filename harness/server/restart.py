"""Process stops at exact persisted points, and restarts, on the real server stack (harness/server/stack.py).

Two ways of stopping "after persisted tick k":

* `run_crash_case(...)`: the run is executed under the virtual loop and the process "dies" in the very
  instant the k-th `append_tick` of the run returns: every store write of the old incarnation after that
  point never happens (its store *view* blocks forever), every in-memory control loop, step body and
  background task is cancelled, mailbox / tick buffer / timer heap are gone.  A fresh stack (fresh runtime
  decorators, fresh workflow instances) over the same store is then started: `PersistenceDecorator.launch`
  → `_on_server_start`.  Handler row, event log and state store are exactly what was written before the stop.
* `truncate_ticks(store, run_id, k)` (+ `mark_running`): cut a finished run's persisted tick log back to its
  first k ticks (memory and sqlite stores), used where only the tick log matters (replay correspondence,
  `context_from_ticks` for every prefix).

A *store view* is a second instance of the store's own class sharing the first one's `__dict__`: same
data, same class (so `isinstance` checks and the LegacyContextStore protocol behave as for the real store),
but with a kill switch and a hook after `append_tick`.
"""
from __future__ import annotations

import asyncio
import copy
import json
import random
import sqlite3
from dataclasses import dataclass, field
from typing import Any, Callable

from ..engine import evtypes as ET
from ..engine import live
from ..vloop import VLoop, run_virtual
from .stack import Stack

WRITE_METHODS = ("update", "delete", "append_event", "append_tick", "after_tick", "update_handler_status")


async def _forever() -> None:
    await asyncio.get_event_loop().create_future()


def make_view(inner: Any) -> Any:
    """A per-incarnation view of `inner`: same class and data; writes block forever once `kill()`ed."""
    base = type(inner)
    while getattr(base, "_verif_view", False):
        base = base.__mro__[1]
    ctl: dict[str, Any] = {"dead": False, "hook": None, "count": {}, "log": {}}

    def wrap(name: str) -> Callable[..., Any]:
        orig = getattr(base, name)

        async def guarded(self: Any, *a: Any, **kw: Any) -> Any:
            if ctl["dead"]:
                await _forever()
            res = await orig(self, *a, **kw)
            if name == "append_tick":
                rid = a[0] if a else kw.get("run_id")
                ctl["count"][rid] = ctl["count"].get(rid, 0) + 1
                # what was handed to the store, kept outside the store: the reference every read of the log is compared with
                td = a[1] if len(a) > 1 else kw.get("tick_data")
                ctl["log"].setdefault(rid, []).append(json.loads(json.dumps(td)))
                hook = ctl["hook"]
                if hook is not None:
                    hook(rid, ctl["count"][rid])
                if ctl["dead"]:
                    await _forever()
            return res

        guarded.__name__ = name
        return guarded

    ns: dict[str, Any] = {n: wrap(n) for n in WRITE_METHODS if hasattr(base, n)}
    ns["_verif_view"] = True
    ns["_verif_ctl"] = ctl
    cls = type(base.__name__ + "View", (base,), ns)
    view = object.__new__(cls)
    view.__dict__ = inner.__dict__
    return view


def kill(view: Any) -> None:
    type(view)._verif_ctl["dead"] = True


def set_tick_hook(view: Any, hook: Callable[[str, int], None] | None, counts: dict[str, int] | None = None,
                  log: dict[str, list] | None = None) -> None:
    ctl = type(view)._verif_ctl
    ctl["hook"] = hook
    if counts is not None:
        ctl["count"] = dict(counts)
    if log is not None:
        ctl["log"] = {k: list(v) for k, v in log.items()}


def appended_log(view: Any, run_id: str) -> list:
    """the tick_data of every `append_tick(run_id, …)` that returned, in call order, over all incarnations so far"""
    return list(type(view)._verif_ctl["log"].get(run_id, []))


# --------------------------------------------------------------------------
# cutting a persisted log


def truncate_ticks(store: Any, run_id: str, k: int) -> int:
    """keep the first k persisted ticks of the run; returns how many were removed"""
    if hasattr(store, "ticks") and isinstance(getattr(store, "ticks"), dict):
        cur = store.ticks.get(run_id, [])
        removed = max(0, len(cur) - k)
        store.ticks[run_id] = list(cur[:k])
        return removed
    db_path = getattr(store, "db_path", None)
    if db_path is None:
        raise TypeError(f"cannot truncate ticks of {type(store).__name__}")
    conn = sqlite3.connect(db_path, timeout=30.0)
    try:
        rows = conn.execute("SELECT id FROM ticks WHERE run_id = ? ORDER BY sequence, id", (run_id,)).fetchall()
        drop = [r[0] for r in rows[k:]]
        for i in drop:
            conn.execute("DELETE FROM ticks WHERE id = ?", (i,))
        conn.commit()
        return len(drop)
    finally:
        conn.close()


async def mark_running(store: Any, run_id: str) -> None:
    """put the handler row back to what it was before the run ended (status running, no result/error)"""
    from llama_agents.server._store.abstract_workflow_store import HandlerQuery

    found = await store.query(HandlerQuery(run_id_in=[run_id]))
    if not found:
        return
    h = found[0]
    h.status = "running"
    h.result = None
    h.error = None
    h.completed_at = None
    h.idle_since = None
    await store.update(h)
    tq = getattr(store, "_terminal_queue", None)
    if tq is not None:
        try:
            while h.handler_id in tq:
                tq.remove(h.handler_id)
        except ValueError:
            pass


# --------------------------------------------------------------------------
# crash cases


@dataclass
class Phase:
    """one process lifetime"""
    index: int
    calls_from: int
    steps_from: int
    ticks_at_start: int
    calls_to: int = -1
    steps_to: int = -1
    ticks_at_end: int = -1
    crashed_at: int | None = None  # number of persisted ticks when the process died (None: still alive at the end)
    status_at_start: str | None = None  # handler status right after runtime.launch() + resume task
    result_at_start: Any = None
    error_at_start: str | None = None
    puts_from: int = 0
    stream_from: int = 0
    volatile: dict | None = None  # what only lived in the dead process' memory (see volatile_at_crash)
    active_after_start: bool | None = None
    vtime_start: float = 0.0
    vtime_end: float = 0.0
    mode: str = "tick"  # how this process was stopped: "tick" = the instant the k-th append_tick returned; "quiet" = the first
    # instant at/after the k-th persisted tick at which nothing was runnable (every command of every persisted tick executed)
    row_idle_at_stop: bool | None = None  # handler row read after the stop: idle_since is set (what the next process will see)
    mem_at_stop: bool | None = None  # the idle layer held the run in memory (`_active_run_ids`) when the process stopped
    rowevs_at_stop: int = 0  # how many entries of CaseResult.rowevs precede the stop
    engine_idle_at_stop: bool | None = None  # the reducer state after the last processed tick had nothing queued / in progress


@dataclass
class CaseResult:
    spec: dict
    seed: int
    kind: str
    crash_at: list[int]
    phases: list[Phase] = field(default_factory=list)
    run_id: str | None = None
    status: str | None = None
    result: Any = None
    error: str | None = None
    ticks: list = field(default_factory=list)  # the persisted log = what append_tick was given (validated), NOT a read of the store
    appended_data: list = field(default_factory=list)  # the raw tick_data of `ticks`
    streamed: list = field(default_factory=list)  # StoredTick rows of store.stream_ticks(run_id) at the end
    listed: list = field(default_factory=list)  # StoredTick rows of store.get_ticks(run_id) at the end
    events: list = field(default_factory=list)
    store: Any = None
    trace: Any = None
    actions: list = field(default_factory=list)
    gates_left: int = 0
    notes: list = field(default_factory=list)
    horizon_hit: bool = False
    appends: list = field(default_factory=list)  # (ticks persisted so far, reducer calls of _process_tick so far, stream writes so far)
    # what the harness itself saw happen to the run's idle marker, in order (never a read of the store):
    # ("idle", stream index) the engine announced idleness; ("send", {...}) a send_event through the service returned;
    # ("released", t) the idle layer dropped the run from memory; ("stop", k) the process stopped
    rowevs: list = field(default_factory=list)
    quiet_points: list = field(default_factory=list)  # persisted-tick counts at the instants nothing was runnable (first process)
    idle_timeout: float | None = None

    def phase_steps(self, i: int) -> list:
        p = self.phases[i]
        return self.trace.steps[p.steps_from: (p.steps_to if p.steps_to >= 0 else None)]

    def phase_calls(self, i: int) -> list:
        p = self.phases[i]
        return self.trace.calls[p.calls_from: (p.calls_to if p.calls_to >= 0 else None)]


def crash_now(st: Stack, extra_tasks: list | None = None) -> None:
    """synchronous process stop: no await between the triggering store write and the end of all activity"""
    kill(st.store)
    for run_id in list(st.persistence._active_run_ids):
        try:
            st.basic.get_external_adapter(run_id).abort()  # type: ignore[attr-defined]
        except Exception:
            pass
    for t in list(getattr(st.idle, "_background_tasks", []) or []) + list(st.persistence._background_tasks):
        t.cancel()
    for t in extra_tasks or []:
        if not t.done():
            t.cancel()


def run_crash_case(spec: dict, seed: int, kind: str = "memory", crash_at: list[int] | None = None,
                   horizon: float = 120.0, replay_actions: list[int] | None = None,
                   idle_timeout: float | None = None, pre_populate: Callable[[Any], Any] | None = None,
                   keep_db: bool = False, crash_modes: list[str] | None = None) -> CaseResult:
    """Run `spec` on the real stack; each entry k of `crash_at` (in turn) stops the process when the run's
    persisted log reaches k ticks, then a fresh stack is started over the same store.  After the last
    restart (or without any) the run is given `horizon` virtual seconds to reach a terminal status.
    `crash_modes[i]` = "tick" (default: the instant the append returns) or "quiet" (the first instant at/after that
    append at which nothing is runnable: the same persisted prefix or a longer one, with every command executed).
    With `idle_timeout` the stack has the idle-release layer (as WorkflowServer always has)."""
    live.install_observers()
    crash_at = list(crash_at or [])
    crash_modes = list(crash_modes or [])
    crash_modes += ["tick"] * (len(crash_at) - len(crash_modes))
    rng = random.Random(seed)
    run = live.Run(copy.deepcopy(spec), rng, replay_actions)
    res = CaseResult(spec=spec, seed=seed, kind=kind, crash_at=list(crash_at))
    res.idle_timeout = idle_timeout
    res.trace = run.trace
    externals = [dict(e) for e in spec.get("externals", [])]
    state: dict[str, Any] = {"st": None, "quiet": 0, "tasks": [], "crashed": False, "work_ticks": 0, "quiet_crash": None,
                             "idle_seen": {}, "nidle": 0, "inner": None, "count_of": lambda: 0, "sends_pending": 0}

    def sync_idle_events() -> None:
        # idle announcements of the engine (recorded by the observer at the innermost adapter), merged in order
        stream = run.trace.stream
        for i in range(state["nidle"], len(stream)):
            if type(stream[i][0]).__name__ == "WorkflowIdleEvent":
                res.rowevs.append(("idle", i))
        state["nidle"] = len(stream)

    async def row_idle() -> bool | None:
        h = await state["inner"].query(_hq(res.run_id))
        return (h[0].idle_since is not None) if h else None

    async def do_send(st: Stack, ev: Any, step: Any) -> None:
        # the service's send_event hands the tick to the run's external adapter in a task of its own and returns
        if st.idle is not None:
            state["sends_pending"] += 1
        await st.send("h1", ev, step=step)

    def engine_idle() -> bool:
        """the reducer state after the last reducer call has no queued and no in-progress invocation, and the run has not ended"""
        last = next((c for c in reversed(run.trace.calls) if c.after is not None), None)
        if last is None or not last.after.is_running:
            return False
        return all(not w.queue and not w.in_progress for w in last.after.workers.values())

    def watch_release(st: Stack) -> None:
        if st.idle is None:
            return
        idle_layer = st.idle
        orig = idle_layer._release_idle_handler

        async def spy(run_id: str) -> None:
            before = run_id in idle_layer._active_run_ids
            await orig(run_id)
            if before and run_id not in idle_layer._active_run_ids and run_id == res.run_id and not state["crashed"]:
                sync_idle_events()
                res.rowevs.append(("released", asyncio.get_event_loop().time()))

        idle_layer._release_idle_handler = spy  # type: ignore[method-assign]
        orig_get = idle_layer.get_external_adapter

        def get_external_adapter(run_id: str) -> Any:
            ad = orig_get(run_id)
            orig_send = ad.send_event

            async def send_event(tick: Any) -> None:
                mem_before = run_id in idle_layer._active_run_ids
                await orig_send(tick)
                if run_id != res.run_id or state["crashed"] or state["st"] is not st:
                    return
                # the adapter's send_event has returned: the tick is in the run's mailbox; memory / sqlite store calls never
                # yield, so nothing of the tick has been processed when the row is read
                state["sends_pending"] = max(0, state["sends_pending"] - 1)
                sync_idle_events()
                ncalls = len(run.trace.calls)
                idle_now = await row_idle()
                res.rowevs.append(("send", {"mem_before": mem_before, "mem_after": run_id in idle_layer._active_run_ids,
                                            "row_idle": idle_now if ncalls == len(run.trace.calls) else None,
                                            "tick": type(tick).__name__, "uid": getattr(getattr(tick, "event", None), "uid", None),
                                            "t": asyncio.get_event_loop().time()}))

            ad.send_event = send_event  # type: ignore[method-assign]
            return ad

        idle_layer.get_external_adapter = get_external_adapter  # type: ignore[method-assign]

    def hook_factory(loop: VLoop) -> Callable[[], bool]:
        def hook() -> bool:
            st: Stack | None = state["st"]
            if st is None:
                return False
            qc = state["quiet_crash"]
            if qc is not None and not state["crashed"] and qc():
                return True
            if len(res.phases) == 1 and res.run_id is not None and not state["crashed"]:
                res.quiet_points.append(state["count_of"]())
            options: list[tuple[str, Any]] = [("gate", k) for k in list(run.waiting)]
            if not state["crashed"]:
                for i, ext in enumerate(externals):
                    if ext.get("when_idle"):
                        # any process lifetime: the engine has nothing to do (it has announced, or will announce, idleness),
                        # nothing is runnable, every earlier send has returned; `idle_for`: and that for so many seconds
                        if not run.waiting and engine_idle() and all(t.done() for t in state["tasks"]) and not state["sends_pending"]:
                            t0 = state["idle_seen"].setdefault(id(ext), loop.time())
                            if loop.time() - t0 >= float(ext.get("idle_for", 0)):
                                options.append(("ext", i))
                        break  # delivered in list order
                    if "after_work_ticks" in ext:
                        # any process lifetime: once the run has persisted that many ticks other than idle checks
                        if state["work_ticks"] >= ext["after_work_ticks"] and not run.waiting:
                            options.append(("ext", i))
                            break  # externals of this kind are delivered in list order
                    elif ext.get("after_quiet", 0) <= state["quiet"] and ext.get("phase", 0) == len(res.phases) - 1:
                        options.append(("ext", i))
            state["quiet"] += 1
            if not options:
                return False
            kind_, arg = options[run.choose(len(options))]
            if kind_ == "gate":
                run.waiting.remove(arg)
                run.gates[arg].set()
                return True
            ext = externals.pop(arg)
            if ext["op"] == "cancel":
                state["tasks"].append(loop.create_task(st.cancel("h1")))
            elif ext["op"] == "send":
                state["tasks"].append(loop.create_task(do_send(st, ET.mk(ext["ty"], ext["uid"] if ext.get("uid") is not None else run.fresh(), ext.get("k")), ext.get("step"))))
            else:
                raise ValueError(ext["op"])
            return True
        return hook

    async def main(loop: VLoop) -> None:
        inner, db_path = Stack.make_store(kind, _fast_db_path() if kind == "sqlite" else None)
        res.notes.append(f"store={type(inner).__name__}")
        if pre_populate is not None:
            r = pre_populate(inner)
            if asyncio.iscoroutine(r):
                await r
        view = make_view(inner)
        state["inner"] = inner
        st = Stack.build(kind, idle_timeout=idle_timeout, store=view, db_path=db_path)
        st.add_workflow("wf", lambda: live.build_workflow(run.spec, run))
        watch_release(st)
        state["st"] = st
        res.phases.append(Phase(0, 0, 0, 0, vtime_start=loop.time()))
        await st.start()
        hd = await st.start_run("wf", "h1", ET.T0(uid=1, k=spec.get("start_k")))
        rid = hd.run_id
        res.run_id = rid
        counts: dict[str, int] = type(view)._verif_ctl["count"]
        state["count_of"] = lambda: type(state["st"].store)._verif_ctl["count"].get(rid, 0)

        def _note_append(run_id: str, n: int) -> None:
            last = next((c for c in reversed(run.trace.calls) if c.caller == "_process_tick"), None)
            if last is not None and type(last.tick).__name__ != "TickIdleCheck":
                state["work_ticks"] += 1
            if run_id == res.run_id or res.run_id is None:
                res.appends.append((n, sum(1 for c in run.trace.calls if c.caller == "_process_tick"), len(run.trace.stream)))

        set_tick_hook(view, _note_append)
        for ci, k in enumerate(crash_at):
            ph = res.phases[-1]
            state["crashed"] = False
            cur_st = st
            ph.mode = crash_modes[ci]

            def stop_here(cur_st: Stack, mid_tick: bool) -> None:
                state["crashed"] = True
                p = res.phases[-1]
                p.volatile = volatile_at_crash(run, p, mid_tick=mid_tick)
                p.mem_at_stop = cur_st.active(rid) if cur_st.idle is not None else None
                p.engine_idle_at_stop = engine_idle()
                sync_idle_events()
                p.rowevs_at_stop = len(res.rowevs)
                res.rowevs.append(("stop", type(cur_st.store)._verif_ctl["count"].get(rid, 0)))
                crash_now(cur_st, state["tasks"])

            def on_tick(run_id: str, n: int, k: int = k, cur_st: Stack = cur_st) -> None:
                _note_append(run_id, n)
                if run_id == rid and n >= k and not state["crashed"]:
                    stop_here(cur_st, True)

            state["quiet_crash"] = None
            if ph.mode == "quiet":
                # stop at the first instant at/after the k-th persisted tick at which nothing is runnable (before the
                # scheduler opens a gate or delivers an external event)
                def quiet_crash(k: int = k, cur_st: Stack = cur_st) -> bool:
                    if type(cur_st.store)._verif_ctl["count"].get(rid, 0) >= k:
                        state["quiet_crash"] = None
                        stop_here(cur_st, False)
                        return True
                    return False

                state["quiet_crash"] = quiet_crash
            elif counts.get(rid, 0) >= k:
                # the log is already this long: stop right now
                stop_here(cur_st, False)
            else:
                set_tick_hook(st.store, on_tick)
            waited = 0.0
            while not state["crashed"] and waited < horizon:
                dt = 1.0 if waited < 4 else 8.0
                await asyncio.sleep(dt)
                waited += dt
                h = await inner.query(_hq(rid))
                if h and h[0].status != "running":
                    break
            state["quiet_crash"] = None
            if not state["crashed"]:
                res.notes.append(f"crash point {k} not reached (log has {counts.get(rid, 0)} ticks)")
                break
            for _ in range(6):
                await asyncio.sleep(0)
            ph.crashed_at = counts.get(rid, 0)
            ph.calls_to = len(run.trace.calls)
            ph.steps_to = len(run.trace.steps)
            ph.ticks_at_end = counts.get(rid, 0)
            ph.vtime_end = loop.time()
            state["tasks"] = []
            ph.row_idle_at_stop = await row_idle()
            # a new process over the same store
            old_log = type(view)._verif_ctl["log"]
            view = make_view(inner)
            set_tick_hook(view, _note_append, counts, old_log)
            counts = type(view)._verif_ctl["count"]
            st = Stack.build(kind, idle_timeout=idle_timeout, store=view, db_path=db_path)
            for name in cur_st.factories:
                st.add_workflow(name, lambda: live.build_workflow(run.spec, run))
            watch_release(st)
            state["st"] = st
            state["sends_pending"] = 0
            state["quiet"] = 0
            run.runner = None
            newp = Phase(len(res.phases), len(run.trace.calls), len(run.trace.steps), counts.get(rid, 0), vtime_start=loop.time(),
                         puts_from=len(run.trace.puts), stream_from=len(run.trace.stream))
            res.phases.append(newp)
            await st.start()
            h = await inner.query(_hq(rid))
            newp.status_at_start = h[0].status if h else None
            newp.result_at_start = h[0].result if h else None
            newp.error_at_start = h[0].error if h else None
            newp.active_after_start = rid in st.persistence._active_run_ids
            state["crashed"] = False
        set_tick_hook(st.store, _note_append)
        waited = 0.0
        while waited < horizon:
            h = await inner.query(_hq(rid))
            if h and h[0].status != "running":
                break
            dt = 1.0 if waited < 4 else 8.0
            await asyncio.sleep(dt)
            waited += dt
        else:
            res.horizon_hit = True
        for _ in range(10):
            await asyncio.sleep(0)
        h = await inner.query(_hq(rid))
        if h:
            res.status, res.result, res.error = h[0].status, h[0].result, h[0].error
        from workflows.runtime.types.ticks import WorkflowTickAdapter

        res.appended_data = appended_log(view, rid)
        res.ticks = [WorkflowTickAdapter.validate_python(copy.deepcopy(td)) for td in res.appended_data]
        try:
            res.streamed = [t async for t in inner.stream_ticks(rid)]
        except Exception as e:
            res.streamed = [f"<raised {type(e).__name__}: {e}>"]
        try:
            res.listed = list(await inner.get_ticks(rid))
        except Exception as e:
            res.listed = [f"<raised {type(e).__name__}: {e}>"]
        try:
            res.events = await inner.query_events(rid)
        except Exception as e:  # pragma: no cover
            res.notes.append(f"query_events failed: {e!r}")
        try:
            ss = inner.create_state_store(rid)
            stt = await ss.get_state()
            res.store = json.loads(json.dumps(dict(stt.items()) if hasattr(stt, "items") else stt.model_dump(), sort_keys=True, default=repr))
        except Exception as e:
            res.store = f"<unavailable: {type(e).__name__}: {e}>"
        lastp = res.phases[-1]
        lastp.calls_to = len(run.trace.calls)
        lastp.steps_to = len(run.trace.steps)
        lastp.ticks_at_end = len(res.ticks)
        lastp.vtime_end = loop.time()
        res.gates_left = len(run.waiting)
        sync_idle_events()
        res.actions = list(run.trace.actions)
        # end of the test process
        crash_now(st, state["tasks"])
        for _ in range(6):
            await asyncio.sleep(0)
        state["st"] = None
        if not keep_db:
            st.cleanup()

    live._ACTIVE.append(run)
    try:
        run_virtual(main, max_time=1_000_000.0, hook_factory=hook_factory)
    finally:
        live._ACTIVE.pop()
    return res


def volatile_at_crash(run: Any, phase: Phase, mid_tick: bool = True) -> dict:
    """What exists only in the memory of the process that is about to die, read off the live runner and
    the harness' own records at the instant the k-th tick has been persisted (its commands not yet executed):
    `buffer` = ticks waiting in the runner's tick buffer plus the undelayed queue-event commands of the tick
    just persisted; `mailbox` = ticks put into the run's receive queue and not processed yet;
    `timers` = ticks in the runner's wake-up heap plus the delayed commands of the tick just persisted."""
    from workflows.runtime.types import commands as C
    from workflows.runtime.types import ticks as T

    r = run.runner
    calls = [c for c in run.trace.calls[phase.calls_from:] if c.caller == "_process_tick"]
    buf = list(r.tick_buffer) if r is not None else []
    heap = [t for (_a, _s, t) in sorted(r.scheduled_wakeups, key=lambda x: (x[0], x[1]))] if r is not None else []
    last_cmds = list(calls[-1].cmds) if (calls and mid_tick) else []
    pending_cmds = [c for c in last_cmds if isinstance(c, C.CommandQueueEvent) and not (c.delay is not None and c.delay > 0)]
    delayed_cmds = [c for c in last_cmds if (isinstance(c, C.CommandQueueEvent) and c.delay is not None and c.delay > 0)
                    or isinstance(c, C.CommandScheduleWaiterTimeout)]
    processed = {id(c.tick) for c in calls}
    in_buf = {id(t) for t in buf}
    mail = [p[0] for p in run.trace.puts[phase.puts_from:] if id(p[0]) not in processed and id(p[0]) not in in_buf]
    st = calls[-1].after if calls and calls[-1].after is not None else None
    inflight = 0
    req_waiters = 0
    if st is not None:
        inflight = sum(len(w.in_progress) + len(w.queue) for w in st.workers.values())
        req_waiters = sum(1 for w in st.workers.values() for x in w.collected_waiters if x.requirements and x.resolved_event is None)
    from workflows.runtime.types import results as RR

    req_logged = sum(1 for c in calls if isinstance(c.tick, T.TickStepResult)
                     for x in c.tick.result if isinstance(x, RR.AddWaiter) and x.requirements)
    return {
        "req_waiters": req_waiters,
        "req_waiters_logged": req_logged,
        "buffer": [type(t).__name__ for t in buf if not isinstance(t, T.TickIdleCheck)] + ["cmd:" + type(c).__name__ for c in pending_cmds],
        "buffer_events": [getattr(getattr(t, "event", None), "uid", None) for t in buf if isinstance(t, T.TickAddEvent)]
                         + [getattr(c.event, "uid", None) for c in pending_cmds],
        "mailbox": [type(t).__name__ for t in mail],
        "mailbox_events": [getattr(getattr(t, "event", None), "uid", None) for t in mail if isinstance(t, T.TickAddEvent)],
        "timers": [type(t).__name__ for t in heap if not isinstance(t, T.TickTimeout)] + ["cmd:" + type(c).__name__ for c in delayed_cmds],
        "inflight": inflight,
    }


def _hq(run_id: str) -> Any:
    from llama_agents.server._store.abstract_workflow_store import HandlerQuery

    return HandlerQuery(run_id_in=[run_id])


_DB_SEQ = [0]


def _fast_db_path() -> str:
    """sqlite commits fsync; a tmpfs file keeps the per-run cost in the millisecond range"""
    import os
    import tempfile

    base = "/dev/shm" if os.path.isdir("/dev/shm") and os.access("/dev/shm", os.W_OK) else tempfile.gettempdir()
    _DB_SEQ[0] += 1
    return os.path.join(base, f"verif_c13_{os.getpid()}_{_DB_SEQ[0]}.db")


def sweep_dbs() -> None:
    """remove this process' scratch sqlite files (a cancelled task may re-create a -wal file after `Stack.cleanup`)"""
    import glob
    import os
    import tempfile

    for base in ("/dev/shm", tempfile.gettempdir()):
        for fn in glob.glob(os.path.join(base, f"verif_c13_{os.getpid()}_*")):
            try:
                os.unlink(fn)
            except OSError:
                pass
