class HTTPException(Exception):
    def __init__(self, status_code=500, detail=None, headers=None):
        self.status_code = status_code
        self.detail = detail
        self.headers = headers
        super().__init__(status_code, detail)
