"""C05, observation only: one failed execution with TWO successors.

`_process_step_result_tick` lets one result list both leave its execution in progress (a stale `collect_events` snapshot:
`CommandRunWorker` for the same worker, same retry number) and queue a retry of it (`CommandQueueEvent(delay=…,
attempts+1)`).  The model has the same behaviour (`C05_refuted_failed_execution_one_successor`,
`C05_fork_run_exceeds_budget`); the guarded statement is `C05_failed_execution_one_successor_partial`.  This module

* counts such ticks in the generated live runs (`Observer.monitor`, returns no violations),
* replays the witness `harness/corpus/c05_collect_rerun_forks_retry.json` on the real engine on every run, records what
  it does (executions of the forked input event vs. the policy's budget vs. the reported attempts) in the evidence, ties
  the run to the runner model, and reports a divergence should the real code stop forking while the model still does.

It does not add violations: the case is reported to the integrator, not registered as a finding.
"""
from __future__ import annotations

import json
import os
from typing import Any

from workflows.events import WorkflowFailedEvent
from workflows.runtime.types import commands as C
from workflows.runtime.types import results as R
from workflows.runtime.types import ticks as T

from ..runner import Divergence, Env, Outcome, Violation
from . import live, monitors, suite
from .live import Trace

WITNESS = os.path.join(suite.CORPUS_DIR, "c05_collect_rerun_forks_retry.json")


def fork_ticks(tr: Trace) -> list[int]:
    """indices of the reducer calls whose tick is a step result with a failure that is both re-run in place and retried"""
    hits = []
    for i, c in enumerate(tr.calls):
        if c.caller not in ("run", "_process_tick") or c.error is not None or not isinstance(c.tick, T.TickStepResult):
            continue
        if not any(isinstance(r, R.StepWorkerFailed) for r in c.tick.result):
            continue
        rerun = any(isinstance(x, C.CommandRunWorker) and x.step_name == c.tick.step_name and x.id == c.tick.worker_id and
                    x.event is c.tick.event for x in c.cmds)
        retry = any(isinstance(x, C.CommandQueueEvent) and x.delay is not None and x.attempts for x in c.cmds)
        if rerun and retry:
            hits.append(i)
    return hits


class Observer:
    def __init__(self, out: Outcome):
        self.out = out

    def monitor(self, tr: Trace) -> list[Violation]:
        n = len(fork_ticks(tr))
        if n:
            self.out.count("observed:collect_rerun_and_retry_in_one_tick:runs")
            self.out.count("observed:collect_rerun_and_retry_in_one_tick:ticks", n)
        return []


def witness(env: Env, out: Outcome) -> None:
    d = json.load(open(WITNESS))
    tr = live.run_spec(d["spec"], seed=d.get("seed", 0), replay_actions=d.get("actions"))
    out.evaluations += 1
    forks = fork_ticks(tr)
    sdefs = {s["name"]: s for s in d["spec"]["steps"]}
    worst: tuple[int, Any, list] | None = None
    for (step, uid), execs in monitors._lineages(tr).items():
        pol = sdefs[step].get("retry")
        if pol is None:
            continue
        budget = monitors._budget(pol)
        if budget is not None and (worst is None or len(execs) - budget > worst[0]):
            worst = (len(execs) - budget, (step, uid, budget), [e[0] for e in execs])
    reported = [e.attempts for (e, *_r) in tr.stream if isinstance(e, WorkflowFailedEvent)]
    if not forks or worst is None or worst[0] <= 0:
        # the model forks on this schedule (C05_fork_run_exceeds_budget); the implementation no longer does
        out.divergences.append(Divergence("engine-fork-witness", 0, "c05_collect_rerun_forks_retry.json",
                                          "re-run and retry issued by one tick; executions exceed the attempt budget",
                                          f"fork ticks {forks}, executions vs budget {worst}", {"spec": d["spec"]}))
        return
    _over, (step, uid, budget), rns = worst
    out.count(f"observed:witness:collect_rerun_forks_retry[budget={budget},executions={len(rns)},reported_attempts={reported[0] if reported else None}]")
    out.notes.append(f"C05 observation (not a registered finding): {step} uid={uid} under stop_after_attempt({budget}) was executed {len(rns)} times "
                     f"(retry numbers {rns}), WorkflowFailedEvent.attempts={reported}; {len(forks)} tick(s) issued both a re-run and a retry "
                     f"(witness harness/corpus/c05_collect_rerun_forks_retry.json, theorem C05_refuted_failed_execution_one_successor)")
    out.sample({"observed": "collect_rerun_forks_retry", "retry_numbers": rns, "budget": budget, "reported_attempts": reported})
    suite.runner_corr(out, [tr], label="engine-runner-fork-witness")
