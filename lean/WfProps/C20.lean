import WfProofs.StateStoreTime
/-!
# C20 — concurrent state updates are never lost

Model: the transition system `Sys` of `WfModel/StateStore.lean` (M5).  A program is a list of
tasks, each performing one `set` / `set_state` / `clear` / `edit_state` on the same store; a
schedule is any list of task ids, each entry running that task's next await-free section (an
`edit_state` body is cut into chunks at its awaits).  Which operations take the store lock is
read from the source (`GenStateStore.*Locked`).  Theorems quantify over every program (any
number of tasks), every initial store, every schedule.

Cancellation (`*_under_cancellation`, `*_with_cancel`): a schedule is a list of actions `run t` /
`cancel t`; `cancel t` is `Task.cancel()` from outside, taking effect in the task's next section —
before it started, while it is queued on the lock (future cancelled, or lock already handed over),
or at an await inside its `edit_state` body.  That a cancelled waiter leaves the lock alone is the
scoping of the lock by `async with`, read from the source (`GenStateStore.*LockScoped`).

Tasks created by tasks (`*_with_spawned_tasks`): `sp c = some (p, k)` — task `c` is created
(`asyncio.create_task`) by chunk `k` of the `edit_state` body of task `p`, inside the open block,
and inherits a copy of `p`'s context; it cannot run or be cancelled before.  That the stores cannot
tell such a task from any other is read from the source (`GenStateStore.*ContextFree`).

Time (`*_duration_*`, `*_whatever_the_durations`): the awaits inside an `edit_state` body take
`dur t k` seconds (a slow call inside the block), the scheduler can let any amount of time pass
(`tick d`), a task asleep at such an await cannot run before it is over.  That nothing else depends
on the clock — a task queued on the lock waits for as long as the block stays open — is read from the
source (`GenStateStore.*TimerFree`: the store modules use no timer primitive).
-/
open StateStore

/-- the lock discipline the proofs rest on, as found in the source: every writer of both stores
runs under `self._lock`, and `edit_state` is `lock { load; yield; save }` -/
theorem C20_source_shape :
    GenStateStore.memSetLocked = true ∧ GenStateStore.memSetStateLocked = true ∧
    GenStateStore.memClearLocked = true ∧ GenStateStore.memEditLocked = true ∧
    GenStateStore.sqlSetLocked = true ∧ GenStateStore.sqlSetStateLocked = true ∧
    GenStateStore.sqlClearLocked = true ∧ GenStateStore.sqlEditLocked = true := by decide

theorem memBackend_locks (op : COp) : memBackend.locks op = true := by
  cases op <;> rfl

theorem sqlBackend_locks (op : COp) : sqlBackend.locks op = true := by
  cases op <;> rfl

/-- the lock is scoped, as found in the source: inside both store classes `self._lock` occurs only
as `async with self._lock` — no bare `acquire()` / `release()` / `locked()`; so the lock is given
back by the task that took it, and only by it -/
theorem C20_source_shape_scoped_lock :
    GenStateStore.memLockScoped = true ∧ GenStateStore.sqlLockScoped = true := by decide

theorem memBackend_scoped (op : COp) : memBackend.scopedLock op = true := rfl

theorem sqlBackend_scoped (op : COp) : sqlBackend.scopedLock op = true := rfl

/-- in-memory store: for every interleaving that runs all tasks to completion, the final store is
the result of running the same operations one after the other in some order (each task exactly
once; an `edit_state` block is one operation) -/
theorem C20_serialisable_memory (prog : List COp) (m0 : Mem) (sched : List Nat) (s : Sys Mem)
    (hrun : Sys.runAll memBackend prog (Sys.init m0 prog.length) sched = some s)
    (hdone : s.allDone = true) :
    ∃ order : List Nat, order.Nodup ∧ (∀ t, t ∈ order ↔ t < prog.length) ∧
      s.store = serial memBackend prog m0 order :=
  serialisable_of_inv memBackend prog m0 s
    (inv_execAll memBackend memBackend_locks memBackend_scoped mem_editLaw mem_publishLaw mem_abortLaw prog m0 _ _ s
      (inv_init _ _ _) (by rw [← runAll_eq_execAll]; exact hrun)) hdone

/-- SQLite store: the same -/
theorem C20_serialisable_sqlite (prog : List COp) (q0 : Sql) (sched : List Nat) (s : Sys Sql)
    (hrun : Sys.runAll sqlBackend prog (Sys.init q0 prog.length) sched = some s)
    (hdone : s.allDone = true) :
    ∃ order : List Nat, order.Nodup ∧ (∀ t, t ∈ order ↔ t < prog.length) ∧
      s.store = serial sqlBackend prog q0 order :=
  serialisable_of_inv sqlBackend prog q0 s
    (inv_execAll sqlBackend sqlBackend_locks sqlBackend_scoped sql_editLaw sql_publishLaw sql_abortLaw prog q0 _ _ s
      (inv_init _ _ _) (by rw [← runAll_eq_execAll]; exact hrun)) hdone

/-- both stores; the order is a permutation of the task ids -/
theorem C20_serialisable (prog : List COp) (sched : List Nat) :
    (∀ (m0 : Mem) (s : Sys Mem), Sys.runAll memBackend prog (Sys.init m0 prog.length) sched = some s →
      s.allDone = true →
      ∃ order : List Nat, order.Perm (List.range prog.length) ∧ s.store = serial memBackend prog m0 order) ∧
    (∀ (q0 : Sql) (s : Sys Sql), Sys.runAll sqlBackend prog (Sys.init q0 prog.length) sched = some s →
      s.allDone = true →
      ∃ order : List Nat, order.Perm (List.range prog.length) ∧ s.store = serial sqlBackend prog q0 order) := by
  have perm : ∀ order : List Nat, order.Nodup → (∀ t, t ∈ order ↔ t < prog.length) →
      order.Perm (List.range prog.length) := by
    intro order hnd hmem
    rw [List.perm_ext_iff_of_nodup hnd List.nodup_range]
    intro a
    rw [hmem a, List.mem_range]
  constructor
  · intro m0 s hrun hdone
    obtain ⟨order, hnd, hmem, hst⟩ := C20_serialisable_memory prog m0 sched s hrun hdone
    exact ⟨order, perm order hnd hmem, hst⟩
  · intro q0 s hrun hdone
    obtain ⟨order, hnd, hmem, hst⟩ := C20_serialisable_sqlite prog q0 sched s hrun hdone
    exact ⟨order, perm order hnd hmem, hst⟩

/-- three tasks — an `edit_state` whose body awaits twice, a `set_state` and a `set` — interleaved so
that the writers arrive while the block is open, queue up, and run after it -/
def C20_demoProg : List COp :=
  [.edit [[.incr "x" 1], [.incr "x" 10], [.setKey "y" (.int 1)]], .setState .same [("x", .int 5)], .set "z.k" (.int 7)]

example : ∃ s, Sys.runAll sqlBackend C20_demoProg (Sys.init (Sql.init [] .dict) 3) [0, 1, 0, 2, 0, 1, 2] = some s ∧
    s.allDone = true ∧ s.log = [0, 1, 2] ∧
    s.store.row = some [("x", .int 5), ("z", .obj [("k", .int 7)])] := ⟨_, rfl, by rfl, by rfl, by rfl⟩

example : ∃ s, Sys.runAll memBackend C20_demoProg (Sys.init (Mem.init [] .dict) 3) [2, 0, 1, 0, 0, 1] = some s ∧
    s.allDone = true ∧ s.log = [2, 0, 1] ∧ s.store.root.data = [("x", .int 5)] := ⟨_, rfl, by rfl, by rfl, by rfl⟩

/-- the serial execution is the sequential machine of C19 run on the operations in that order -/
theorem C20_serial_is_sequential_run {σ : Type} (B : Backend σ) (prog : List COp) (order : List Nat) :
    ∀ st : σ, serial B prog st order =
      runState B.step st (order.filterMap fun t => (prog[t]?).map COp.toOp) := by
  induction order with
  | nil => intro st; rfl
  | cons t ts ih =>
    intro st
    simp only [serial, List.foldl_cons, List.filterMap_cons]
    cases hp : prog[t]? with
    | none => simp only [Option.map_none]; exact ih st
    | some op => simp only [Option.map_some, runState]; exact ih _

/-- hence (C19) the final SQLite store of any complete interleaving holds exactly what the plain
nested-dict specification holds after the same operations in some serial order -/
theorem C20_final_state_is_spec_of_serial_order (sc : Schema) (ty : Ty) (prog : List COp) (sched : List Nat)
    (s : Sys Sql) (hrun : Sys.runAll sqlBackend prog (Sys.init (Sql.init sc ty) prog.length) sched = some s)
    (hdone : s.allDone = true) :
    ∃ order : List Nat, order.Perm (List.range prog.length) ∧
      s.store.abs = (runState Spec.step (Spec.init sc ty)
        (order.filterMap fun t => (prog[t]?).map COp.toOp)).root := by
  obtain ⟨order, hp, hst⟩ := (C20_serialisable prog sched).2 (Sql.init sc ty) s hrun hdone
  refine ⟨order, hp, ?_⟩
  rw [hst, C20_serial_is_sequential_run]
  exact (sqlSim_run _ _ _ (sqlSim_init sc ty)).2.root

/-- the mechanism: while an `edit_state` block is open, no step of any other task changes the
store or completes an operation — a write cannot complete between the block's load and its save,
so the block cannot overwrite a completed write with a stale copy -/
theorem C20_no_write_inside_open_edit (prog : List COp) (e t : Nat) (hne : t ≠ e) :
    (∀ (s s' : Sys Mem), s.holder = some e → Sys.run memBackend prog s t = some s' →
      s'.store = s.store ∧ s'.log = s.log ∧ s'.holder = some e) ∧
    (∀ (s s' : Sys Sql), s.holder = some e → Sys.run sqlBackend prog s t = some s' →
      s'.store = s.store ∧ s'.log = s.log ∧ s'.holder = some e) :=
  ⟨fun s s' hh h => no_write_inside_open_edit_exec memBackend memBackend_locks memBackend_scoped prog s s' e t hh hne
      (.run t) (Or.inl rfl) h,
   fun s s' hh h => no_write_inside_open_edit_exec sqlBackend sqlBackend_locks sqlBackend_scoped prog s s' e t hh hne
      (.run t) (Or.inl rfl) h⟩

/-! ### F18: what happens when `set_state` / `clear` do not take the lock -/

/-- the SQLite backend as it was before the repair: `set_state` and `clear` bypass the lock -/
def sqlBackendUnlocked : Backend Sql :=
  { sqlBackend with locks := fun
      | .setState .. => false
      | .clear => false
      | _ => true }

def hasX5 (q : Sql) : Bool :=
  match q.row with
  | some d => (match lookup "x" d with | some (.int 5) => true | _ => false)
  | none => false

def C20_f18Prog : List COp := [.edit [[], [.setKey "y" (.int 1)]], .setState .same [("x", .int 5)]]
def C20_f18Init : Sql := (Sql.step (Sql.init [] .dict) (.set "x" (.int 0))).1

/-- without the lock in `set_state` the three-action schedule `edit: load · set_state · edit: body,
save` ends in `{x: 0, y: 1}`: the completed `set_state(x=5)` is gone, although both serial orders
keep it — the theorem above is false for that store -/
theorem C20_unlocked_set_state_loses_update :
    ∃ s, Sys.runAll sqlBackendUnlocked C20_f18Prog (Sys.init C20_f18Init 2) [0, 1, 0] = some s ∧
      s.allDone = true ∧
      s.store.row = some [("x", .int 0), ("y", .int 1)] ∧ hasX5 s.store = false ∧
      hasX5 (serial sqlBackendUnlocked C20_f18Prog C20_f18Init [0, 1]) = true ∧
      hasX5 (serial sqlBackendUnlocked C20_f18Prog C20_f18Init [1, 0]) = true :=
  ⟨_, rfl, by rfl, by rfl, by rfl, by rfl, by rfl⟩

/-- the same schedule on the repaired store: `set_state` queues behind the block -/
example : ∃ s, Sys.runAll sqlBackend C20_f18Prog (Sys.init C20_f18Init 2) [0, 1, 0, 1] = some s ∧
    s.allDone = true ∧ s.store.row = some [("x", .int 5)] := ⟨_, rfl, by rfl, by rfl⟩

/-! ### cancellation -/

/-- Serialisability under cancellation, general form.  For every program, initial store and
schedule of `run` / `cancel` actions after which every task has ended — completed, cancelled
before it touched the store, or cancelled inside its `edit_state` body — the final store is the
serial execution, in some order, of exactly the tasks that took effect: the completed ones with
their operation, and a task cancelled inside its body with the edit it left behind (`effOp`: the
mutations of its finished chunks in memory, where the body works on the store's own object; the
empty edit for SQLite, where the body works on a copy that is never saved).  Tasks cancelled
before they got the lock are not in the order.  Both backends. -/
theorem C20_serialisable_under_cancellation_general (prog : List COp) (sched : List Act) :
    (∀ (m0 : Mem) (s : Sys Mem), Sys.execAll memBackend prog (Sys.init m0 prog.length) sched = some s →
      s.allSettled = true →
      ∃ order : List Nat, order.Nodup ∧
        (∀ t, t ∈ order ↔ (s.pcs[t]? = some Pc.done ∨ ∃ kept, s.pcs[t]? = some (Pc.aborted kept))) ∧
        s.store = serialBy memBackend (effOp prog s.pcs) m0 order) ∧
    (∀ (q0 : Sql) (s : Sys Sql), Sys.execAll sqlBackend prog (Sys.init q0 prog.length) sched = some s →
      s.allSettled = true →
      ∃ order : List Nat, order.Nodup ∧
        (∀ t, t ∈ order ↔ (s.pcs[t]? = some Pc.done ∨ ∃ kept, s.pcs[t]? = some (Pc.aborted kept))) ∧
        s.store = serialBy sqlBackend (effOp prog s.pcs) q0 order) := by
  constructor
  · intro m0 s hrun hend
    obtain ⟨order, hnd, hmem, hst⟩ := serialisable_of_inv_settled memBackend prog m0 s
      (inv_execAll memBackend memBackend_locks memBackend_scoped mem_editLaw mem_publishLaw mem_abortLaw prog m0 _ _ s
        (inv_init _ _ _) hrun) hend
    exact ⟨order, hnd, fun t => by rw [hmem t, eff_iff], hst⟩
  · intro q0 s hrun hend
    obtain ⟨order, hnd, hmem, hst⟩ := serialisable_of_inv_settled sqlBackend prog q0 s
      (inv_execAll sqlBackend sqlBackend_locks sqlBackend_scoped sql_editLaw sql_publishLaw sql_abortLaw prog q0 _ _ s
        (inv_init _ _ _) hrun) hend
    exact ⟨order, hnd, fun t => by rw [hmem t, eff_iff], hst⟩

/-- what a block that was cancelled inside its body counts with: in memory the mutations that had
run, for SQLite nothing -/
theorem C20_aborted_block_effect (ran : List Mut) :
    memBackend.kept ran = ran ∧ sqlBackend.kept ran = [] := ⟨rfl, rfl⟩

/-- Serialisability under cancellation: if all tasks are done or cancelled (none of them inside an
open `edit_state` body), the final store is the serial execution, in some order, of exactly the
tasks that completed — each completed task once, no cancelled task, the program's own operations.
In particular a completed write is never overwritten by an older block, whatever was cancelled
around it.  Both backends. -/
theorem C20_serialisable_under_cancellation (prog : List COp) (sched : List Act) :
    (∀ (m0 : Mem) (s : Sys Mem), Sys.execAll memBackend prog (Sys.init m0 prog.length) sched = some s →
      s.allDoneOrCancelled = true →
      ∃ order : List Nat, order.Nodup ∧ (∀ t, t ∈ order ↔ s.pcs[t]? = some Pc.done) ∧
        s.store = serial memBackend prog m0 order) ∧
    (∀ (q0 : Sql) (s : Sys Sql), Sys.execAll sqlBackend prog (Sys.init q0 prog.length) sched = some s →
      s.allDoneOrCancelled = true →
      ∃ order : List Nat, order.Nodup ∧ (∀ t, t ∈ order ↔ s.pcs[t]? = some Pc.done) ∧
        s.store = serial sqlBackend prog q0 order) :=
  ⟨fun m0 s hrun hend => serialisable_of_inv_completed memBackend prog m0 s
      (inv_execAll memBackend memBackend_locks memBackend_scoped mem_editLaw mem_publishLaw mem_abortLaw prog m0 _ _ s
        (inv_init _ _ _) hrun) hend,
   fun q0 s hrun hend => serialisable_of_inv_completed sqlBackend prog q0 s
      (inv_execAll sqlBackend sqlBackend_locks sqlBackend_scoped sql_editLaw sql_publishLaw sql_abortLaw prog q0 _ _ s
        (inv_init _ _ _) hrun) hend⟩

/-- three tasks: an `edit_state` with two awaits, a second `edit_state`, a `set_state` -/
def C20_cancelProg : List COp :=
  [.edit [[.incr "x" 1], [.incr "x" 10], [.setKey "y" (.int 1)]], .edit [[.incr "x" 100]], .setState .same [("x", .int 5)]]
def C20_cancelInit : Sql := (Sql.step (Sql.init [] .dict) (.set "x" (.int 0))).1
def C20_cancelInitMem : Mem := (Mem.step (Mem.init [] .dict) (.set "x" (.int 0))).1

/-- task 1 queues behind the open block of task 0 and is cancelled while queued (its future is
cancelled: `waitC true`); task 2 queues behind it; the cancelled waiter leaves the FIFO, the block
finishes, task 2 runs: `{x: 5}`, the serial order `[0, 2]` -/
example : ∃ s, Sys.execAll sqlBackend C20_cancelProg (Sys.init C20_cancelInit 3)
      [.run 0, .run 1, .cancel 1, .run 2, .run 1, .run 0, .run 0, .run 2] = some s ∧
    s.allDoneOrCancelled = true ∧ s.log = [0, 2] ∧ s.pcs[1]? = some Pc.cancelled ∧
    s.store.row = some [("x", .int 5)] ∧
    s.store = serial sqlBackend C20_cancelProg C20_cancelInit [0, 2] := ⟨_, rfl, by rfl, by rfl, by rfl, by rfl, by rfl⟩

/-- the lock had already been handed to the waiter when it is cancelled (`waitC false`,
`_must_cancel`): it gives way to the next waiter; and a block cancelled inside its body (task 0,
after its first chunk) keeps `x + 1` in memory -/
example : ∃ s, Sys.execAll memBackend C20_cancelProg (Sys.init C20_cancelInitMem 3)
      [.run 0, .run 1, .run 2, .cancel 0, .run 0, .cancel 1, .run 1, .run 2] = some s ∧
    s.allSettled = true ∧ s.log = [0, 2] ∧
    s.pcs = [Pc.aborted [.incr "x" 1], Pc.cancelled, Pc.done] ∧
    s.store.root.data = [("x", .int 5)] ∧
    s.store = serialBy memBackend (effOp C20_cancelProg s.pcs) C20_cancelInitMem [0, 2] :=
  ⟨_, rfl, by rfl, by rfl, by rfl, by rfl, by rfl⟩

/-- the same schedule on SQLite: the cancelled block leaves nothing -/
example : ∃ s, Sys.execAll sqlBackend C20_cancelProg (Sys.init C20_cancelInit 3)
      [.run 0, .run 1, .run 2, .cancel 0, .run 0, .cancel 1, .run 1, .run 2] = some s ∧
    s.allSettled = true ∧ s.pcs = [Pc.aborted [], Pc.cancelled, Pc.done] ∧
    s.store.row = some [("x", .int 5)] := ⟨_, rfl, by rfl, by rfl, by rfl⟩

/-- the mechanism, with cancellation: while an `edit_state` block is open, no action concerning
another task — one of its sections (also the one in which a cancelled waiter leaves the FIFO), or
a cancellation request to it — changes the store, completes an operation, or takes the lock away
from the block -/
theorem C20_no_write_inside_open_edit_with_cancel (prog : List COp) (e t : Nat) (hne : t ≠ e) (a : Act)
    (ha : a = .run t ∨ a = .cancel t) :
    (∀ (s s' : Sys Mem), s.holder = some e → Sys.exec memBackend prog s a = some s' →
      s'.store = s.store ∧ s'.log = s.log ∧ s'.holder = some e) ∧
    (∀ (s s' : Sys Sql), s.holder = some e → Sys.exec sqlBackend prog s a = some s' →
      s'.store = s.store ∧ s'.log = s.log ∧ s'.holder = some e) :=
  ⟨fun s s' hh h => no_write_inside_open_edit_exec memBackend memBackend_locks memBackend_scoped prog s s' e t hh hne a ha h,
   fun s s' hh h => no_write_inside_open_edit_exec sqlBackend sqlBackend_locks sqlBackend_scoped prog s s' e t hh hne a ha h⟩

/-- a state with an open block (task 0) and a queued waiter (task 1): cancelling the waiter and
delivering the cancellation are both enabled, and the block still holds the lock afterwards -/
example : ∃ s s1 s2, Sys.execAll sqlBackend C20_cancelProg (Sys.init C20_cancelInit 3) [.run 0, .run 1] = some s ∧
    s.holder = some 0 ∧ Sys.exec sqlBackend C20_cancelProg s (.cancel 1) = some s1 ∧
    Sys.exec sqlBackend C20_cancelProg s1 (.run 1) = some s2 ∧ s2.holder = some 0 ∧ s2.queue = [] :=
  ⟨_, _, _, rfl, by rfl, rfl, rfl, by rfl, by rfl⟩

/-! ### what happens when a cancelled waiter gives the lock back -/

/-- both stores with `edit_state` (and SQLite's `set`, which goes through it) written as
`try: await lock.acquire(); … finally: if lock.locked(): lock.release()`: the exit code also runs
for a task that was cancelled while queued, and then releases the lock of the open block -/
def sqlBackendUnscoped : Backend Sql :=
  { sqlBackend with scopedLock := fun
      | .edit .. => false
      | .set .. => false
      | _ => true }

def memBackendUnscoped : Backend Mem :=
  { memBackend with scopedLock := fun
      | .edit .. => false
      | _ => true }

def hasX5m (m : Mem) : Bool :=
  match lookup "x" m.root.data with | some (.int 5) => true | _ => false

def C20_leakProg : List COp :=
  [.edit [[], [.setKey "y" (.int 1)]], .edit [[.incr "x" 100]], .setState .same [("x", .int 5)]]

/-- with such a lock the schedule `edit₀: load · edit₁ queues · cancel 1 · edit₁ leaves (and
releases) · set_state₂ · edit₀: body, save` ends in `{x: 0, y: 1}` on both stores: the completed
`set_state(x=5)` is overwritten by the older block, although every serial order of the two
completed operations keeps it — `C20_serialisable_under_cancellation` is false for those stores -/
theorem C20_cancelled_waiter_releasing_lock_loses_update :
    (∃ s, Sys.execAll sqlBackendUnscoped C20_leakProg (Sys.init C20_cancelInit 3)
        [.run 0, .run 1, .cancel 1, .run 1, .run 2, .run 0] = some s ∧
      s.allDoneOrCancelled = true ∧ s.pcs = [Pc.done, Pc.cancelled, Pc.done] ∧
      s.store.row = some [("x", .int 0), ("y", .int 1)] ∧ hasX5 s.store = false ∧
      hasX5 (serial sqlBackendUnscoped C20_leakProg C20_cancelInit [0, 2]) = true ∧
      hasX5 (serial sqlBackendUnscoped C20_leakProg C20_cancelInit [2, 0]) = true) ∧
    (∃ s, Sys.execAll memBackendUnscoped C20_leakProg (Sys.init C20_cancelInitMem 3)
        [.run 0, .run 1, .cancel 1, .run 1, .run 2, .run 0] = some s ∧
      s.allDoneOrCancelled = true ∧ s.pcs = [Pc.done, Pc.cancelled, Pc.done] ∧
      s.store.root.data = [("x", .int 0), ("y", .int 1)] ∧ hasX5m s.store = false ∧
      hasX5m (serial memBackendUnscoped C20_leakProg C20_cancelInitMem [0, 2]) = true ∧
      hasX5m (serial memBackendUnscoped C20_leakProg C20_cancelInitMem [2, 0]) = true) :=
  ⟨⟨_, rfl, by rfl, by rfl, by rfl, by rfl, by rfl, by rfl⟩, ⟨_, rfl, by rfl, by rfl, by rfl, by rfl, by rfl, by rfl⟩⟩

/-- the same schedule on the stores as they are: `set_state` has to queue behind the block (the
extra action), and survives -/
example : ∃ s, Sys.execAll sqlBackend C20_leakProg (Sys.init C20_cancelInit 3)
      [.run 0, .run 1, .cancel 1, .run 1, .run 2, .run 0, .run 2] = some s ∧
    s.allDoneOrCancelled = true ∧ s.store.row = some [("x", .int 5)] := ⟨_, rfl, by rfl, by rfl⟩

example : ∃ s, Sys.execAll memBackend C20_leakProg (Sys.init C20_cancelInitMem 3)
      [.run 0, .run 1, .cancel 1, .run 1, .run 2, .run 0, .run 2] = some s ∧
    s.allDoneOrCancelled = true ∧ s.store.root.data = [("x", .int 5)] := ⟨_, rfl, by rfl, by rfl⟩

/-! ### tasks created inside an open `edit_state` block -/

/-- the store modules hold no per-task / per-context / per-thread state (no `contextvars`,
`threading`, `current_task`), as found in the source: a task created inside an open `edit_state`
block, which starts with a copy of its creator's context, is a task like any other for the stores -/
theorem C20_source_shape_context_free :
    GenStateStore.memContextFree = true ∧ GenStateStore.sqlContextFree = true := by decide

/-- Serialisability with spawned tasks.  For every program, every assignment `sp` of creators
(task `c` is created by chunk `k` of the `edit_state` body of task `p`; any shape: several children
per chunk, children of children), every initial store and every schedule of `run` / `cancel` actions
after which every task that was created has ended (a task whose creator never reached the creating
chunk does not exist): the final store is the serial execution, in some order, of exactly the tasks
that took effect — the created task's operation is one more operation — and in that order the
creator's block comes before the operation of every task it created: what a task started from inside
a block writes is never overwritten by that block, and never lands inside another open block.
Both backends. -/
theorem C20_serialisable_with_spawned_tasks (prog : List COp) (sp : Spawn) (sched : List Act) :
    (∀ (m0 : Mem) (s : SpSys Mem), SpSys.execAll memBackend prog sp (SpSys.init m0 prog.length) sched = some s →
      s.allEnded sp = true →
      ∃ order : List Nat, order.Nodup ∧
        (∀ t, t ∈ order ↔ (s.sys.pcs[t]? = some Pc.done ∨ ∃ kept, s.sys.pcs[t]? = some (Pc.aborted kept))) ∧
        (∀ c p k : Nat, sp c = some (p, k) → c ∈ order → Before order p c) ∧
        s.sys.store = serialBy memBackend (effOp prog s.sys.pcs) m0 order) ∧
    (∀ (q0 : Sql) (s : SpSys Sql), SpSys.execAll sqlBackend prog sp (SpSys.init q0 prog.length) sched = some s →
      s.allEnded sp = true →
      ∃ order : List Nat, order.Nodup ∧
        (∀ t, t ∈ order ↔ (s.sys.pcs[t]? = some Pc.done ∨ ∃ kept, s.sys.pcs[t]? = some (Pc.aborted kept))) ∧
        (∀ c p k : Nat, sp c = some (p, k) → c ∈ order → Before order p c) ∧
        s.sys.store = serialBy sqlBackend (effOp prog s.sys.pcs) q0 order) := by
  constructor
  · intro m0 s hrun hend
    obtain ⟨order, hnd, hmem, hbef, hst⟩ := serialisable_with_spawns memBackend memBackend_locks memBackend_scoped
      mem_editLaw mem_publishLaw mem_abortLaw prog sp m0 sched s hrun hend
    exact ⟨order, hnd, fun t => by rw [hmem t, eff_iff], hbef, hst⟩
  · intro q0 s hrun hend
    obtain ⟨order, hnd, hmem, hbef, hst⟩ := serialisable_with_spawns sqlBackend sqlBackend_locks sqlBackend_scoped
      sql_editLaw sql_publishLaw sql_abortLaw prog sp q0 sched s hrun hend
    exact ⟨order, hnd, fun t => by rw [hmem t, eff_iff], hbef, hst⟩

/-- a task that has not been created has done nothing (it is not even queued on the lock), and a
program without spawns runs exactly as the plain system of the theorems above -/
theorem C20_spawned_task_waits_for_its_creation (prog : List COp) (sp : Spawn) (sched : List Act) :
    (∀ (m0 : Mem) (s : SpSys Mem), SpSys.execAll memBackend prog sp (SpSys.init m0 prog.length) sched = some s →
      ∀ c, s.live sp c = false → c < prog.length → s.sys.pcs[c]? = some Pc.idle ∧ c ∉ s.sys.queue ∧ c ∉ s.sys.log) ∧
    (∀ (q0 : Sql) (s : SpSys Sql), SpSys.execAll sqlBackend prog sp (SpSys.init q0 prog.length) sched = some s →
      ∀ c, s.live sp c = false → c < prog.length → s.sys.pcs[c]? = some Pc.idle ∧ c ∉ s.sys.queue ∧ c ∉ s.sys.log) ∧
    (∀ (m0 : Mem), (SpSys.execAll memBackend prog (fun _ => none) (SpSys.init m0 prog.length) sched).map (·.sys) =
      Sys.execAll memBackend prog (Sys.init m0 prog.length) sched) ∧
    (∀ (q0 : Sql), (SpSys.execAll sqlBackend prog (fun _ => none) (SpSys.init q0 prog.length) sched).map (·.sys) =
      Sys.execAll sqlBackend prog (Sys.init q0 prog.length) sched) :=
  ⟨fun m0 s hrun c hl hc => unborn_untouched memBackend memBackend_locks memBackend_scoped mem_editLaw mem_publishLaw
      mem_abortLaw prog sp m0 sched s hrun c hl hc,
   fun q0 s hrun c hl hc => unborn_untouched sqlBackend sqlBackend_locks sqlBackend_scoped sql_editLaw sql_publishLaw
      sql_abortLaw prog sp q0 sched s hrun c hl hc,
   fun _ => spExecAll_no_spawn memBackend prog sched _, fun _ => spExecAll_no_spawn sqlBackend prog sched _⟩

/-- task 0 records in an `edit_state` block that it starts a worker and creates it there (task 2,
a `set`); later task 1 is inside its own two-chunk block when the worker's first section runs: the
worker queues on the lock and writes after the block -/
def C20_spawnProg : List COp :=
  [.edit [[.setKey "w" (.int 1)]], .edit [[.incr "x" 1], [.incr "x" 1]], .set "x" (.int 10)]
def C20_spawnMap : Spawn := fun c => if c = 2 then some (0, 0) else none

example : ∃ s, SpSys.execAll memBackend C20_spawnProg C20_spawnMap (SpSys.init C20_cancelInitMem 3)
      [.run 0, .run 1, .run 2, .run 1, .run 2] = some s ∧
    s.allEnded C20_spawnMap = true ∧ s.sys.log = [0, 1, 2] ∧ s.born = [2] ∧
    s.sys.store.root.data = [("x", .int 10), ("w", .int 1)] := ⟨_, rfl, by rfl, by rfl, by rfl, by rfl⟩

/-- before task 0 has run, task 2 does not exist: no section of it can run, nothing to cancel -/
example : SpSys.exec memBackend C20_spawnProg C20_spawnMap (SpSys.init C20_cancelInitMem 3) (.run 2) = none ∧
    SpSys.exec memBackend C20_spawnProg C20_spawnMap (SpSys.init C20_cancelInitMem 3) (.cancel 2) = none :=
  ⟨rfl, rfl⟩

/-- the creator is cancelled before it reaches the creating chunk: the worker never exists, the run is over -/
example : ∃ s, SpSys.execAll sqlBackend C20_spawnProg C20_spawnMap (SpSys.init C20_cancelInit 3)
      [.cancel 0, .run 0, .run 1, .run 1] = some s ∧
    s.allEnded C20_spawnMap = true ∧ s.born = [] ∧ s.sys.log = [1] ∧
    s.sys.store.row = some [("x", .int 2)] := ⟨_, rfl, by rfl, by rfl, by rfl, by rfl⟩

/-- a store whose `set` does not take the lock when called by a task created inside a block (here:
by anybody) -/
def sqlBackendSetUnlocked : Backend Sql :=
  { sqlBackend with locks := fun
      | .set .. => false
      | _ => true }

def C20_spawnLeakProg : List COp := [.edit [[], [.setKey "y" (.int 1)]], .set "x" (.int 5)]
def C20_spawnLeakMap : Spawn := fun c => if c = 1 then some (0, 0) else none

/-- with such a store the three-action schedule `edit₀: load, create the worker · worker: set(x, 5)
· edit₀: body, save` ends in `{x: 0, y: 1}`: the worker's completed `set` is overwritten by the block
that created it, although both serial orders keep it — the theorem above is false for that store -/
theorem C20_spawned_writer_skipping_lock_loses_update :
    ∃ s, SpSys.execAll sqlBackendSetUnlocked C20_spawnLeakProg C20_spawnLeakMap (SpSys.init C20_cancelInit 2)
        [.run 0, .run 1, .run 0] = some s ∧
      s.allEnded C20_spawnLeakMap = true ∧ s.sys.log = [1, 0] ∧
      s.sys.store.row = some [("x", .int 0), ("y", .int 1)] ∧ hasX5 s.sys.store = false ∧
      hasX5 (serial sqlBackendSetUnlocked C20_spawnLeakProg C20_cancelInit [0, 1]) = true ∧
      hasX5 (serial sqlBackendSetUnlocked C20_spawnLeakProg C20_cancelInit [1, 0]) = true :=
  ⟨_, rfl, by rfl, by rfl, by rfl, by rfl, by rfl, by rfl⟩

/-- the same schedule on the store as it is: the worker queues behind the block that created it -/
example : ∃ s, SpSys.execAll sqlBackend C20_spawnLeakProg C20_spawnLeakMap (SpSys.init C20_cancelInit 2)
      [.run 0, .run 1, .run 0, .run 1] = some s ∧
    s.allEnded C20_spawnLeakMap = true ∧ s.sys.log = [0, 1] ∧
    s.sys.store.row = some [("x", .int 5), ("y", .int 1)] := ⟨_, rfl, by rfl, by rfl, by rfl⟩


/-! ## time: how long a block stays open does not matter -/

/-- the store modules set no timers and bound no wait (no `asyncio.wait_for` / `timeout` / `sleep` /
`call_later` …), as found in the source: an operation queued on the store lock waits for as long as
the lock is held, and no transition of a store depends on the clock -/
theorem C20_source_shape_timer_free :
    GenStateStore.memTimerFree = true ∧ GenStateStore.sqlTimerFree = true := by decide

theorem memPatience_none (op : COp) : memPatience op = none := rfl

theorem sqlPatience_none (op : COp) : sqlPatience op = none := rfl

/-- The clock is invisible.  For every program, spawn map, assignment `dur` of durations to the awaits
inside `edit_state` bodies (seconds, minutes, days), and every timed schedule (`run` / `cancel` / `tick d`):
the timed run is the untimed run of the schedule without its ticks — same store, same lock holder, same
FIFO, same task positions, same log; a tick is always possible and changes the clock only; an action that
is enabled stays enabled however much more time passes first.  Both backends. -/
theorem C20_open_block_duration_is_invisible (prog : List COp) (sp : Spawn) (dur : Durs) (sched : List TAct) :
    (∀ (m0 : Mem) (s : TSys Mem),
      TSys.execAll memBackend prog sp dur memPatience (TSys.init m0 prog.length) sched = some s →
      SpSys.execAll memBackend prog sp (SpSys.init m0 prog.length) (untimed sched) = some s.sp) ∧
    (∀ (q0 : Sql) (s : TSys Sql),
      TSys.execAll sqlBackend prog sp dur sqlPatience (TSys.init q0 prog.length) sched = some s →
      SpSys.execAll sqlBackend prog sp (SpSys.init q0 prog.length) (untimed sched) = some s.sp) ∧
    (∀ (s : TSys Mem) (d : Nat),
      TSys.exec memBackend prog sp dur memPatience s (.tick d) = some { s with now := s.now + d }) ∧
    (∀ (s : TSys Sql) (d : Nat),
      TSys.exec sqlBackend prog sp dur sqlPatience s (.tick d) = some { s with now := s.now + d }) ∧
    (∀ (s s' : TSys Mem) (a : Act) (d : Nat), TSys.exec memBackend prog sp dur memPatience s (.act a) = some s' →
      ∃ s'', TSys.exec memBackend prog sp dur memPatience { s with now := s.now + d } (.act a) = some s'' ∧ s''.sp = s'.sp) ∧
    (∀ (s s' : TSys Sql) (a : Act) (d : Nat), TSys.exec sqlBackend prog sp dur sqlPatience s (.act a) = some s' →
      ∃ s'', TSys.exec sqlBackend prog sp dur sqlPatience { s with now := s.now + d } (.act a) = some s'' ∧ s''.sp = s'.sp) :=
  ⟨fun m0 s h => texecAll_untimed memBackend prog sp dur memPatience memPatience_none sched (TSys.init m0 prog.length) s h,
   fun q0 s h => texecAll_untimed sqlBackend prog sp dur sqlPatience sqlPatience_none sched (TSys.init q0 prog.length) s h,
   fun _ _ => rfl, fun _ _ => rfl,
   fun s s' a d h => texec_after_tick memBackend prog sp dur memPatience memPatience_none s s' a d h,
   fun s s' a d h => texec_after_tick sqlBackend prog sp dur sqlPatience sqlPatience_none s s' a d h⟩

/-- Serialisability whatever the durations.  For every program, spawn map, durations of the awaits inside
the blocks and timed schedule after which every task that was created has ended: the final store is the
serial execution, in some order (creators before what they created), of exactly the tasks that took
effect.  However long a block stays open across an await, nothing is written in between and no completed
write is overwritten by it.  Both backends. -/
theorem C20_serialisable_whatever_the_durations (prog : List COp) (sp : Spawn) (dur : Durs) (sched : List TAct) :
    (∀ (m0 : Mem) (s : TSys Mem),
      TSys.execAll memBackend prog sp dur memPatience (TSys.init m0 prog.length) sched = some s →
      s.sp.allEnded sp = true →
      ∃ order : List Nat, order.Nodup ∧
        (∀ t, t ∈ order ↔ (s.sp.sys.pcs[t]? = some Pc.done ∨ ∃ kept, s.sp.sys.pcs[t]? = some (Pc.aborted kept))) ∧
        (∀ c p k : Nat, sp c = some (p, k) → c ∈ order → Before order p c) ∧
        s.sp.sys.store = serialBy memBackend (effOp prog s.sp.sys.pcs) m0 order) ∧
    (∀ (q0 : Sql) (s : TSys Sql),
      TSys.execAll sqlBackend prog sp dur sqlPatience (TSys.init q0 prog.length) sched = some s →
      s.sp.allEnded sp = true →
      ∃ order : List Nat, order.Nodup ∧
        (∀ t, t ∈ order ↔ (s.sp.sys.pcs[t]? = some Pc.done ∨ ∃ kept, s.sp.sys.pcs[t]? = some (Pc.aborted kept))) ∧
        (∀ c p k : Nat, sp c = some (p, k) → c ∈ order → Before order p c) ∧
        s.sp.sys.store = serialBy sqlBackend (effOp prog s.sp.sys.pcs) q0 order) :=
  ⟨fun m0 s hrun hend => (C20_serialisable_with_spawned_tasks prog sp (untimed sched)).1 m0 s.sp
      ((C20_open_block_duration_is_invisible prog sp dur sched).1 m0 s hrun) hend,
   fun q0 s hrun hend => (C20_serialisable_with_spawned_tasks prog sp (untimed sched)).2 q0 s.sp
      ((C20_open_block_duration_is_invisible prog sp dur sched).2.1 q0 s hrun) hend⟩

/-- a block that stays open for two minutes across its await; `set_state` arrives meanwhile -/
def C20_slowDur : Durs := fun _ _ => 120
def C20_noSpawn : Spawn := fun _ => none
def C20_f18InitMem : Mem := (Mem.step (Mem.init [] .dict) (.set "x" (.int 0))).1

/-- the stores as they are: task 1 queues behind the block; however much time passes (here 30 s, then a day)
neither its next section nor that of the sleeping block owner before its await is over is enabled;
after the two minutes the block saves, then the `set_state` runs: `{x: 5}` after `{x: 0, y: 1}` -/
example : TSys.execAll sqlBackend C20_f18Prog C20_noSpawn C20_slowDur sqlPatience (TSys.init C20_f18Init 2)
      [.act (.run 0), .act (.run 1), .tick 30, .act (.run 1)] = none ∧
    TSys.execAll sqlBackend C20_f18Prog C20_noSpawn C20_slowDur sqlPatience (TSys.init C20_f18Init 2)
      [.act (.run 0), .act (.run 1), .tick 30, .act (.run 0)] = none ∧
    TSys.execAll memBackend C20_f18Prog C20_noSpawn C20_slowDur memPatience (TSys.init C20_f18InitMem 2)
      [.act (.run 0), .act (.run 1), .tick 86400, .act (.run 1)] = none := ⟨rfl, rfl, rfl⟩

example : ∃ s, TSys.execAll sqlBackend C20_f18Prog C20_noSpawn C20_slowDur sqlPatience (TSys.init C20_f18Init 2)
      [.act (.run 0), .act (.run 1), .tick 30, .tick 90, .act (.run 0), .act (.run 1)] = some s ∧
    s.sp.allEnded C20_noSpawn = true ∧ s.now = 120 ∧ s.sp.sys.log = [0, 1] ∧
    s.sp.sys.store.row = some [("x", .int 5)] := ⟨_, rfl, by rfl, by rfl, by rfl, by rfl⟩

/-- A store whose short operations stop waiting for the lock after 30 s and are then carried out anyway
(`patience = some 30`) loses the update, on both backends, as soon as a block stays open longer than that:
`edit₀: load · set_state₁: queues · 30 s pass · set_state₁: gives up waiting, writes {x: 5} ·
90 s pass · edit₀: body, save` ends in `{x: 0, y: 1}` although both serial orders keep `x = 5` — with
blocks shorter than the bound the same store is indistinguishable from the real one.  The two theorems
above are false for such a store; they rest on `C20_source_shape_timer_free`. -/
theorem C20_lock_wait_timeout_loses_update :
    (∃ s, TSys.execAll sqlBackend C20_f18Prog C20_noSpawn C20_slowDur (fun _ => some 30) (TSys.init C20_f18Init 2)
        [.act (.run 0), .act (.run 1), .tick 30, .act (.run 1), .tick 90, .act (.run 0)] = some s ∧
      s.sp.allEnded C20_noSpawn = true ∧ s.sp.sys.log = [1, 0] ∧
      s.sp.sys.store.row = some [("x", .int 0), ("y", .int 1)] ∧ hasX5 s.sp.sys.store = false ∧
      hasX5 (serial sqlBackend C20_f18Prog C20_f18Init [0, 1]) = true ∧
      hasX5 (serial sqlBackend C20_f18Prog C20_f18Init [1, 0]) = true) ∧
    (∃ s, TSys.execAll memBackend C20_f18Prog C20_noSpawn C20_slowDur (fun _ => some 30) (TSys.init C20_f18InitMem 2)
        [.act (.run 0), .act (.run 1), .tick 30, .act (.run 1), .tick 90, .act (.run 0)] = some s ∧
      s.sp.allEnded C20_noSpawn = true ∧ s.sp.sys.log = [1, 0] ∧
      s.sp.sys.store.root.data = [("x", .int 0), ("y", .int 1)] ∧ hasX5m s.sp.sys.store = false ∧
      hasX5m (serial memBackend C20_f18Prog C20_f18InitMem [0, 1]) = true ∧
      hasX5m (serial memBackend C20_f18Prog C20_f18InitMem [1, 0]) = true) ∧
    -- a block shorter than the bound: the impatient store behaves like the real one
    (TSys.execAll sqlBackend C20_f18Prog C20_noSpawn (fun _ _ => 20) (fun _ => some 30) (TSys.init C20_f18Init 2)
        [.act (.run 0), .act (.run 1), .tick 20, .act (.run 1)] = none) :=
  ⟨⟨_, rfl, by rfl, by rfl, by rfl, by rfl, by rfl, by rfl⟩, ⟨_, rfl, by rfl, by rfl, by rfl, by rfl, by rfl, by rfl⟩, rfl⟩
