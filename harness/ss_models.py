"""Typed state models for the state-store checks (C19, C20): an inheritance chain
L0 <- L1 <- L2 and an unrelated model.  Importable by qualified name, which the
JsonSerializer needs to rebuild them from SQLite rows."""
from __future__ import annotations

from typing import Any, Dict, List

from pydantic import BaseModel, Field


class L0(BaseModel):
    a: Any = 0
    cnt: int = 0


class L1(L0):
    c: Any = "c0"
    tags: List[Any] = Field(default_factory=list)


class L2(L1):
    meta: Dict[str, Any] = Field(default_factory=dict)
    label: str = "l"


class Other(BaseModel):
    zed: Any = 1


CHAIN = [L0, L1, L2]
