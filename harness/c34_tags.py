"""C34 extension: the tag side and the publish side of the release tooling.

Real code exercised (all from /repo's current sources):
  dev_cli.versioning: strip_refs_prefix, infer_tag_metadata, remove_tag_prefix,
      extract_semver, compute_suffix_and_version, detect_change_type
  dev_cli.git_utils.previous_tag
  dev_cli.cli.compute_tag_metadata (the real click command body; only `git tag -l`
      (git_utils.list_tags) and the output writer are replaced)
  dev_cli.changesets: docker_image_tags, is_rc_version, semver_to_pep440,
      _resolve_template, apply_sync_values (real pyproject.toml on disk), current_version

Kinds of cases added to the C34 check:
  tag     one tag string, a prefix and a tag list: every tag function, op by op (K)
  hist    a strictly descending release history rendered as tags; the command on one
          of its tags: K op + S monitor (classification against the neighbour)
  chain   an ascending chain of versions: S monitor of the chain law on the real
          detect_change_type (+ the end-to-end detect op for K)
  publish a semver spelling: docker tags, is_rc, pyproject round trip (K ops + S)
"""
from __future__ import annotations

import contextlib
import importlib
import io
import os
import shutil
import tempfile
from typing import Any

from .runner import Violation

REFS = "refs/tags/"
CLEAN_PKGS = ["pkg", "llama-index-workflows", "a", "llama_agents-server", "x.y", "p/q", "refs", "tags/refs", "refs/tag", "v", "1"]
ODD_PKGS = ["", "refs/tags/x", "a/refs/tags/", "pkg@x", "@scope/ui", "refs/tags"]
NAMES = ["major", "minor", "patch"]
SEV = {"none": 0, "patch": 1, "minor": 2, "major": 3}
IMAGE_REPO = "docker.io/org/img"


def cps(s: str) -> str:
    return ",".join(str(ord(c)) for c in s)


def tags_field(tags: list[str]) -> str:
    return "~" if not tags else ";".join(cps(t) for t in tags)


# --------------------------------------------------------------------------
# implementation access


def load_impl_tags() -> dict[str, Any]:
    from dev_cli import changesets, git_utils, versioning  # /repo/src on sys.path via harness.boot

    climod = importlib.import_module("dev_cli.cli")
    import click
    from packaging.version import InvalidVersion

    return {"versioning": versioning, "git_utils": git_utils, "changesets": changesets, "cli": climod,
            "BadParameter": click.BadParameter, "InvalidVersion": InvalidVersion, "tmp": None}


def run_command(T: dict, tag: str, tags: list[str]) -> dict:
    """The real `compute-tag-metadata` command on `tag`, with `git tag -l` answered by `tags`."""
    climod = T["cli"]
    outs: dict[str, Any] = {}
    seen: dict[str, Any] = {}
    orig_list, orig_write, orig_detect = climod.git_utils.list_tags, climod.gha.write_outputs, climod.versioning.detect_change_type

    def fake_list(repo: Any, glob: str) -> list[str]:
        seen["glob"] = glob
        return list(tags)

    def fake_write(d: dict, output_path: Any = None) -> None:
        outs.update(d)

    def spy_detect(cur: str, prev: Any) -> str:
        seen["cur"], seen["prev"] = cur, prev
        return orig_detect(cur, prev)

    climod.git_utils.list_tags = fake_list
    climod.gha.write_outputs = fake_write
    climod.versioning.detect_change_type = spy_detect
    try:
        with contextlib.redirect_stdout(io.StringIO()):
            climod.compute_tag_metadata.callback(tag=tag, output=None)
        return {"status": "ok", "outs": outs, **seen}
    except T["InvalidVersion"]:
        return {"status": "invalid-version", **seen}
    except (T["BadParameter"], ValueError) as e:
        return {"status": "error", "msg": str(e), **seen}
    finally:
        climod.git_utils.list_tags = orig_list
        climod.gha.write_outputs = orig_write
        climod.versioning.detect_change_type = orig_detect


def docker_parts(T: dict, version: str, flag: bool) -> list[str] | str:
    cs = T["changesets"]
    img = cs.DockerConfig(dockerfile="Dockerfile", imageName="org/img")
    tags = cs.docker_image_tags(img, version, flag)
    out = []
    for t in tags:
        if not t.startswith(IMAGE_REPO + ":"):
            return f"foreign-tag {t!r}"
        out.append(t[len(IMAGE_REPO) + 1:])
    return out


def impl_answer_tags(T: dict, in_domain, op: list) -> str | None:
    """Answer of the real code to one of the new ops (None = not one of ours)."""
    kind = op[0]
    V = T["versioning"]
    try:
        if kind == "strip":
            return cps(V.strip_refs_prefix(op[1]))
        if kind == "tagmeta":
            try:
                m = V.infer_tag_metadata(op[1])
            except ValueError:
                return "value-error"
            return "ok " + cps(m.normalized) + "|" + cps(m.tag_prefix) + "|" + cps(m.tag_glob)
        if kind == "rmprefix":
            try:
                return "ok " + cps(V.remove_tag_prefix(op[1], op[2]))
            except ValueError:
                return "value-error"
        if kind == "extract":
            try:
                return "ok " + cps(V.extract_semver(op[1], op[2]))
            except ValueError:
                return "value-error"
        if kind == "suffix":
            try:
                a, b = V.compute_suffix_and_version(op[1], op[2])
            except ValueError:
                return "value-error"
            return "ok " + cps(a) + "|" + cps(b)
        if kind == "prevtag":
            r = T["git_utils"].previous_tag(op[1], op[2])
            return "none" if r is None else "some " + cps(r)
        if kind == "tagchange":
            r = run_command(T, op[1], op[2])
            if r["status"] == "invalid-version":
                return "outside"
            if r["status"] == "error":
                return "error"
            prev = r.get("prev")
            if prev and not (in_domain(r["cur"]) and in_domain(prev)):
                return "outside"
            o = r["outs"]
            return "ok " + cps(o["tag_suffix"]) + "|" + cps(o["semver"]) + "|" + str(o["change_type"]) + "|" + cps(r.get("glob", "<no list_tags call>"))
        if kind == "docker":
            parts = docker_parts(T, op[1], op[2])
            return parts if isinstance(parts, str) else ";".join(cps(p) for p in parts)
    except Exception as e:  # behaviour the model does not have
        return f"raises {type(e).__name__}: {str(e)[:80]}"
    return None


def op_line_tags(op: list) -> str | None:
    kind = op[0]
    if kind in ("strip", "tagmeta"):
        return f"{kind}|{cps(op[1])}"
    if kind in ("rmprefix", "extract", "suffix"):
        return f"{kind}|{cps(op[1])}|{cps(op[2])}"
    if kind in ("prevtag", "tagchange"):
        return f"{kind}|{cps(op[1])}|{tags_field(op[2])}"
    if kind == "docker":
        return f"docker|{cps(op[1])}|{'1' if op[2] else '0'}"
    return None


# --------------------------------------------------------------------------
# generators (randomness only from the rng handed in)


def bump(rng, v: dict) -> tuple[dict, str]:
    """A version strictly greater than `v` and how it was obtained."""
    rel = list(v["rel"])
    pre = None if v["pre"] is None else list(v["pre"])
    m = rng.random()
    if pre is not None and m < 0.30:
        return {"rel": rel, "pre": None}, "finalise"
    if pre is not None and m < 0.50:
        lab, n = pre
        if lab != "rc" and rng.random() < 0.4:
            return {"rel": rel, "pre": [{"a": "b", "b": "rc"}[lab], rng.choice([0, 1, n])]}, "next-label"
        return {"rel": rel, "pre": [lab, n + rng.choice([1, 1, 2, 9])]}, "next-pre-number"
    # raise a release component
    w = rng.random()
    n = len(rel)
    if w < 0.18:
        i = 0
    elif w < 0.48:
        i = 1
    elif w < 0.80:
        i = 2
    else:
        i = rng.choice([3, 3, 4])
    while len(rel) <= i:
        rel.append(0)
    rel[i] += rng.choice([1, 1, 1, 2, 10])
    how = "raise-" + (NAMES[i] if i < 3 else "beyond-third")
    z = rng.random()
    if z < 0.6:
        rel[i + 1:] = [0] * (len(rel) - i - 1)
    elif z < 0.75:
        rel = rel[:i + 1]
    newpre = None
    if rng.random() < 0.3:
        newpre = [rng.choice(["a", "b", "rc"]), rng.choice([0, 1, 2])]
        how += "+pre"
    return {"rel": rel, "pre": newpre}, how


def gen_small_ver(rng) -> dict:
    n = rng.choice([1, 2, 3, 3, 3, 4])
    rel = [rng.choice([0, 0, 1, 1, 2, 3, 9, 10]) for _ in range(n)]
    pre = [rng.choice(["a", "b", "rc"]), rng.choice([0, 1, 2, 10])] if rng.random() < 0.3 else None
    return {"rel": rel, "pre": pre}


def gen_chain(rng, length: int) -> tuple[list[dict], list[str]]:
    vs = [gen_small_ver(rng)]
    hows = []
    for _ in range(length):
        nv, how = bump(rng, vs[-1])
        vs.append(nv)
        hows.append(how)
    return vs, hows


def make_chain_case(rng, spell) -> dict:
    vs, hows = gen_chain(rng, rng.choice([1, 2, 2, 3, 4, 6]))
    return {"kind": "chain", "vers": [{"ver": v, "s": spell(rng, v)[0]} for v in vs], "hows": hows}


def make_hist_case(rng, canon_semver, canon_pep) -> dict:
    vs, hows = gen_chain(rng, rng.choice([0, 1, 2, 3, 5, 8]))
    vs.reverse()  # newest first
    form = "semver" if rng.random() < 0.75 else "pep"
    return {"kind": "hist", "pkg": rng.choice(CLEAN_PKGS), "vers": vs, "form": form,
            "refs": rng.random() < 0.4, "idx": rng.randrange(len(vs)), "hows": hows}


def hist_tag(case: dict, v: dict, canon_semver, canon_pep) -> str:
    return case["pkg"] + "@v" + (canon_semver(v) if case["form"] == "semver" else canon_pep(v))


def make_tag_case(rng, gen_ver, canon_semver, canon_pep, gen_garbage) -> dict:
    pkg = rng.choice(CLEAN_PKGS) if rng.random() < 0.7 else rng.choice(ODD_PKGS)

    def version_text() -> str:
        m = rng.random()
        v = gen_ver(rng)
        if m < 0.5:
            return canon_semver(v)
        if m < 0.75:
            return canon_pep(v)
        if m < 0.85:
            return canon_semver(v) + rng.choice(["/x", "@1", "-", "v"])
        return gen_garbage(rng)

    def one_tag(p: str) -> str:
        vp = rng.choice(["v"] * 8 + ["", "V", "vv", "@v"])
        sep = rng.choice(["@"] * 9 + ["-", "@@", ""])
        return p + sep + vp + version_text()

    base = one_tag(pkg)
    ref = rng.choice([""] * 5 + [REFS] * 4 + [REFS + REFS, "refs/heads/", "REFS/TAGS/", "refs/tags"])
    tag = ref + base
    prefix = rng.choice([pkg + "@"] * 6 + ["", pkg, "other@", pkg + "@v"])
    others = [one_tag(pkg if rng.random() < 0.85 else rng.choice(CLEAN_PKGS)) for _ in range(rng.randint(0, 5))]
    if rng.random() < 0.1:
        others.append("")
    where = rng.random()
    tags = list(others)
    if where < 0.65:
        tags.insert(rng.randint(0, len(tags)), base)
        if rng.random() < 0.15:
            tags.insert(rng.randint(0, len(tags)), base)  # listed twice
    return {"kind": "tag", "tag": tag, "prefix": prefix, "tags": tags}


def make_publish_case(rng, gen_ver, spell_semver) -> dict:
    v = gen_ver(rng)
    s, style = spell_semver(rng, v)
    if s.endswith("\n"):
        s = s[:-1]
    return {"kind": "publish", "ver": v, "s": s}


def tag_corpus(V) -> list[dict]:
    def hist(pkg, vers, form, refs, idx):
        return {"kind": "hist", "pkg": pkg, "vers": vers, "form": form, "refs": refs, "idx": idx, "hows": []}

    cs: list[dict] = [
        {"kind": "tag", "tag": "refs/tags/llama-index-workflows@v1.2.3", "prefix": "llama-index-workflows@",
         "tags": ["llama-index-workflows@v1.2.3", "llama-index-workflows@v1.2.2"]},
        {"kind": "tag", "tag": "pkg@v1.2.3-rc.1", "prefix": "pkg@", "tags": []},
        {"kind": "tag", "tag": "refs/tags/a/refs/tags/b@v1", "prefix": "a/b@", "tags": ["a/b@v1", "a/b@v0.9"]},
        {"kind": "tag", "tag": "pkg-1.2.3", "prefix": "pkg@", "tags": ["pkg@v1"]},
        {"kind": "tag", "tag": "pkg@1.2.3", "prefix": "pkg@", "tags": ["pkg@v1"]},
        {"kind": "tag", "tag": "pkg@v", "prefix": "pkg@", "tags": ["pkg@v", "pkg@v1"]},
        {"kind": "tag", "tag": "pkg@v2.0.0", "prefix": "pkg@", "tags": ["other@v1.0.0", "pkg@v2.0.0", "other@v0.1"]},
        {"kind": "tag", "tag": "pkg@v2.0.0", "prefix": "pkg@", "tags": ["pkg@v1.9.0", "pkg@v1.8.0"]},
        {"kind": "tag", "tag": "pkg@v2.0.0", "prefix": "pkg@", "tags": ["pkg@v2.0.0", ""]},
        {"kind": "tag", "tag": "pkg@vv1.0", "prefix": "pkg@", "tags": ["pkg@vv1.0", "pkg@v0.9"]},
        {"kind": "tag", "tag": "pkg@v1.0", "prefix": "", "tags": ["pkg@v1.0"]},
        # the order `git tag --sort=-version:refname` really prints: release candidates above their final release
        {"kind": "tag", "tag": "pkg@v1.3.0-rc.1", "prefix": "pkg@", "tags": ["pkg@v1.3.0-rc.2", "pkg@v1.3.0-rc.1", "pkg@v1.3.0", "pkg@v1.2.9"]},
        {"kind": "tag", "tag": "pkg@v1.3.0", "prefix": "pkg@", "tags": ["pkg@v1.3.0-rc.2", "pkg@v1.3.0-rc.1", "pkg@v1.3.0", "pkg@v1.2.9"]},
        hist("pkg", [V([1, 3, 0]), V([1, 3, 0], ["rc", 1]), V([1, 2, 9]), V([1, 2, 8])], "semver", True, 1),
        hist("pkg", [V([1, 3, 0]), V([1, 3, 0], ["rc", 1]), V([1, 2, 9]), V([1, 2, 8])], "semver", False, 0),
        hist("llama-index-workflows", [V([2, 0]), V([1, 9, 9, 1]), V([1, 9, 9])], "pep", False, 1),
        hist("p/q", [V([1, 0, 0])], "semver", True, 0),
        hist("x.y", [V([1, 2, 4]), V([1, 2, 3, 5]), V([1, 2, 3, 4])], "semver", False, 0),
        {"kind": "chain", "vers": [{"ver": V([1, 2, 3, 4]), "s": "1.2.3.4"}, {"ver": V([1, 2, 3, 5]), "s": "1.2.3.5"},
                                   {"ver": V([1, 2, 4]), "s": "1.2.4"}], "hows": ["raise-beyond-third", "raise-patch"]},
        {"kind": "chain", "vers": [{"ver": V([1, 2, 3]), "s": "1.2.3"}, {"ver": V([1, 2, 4], ["rc", 1]), "s": "1.2.4-rc.1"},
                                   {"ver": V([1, 2, 4]), "s": "1.2.4"}, {"ver": V([1, 3]), "s": "1.3"},
                                   {"ver": V([2, 0, 0], ["a", 0]), "s": "2.0.0a0"}], "hows": []},
        {"kind": "publish", "ver": V([1, 2, 3]), "s": "1.2.3"},
        {"kind": "publish", "ver": V([1, 2, 3], ["rc", 1]), "s": "1.2.3-rc.1"},
        {"kind": "publish", "ver": V([7]), "s": "7"},
        {"kind": "publish", "ver": V([1, 2, 3, 4], ["b", 2]), "s": "01.2.3.4-b.02"},
        {"kind": "publish", "ver": V([10, 20]), "s": "10.020"},
    ]
    return cs


def case_ops_tags(case: dict, canon_semver, canon_pep) -> list[list]:
    k = case["kind"]
    if k == "tag":
        t, p, ts = case["tag"], case["prefix"], case["tags"]
        cur = t[len(REFS):] if t.startswith(REFS) else t
        return [["strip", t], ["tagmeta", t], ["rmprefix", t, p], ["extract", t, p], ["suffix", t, p],
                ["prevtag", cur, ts], ["prevtag", t, ts], ["tagchange", t, ts]]
    if k == "hist":
        tags = [hist_tag(case, v, canon_semver, canon_pep) for v in case["vers"]]
        tag = (REFS if case["refs"] else "") + tags[case["idx"]]
        return [["tagchange", tag, tags], ["tagmeta", tag], ["prevtag", tags[case["idx"]], tags]]
    if k == "chain":
        vs = case["vers"]
        return [["detect", vs[-1]["s"], vs[0]["s"]], ["cmp", vs[0]["s"], vs[-1]["s"]]]
    if k == "publish":
        s = case["s"]
        return [["docker", s, False], ["docker", s, True], ["isrc", s], ["s2p", s]]
    return []


# --------------------------------------------------------------------------
# monitors (independent of the model)


def expected_change(cmp_spec, c: dict, p: dict) -> str | None:
    """The classification the property demands where it names one (None = it names none)."""
    if cmp_spec(c, p) <= 0:
        return "none"
    pc = (list(c["rel"]) + [0, 0, 0])[:3]
    pp = (list(p["rel"]) + [0, 0, 0])[:3]
    for i in range(3):
        if pc[i] != pp[i]:
            return NAMES[i]
    return None


def monitor_hist(T: dict, case: dict, cmp_spec, canon_semver, canon_pep) -> Violation | None:
    vs = case["vers"]
    for i in range(len(vs) - 1):
        if cmp_spec(vs[i], vs[i + 1]) <= 0:
            raise RuntimeError(f"harness history is not strictly descending at {i}: {vs}")
    tags = [hist_tag(case, v, canon_semver, canon_pep) for v in vs]
    i = case["idx"]
    tag = (REFS if case["refs"] else "") + tags[i]
    text = canon_semver(vs[i]) if case["form"] == "semver" else canon_pep(vs[i])
    r = run_command(T, tag, tags)
    pos = "oldest" if i == len(vs) - 1 else "has-older"
    if r["status"] != "ok":
        return Violation(f"C34/tag_command_fails[{pos},{case['form']},{r['status']}]",
                         f"compute-tag-metadata on {tag!r} with tags {tags!r} failed: {r.get('msg', r['status'])}", case)
    o = r["outs"]
    if o.get("semver") != text or o.get("tag_suffix") != "v" + text:
        return Violation(f"C34/tag_version_text[{case['form']},refs={case['refs']}]",
                         f"compute-tag-metadata on {tag!r}: semver={o.get('semver')!r} suffix={o.get('tag_suffix')!r}, expected {text!r}", case)
    if r.get("glob") != case["pkg"] + "@v*":
        return Violation("C34/tag_glob", f"compute-tag-metadata on {tag!r} listed tags with glob {r.get('glob')!r}", case)
    got = o.get("change_type")
    if i == len(vs) - 1:
        if got != "major":
            return Violation(f"C34/tag_first_release[got={got}]",
                             f"compute-tag-metadata on the oldest tag {tag!r} of {tags!r} answered {got!r}", case)
        return None
    if r.get("prev") != (canon_semver(vs[i + 1]) if case["form"] == "semver" else canon_pep(vs[i + 1])):
        return Violation("C34/tag_previous_version",
                         f"compute-tag-metadata on {tag!r} with tags {tags!r} compared against {r.get('prev')!r}", case)
    want = expected_change(cmp_spec, vs[i], vs[i + 1])
    if got == "none":
        return Violation("C34/tag_history_none[new is greater]",
                         f"compute-tag-metadata on {tag!r} (previous {tags[i + 1]!r}) answered 'none' although the tag is newer", case)
    if want is not None and got != want:
        return Violation(f"C34/tag_history_names_grown_component[grown={want},got={got}]",
                         f"compute-tag-metadata on {tag!r} (previous {tags[i + 1]!r}) answered {got!r}; the most significant component that grew is {want}", case)
    if got not in SEV:
        return Violation("C34/tag_result_domain", f"compute-tag-metadata on {tag!r} answered {got!r}", case)
    return None


def monitor_chain(detect, case: dict, cmp_spec) -> Violation | None:
    vs = case["vers"]
    for i in range(len(vs) - 1):
        if cmp_spec(vs[i + 1]["ver"], vs[i]["ver"]) <= 0:
            raise RuntimeError(f"harness chain is not strictly ascending at {i}: {vs}")
    try:
        steps = [detect(vs[i + 1]["s"], vs[i]["s"]) for i in range(len(vs) - 1)]
        end = detect(vs[-1]["s"], vs[0]["s"])
    except Exception as e:
        return Violation("C34/chain_detect_raises", f"detect_change_type raised {type(e).__name__}: {e} on chain {[v['s'] for v in vs]}", case)
    names = [v["s"] for v in vs]
    if any(x not in SEV for x in steps + [end]):
        return Violation("C34/chain_result_domain", f"chain {names}: steps {steps}, ends {end!r}", case)
    if end == "none" or "none" in steps:
        return Violation("C34/chain_none[new is greater]", f"ascending chain {names}: steps {steps}, ends {end!r}", case)
    if (end == "major") != ("major" in steps):
        return Violation(f"C34/chain_major_iff_some_step[end={end}]",
                         f"ascending chain {names}: steps {steps} but first against last is {end!r}", case)
    touched = all(expected_change(cmp_spec, vs[i + 1]["ver"], vs[i]["ver"]) is not None for i in range(len(vs) - 1))
    if touched and SEV[end] != max(SEV[s] for s in steps):
        return Violation(f"C34/chain_max_severity[end={end},max={max(steps, key=lambda s: SEV[s])}]",
                         f"ascending chain {names} (every step changes major/minor/patch): steps {steps} but first against last is {end!r}", case)
    return None


class _Tmp:
    def __init__(self) -> None:
        self.dir = tempfile.mkdtemp(prefix="c34pub_")

    def close(self) -> None:
        shutil.rmtree(self.dir, ignore_errors=True)


def monitor_publish(T: dict, case: dict, canon_pep, canon_semver, heavy: bool) -> Violation | None:
    cs = T["changesets"]
    v, s = case["ver"], case["s"]
    pre = v["pre"] is not None
    kind = "pre" if pre else "final"
    # is_rc_version + docker tags
    try:
        flag = cs.is_rc_version(s)
        parts = docker_parts(T, s, flag)
    except Exception as e:
        return Violation("C34/publish_raises", f"docker tags of {s!r} raised {type(e).__name__}: {e}", case)
    if flag is not pre:
        return Violation(f"C34/is_rc_version[{kind}]", f"is_rc_version({s!r}) = {flag!r} for a {kind} version", case)
    comps = s.split("-")[0].split(".")
    want = [s] if pre else [s, "latest", ".".join(comps[:2])]
    if parts != want:
        return Violation(f"C34/docker_tags[{kind},len={min(len(v['rel']), 3)}]",
                         f"docker_image_tags(.., {s!r}, is_rc_version) = {parts!r}, expected {want!r}", case)
    # package.json version -> pyproject version -> current_version
    try:
        tpl = cs._resolve_template("{self:pep440Version}", cs.PackageJson(name="p", version=s, path=None, private=False), {})  # type: ignore[arg-type]
    except Exception as e:
        return Violation("C34/publish_raises", f"_resolve_template pep440Version of {s!r} raised {type(e).__name__}: {e}", case)
    try:
        norm = str(_version(tpl))
    except Exception as e:
        return Violation(f"C34/pyproject_version_invalid[{kind}]", f"pep440Version of {s!r} is {tpl!r}: {type(e).__name__}", case)
    if norm != canon_pep(v):
        return Violation(f"C34/pyproject_version[{kind}]", f"pep440Version of {s!r} is {tpl!r}, which normalises to {norm!r}, not {canon_pep(v)!r}", case)
    if heavy:
        if T.get("tmp") is None:
            T["tmp"] = _Tmp()
        from pathlib import Path

        d = Path(T["tmp"].dir)
        pp = d / "pyproject.toml"
        pp.write_text('[project]\nname = "p"\nversion = "0.0.0.dev0"\n')
        try:
            with contextlib.redirect_stdout(io.StringIO()):
                cs.apply_sync_values(cs.PackageJson(name="p", version=s, path=d, private=False), {})
            name, cur = cs.current_version(pp)
            back = cs.pep440_to_semver(cur)
        except Exception as e:
            return Violation("C34/publish_raises", f"apply_sync_values/current_version for {s!r} raised {type(e).__name__}: {e}", case)
        if cur != canon_pep(v) or back != canon_semver(v):
            return Violation(f"C34/pyproject_roundtrip[{kind}]",
                             f"package.json version {s!r} -> pyproject -> current_version = {cur!r} -> semver {back!r}; expected {canon_pep(v)!r} / {canon_semver(v)!r}", case)
    return None


def _version(s: str):
    from packaging.version import Version

    return Version(s)


def cleanup(T: dict) -> None:
    if T.get("tmp") is not None:
        T["tmp"].close()
        T["tmp"] = None
