import WfProofs.ValidateCache
import WfProofs.ValidateSpec
/-!
Helper lemmas for the C23 extension, part 4: the routing table `handler_for_step` that
`_validate_workflow` returns, in the vocabulary of the step set.
-/
open Validate Handlers

namespace ValidateCache

theorem mem_claims_iff {hs : List Decl} {t h : Nat} :
    (t, h) ∈ claims hs ↔ ∃ d ∈ hs, d.name = h ∧ ∃ l, d.forSteps = some l ∧ t ∈ l := by
  simp only [claims, List.mem_flatMap, List.mem_map, Prod.mk.injEq]
  constructor
  · rintro ⟨d, hd, t', ht', rfl, rfl⟩
    refine ⟨d, hd, rfl, ?_⟩
    cases hf : d.forSteps with
    | none => simp [hf] at ht'
    | some l => exact ⟨l, rfl, by simpa [hf] using ht'⟩
  · rintro ⟨d, hd, rfl, l, hl, ht⟩
    exact ⟨d, hd, t, by simp [hl, ht], rfl, rfl⟩

theorem claim_unique : ∀ (l : List (Nat × Nat)), (l.map (·.1)).Nodup → ∀ a b, a ∈ l → b ∈ l → a.1 = b.1 → a = b := by
  intro l
  induction l with
  | nil => intro _ a b ha; cases ha
  | cons x xs ih =>
    intro hn a b ha hb hab
    simp only [List.map_cons, List.nodup_cons] at hn
    rcases List.mem_cons.mp ha with ha | ha <;> rcases List.mem_cons.mp hb with hb | hb
    · rw [ha, hb]
    · exfalso; apply hn.1; rw [← ha, hab]; exact List.mem_map_of_mem (f := (·.1)) hb
    · exfalso; apply hn.1; rw [← hb, ← hab]; exact List.mem_map_of_mem (f := (·.1)) ha
    · exact ih hn.2 a b ha hb hab

/-- `handler_for_step.get(n)` of a valid table: the scoped claim on `n` if there is one, otherwise the wildcard
handler provided `n` is a declared step that is not itself a handler -/
theorem handlerFor_some_iff {N : List Nat} {hs : List Decl} (hv : valid N hs = true) (n h : Nat) :
    handlerFor N hs n = some h ↔
      (n, h) ∈ claims hs ∨
        ((∀ h', (n, h') ∉ claims hs) ∧ n ∈ N ∧ n ∉ Handlers.names hs ∧ ∃ w ∈ wildcards hs, w.name = h) := by
  simp only [valid, Bool.and_eq_true, decide_eq_true_eq] at hv
  obtain ⟨⟨⟨hw1, _⟩, hnd⟩, _⟩ := hv
  constructor
  · intro hh
    unfold handlerFor at hh
    split at hh
    · rename_i c hc
      injection hh with hh; subst hh
      have hm := List.mem_reverse.mp (List.mem_of_find?_eq_some hc)
      have hc1 : c.1 = n := by simpa using List.find?_some hc
      left; rw [← hc1]; exact hm
    · rename_i hnone
      rw [List.find?_eq_none] at hnone
      split at hh
      · rename_i w hw
        split at hh
        · rename_i hcond
          injection hh with hh; subst hh
          simp only [Bool.and_eq_true, Bool.not_eq_true', List.contains_iff_mem] at hcond
          right
          refine ⟨fun h' hm => ?_, hcond.1, ?_, w, List.mem_of_mem_head? hw, rfl⟩
          · have := hnone (n, h') (List.mem_reverse.mpr hm)
            simp at this
          · intro hm
            have := hcond.2
            rw [← Bool.not_eq_true, List.contains_iff_mem] at this
            exact this hm
        · cases hh
      · cases hh
  · rintro (hm | ⟨hun, hN, hH, w, hw, rfl⟩)
    · unfold handlerFor
      have hex : ∃ c, (claims hs).reverse.find? (fun c => c.1 == n) = some c := by
        cases hf : (claims hs).reverse.find? (fun c => c.1 == n) with
        | some c => exact ⟨c, rfl⟩
        | none =>
          rw [List.find?_eq_none] at hf
          have := hf (n, h) (List.mem_reverse.mpr hm)
          simp at this
      obtain ⟨c, hc⟩ := hex
      rw [hc]
      have hcm : c ∈ claims hs := List.mem_reverse.mp (List.mem_of_find?_eq_some hc)
      have hc1 : c.1 = n := by simpa using List.find?_some hc
      have := claim_unique _ hnd c (n, h) hcm hm hc1
      rw [this]
    · unfold handlerFor
      have hnone : (claims hs).reverse.find? (fun c => c.1 == n) = none := by
        rw [List.find?_eq_none]
        intro c hc heq
        have hc1 : c.1 = n := by simpa using heq
        exact hun c.2 (by rw [← hc1]; exact List.mem_reverse.mp hc)
      have hhead : (wildcards hs).head? = some w := by
        match hl : wildcards hs, hw, hw1 with
        | [a], hw, _ => simp only [List.mem_singleton] at hw; subst hw; rfl
        | a :: b :: r, _, hlen => simp at hlen
      rw [hnone, hhead]
      simp [hN, hH]

theorem mem_routesOf_raw {W : List Step} {n h : Nat} :
    (n, h) ∈ routesOf W ↔ n ∈ Validate.names W ∧ handlerFor (Validate.names W) (handlerDecls W) n = some h := by
  simp only [routesOf, List.mem_filterMap, Option.map_eq_some_iff, Prod.mk.injEq]
  constructor
  · rintro ⟨a, ha, h', hh, rfl, rfl⟩; exact ⟨ha, hh⟩
  · rintro ⟨hn, hh⟩; exact ⟨n, hn, h, hh, rfl, rfl⟩

theorem mem_claims_handlerDecls {W : List Step} {t h : Nat} :
    (t, h) ∈ claims (handlerDecls W) ↔
      ∃ d ∈ W, d.handler = true ∧ d.name = h ∧ ∃ ts, d.forSteps = some ts ∧ t ∈ ts := by
  rw [mem_claims_iff]
  simp only [handlerDecls, List.mem_map, List.mem_filter]
  constructor
  · rintro ⟨_, ⟨d, ⟨hd, hh⟩, rfl⟩, hn, l, hl, ht⟩; exact ⟨d, hd, hh, hn, l, hl, ht⟩
  · rintro ⟨d, hd, hh, hn, l, hl, ht⟩; exact ⟨_, ⟨d, ⟨hd, hh⟩, rfl⟩, hn, l, hl, ht⟩

theorem mem_wildcards_handlerDecls {W : List Step} {h : Nat} :
    (∃ w ∈ wildcards (handlerDecls W), w.name = h) ↔ ∃ d ∈ W, d.handler = true ∧ d.forSteps = none ∧ d.name = h := by
  simp only [wildcards, handlerDecls, List.mem_filter, List.mem_map, Option.isNone_iff_eq_none]
  constructor
  · rintro ⟨_, ⟨⟨d, ⟨hd, hh⟩, rfl⟩, hf⟩, hn⟩; exact ⟨d, hd, hh, hf, hn⟩
  · rintro ⟨d, hd, hh, hf, hn⟩; exact ⟨_, ⟨⟨d, ⟨hd, hh⟩, rfl⟩, hf⟩, hn⟩

end ValidateCache

namespace C23
open ValidateCache

/-- handler `h` owns step `n`: some handler lists `n` in its `for_steps`; or nobody lists it, `n` is a declared step
that is not a handler, and `h` is the wildcard handler -/
def Routes (W : List Step) (n h : Nat) : Prop :=
  (∃ d ∈ W, d.handler = true ∧ d.name = h ∧ ∃ ts, d.forSteps = some ts ∧ n ∈ ts) ∨
  ((∃ s ∈ W, s.name = n ∧ s.handler = false) ∧
   (∀ d ∈ W, d.handler = true → ∀ ts, d.forSteps = some ts → n ∉ ts) ∧
   ∃ d ∈ W, d.handler = true ∧ d.forSteps = none ∧ d.name = h)

theorem mem_routesOf {W : List Step} (hnd : (Validate.names W).Nodup)
    (hv : Handlers.valid (Validate.names W) (handlerDecls W) = true) (n h : Nat) :
    (n, h) ∈ routesOf W ↔ Routes W n h := by
  rw [mem_routesOf_raw, handlerFor_some_iff hv, names_handlerDecls]
  have hvalid := (handlers_valid_iff W).mp hv
  unfold Routes
  constructor
  · rintro ⟨hn, hc | ⟨hun, _, hH, hw⟩⟩
    · exact Or.inl (mem_claims_handlerDecls.mp hc)
    · right
      refine ⟨(target_ok_iff hnd n).mp ⟨hn, hH⟩, ?_, mem_wildcards_handlerDecls.mp hw⟩
      intro d hd hh ts hts hmem
      exact hun d.name (mem_claims_handlerDecls.mpr ⟨d, hd, hh, rfl, ts, hts, hmem⟩)
  · rintro (hc | ⟨hs, hun, hw⟩)
    · have hcl := mem_claims_handlerDecls.mpr hc
      obtain ⟨d, hd, hh, _, ts, hts, hmem⟩ := hc
      have htgt : n ∈ claimTargets W := by
        simp only [claimTargets, List.mem_flatMap, List.mem_filter]
        exact ⟨d, ⟨hd, hh⟩, by simp [hts, hmem]⟩
      exact ⟨(hvalid.2.1 n htgt).1, Or.inl hcl⟩
    · have := (target_ok_iff hnd n).mpr hs
      refine ⟨this.1, Or.inr ⟨?_, this.1, this.2, mem_wildcards_handlerDecls.mpr hw⟩⟩
      intro h' hm
      obtain ⟨d, hd, hh, _, ts, hts, hmem⟩ := mem_claims_handlerDecls.mp hm
      exact hun d hd hh ts hts hmem

end C23
