import WfProofs.EventLogInv
/-!
State-level facts of the event-log machine, for arbitrary action lists:
the invariant of every reachable state, append-only growth and publication order of
the log, safety of every subscriber, and completeness under fair scheduling.
-/
namespace EventLog

structure StInv (b : Backend) (s : St) : Prop where
  consec : Consec 0 s.log
  subs : ∀ x ∈ s.subs, SubInv b s.log x

theorem mem_modify {α} {l : List α} {i : Nat} {f : α → α} {x : α} (h : x ∈ l.modify i f) :
    x ∈ l ∨ ∃ y ∈ l, x = f y := by
  induction l generalizing i with
  | nil => simp at h
  | cons a t ih =>
    cases i with
    | zero =>
      simp at h
      rcases h with h | h
      · exact Or.inr ⟨a, by simp, h⟩
      · exact Or.inl (by simp [h])
    | succ i =>
      simp at h
      rcases h with h | h
      · exact Or.inl (by simp [h])
      · rcases ih h with h' | ⟨y, hy, hxy⟩
        · exact Or.inl (by simp [h'])
        · exact Or.inr ⟨y, by simp [hy], hxy⟩

theorem stinv_init (b : Backend) : StInv b St.init := ⟨by simp [St.init, Consec], by simp [St.init]⟩

theorem stinv_modify {b : Backend} {s : St} (h : StInv b s) (i : Nat) (f : Sub → Sub)
    (hf : ∀ x, SubInv b s.log x → SubInv b s.log (f x)) :
    StInv b { s with subs := s.subs.modify i f } := by
  refine ⟨h.consec, ?_⟩
  intro x hx
  rcases mem_modify hx with hx | ⟨y, hy, rfl⟩
  · exact h.subs x hx
  · exact hf y (h.subs y hy)

theorem stinv_step {b : Backend} {s : St} (h : StInv b s) (a : Act) (ha : a.ok = true) :
    StInv b (step b s a) := by
  cases a with
  | append tag ty tys =>
    refine ⟨consec_step b h.consec tag ty tys, ?_⟩
    intro x hx
    simp only [step, List.mem_map] at hx
    obtain ⟨y, hy, rfl⟩ := hx
    exact inv_notify _ (h.subs y hy)
  | xappend tag ty tys =>
    cases b with
    | mem => exact h
    | sql =>
      refine ⟨consec_step .sql h.consec tag ty tys, ?_⟩
      intro x hx
      exact inv_xappend _ (h.subs x hx)
  | trim n => simp [Act.ok] at ha
  | openSub after =>
    refine ⟨h.consec, ?_⟩
    intro x hx
    simp only [step, List.mem_append, List.mem_singleton] at hx
    rcases hx with hx | rfl
    · exact h.subs x hx
    · exact inv_new b s.log after
  | init i => exact stinv_modify h i _ fun x hx => inv_init h.consec hx
  | read i => exact stinv_modify h i _ fun x hx => inv_read h.consec hx
  | emit i => exact stinv_modify h i _ fun x hx => inv_emit h.consec hx
  | wake i => exact stinv_modify h i _ fun x hx => inv_wake hx
  | timeout i => exact stinv_modify h i _ fun x hx => inv_timeout hx
  | cancel i => exact stinv_modify h i _ fun x hx => inv_cancel hx

theorem stinv_runFrom {b : Backend} {s : St} (h : StInv b s) (acts : List Act)
    (hok : ∀ a ∈ acts, a.ok = true) : StInv b (runFrom b s acts) := by
  induction acts generalizing s with
  | nil => exact h
  | cons a rest ih =>
    simp only [runFrom, List.foldl_cons]
    exact ih (stinv_step h a (hok a (by simp))) fun x hx => hok x (by simp [hx])

theorem stinv_run (b : Backend) (acts : List Act) (hok : ∀ a ∈ acts, a.ok = true) :
    StInv b (run b acts) := stinv_runFrom (stinv_init b) acts hok

theorem runFrom_append (b : Backend) (s : St) (a1 a2 : List Act) :
    runFrom b s (a1 ++ a2) = runFrom b (runFrom b s a1) a2 := by
  simp [runFrom, List.foldl_append]

/-! ## the log: append-only, in publication order -/

theorem log_step (b : Backend) (s : St) (a : Act) (ha : a.ok = true) :
    ∃ more, (step b s a).log = s.log ++ more ∧ more.map Ev.payload = published b [a] := by
  cases a with
  | append tag ty tys => exact ⟨[mkEv b s.log tag ty tys], rfl, by simp [published, Ev.payload, mkEv]⟩
  | xappend tag ty tys =>
    cases b with
    | mem => exact ⟨[], by simp [step], by simp [published]⟩
    | sql => exact ⟨[mkEv .sql s.log tag ty tys], rfl, by simp [published, Ev.payload, mkEv]⟩
  | trim n => simp [Act.ok] at ha
  | openSub _ => exact ⟨[], by simp [step], by simp [published]⟩
  | init _ => exact ⟨[], by simp [step], by simp [published]⟩
  | read _ => exact ⟨[], by simp [step], by simp [published]⟩
  | emit _ => exact ⟨[], by simp [step], by simp [published]⟩
  | wake _ => exact ⟨[], by simp [step], by simp [published]⟩
  | timeout _ => exact ⟨[], by simp [step], by simp [published]⟩
  | cancel _ => exact ⟨[], by simp [step], by simp [published]⟩

theorem published_cons (b : Backend) (a : Act) (rest : List Act) :
    published b (a :: rest) = published b [a] ++ published b rest := by
  cases a <;> try (simp [published])
  cases b <;> simp

theorem log_runFrom (b : Backend) (s : St) (acts : List Act) (hok : ∀ a ∈ acts, a.ok = true) :
    ∃ more, (runFrom b s acts).log = s.log ++ more ∧ more.map Ev.payload = published b acts := by
  induction acts generalizing s with
  | nil => exact ⟨[], by simp [runFrom], by simp [published]⟩
  | cons a rest ih =>
    obtain ⟨m1, h1, p1⟩ := log_step b s a (hok a (by simp))
    obtain ⟨m2, h2, p2⟩ := ih (step b s a) fun x hx => hok x (by simp [hx])
    refine ⟨m1 ++ m2, ?_, ?_⟩
    · simp only [runFrom, List.foldl_cons] at h2 ⊢
      rw [h2, h1]; simp
    · rw [published_cons]; simp [p1, p2]

theorem consec_seqs {l : List Ev} (h : Consec 0 l) : ∀ i (hi : i < l.length), l[i].seq = i := by
  intro i hi
  have := consec_getElem? h (List.getElem?_eq_getElem hi)
  simpa using this

/-! ## safety of one subscriber -/

theorem sub_safe {b : Backend} {log : List Ev} {x : Sub} (hc : Consec 0 log) (h : SubInv b log x) :
    x.out <+: stream x.after log := by
  rw [stream_eq hc]
  exact prefix_cut h.pre h.noTermInit

theorem sub_done {b : Backend} {log : List Ev} {x : Sub} (hc : Consec 0 log) (h : SubInv b log x)
    (hd : x.phase = .done) : x.out = stream x.after log := by
  obtain ⟨e, hl, ht⟩ := h.doneLast hd
  rw [stream_eq hc]
  exact (cut_eq_of_prefix_terminal h.pre h.noTermInit hl ht).symm

/-! ## completeness under fair scheduling -/

def subRound (b : Backend) (log : List Ev) (x : Sub) : Sub :=
  Sub.emit b (Sub.read b log (Sub.timeout b (Sub.wake (Sub.init b log x))))

def iter (f : Sub → Sub) : Nat → Sub → Sub
  | 0, x => x
  | n + 1, x => iter f n (f x)

theorem runFrom_round (b : Backend) (s : St) (i : Nat) :
    runFrom b s (round i) = { s with subs := s.subs.modify i (subRound b s.log) } := by
  simp [runFrom, round, step, List.modify_modify_eq, Function.comp_def]
  rfl

theorem modify_iter_zero (l : List Sub) (i : Nat) (f : Sub → Sub) : l.modify i (iter f 0) = l := by
  apply List.ext_getElem?
  intro j
  rw [List.getElem?_modify]
  cases l[j]? <;> simp [iter]

theorem runFrom_rounds (b : Backend) (s : St) (i n : Nat) :
    runFrom b s (rounds i n) = { s with subs := s.subs.modify i (iter (subRound b s.log) n) } := by
  induction n generalizing s with
  | zero =>
    rw [modify_iter_zero]
    rfl
  | succ n ih =>
    rw [rounds, runFrom_append, runFrom_round, ih]
    simp only [List.modify_modify_eq]
    rfl

/-- nothing more to do for this subscriber with this log -/
def Settled (log : List Ev) (x : Sub) : Prop :=
  x.phase = .done ∨ ((∃ n, x.phase = .waiting n) ∧ log.length ≤ startIdx x.after + x.out.length)

theorem subRound_inv {b : Backend} {log : List Ev} {x : Sub} (hc : Consec 0 log) (h : SubInv b log x) :
    SubInv b log (subRound b log x) :=
  inv_emit hc (inv_read hc (inv_timeout (inv_wake (inv_init hc h))))

theorem emit_progress {b : Backend} {x : Sub} (e : Ev) (rest : List Ev)
    (hp : x.phase = .yielding (e :: rest)) :
    (x.emit b).out.length = x.out.length + 1 ∧ (x.emit b).phase ≠ .closed ∧ (x.emit b).after = x.after := by
  unfold Sub.emit
  rw [hp]
  simp only
  split
  · simp
  · split <;> simp

theorem read_cases {b : Backend} {log : List Ev} {x : Sub} (hc : Consec 0 log) (h : SubInv b log x)
    (hp : x.phase = .reading) :
    ((x.read b log).phase = .waiting false ∧ (x.read b log).out = x.out ∧ (x.read b log).after = x.after ∧
        log.length ≤ startIdx x.after + x.out.length) ∨
    (∃ e rest, (x.read b log).phase = .yielding (e :: rest) ∧ (x.read b log).out = x.out ∧
        (x.read b log).after = x.after) := by
  have hb := readBatch_eq (b := b) hc x.after x.cur
  rw [h.pos] at hb
  unfold Sub.read
  rw [hp]
  simp only
  split
  · rename_i hnil
    left
    rw [hnil] at hb
    have := congrArg List.length hb
    simp at this
    refine ⟨rfl, rfl, rfl, by omega⟩
  · rename_i e rest _
    right
    exact ⟨e, rest, rfl, rfl, rfl⟩

theorem pre_cases (b : Backend) (log : List Ev) (x : Sub) (hl : x.phase ≠ .closed)
    (hy : ∀ bt, x.phase = .yielding bt → bt ≠ []) :
    (Sub.timeout b (Sub.wake (Sub.init b log x))).after = x.after ∧
    (Sub.timeout b (Sub.wake (Sub.init b log x))).out = x.out ∧
    ((Sub.timeout b (Sub.wake (Sub.init b log x))).phase = .reading ∨
      (∃ e rest, (Sub.timeout b (Sub.wake (Sub.init b log x))).phase = .yielding (e :: rest)) ∨
      (Sub.timeout b (Sub.wake (Sub.init b log x))).phase = .done ∨
      (b = .mem ∧ (Sub.timeout b (Sub.wake (Sub.init b log x))).phase = .waiting false)) := by
  obtain ⟨after, cur, phase, out⟩ := x
  cases phase with
  | fresh => cases b <;> simp [Sub.init, Sub.wake, Sub.timeout]
  | reading => cases b <;> simp [Sub.init, Sub.wake, Sub.timeout]
  | yielding bt =>
    cases bt with
    | nil => exact absurd rfl (hy [] rfl)
    | cons e rest => cases b <;> simp [Sub.init, Sub.wake, Sub.timeout]
  | waiting n => cases n <;> cases b <;> simp [Sub.init, Sub.wake, Sub.timeout]
  | done => cases b <;> simp [Sub.init, Sub.wake, Sub.timeout]
  | closed => exact absurd rfl hl

/-- one round of a live subscriber either yields one more event or leaves it settled -/
theorem round_progress {b : Backend} {log : List Ev} {x : Sub} (hc : Consec 0 log) (h : SubInv b log x)
    (hl : x.phase ≠ .closed) :
    let y := subRound b log x
    y.after = x.after ∧ y.phase ≠ .closed ∧
      ((y.out.length = x.out.length + 1) ∨ (Settled log y ∧ y.out = x.out)) := by
  have h1 := inv_init hc h
  have h2 := inv_wake h1
  have h3 := inv_timeout (b := b) h2
  let z := Sub.timeout b (Sub.wake (Sub.init b log x))
  have hz : SubInv b log z := h3
  obtain ⟨hza1, hza2, hzp⟩ := pre_cases b log x hl fun bt hbt => (h.batch bt hbt).1
  have hza : z.after = x.after ∧ z.out = x.out := ⟨hza1, hza2⟩
  have hzp : z.phase = .reading ∨ (∃ e rest, z.phase = .yielding (e :: rest)) ∨ z.phase = .done ∨
      (b = .mem ∧ z.phase = .waiting false) := hzp
  show (Sub.emit b (Sub.read b log z)).after = x.after ∧ (Sub.emit b (Sub.read b log z)).phase ≠ .closed ∧
      (((Sub.emit b (Sub.read b log z)).out.length = x.out.length + 1) ∨
        (Settled log (Sub.emit b (Sub.read b log z)) ∧ (Sub.emit b (Sub.read b log z)).out = x.out))
  rcases hzp with hr | ⟨e, rest, hy⟩ | hd | ⟨hb, hw⟩
  · rcases read_cases hc hz hr with ⟨hw, ho, ha, hlen⟩ | ⟨e, rest, hy, ho, ha⟩
    · have he : Sub.emit b (Sub.read b log z) = Sub.read b log z := by
        unfold Sub.emit; rw [hw]
      rw [he]
      refine ⟨by rw [ha]; exact hza.1, by rw [hw]; simp, Or.inr ⟨Or.inr ⟨⟨false, hw⟩, ?_⟩, by rw [ho]; exact hza.2⟩⟩
      rw [ha, ho]; exact hlen
    · have hzr := inv_read hc hz
      obtain ⟨hlen, hnc, haf⟩ := emit_progress e rest hy
      refine ⟨by rw [haf, ha]; exact hza.1, hnc, Or.inl ?_⟩
      rw [hlen, ho, hza.2]
  · have hrd : Sub.read b log z = z := by unfold Sub.read; rw [hy]
    rw [hrd]
    obtain ⟨hlen, hnc, haf⟩ := emit_progress e rest hy
    refine ⟨by rw [haf]; exact hza.1, hnc, Or.inl ?_⟩
    rw [hlen, hza.2]
  · have hrd : Sub.read b log z = z := by unfold Sub.read; rw [hd]
    have he : Sub.emit b z = z := by unfold Sub.emit; rw [hd]
    rw [hrd, he]
    exact ⟨hza.1, by rw [hd]; simp, Or.inr ⟨Or.inl hd, hza.2⟩⟩
  · have hrd : Sub.read b log z = z := by unfold Sub.read; rw [hw]
    have he : Sub.emit b z = z := by unfold Sub.emit; rw [hw]
    rw [hrd, he]
    refine ⟨hza.1, by rw [hw]; simp, Or.inr ⟨Or.inr ⟨⟨false, hw⟩, ?_⟩, hza.2⟩⟩
    exact hz.noMiss hb hw

theorem settled_stable {b : Backend} {log : List Ev} {x : Sub} (hc : Consec 0 log) (h : SubInv b log x)
    (hs : Settled log x) : Settled log (subRound b log x) ∧ (subRound b log x).out = x.out := by
  have hl : x.phase ≠ .closed := by
    rcases hs with hd | ⟨⟨n, hw⟩, _⟩
    · rw [hd]; simp
    · rw [hw]; simp
  obtain ⟨ha, _, hprog⟩ := round_progress hc h hl
  rcases hprog with hlen | hok
  · -- a settled subscriber cannot yield: its output already covers the log / it is done
    exfalso
    have hpre := (subRound_inv hc h).pre
    have hle := hpre.length_le
    rw [ha] at hle
    simp at hle
    rcases hs with hd | ⟨_, hlen'⟩
    · -- done: the output ends in a terminal event; a longer output would have a terminal inside
      obtain ⟨e, hlast, ht⟩ := h.doneLast hd
      have hx : x.out <+: log.drop (startIdx x.after) := h.pre
      have hy := (subRound_inv hc h).noTermInit
      have hxy : x.out <+: (subRound b log x).out := by
        apply List.prefix_of_prefix_length_le hx
        · rw [← ha]; exact hpre
        · omega
      obtain ⟨t, ht'⟩ := hxy
      have htne : t ≠ [] := by
        intro h0; subst h0
        simp at ht'
        rw [← ht'] at hlen; omega
      have hmem : e ∈ (subRound b log x).out.dropLast := by
        rw [← ht']
        have hxne : x.out ≠ [] := by intro h0; rw [h0] at hlast; simp at hlast
        rw [List.dropLast_append_of_ne_nil htne]
        have : e ∈ x.out := List.mem_of_getLast? hlast
        simp [this]
      have := hy e hmem
      rw [ht] at this; cases this
    · omega
  · exact hok

theorem iter_progress {b : Backend} {log : List Ev} (hc : Consec 0 log) (n : Nat) :
    ∀ x : Sub, SubInv b log x → x.phase ≠ .closed →
      let y := iter (subRound b log) n x
      SubInv b log y ∧ y.after = x.after ∧ (Settled log y ∨ x.out.length + n ≤ y.out.length) := by
  induction n with
  | zero => intro x h _; exact ⟨h, rfl, Or.inr (by simp [iter])⟩
  | succ n ih =>
    intro x h hl
    obtain ⟨ha, hnc, hprog⟩ := round_progress hc h hl
    have hinv := subRound_inv hc h
    obtain ⟨hi, hia, hip⟩ := ih (subRound b log x) hinv hnc
    simp only [iter]
    refine ⟨hi, by rw [hia, ha], ?_⟩
    rcases hprog with hlen | ⟨hs, ho⟩
    · rcases hip with hs' | hge
      · exact Or.inl hs'
      · right; omega
    · -- settled now: stays settled
      left
      clear hip hi hia
      have : ∀ m (y : Sub), SubInv b log y → Settled log y → Settled log (iter (subRound b log) m y) := by
        intro m
        induction m with
        | zero => intro y _ hy; exact hy
        | succ m ihm =>
          intro y hy hsy
          simp only [iter]
          exact ihm _ (subRound_inv hc hy) (settled_stable hc hy hsy).1
      exact this n _ hinv hs

theorem settled_complete {b : Backend} {log : List Ev} {x : Sub} (hc : Consec 0 log) (h : SubInv b log x)
    (hs : Settled log x) :
    x.out = stream x.after log ∧ ((∃ e ∈ stream x.after log, e.terminal = true) → x.phase = .done) := by
  rcases hs with hd | ⟨⟨n, hw⟩, hlen⟩
  · exact ⟨sub_done hc h hd, fun _ => hd⟩
  · have hfull : x.out = log.drop (startIdx x.after) := by
      apply h.pre.eq_of_length_le
      simp; omega
    have hnt : ∀ e ∈ x.out, e.terminal = false := by
      apply h.noTerm <;> simp [hw]
    have hst : stream x.after log = x.out := by
      rw [stream_eq hc, ← hfull, cut_noterm hnt]
    refine ⟨hst.symm, ?_⟩
    rintro ⟨e, he, ht⟩
    rw [hst] at he
    rw [hnt e he] at ht; cases ht

end EventLog
