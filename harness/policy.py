"""Correspondence for model M2 (retry building blocks): random two-level policy
specs are built both as real `workflows.retry_policy` objects and as lines for the
Lean driver; results are compared as exact rationals.

Exactness: parameters are small dyadic rationals and the jitter draw is a dyadic with
few bits (the module's `random` is replaced, in this process only, by a stub whose
`Random(seed).random()` returns `seed/256`; `uniform` keeps CPython's formula
`a + (b-a)*random()`), so every float operation on the compared stream is exact.
A separate *extreme* stream (huge attempts/bases) runs on the implementation only.
"""
from __future__ import annotations

import math
import random
from fractions import Fraction
from typing import Any

import workflows.retry_policy as RP

from .runner import Divergence, Driver, Env, Outcome, Violation, diff_streams


class _StubRandom:
    def __init__(self, seed: Any = None):
        self.seed = seed if seed is not None else 0

    def random(self) -> float:
        return (self.seed % 257) / 256.0

    def uniform(self, a: float, b: float) -> float:
        return a + (b - a) * self.random()


class _StubRandomModule:
    Random = _StubRandom

    @staticmethod
    def uniform(a: float, b: float) -> float:  # unseeded path: not used on the compared stream
        return a + (b - a) * 0.5


def q(x: float | int) -> str:
    f = Fraction(x)
    return f"{f.numerator}/{f.denominator}"


class Boom(Exception):
    pass


EXC_CLASSES = [ValueError, KeyError, RuntimeError, TimeoutError, Boom]


def mk_exc(i: int) -> Exception:
    return EXC_CLASSES[i % len(EXC_CLASSES)](f"e{i}")


def _td(rng: random.Random, x: Any) -> Any:
    """a time argument as the API accepts it: a number of seconds or (30%) the same duration as a timedelta (days included)"""
    import datetime

    if x is not None and rng.random() < 0.3:
        return datetime.timedelta(seconds=x)
    return x


def gen_wleaf(rng: random.Random) -> tuple[Any, str]:
    k = rng.randrange(6)
    D = [0, 0.5, 1, 2, 3, 0.25]
    if k == 0:
        w = rng.choice(D + [5, 10, 90000, 172805])
        return RP.wait_fixed(_td(rng, w)), f"fixed {q(w)}"
    if k == 1:
        m, b, mx, mn = rng.choice([0.5, 1, 2, 3]), rng.choice([1, 2, 3, 1.5]), rng.choice([1, 8, 60, 100, 90000]), rng.choice([0, 0.5, 2, -1])
        return RP.wait_exponential(multiplier=m, exp_base=b, max=_td(rng, mx), min=_td(rng, mn)), f"exp {q(m)} {q(b)} {q(mx)} {q(mn)}"
    if k == 2:
        s, i = rng.choice(D), rng.choice([0.5, 1, 2, 100, -1])
        mx = rng.choice([None, 2, 10, 1000])
        obj = RP.wait_incrementing(start=s, increment=i) if mx is None else RP.wait_incrementing(start=s, increment=i, max=mx)
        return obj, f"inc {q(s)} {q(i)} {'inf' if mx is None else q(mx)}"
    if k == 3:
        mn = rng.choice([0, 0.5, 1, 2])
        mx = mn + rng.choice([0, 0.5, 1, 2, 4, 86400])
        return RP.wait_random(min=_td(rng, mn), max=_td(rng, mx)), f"rand {q(mn)} {q(mx)}"
    if k == 4:
        i, b, mx, j = rng.choice([0.5, 1, 2]), rng.choice([1, 2, 3]), rng.choice([8, 30, 60]), rng.choice([0, 0.5, 1, 2])
        return RP.wait_exponential_jitter(initial=i, exp_base=b, max=mx, jitter=j), f"jit {q(i)} {q(b)} {q(mx)} {q(j)}"
    m, b, mx, mn = rng.choice([0.5, 1, 2]), rng.choice([1, 2, 3]), rng.choice([8, 64]), rng.choice([0, 0.5, 1])
    return RP.wait_random_exponential(multiplier=m, exp_base=b, max=mx, min=mn), f"rexp {q(m)} {q(b)} {q(mx)} {q(mn)}"


def gen_wait(rng: random.Random) -> tuple[Any, str]:
    r = rng.random()
    if r < 0.5:
        o, s = gen_wleaf(rng)
        return o, "WL " + s
    n = rng.randint(1, 4)
    leaves = [gen_wleaf(rng) for _ in range(n)]
    if r < 0.75:
        return RP.wait_chain(*[o for o, _ in leaves]), f"WC {n} " + " ".join(s for _, s in leaves)
    if rng.random() < 0.5 and n >= 2:
        acc = leaves[0][0]
        for o, _ in leaves[1:]:
            acc = acc + o  # operator sugar; nested wait_combine sums the same parts
        return acc, f"WS {n} " + " ".join(s for _, s in leaves)
    return RP.wait_combine(*[o for o, _ in leaves]), f"WS {n} " + " ".join(s for _, s in leaves)


def gen_sleaf(rng: random.Random) -> tuple[Any, str]:
    k = rng.randrange(4)
    if k == 0:
        n = rng.choice([0, 1, 2, 3, 5, -1])
        return RP.stop_after_attempt(n), f"att {q(n)}"
    if k == 1:
        d = rng.choice([0, 0.5, 2, 5, 10, 90000, 172800])
        return RP.stop_after_delay(_td(rng, d)), f"del {q(d)}"
    if k == 2:
        d = rng.choice([0.5, 2, 5, 10, 90000])
        return RP.stop_before_delay(_td(rng, d)), f"bef {q(d)}"
    return RP.stop_never(), "never"


def gen_stop(rng: random.Random) -> tuple[Any, str]:
    r = rng.random()
    if r < 0.5:
        o, s = gen_sleaf(rng)
        return o, "SL " + s
    n = rng.randint(1, 3)
    leaves = [gen_sleaf(rng) for _ in range(n)]
    if r < 0.75:
        if n == 2 and rng.random() < 0.5:
            return leaves[0][0] | leaves[1][0], f"SA {n} " + " ".join(s for _, s in leaves)
        return RP.stop_any(*[o for o, _ in leaves]), f"SA {n} " + " ".join(s for _, s in leaves)
    if n == 2 and rng.random() < 0.5:
        return leaves[0][0] & leaves[1][0], f"SB {n} " + " ".join(s for _, s in leaves)
    return RP.stop_all(*[o for o, _ in leaves]), f"SB {n} " + " ".join(s for _, s in leaves)


def gen_cleaf(rng: random.Random) -> tuple[Any, str]:
    k = rng.randrange(4)
    if k == 0:
        return RP.retry_always(), "always"
    if k == 1:
        return RP.retry_never(), "never"
    ids = sorted(rng.sample(range(5), rng.randint(1, 3)))
    types = tuple(EXC_CLASSES[i] for i in ids)
    # exception i has class EXC_CLASSES[i % 5]; KeyError is a LookupError only: no subclassing among the five
    allids = [j for j in range(10) if (j % 5) in ids]
    if k == 2:
        return RP.retry_if_exception_type(types), f"in {len(allids)} " + " ".join(map(str, allids))
    return RP.retry_if_not_exception_type(types), f"notin {len(allids)} " + " ".join(map(str, allids))


def gen_cond(rng: random.Random) -> tuple[Any, str]:
    r = rng.random()
    if r < 0.3:
        return None, "CN"
    if r < 0.6:
        o, s = gen_cleaf(rng)
        return o, "CL " + s
    n = rng.randint(1, 3)
    leaves = [gen_cleaf(rng) for _ in range(n)]
    if r < 0.8:
        if n == 2 and rng.random() < 0.5:
            return leaves[0][0] | leaves[1][0], f"CA {n} " + " ".join(s for _, s in leaves)
        return RP.retry_any(*[o for o, _ in leaves]), f"CA {n} " + " ".join(s for _, s in leaves)
    if n == 2 and rng.random() < 0.5:
        return leaves[0][0] & leaves[1][0], f"CB {n} " + " ".join(s for _, s in leaves)
    return RP.retry_all(*[o for o, _ in leaves]), f"CB {n} " + " ".join(s for _, s in leaves)


def fmt(x: Any) -> str:
    if x is None:
        return "none"
    return "some " + q(x)


def correspondence(env: Env, out: Outcome, n: int) -> None:
    rng = random.Random(env.rng.randrange(1 << 30))
    real_random = RP.random
    RP.random = _StubRandomModule  # type: ignore[assignment]
    ops: list[str] = []
    exp: list[str] = []
    try:
        for _ in range(n):
            kind = rng.random()
            attempts = rng.choice([0, 1, 2, 3, 4, 7, 12])
            seed = rng.randrange(257)
            u = q(seed / 256.0)
            if kind < 0.5:
                (c, cs), (w, ws), (s, ss) = gen_cond(rng), gen_wait(rng), gen_stop(rng)
                pol = RP.retry_policy(retry=c, wait=w, stop=s)
                el = rng.choice([0, 0.5, 1, 2.5, 5, 10, 100, 4000, 100000])
                e = rng.randrange(10)
                ops.append(f"next {cs} {ws} {ss} {q(el)} {attempts} {e} {u}")
                first = fmt(pol.next(el, attempts, mk_exc(e), seed=seed))
                # a policy object is evaluated once per failure of every invocation of its step: the SAME object must answer the same again
                exp.append(fmt(pol.next(el, attempts, mk_exc(e), seed=seed)))
                if first != exp[-1]:
                    out.violations.append(Violation(f"{env.prop}/policy_object_not_reusable", f"next({el}, {attempts}, e{e}, seed={seed}) of one policy object ({cs} | {ws} | {ss}) answered {first} and then {exp[-1]}", {"op": ops[-1]}))
                out.count("next:" + ("none" if exp[-1] == "none" else "delay"))
            elif kind < 0.8:
                w, ws = gen_wait(rng)
                ops.append(f"wait {ws} {attempts} {u}")
                first = q(w(attempts, seed=seed))
                exp.append(q(w(attempts, seed=seed)))
                if first != exp[-1]:
                    out.violations.append(Violation(f"{env.prop}/wait_object_not_reusable", f"wait strategy {ws} evaluated twice with (attempts={attempts}, seed={seed}) gave {first} and then {exp[-1]}", {"op": ops[-1]}))
                out.count("wait:" + ws.split()[0])
            elif kind < 0.92:
                s, ss = gen_stop(rng)
                el, up = rng.choice([0, 0.5, 2, 5, 10, 4000, 100000]), rng.choice([0, 0.5, 2, 5])
                ops.append(f"stop {ss} {attempts} {q(el)} {q(up)}")
                exp.append("1" if s(attempts, el, upcoming_sleep=up) else "0")
                out.count("stop")
            else:
                c, cs = gen_cond(rng)
                e = rng.randrange(10)
                ops.append(f"cond {cs} {e}")
                exp.append("none" if c is None else ("1" if c(mk_exc(e)) else "0"))
                out.count("cond")
            out.evaluations += 1
            out.nontrivial(ops[-1])
    finally:
        RP.random = real_random  # type: ignore[assignment]
    for s in ops[:4]:
        out.sample({"op": s})
    try:
        mo = Driver("policy").run(ops)
    except Exception as ex:
        out.divergences.append(Divergence("policy", 0, "<driver>", repr(ex), ""))
        return
    out.traces_validated += len(ops)
    out.disagreements_checked += len(ops)
    d = diff_streams("policy", ops, mo, exp)
    if d is not None:
        out.divergences.append(d)


def extreme_and_seed_stream(env: Env, out: Outcome, n: int) -> None:
    """Implementation only: documented bounds, finiteness, determinism per seed, for extreme inputs."""
    rng = random.Random(env.rng.randrange(1 << 30))
    for _ in range(n):
        attempts = rng.choice([0, 1, 5, 50, 1023, 1024, 1025, 5000, 10 ** 6])
        seed = rng.randrange(1 << 32)
        mult = rng.choice([0.0, 1e-9, 0.5, 1.0, 3.0, 1e6])
        base = rng.choice([0.0, 0.5, 1.0, 2.0, 10.0, 1e6])
        mx = rng.choice([0.0, 1.0, 60.0, 1e9])
        mn = rng.choice([0.0, 0.5, 5.0])
        cases: list[tuple[str, Any, float, float]] = [
            ("wait_exponential", RP.wait_exponential(multiplier=mult, exp_base=base, max=mx, min=mn), max(0.0, mn), max(max(0.0, mn), mx)),
            ("wait_exponential_jitter", RP.wait_exponential_jitter(initial=mult, exp_base=base, max=mx, jitter=1.0), 0.0, mx),
            ("wait_random_exponential", RP.wait_random_exponential(multiplier=mult, exp_base=base, max=mx, min=mn), min(mn, max(max(0.0, mn), mx)), max(max(0.0, mn), mx)),
            ("wait_incrementing", RP.wait_incrementing(start=mn, increment=mult, max=mx), 0.0, max(0.0, mx)),
            ("wait_random", RP.wait_random(min=mn, max=mn + mx), mn, mn + mx),
            ("wait_fixed", RP.wait_fixed(mx), mx, mx),
        ]
        case = {"attempts": attempts, "seed": seed, "multiplier": mult, "exp_base": base, "max": mx, "min": mn}
        for name, w, lo, hi in cases:
            out.evaluations += 1
            out.count("extreme:" + name)
            try:
                a = w(attempts, seed=seed)
                b = w(attempts, seed=seed)
            except Exception as ex:
                out.violations.append(Violation("C07/wait_raises", f"{name}({case}) raised {type(ex).__name__}: {ex}", {"strategy": name, **case}))
                continue
            if a != b:
                out.violations.append(Violation("C07/not_deterministic_for_seed", f"{name} gave {a} and {b} for one seed", {"strategy": name, **case}))
            if not (isinstance(a, float) and math.isfinite(a)) or a < 0 or a < lo - 1e-9 or a > hi + 1e-9:
                out.violations.append(Violation("C07/out_of_bounds", f"{name}({case}) = {a!r}, documented bounds [{lo}, {hi}]", {"strategy": name, **case}))
        # jitter actually depends on the seed
        j = RP.wait_random(min=0, max=1)
        vals = {j(0, seed=s) for s in range(seed % 1000, seed % 1000 + 8)}
        if len(vals) < 4:
            out.violations.append(Violation("C07/jitter_ignores_seed", f"wait_random gives {len(vals)} distinct values for 8 seeds", case))


def units_stream(env: Env, out: Outcome, n: int) -> None:
    """implementation only: a time argument written as a timedelta means the same as its total number of seconds"""
    import datetime

    rng = random.Random(env.rng.randrange(1 << 30))
    secs = [0, 0.5, 1.5, 59, 3600, 86399, 86400, 90000, 172805, 7 * 86400]
    for _ in range(n):
        x = rng.choice(secs)
        td = datetime.timedelta(seconds=x)
        k = rng.choice([0, 1, 2, 5])
        seed = rng.randrange(1 << 20)
        el = rng.choice([0, 1, 100, 3599, 3600, 86400, 90001, 10 ** 6])
        pairs = [("wait_fixed", RP.wait_fixed(x), RP.wait_fixed(td), lambda o: o(k, seed=seed)),
                 ("wait_exponential(max)", RP.wait_exponential(multiplier=1e6, max=x), RP.wait_exponential(multiplier=1e6, max=td), lambda o: o(k, seed=seed)),
                 ("wait_incrementing(start)", RP.wait_incrementing(start=x, increment=1, max=10 ** 7), RP.wait_incrementing(start=td, increment=1, max=10 ** 7), lambda o: o(k, seed=seed)),
                 ("wait_random(max)", RP.wait_random(min=0, max=x), RP.wait_random(min=0, max=td), lambda o: o(k, seed=seed)),
                 ("stop_after_delay", RP.stop_after_delay(x), RP.stop_after_delay(td), lambda o: o(k, el, upcoming_sleep=0)),
                 ("stop_before_delay", RP.stop_before_delay(x), RP.stop_before_delay(td), lambda o: o(k, el, upcoming_sleep=1))]
        for name, a, b, f in pairs:
            out.evaluations += 1
            va, vb = f(a), f(b)
            if va != vb:
                out.violations.append(Violation(f"{env.prop}/timedelta_argument_differs:{name}",
                                                f"{name}({x}) answers {va!r} but {name}(timedelta(seconds={x})) answers {vb!r} (attempts={k}, elapsed={el})",
                                                {"strategy": name, "seconds": x, "attempts": k, "elapsed": el, "seed": seed}))
        out.count("units")
        out.nontrivial(("units", x, k, el))


def budget_stream(env: Env, out: Outcome, n: int) -> None:
    """C05, implementation only: how many times a failing step runs under a policy whose stop condition is a NESTED tree
    (named constructors and `&` / `|` mixed, both combinator kinds inside each other): the retry loop `next(elapsed, failures, ..)`
    must give up at the first failure count at which the Boolean tree of the leaves' own answers is true."""
    rng = random.Random(env.rng.randrange(1 << 30))
    for _ in range(n):
        m = rng.randint(3, 4)
        leaves = []
        for _i in range(m):
            r = rng.random()
            if r < 0.6:
                a = rng.choice([1, 2, 3, 4, 5, 7])
                leaves.append((RP.stop_after_attempt(a), f"att{a}"))
            elif r < 0.9:
                d = rng.choice([1, 2, 5, 10, 3600])
                leaves.append((RP.stop_after_delay(d), f"del{d}"))
            else:
                leaves.append((RP.stop_never(), "never"))

        def tree(depth: int) -> tuple[Any, Any, str]:
            if depth == 0:
                i = rng.randrange(m)
                return leaves[i][0], (lambda k, el, up, i=i: bool(leaves[i][0](k, el, upcoming_sleep=up))), leaves[i][1]
            la, fa, sa = tree(depth - 1)
            lb, fb, sb = tree(rng.randrange(depth))
            named = rng.random() < 0.5
            if rng.random() < 0.5:
                return (RP.stop_any(la, lb) if named else la | lb), (lambda k, el, up: fa(k, el, up) or fb(k, el, up)), f"any({sa},{sb})"
            return (RP.stop_all(la, lb) if named else la & lb), (lambda k, el, up: fa(k, el, up) and fb(k, el, up)), f"all({sa},{sb})"

        obj, want, shape = tree(rng.randint(2, 3))
        w = rng.choice([0, 1, 2])
        pol = RP.retry_policy(stop=obj, wait=RP.wait_fixed(w))
        exc = mk_exc(0)
        got = exp = None
        for k in range(1, 41):
            el = (k - 1) * w
            if got is None and pol.next(el, k, exc, seed=0) is None:
                got = k
            if exp is None and want(k, el, w):
                exp = k
            if got is not None and exp is not None:
                break
        out.evaluations += 1
        out.count("budget:nested:" + ("bounded" if exp is not None else "unbounded"))
        out.nontrivial(("budget", shape, w))
        if got != exp:
            out.violations.append(Violation("C05/attempt_budget_nested_stop",
                                            f"stop={shape}, wait_fixed({w}): a step that always fails is executed {got} times, the policy allows exactly {exp}",
                                            {"shape": shape, "wait": w}))


def algebra_stream(env: Env, out: Outcome, n: int) -> None:
    """Implementation only: the combinators against their components (exact float equality: same operations)."""
    rng = random.Random(env.rng.randrange(1 << 30))
    for _ in range(n):
        k = rng.choice([0, 1, 2, 5, 9])
        seed = rng.randrange(1 << 30)
        e = mk_exc(rng.randrange(10))
        el, up = rng.choice([0, 0.5, 2, 5, 10]), rng.choice([0, 0.5, 2, 5])
        m = rng.randint(1, 4)
        ws = [gen_wleaf(rng)[0] for _ in range(m)]
        ss = [gen_sleaf(rng)[0] for _ in range(m)]
        cs = [gen_cleaf(rng)[0] for _ in range(m)]
        case = {"k": k, "seed": seed, "elapsed": el, "upcoming": up, "n": m}
        out.evaluations += 1
        out.count("algebra")
        parts = [w(k, seed=seed) for w in ws]
        # CPython >= 3.12 sums floats with compensated summation: compare with the exact sum up to rounding
        total = float(sum(Fraction(p_) for p_ in parts))
        if abs(RP.wait_combine(*ws)(k, seed=seed) - total) > 1e-9 * max(1.0, abs(total)):
            out.violations.append(Violation("C07/combine_not_sum", f"wait_combine of {parts} gave {RP.wait_combine(*ws)(k, seed=seed)}", case))
        if m >= 2 and abs((ws[0] + ws[1])(k, seed=seed) - (parts[0] + parts[1])) > 1e-9 * max(1.0, abs(parts[0] + parts[1])):
            out.violations.append(Violation("C07/plus_not_sum", "a + b is not the sum of a and b", case))
        if m >= 3:
            # a combined strategy that is used again as an operand stays what it was: base = a + b; ext = base + c
            base = ws[0] + ws[1]
            before = base(k, seed=seed)
            ext = base + ws[2]
            ext2 = RP.wait_combine(base, ws[2])
            after = base(k, seed=seed)
            want = parts[0] + parts[1] + parts[2]
            if after != before or abs(ext(k, seed=seed) - want) > 1e-9 * max(1.0, abs(want)) or abs(ext2(k, seed=seed) - want) > 1e-9 * max(1.0, abs(want)):
                out.violations.append(Violation("C07/operand_changed_by_plus", f"base = a + b gave {before}; after ext = base + c it gives {after}, ext gives {ext(k, seed=seed)} "
                                                f"(sum of the three parts {want})", case))
        sv = [s_(k, el, upcoming_sleep=up) for s_ in ss]
        if RP.stop_any(*ss)(k, el, upcoming_sleep=up) != any(sv) or RP.stop_all(*ss)(k, el, upcoming_sleep=up) != all(sv):
            out.violations.append(Violation("C07/stop_algebra", f"stop_any/stop_all disagree with or/and of {sv}", case))
        if m >= 2 and ((ss[0] | ss[1])(k, el, upcoming_sleep=up) != (sv[0] or sv[1]) or (ss[0] & ss[1])(k, el, upcoming_sleep=up) != (sv[0] and sv[1])):
            out.violations.append(Violation("C07/stop_operators", "| / & on stop conditions are not or/and", case))
        # nested operator expressions: `&` / `|` trees of depth 2..3 must evaluate like the Boolean tree of the leaves
        if m >= 3:
            def tree(objs: list, vals: list, depth: int) -> tuple[Any, bool, str]:
                if depth == 0 or len(objs) == 1:
                    i = rng.randrange(len(objs))
                    return objs[i], bool(vals[i]), f"x{i}"
                la, va, sa = tree(objs, vals, depth - 1)
                lb, vb, sb = tree(objs, vals, rng.randrange(depth))
                if rng.random() < 0.5:
                    return la | lb, va or vb, f"({sa}|{sb})"
                return la & lb, va and vb, f"({sa}&{sb})"
            for _t in range(3):
                obj, want, shape = tree(ss, sv, rng.randint(2, 3))
                if bool(obj(k, el, upcoming_sleep=up)) != want:
                    out.violations.append(Violation("C07/stop_operators_nested", f"{shape} over stop values {sv} evaluated to {obj(k, el, upcoming_sleep=up)}, Boolean value {want}", {**case, "shape": shape}))
            cv0 = [c_(e) for c_ in cs]
            for _t in range(3):
                obj, want, shape = tree(cs, cv0, rng.randint(2, 3))
                if bool(obj(e)) != want:
                    out.violations.append(Violation("C07/retry_operators_nested", f"{shape} over retry values {cv0} evaluated to {obj(e)}, Boolean value {want}", {**case, "shape": shape}))
        cv = [c_(e) for c_ in cs]
        if RP.retry_any(*cs)(e) != any(cv) or RP.retry_all(*cs)(e) != all(cv):
            out.violations.append(Violation("C07/retry_algebra", f"retry_any/retry_all disagree with or/and of {cv}", case))
        if m >= 2 and ((cs[0] | cs[1])(e) != (cv[0] or cv[1]) or (cs[0] & cs[1])(e) != (cv[0] and cv[1])):
            out.violations.append(Violation("C07/retry_operators", "| / & on retry conditions are not or/and", case))
        ch = RP.wait_chain(*ws)
        if ch(k, seed=seed) != ws[min(k, m - 1)](k, seed=seed):
            out.violations.append(Violation("C07/chain_member", "wait_chain did not use strategy min(attempts, len-1)", case))
