import WfModel.StreamGate
/-! Invariants of the stream-gate LTS (`WfModel/StreamGate.lean`). -/
set_option linter.unusedVariables false
namespace StreamGate

def noTerm : List Item → Bool
  | [] => true
  | .term :: _ => false
  | .note _ :: r => noTerm r

/-- the terminal item, if present, is the last one -/
def okQ : List Item → Bool
  | [] => true
  | .term :: r => r.isEmpty
  | .note _ :: r => okQ r

theorem okQ_of_noTerm : ∀ q, noTerm q = true → okQ q = true
  | [], _ => rfl
  | .term :: _, h => by simp [noTerm] at h
  | .note _ :: r, h => by simpa [okQ] using okQ_of_noTerm r (by simpa [noTerm] using h)

theorem okQ_append_of_noTerm : ∀ q i, noTerm q = true → okQ (q ++ [i]) = true
  | [], i, _ => by cases i <;> simp [okQ]
  | .term :: _, _, h => by simp [noTerm] at h
  | .note _ :: r, i, h => by simpa [okQ] using okQ_append_of_noTerm r i (by simpa [noTerm] using h)

theorem noTerm_append_note : ∀ q n, noTerm q = true → noTerm (q ++ [.note n]) = true
  | [], n, _ => by simp [noTerm]
  | .term :: _, _, h => by simp [noTerm] at h
  | .note _ :: r, n, h => by simpa [noTerm] using noTerm_append_note r n (by simpa [noTerm] using h)

/-- What `drainQ` guarantees about a queue whose terminal item (if any) is last. -/
theorem drainQ_spec (lim : Option Nat) (q : List Item) (h : okQ q = true) :
    okQ (drainQ lim q).2.1 = true ∧
    (noTerm q = true → noTerm (drainQ lim q).2.1 = true) ∧
    (∀ l, (drainQ lim q).2.2 = .wait l → (drainQ lim q).2.1 = []) ∧
    (∀ l, (drainQ lim q).2.2 = .held l → (drainQ lim q).2.1 = [] ∧ noTerm q = false) ∧
    (drainQ lim q).1 ++ (drainQ lim q).2.1 = q := by
  fun_induction drainQ lim q with
  | case1 lim => simp [okQ]
  | case2 lim q =>
    have hq : q = [] := by simpa [okQ] using h
    subst hq; simp [okQ, noTerm]
  | case3 n q d r res heq ih =>
    simp only [okQ] at h
    have ih := ih h
    simp only [heq] at ih
    simp only [noTerm]
    refine ⟨ih.1, ih.2.1, ih.2.2.1, ih.2.2.2.1, ?_⟩
    simp [ih.2.2.2.2]
  | case4 n q => simp only [okQ] at h; simp [noTerm, h]
  | case5 n q => simp only [okQ] at h; simp [noTerm, h]
  | case6 k n q d r res heq ih =>
    simp only [okQ] at h
    have ih := ih h
    simp only [heq] at ih
    simp only [noTerm]
    refine ⟨ih.1, ih.2.1, ih.2.2.1, ih.2.2.2.1, ?_⟩
    simp [ih.2.2.2.2]

structure Inv (s : St) : Prop where
  okq : okQ s.queue = true
  notPub : s.termPublished = false → noTerm s.queue = true
  taken : s.termTaken = true → s.queue = [] ∧ s.termPublished = true
  waiting : ∀ h, s.holder = some h → h.phase = .waitItem → s.termTaken = false

theorem inv_init : Inv init := ⟨rfl, fun _ => rfl, by simp [init], by simp [init]⟩

theorem Inv.of_eq {s t : St} (hi : Inv s) (h1 : t.queue = s.queue) (h2 : t.termPublished = s.termPublished)
    (h3 : t.termTaken = s.termTaken) (h4 : t.holder = s.holder) : Inv t :=
  ⟨by rw [h1]; exact hi.okq, by rw [h1, h2]; exact hi.notPub, by rw [h1, h2, h3]; exact hi.taken,
   by rw [h3, h4]; exact hi.waiting⟩

/-- A consumer that enters the pulling loop before the terminal item has been taken leaves the invariant intact. -/
theorem applyDrain_inv (c : Nat) (lim : Option Nat) (s : St) (hok : okQ s.queue = true)
    (hnp : s.termPublished = false → noTerm s.queue = true) (htt : s.termTaken = false) :
    Inv (applyDrain c lim s) := by
  have sp := drainQ_spec lim s.queue hok
  unfold applyDrain
  rcases hdr : drainQ lim s.queue with ⟨d, r, res⟩
  rw [hdr] at sp
  simp only at sp
  cases res with
  | wait l =>
    exact ⟨sp.1, fun h => sp.2.1 (hnp h), fun h => by simp [htt] at h, fun h _ _ => htt⟩
  | held l =>
    have hr := sp.2.2.2.1 l rfl
    refine ⟨sp.1, fun h => sp.2.1 (hnp h), fun _ => ⟨hr.1, ?_⟩, fun h hh hph => ?_⟩
    · cases hp : s.termPublished with
      | true => rfl
      | false => have := hnp hp; rw [hr.2] at this; cases this
    · simp only [Option.some.injEq] at hh
      subst hh
      cases hph
  | left =>
    exact ⟨sp.1, fun h => sp.2.1 (hnp h), fun h => by simp [htt] at h, fun h hh => by simp at hh⟩

theorem enter_inv (cfg : Cfg) (hcfg : cfg.guardUnderLock = true) (c : Nat) (lim : Option Nat) (s : St)
    (hi : Inv s) (hw : cfg.finishedFlag = true ∨ window s = false) : Inv (enter cfg c lim s) := by
  unfold enter
  by_cases hg : (cfg.guardUnderLock && guard cfg s) = true
  · rw [if_pos hg]; exact hi.of_eq rfl rfl rfl rfl
  · rw [if_neg hg]
    cases htt : s.termTaken with
    | false => exact applyDrain_inv c lim s hi.okq hi.notPub htt
    | true =>
      exfalso
      have hq := (hi.taken htt).1
      apply hg
      rcases hw with hf | hw
      · simp [hcfg, guard, hf, htt, hq]
      · have hc : s.complete = true := by
          cases hc : s.complete with
          | true => rfl
          | false => simp [window, htt, hc] at hw
        simp [hcfg, guard, hc, hq]

/-- One step keeps the invariant as long as it does not let a consumer into the locked section inside the window. -/
theorem step_inv (cfg : Cfg) (hcfg : cfg.guardUnderLock = true) (s : St) (a : Act) (hi : Inv s)
    (hg : cfg.finishedFlag = true ∨ (window s && entersLock s a) = false) : Inv (step cfg s a) := by
  cases a with
  | arrive c lim =>
    simp only [step, hcfg, Bool.not_true, Bool.false_and, Bool.false_eq_true, if_false]
    by_cases hf : lockFree s = true
    · rw [if_pos hf]
      have hw : cfg.finishedFlag = true ∨ window s = false := hg.imp id (fun hg => by simpa [entersLock, hf] using hg)
      exact enter_inv cfg hcfg c lim s hi hw
    · rw [if_neg hf]; exact hi.of_eq rfl rfl rfl rfl
  | wake =>
    simp only [step]
    split
    · rename_i c lim r hh hws
      have hen : wakeEnabled s = true := by simp [wakeEnabled, hh, hws]
      have hw : cfg.finishedFlag = true ∨ window s = false := hg.imp id (fun hg => by simpa [entersLock, hen] using hg)
      exact enter_inv cfg hcfg c lim _ (hi.of_eq rfl rfl rfl rfl) hw
    · exact hi
  | take =>
    simp only [step]
    split
    · rename_i c lim hh
      by_cases hq : s.queue.isEmpty = true
      · rw [if_pos hq]; exact hi
      · rw [if_neg hq]
        exact applyDrain_inv c lim _ hi.okq hi.notPub (hi.waiting _ hh rfl)
    · exact hi
  | finish =>
    simp only [step]
    split
    · exact ⟨hi.okq, hi.notPub, hi.taken, fun h hh => by simp at hh⟩
    · exact hi
  | publish i =>
    simp only [step]
    by_cases hp : s.termPublished = true
    · rw [if_pos hp]; exact hi
    · rw [if_neg hp]
      have hp' : s.termPublished = false := by simpa using hp
      have htt : s.termTaken = false := by
        cases htt : s.termTaken with
        | false => rfl
        | true => have := (hi.taken htt).2; rw [hp'] at this; cases this
      refine ⟨okQ_append_of_noTerm _ i (hi.notPub hp'), fun h => ?_, fun h => by simp [htt] at h, fun _ _ _ => htt⟩
      cases i with
      | term => simp at h
      | note n => exact noTerm_append_note _ n (hi.notPub hp')
  | complete =>
    simp only [step]
    split
    · exact hi.of_eq rfl rfl rfl rfl
    · exact hi

theorem run_inv (cfg : Cfg) (hcfg : cfg.guardUnderLock = true) : ∀ (acts : List Act) (s : St), Inv s →
    noEntryInWindow cfg s acts = true → Inv (run cfg s acts)
  | [], s, hi, _ => hi
  | a :: r, s, hi, hg => by
    simp only [noEntryInWindow, Bool.and_eq_true, Bool.not_eq_true'] at hg
    exact run_inv cfg hcfg r _ (step_inv cfg hcfg s a hi (Or.inr hg.1)) hg.2

/-- With the flag no hypothesis on the interleaving is needed. -/
theorem run_inv_flag (cfg : Cfg) (hcfg : cfg.guardUnderLock = true) (hf : cfg.finishedFlag = true) :
    ∀ (acts : List Act) (s : St), Inv s → Inv (run cfg s acts)
  | [], s, hi => hi
  | a :: r, s, hi => run_inv_flag cfg hcfg hf r _ (step_inv cfg hcfg s a hi (Or.inl hf))

/-- With the invariant, once the terminal item has been taken a quiescent state has no consumer left. -/
theorem terminated_of_inv (s : St) (hi : Inv s) (htt : s.termTaken = true) (hq : quiescent s = true) :
    allTerminated s = true := by
  simp only [quiescent, Bool.and_eq_true, Bool.not_eq_true'] at hq
  obtain ⟨⟨hw, ht⟩, hh⟩ := hq
  cases hho : s.holder with
  | none =>
    simp only [wakeEnabled, hho, Option.isNone_none, Bool.true_and, Bool.not_eq_false'] at hw
    simp [allTerminated, hho, hw]
  | some h =>
    obtain ⟨c, l, ph⟩ := h
    cases ph with
    | waitItem => have := hi.waiting _ hho rfl; rw [htt] at this; cases this
    | heldTerm => simp [holdsTerm, hho] at hh

/-! ### Nothing lost, nothing delivered twice (any configuration, any interleaving) -/

theorem applyDrain_log (c : Nat) (lim : Option Nat) (s : St) :
    (applyDrain c lim s).log.map Prod.snd ++ (applyDrain c lim s).queue = s.log.map Prod.snd ++ s.queue ∧
    (applyDrain c lim s).published = s.published := by
  unfold applyDrain
  have key : (drainQ lim s.queue).1 ++ (drainQ lim s.queue).2.1 = s.queue := by
    generalize s.queue = q
    fun_induction drainQ lim q with
    | case1 lim => rfl
    | case2 lim q => rfl
    | case3 n q d r res heq ih => simp only [heq] at ih; simp [ih]
    | case4 n q => rfl
    | case5 n q => rfl
    | case6 k n q d r res heq ih => simp only [heq] at ih; simp [ih]
  rcases hdr : drainQ lim s.queue with ⟨d, r, res⟩
  rw [hdr] at key
  simp only at key
  cases res <;> simp [List.map_append, Function.comp_def, ← key]

theorem enter_log (cfg : Cfg) (c : Nat) (lim : Option Nat) (s : St) :
    (enter cfg c lim s).log.map Prod.snd ++ (enter cfg c lim s).queue = s.log.map Prod.snd ++ s.queue ∧
    (enter cfg c lim s).published = s.published := by
  unfold enter
  split
  · exact ⟨rfl, rfl⟩
  · exact applyDrain_log c lim s

theorem step_log (cfg : Cfg) (s : St) (a : Act) (h : s.log.map Prod.snd ++ s.queue = s.published) :
    (step cfg s a).log.map Prod.snd ++ (step cfg s a).queue = (step cfg s a).published := by
  cases a with
  | arrive c lim =>
    simp only [step]
    split
    · exact h
    · split
      · have := enter_log cfg c lim s; rw [this.1, this.2]; exact h
      · exact h
  | wake =>
    simp only [step]
    split
    · rename_i c lim r hh hws
      have := enter_log cfg c lim { s with waiters := r }; rw [this.1, this.2]; exact h
    · exact h
  | take =>
    simp only [step]
    split
    · rename_i c lim hh
      split
      · exact h
      · have := applyDrain_log c lim { s with holder := none }; rw [this.1, this.2]; exact h
    · exact h
  | finish =>
    simp only [step]
    split
    · exact h
    · exact h
  | publish i =>
    simp only [step]
    split
    · exact h
    · simp [← h]
  | complete =>
    simp only [step]
    split
    · exact h
    · exact h

theorem run_log (cfg : Cfg) : ∀ (acts : List Act) (s : St), s.log.map Prod.snd ++ s.queue = s.published →
    (run cfg s acts).log.map Prod.snd ++ (run cfg s acts).queue = (run cfg s acts).published
  | [], _, h => h
  | a :: r, s, h => run_log cfg r _ (step_log cfg s a h)

end StreamGate
