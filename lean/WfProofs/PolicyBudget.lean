import WfModel.PolicyTree
import WfProofs.PolicyLemmas
/-!
Budgets of composed policies (C05) for stop conditions of ANY nesting depth.

* `thr q = ⌈q⌉`: `stop_after_attempt(q)` answers `attempts >= q`, for a natural number of attempts this is
  `⌈q⌉ ≤ attempts` (so a float argument such as 2.5 allows 3 executions);
* extended naturals `Option Nat` with `none = ∞`: `stop_any` takes the least bound of its operands, `stop_all`
  the greatest (`stop_any()` never stops: `∞`; `stop_all()` always stops: `0`);
* `STree.cap` — from this failure count on the tree is true whatever the clock says (only attempt limits cap);
  `STree.lo` — below this failure count the tree is false whatever the clock says (a delay limit may already
  stop at the first failure: `0`; `stop_never`: `∞`).
-/
set_option linter.unusedVariables false
namespace Policy
open Gen.RP


theorem thr_le_iff (q : Rat) (k : Nat) : thr q ≤ k ↔ q ≤ (k : Rat) := by
  unfold thr
  have h := @Rat.ceil_le_iff q (k : Int)
  have hc : ((k : Int) : Rat) = (k : Rat) := rfl
  rw [hc] at h
  rw [← h]
  omega

theorem stopAfterAttempt_eq (q : Rat) (k : Nat) (el up : Rat) :
    stopAfterAttempt q k el up = decide (thr q ≤ k) := by
  unfold stopAfterAttempt
  have := thr_le_iff q k
  by_cases h : thr q ≤ k
  · simp [h, this.mp h]
  · have h' : ¬ q ≤ (k : Rat) := fun hq => h (this.mpr hq)
    simp [h, h']

theorem thr_natCast (n : Nat) : thr (n : Rat) = n := by
  unfold thr
  have : ((n : Int) : Rat) = (n : Rat) := rfl
  rw [← this, Rat.ceil_intCast]; simp

/-! ### extended naturals -/

/-- `x ≤ k` on extended naturals (`∞ ≤ k` is false) -/
def ele (x : Option Nat) (k : Nat) : Prop := ∃ n, x = some n ∧ n ≤ k

theorem ele_emin {a b : Option Nat} {k : Nat} : ele (emin a b) k ↔ ele a k ∨ ele b k := by
  cases a <;> cases b <;> simp [emin, ele] <;> omega

theorem ele_emax {a b : Option Nat} {k : Nat} : ele (emax a b) k ↔ ele a k ∧ ele b k := by
  cases a <;> cases b <;> simp [emax, ele] <;> omega

/-! ### bounds of a tree -/

theorem capLeaf_sound (l : SLeaf) (k : Nat) (el up : Rat) (h : ele (capLeaf l) k) : l.eval k el up = true := by
  cases l with
  | afterAttempt q =>
    obtain ⟨n, hn, hk⟩ := h
    simp only [capLeaf, Option.some.injEq] at hn
    subst hn
    simp [SLeaf.eval, stopAfterAttempt_eq, hk]
  | afterDelay d => obtain ⟨n, hn, _⟩ := h; simp [capLeaf] at hn
  | beforeDelay d => obtain ⟨n, hn, _⟩ := h; simp [capLeaf] at hn
  | never => obtain ⟨n, hn, _⟩ := h; simp [capLeaf] at hn

theorem loLeaf_sound (l : SLeaf) (k : Nat) (el up : Rat) (h : l.eval k el up = true) : ele (loLeaf l) k := by
  cases l with
  | afterAttempt q =>
    simp only [SLeaf.eval, stopAfterAttempt_eq, decide_eq_true_eq] at h
    exact ⟨_, rfl, h⟩
  | afterDelay d => exact ⟨0, rfl, Nat.zero_le _⟩
  | beforeDelay d => exact ⟨0, rfl, Nat.zero_le _⟩
  | never => simp [SLeaf.eval, stopNever] at h

mutual
theorem STree.cap_sound (k : Nat) (el up : Rat) : ∀ (t : STree), ele t.cap k → t.eval k el up = true
  | .leaf l, h => by
    simp only [STree.cap, STree.bound] at h
    simpa [STree.eval] using capLeaf_sound l k el up h
  | .any ts, h => by
    simp only [STree.cap, STree.bound] at h
    simp only [STree.eval, stopAny]
    exact STree.capAny_sound k el up ts h
  | .all ts, h => by
    simp only [STree.cap, STree.bound] at h
    simp only [STree.eval, stopAll]
    exact STree.capAll_sound k el up ts h
theorem STree.capAny_sound (k : Nat) (el up : Rat) : ∀ (ts : List STree), ele (STree.boundAny capLeaf ts) k →
    (STree.evalList ts).any (fun f => f k el up) = true
  | [], h => by obtain ⟨n, hn, _⟩ := h; simp [STree.boundAny] at hn
  | t :: ts, h => by
    simp only [STree.boundAny] at h
    simp only [STree.evalList, List.any_cons, Bool.or_eq_true]
    rcases ele_emin.mp h with h | h
    · exact Or.inl (STree.cap_sound k el up t h)
    · exact Or.inr (STree.capAny_sound k el up ts h)
theorem STree.capAll_sound (k : Nat) (el up : Rat) : ∀ (ts : List STree), ele (STree.boundAll capLeaf ts) k →
    (STree.evalList ts).all (fun f => f k el up) = true
  | [], _ => by simp [STree.evalList]
  | t :: ts, h => by
    simp only [STree.boundAll] at h
    simp only [STree.evalList, List.all_cons, Bool.and_eq_true]
    obtain ⟨h1, h2⟩ := ele_emax.mp h
    exact ⟨STree.cap_sound k el up t h1, STree.capAll_sound k el up ts h2⟩
end

mutual
theorem STree.lo_sound (k : Nat) (el up : Rat) : ∀ (t : STree), t.eval k el up = true → ele t.lo k
  | .leaf l, h => by
    simp only [STree.lo, STree.bound]
    exact loLeaf_sound l k el up (by simpa [STree.eval] using h)
  | .any ts, h => by
    simp only [STree.lo, STree.bound]
    simp only [STree.eval, stopAny] at h
    exact STree.loAny_sound k el up ts h
  | .all ts, h => by
    simp only [STree.lo, STree.bound]
    simp only [STree.eval, stopAll] at h
    exact STree.loAll_sound k el up ts h
theorem STree.loAny_sound (k : Nat) (el up : Rat) : ∀ (ts : List STree),
    (STree.evalList ts).any (fun f => f k el up) = true → ele (STree.boundAny loLeaf ts) k
  | [], h => by simp [STree.evalList] at h
  | t :: ts, h => by
    simp only [STree.evalList, List.any_cons, Bool.or_eq_true] at h
    simp only [STree.boundAny]
    rcases h with h | h
    · exact ele_emin.mpr (Or.inl (STree.lo_sound k el up t h))
    · exact ele_emin.mpr (Or.inr (STree.loAny_sound k el up ts h))
theorem STree.loAll_sound (k : Nat) (el up : Rat) : ∀ (ts : List STree),
    (STree.evalList ts).all (fun f => f k el up) = true → ele (STree.boundAll loLeaf ts) k
  | [], _ => ⟨0, rfl, Nat.zero_le _⟩
  | t :: ts, h => by
    simp only [STree.evalList, List.all_cons, Bool.and_eq_true] at h
    simp only [STree.boundAll]
    exact ele_emax.mpr ⟨STree.lo_sound k el up t h.1, STree.loAll_sound k el up ts h.2⟩
end

/-! ### a budget once exhausted stays exhausted (attempt and delay limits, any nesting) -/

mutual
def STree.noBefore : STree → Bool
  | .leaf (.beforeDelay _) => false
  | .leaf _ => true
  | .any ts => STree.noBeforeList ts
  | .all ts => STree.noBeforeList ts
def STree.noBeforeList : List STree → Bool
  | [] => true
  | t :: ts => t.noBefore && STree.noBeforeList ts
end

theorem SLeaf.mono (l : SLeaf) (hl : ∀ d, l ≠ .beforeDelay d) (k k' : Nat) (el el' up up' : Rat) (hk : k ≤ k') (he : el ≤ el')
    (h : l.eval k el up = true) : l.eval k' el' up' = true := by
  cases l with
  | afterAttempt q =>
    simp only [SLeaf.eval, stopAfterAttempt_eq, decide_eq_true_eq] at h ⊢
    omega
  | afterDelay d =>
    simp only [SLeaf.eval, stopAfterDelay, decide_eq_true_eq, ge_iff_le] at h ⊢
    exact Rat.le_trans h he
  | beforeDelay d => exact absurd rfl (hl d)
  | never => simp [SLeaf.eval, stopNever] at h

mutual
theorem STree.mono (k k' : Nat) (el el' up up' : Rat) (hk : k ≤ k') (he : el ≤ el') :
    ∀ (t : STree), t.noBefore = true → t.eval k el up = true → t.eval k' el' up' = true
  | .leaf l, hn, h => by
    simp only [STree.eval] at h ⊢
    refine SLeaf.mono l ?_ k k' el el' up up' hk he h
    intro d hd; subst hd; simp [STree.noBefore] at hn
  | .any ts, hn, h => by
    simp only [STree.eval, stopAny] at h ⊢
    exact STree.monoAny k k' el el' up up' hk he ts (by simpa [STree.noBefore] using hn) h
  | .all ts, hn, h => by
    simp only [STree.eval, stopAll] at h ⊢
    exact STree.monoAll k k' el el' up up' hk he ts (by simpa [STree.noBefore] using hn) h
theorem STree.monoAny (k k' : Nat) (el el' up up' : Rat) (hk : k ≤ k') (he : el ≤ el') :
    ∀ (ts : List STree), STree.noBeforeList ts = true → (STree.evalList ts).any (fun f => f k el up) = true →
      (STree.evalList ts).any (fun f => f k' el' up') = true
  | [], _, h => by simp [STree.evalList] at h
  | t :: ts, hn, h => by
    simp only [STree.noBeforeList, Bool.and_eq_true] at hn
    simp only [STree.evalList, List.any_cons, Bool.or_eq_true] at h ⊢
    rcases h with h | h
    · exact Or.inl (STree.mono k k' el el' up up' hk he t hn.1 h)
    · exact Or.inr (STree.monoAny k k' el el' up up' hk he ts hn.2 h)
theorem STree.monoAll (k k' : Nat) (el el' up up' : Rat) (hk : k ≤ k') (he : el ≤ el') :
    ∀ (ts : List STree), STree.noBeforeList ts = true → (STree.evalList ts).all (fun f => f k el up) = true →
      (STree.evalList ts).all (fun f => f k' el' up') = true
  | [], _, _ => by simp [STree.evalList]
  | t :: ts, hn, h => by
    simp only [STree.noBeforeList, Bool.and_eq_true] at hn
    simp only [STree.evalList, List.all_cons, Bool.and_eq_true] at h ⊢
    exact ⟨STree.mono k k' el el' up up' hk he t hn.1 h.1, STree.monoAll k k' el el' up up' hk he ts hn.2 h.2⟩
end

/-! ### executions of an always-failing invocation under any composed policy -/

/-- the `k`-th failure (`k = 1,2,…`) is followed by another execution iff the policy grants a retry
(the definition `C05.executions` of `WfProps/C05.lean`) -/
def runs (p : Composed) (el : Nat → Rat) (e : Nat) (u : Nat → Rat) : Nat → Nat → Nat
  | 0, k => k
  | fuel + 1, k =>
    match p.next (el k) k e (u k) with
    | none => k
    | some _ => runs p el e u fuel (k + 1)

theorem runs_bounds (p : Composed) (el : Nat → Rat) (e : Nat) (u : Nat → Rat) :
    ∀ (fuel k : Nat), k ≤ runs p el e u fuel k ∧ runs p el e u fuel k ≤ k + fuel
  | 0, k => by simp [runs]
  | fuel + 1, k => by
    simp only [runs]
    split
    · omega
    · have := runs_bounds p el e u fuel (k + 1); omega

/-- every failure before the last execution was granted a retry -/
theorem runs_retried (p : Composed) (el : Nat → Rat) (e : Nat) (u : Nat → Rat) :
    ∀ (fuel k j : Nat), k ≤ j → j < runs p el e u fuel k → (p.next (el j) j e (u j)).isSome = true
  | 0, k, j, h1, h2 => by simp only [runs] at h2; omega
  | fuel + 1, k, j, h1, h2 => by
    simp only [runs] at h2
    split at h2
    · omega
    · rename_i d hd
      by_cases hj : j = k
      · subst hj; simp [hd]
      · exact runs_retried p el e u fuel (k + 1) j (by omega) h2

/-- unless the observation window ended first, the last execution is the one the policy refused to retry -/
theorem runs_stopped (p : Composed) (el : Nat → Rat) (e : Nat) (u : Nat → Rat) :
    ∀ (fuel k : Nat), runs p el e u fuel k < k + fuel →
      p.next (el (runs p el e u fuel k)) (runs p el e u fuel k) e (u (runs p el e u fuel k)) = none
  | 0, k, h => by simp only [runs] at h; omega
  | fuel + 1, k, h => by
    simp only [runs] at h ⊢
    split
    · rename_i hn; exact hn
    · rename_i d hd
      simp only [hd] at h
      exact runs_stopped p el e u fuel (k + 1) (by omega)

theorem runs_le_of_stop (p : Composed) (el : Nat → Rat) (e : Nat) (u : Nat → Rat) (N : Nat)
    (hN : p.next (el N) N e (u N) = none) : ∀ (fuel k : Nat), k ≤ N → runs p el e u fuel k ≤ N
  | 0, k, h => by simpa [runs] using h
  | fuel + 1, k, h => by
    simp only [runs]
    split
    · exact h
    · rename_i d hd
      by_cases hk : k = N
      · subst hk; rw [hN] at hd; cases hd
      · exact runs_le_of_stop p el e u N hN fuel (k + 1) (by omega)

theorem runs_ge_of_retry (p : Composed) (el : Nat → Rat) (e : Nat) (u : Nat → Rat) (M : Nat) :
    ∀ (fuel k : Nat), (∀ j, k ≤ j → j < M → (p.next (el j) j e (u j)).isSome = true) → k ≤ M → M ≤ k + fuel →
      M ≤ runs p el e u fuel k
  | 0, k, _, h1, h2 => by simp only [runs]; omega
  | fuel + 1, k, hr, h1, h2 => by
    simp only [runs]
    split
    · rename_i hn
      by_cases hk : k < M
      · have := hr k (Nat.le_refl k) hk; rw [hn] at this; cases this
      · omega
    · by_cases hk : k < M
      · exact runs_ge_of_retry p el e u M fuel (k + 1) (fun j hj hjm => hr j (by omega) hjm) (by omega) (by omega)
      · have := runs_bounds p el e u fuel (k + 1); omega

/-- a retryable error: the policy's answer is its stop condition's answer -/
theorem next_retryable (p : Composed) (el : Rat) (k e : Nat) (u : Rat) (hr : ∀ r, p.retry = some r → r e = true) :
    p.next el k e u = if p.stop k el (p.wait k u) = true then none else some (p.wait k u) := by
  unfold Composed.next
  cases hp : p.retry with
  | none => simp
  | some r => simp [hr r hp]

theorem next_non_retryable (p : Composed) (el : Rat) (k e : Nat) (u : Rat) (r : Cond) (hp : p.retry = some r) (hr : r e = false) :
    p.next el k e u = none := by
  simp [Composed.next, hp, hr]

/-- whatever the error: when the stop condition holds the policy gives up -/
theorem next_none_of_stop (p : Composed) (el : Rat) (k e : Nat) (u : Rat) (h : p.stop k el (p.wait k u) = true) :
    p.next el k e u = none := by
  unfold Composed.next
  cases hp : p.retry with
  | none => simp [h]
  | some r => by_cases hre : r e = true <;> simp [hre, h]

end Policy
