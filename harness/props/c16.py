"""C16 — the stored event log is gap-free and resumable from any cursor."""
from __future__ import annotations

import asyncio
import copy
import json
import os
import re
import signal
import tempfile
import types
import weakref
from typing import Any

from .. import vloop
from ..runner import Divergence, Driver, Env, Outcome, Violation, diff_streams

THEOREMS = [
    "C16_source_shape",
    "C16_consecutive",
    "C16_subscribe_exact",
    "C16_no_missed_wakeup",
    "C16_subscribe_complete",
    "C16_resume_spec",
    "C16_resume",
    "C16_backends_agree",
    "C16_backends_same_stream",
    "C16_query_agree",
    "C16_now_resolution",
    "C16_cursor_param",
    "C16_resolve_stream",
    "C16_sse_resume",
    "C16_writers_program",
    "C16_writers_atomic_insert",
    "C16_writers_consecutive",
    "C16_writers_read_then_insert_collides",
]
LEAN_TARGETS = ["WfProps.C16"]
EXPLANATION = (
    "Lean model M3 (WfModel/EventLog.lean): one run's stored log with the sequence number each store assigns (memory: "
    "last element + 1, SQLite: COALESCE(MAX,-1)+1), query_events of both stores (filter, ORDER BY, Python slice vs SQL "
    "LIMIT), subscribe_events as a cursor machine whose atomic actions are the generator's await-free sections (init / "
    "lock-protected read that also registers the waiter / yield-and-advance / wake after notify_all / SQLite poll expiry "
    "/ cancel) for the memory list-index cursor and the SQLite sequence cursor, an external writer that notifies nobody, "
    "terminal detection by type name, and the endpoint's cursor resolution (after_sequence, Last-Event-ID, now, "
    "400/404/204), internal-event filter and SSE id. Theorems over ALL action lists: sequences are 0,1,2,... in "
    "publication order; every subscriber's output is a prefix of 'events above k cut after the first terminal', its "
    "sequences are k+1,k+2,... and a yielded terminal is last (safety at every prefix); an unnotified memory waiter has "
    "nothing unread; a subscriber that keeps being scheduled delivers exactly that stream and stops (completeness); "
    "seen-up-to-k ++ subscribe(k) = uninterrupted stream (spec and machine level); memory and SQLite machines in "
    "lockstep in process, and the same final stream when polls expire; query_events agreement; 'now' carries exactly "
    "what is published later; 204 withholds nothing; SSE ids are the sequences, increasing, resumable through the "
    "internal-event filter. Tie: names, statuses, events DDL, statement skeletons of the nine store / resolution functions, the cursor part "
    "of _stream_events and its frame formats regenerated from /repo (C16_source_shape); op-by-op correspondence of the model driver with the real MemoryWorkflowStore, "
    "SqliteWorkflowStore (both connection modes), the polling default AbstractWorkflowStore.subscribe_events and the "
    "real _WorkflowAPI._stream_events coroutine (fake Request, name-only starlette shim) under a virtual-time, "
    "run-to-quiescence scheduler. Search: monitors on the real stores' outputs (consecutive, exact content, "
    "ends-after-first-terminal, completeness after draining, resume chains, backend agreement, SSE ids) on the same "
    "streams and on free-running producer/consumer/reconnect scenarios. Several writers on one SQLite file: "
    "WfModel/EventLogWriters.lean has ONE SQL STATEMENT per step (write lock, uncommitted rows of the lock holder, busy = the "
    "statement does not run), the program append_event runs is regenerated from the sources (sqlAppendStatements); "
    "C16_writers_consecutive: any number of writers running it, under any statement interleaving, commit rows numbered "
    "0,1,2,... in commit order; C16_writers_read_then_insert_collides: SELECT MAX then INSERT does not (twin sequence, "
    "the resumed stream omits the twin). Implementation side (harness/sqlwriters.py): a second store object on the same "
    "file, run as another process would at EVERY statement boundary of writer A's operations (append_event, handler update, "
    "append_tick), a client of B that reads and later reconnects to A; monitors on the committed rows (numbering in commit "
    "order) and on seen ++ resumed; the observed statement trace is compared with the model statement by statement."
)
LEVEL_TEXT = "proof (all append/subscribe interleavings, cursors, terminal positions, both backends) + correspondence + implementation-side monitors"
ASSUMPTIONS = [
    "asyncio: a coroutine section without an await that suspends runs atomically; Condition.notify_all resolves exactly "
    "the registered waiters; Lock.acquire on a free lock does not suspend (modelled as the action granularity; exercised "
    "only through the real stores under harness/vloop.py)",
    "sqlite3: one INSERT ... COALESCE(MAX(sequence),-1)+1 statement is atomic; ORDER BY sequence; a committed row is "
    "visible to the next query on any connection (modelled; exercised with temp files in both connection modes)",
    "sqlite3 between connections (rollback journal, Python's implicit BEGIN before the first write statement, none for SELECT): "
    "a write statement of another connection fails/waits while a transaction holds the write lock, reads are not blocked, "
    "rowid order of one run's rows = commit order (modelled in EventLogWriters; observed with two real connections on a temp "
    "file; the other writer runs whole operations at a statement boundary of the first, not inside a statement; WAL mode, "
    "the unix-none VFS of single_connection mode and more than two real writers are not exercised)",
    "run ids are not reused after MemoryWorkflowStore evicts a completed handler's log (max_completed); no code path "
    "deletes part of a run's events (the driver's `trim` op exists only to pin last+1 against count in the correspondence)",
    "query_events(limit<0) is outside the property: Python slicing drops from the end, SQLite LIMIT -1 is unlimited "
    "(modelled faithfully, shown by an example, excluded by the guard of C16_query_agree)",
    "the strings after_sequence / Last-Event-ID are reduced to the result of Python int() by the harness; the model "
    "decides `now` (ASCII lower-casing) and the priority rules",
    "PostgreSQL and agent-data stores, HTTP framing below the endpoint coroutine, SSE heartbeats and the real network "
    "are not covered (C17 covers the reconnecting client)",
    "events published after a terminal event are delivered by the stores to subscribers whose cursor is past the "
    "terminal one; the property (and C04) exclude such publications, the model covers them",
]
TRUSTED_EXTRA = [
    "harness/gen/eventlog.py (names, statuses, DDL, statement skeletons)",
    "pyshims/starlette (names only: Request/StreamingResponse/HTTPException containers; no routing, no ASGI)",
    "harness/vloop.py run-to-quiescence scheduling (quiescence hook) as the notion of 'one op at a time'",
    "harness/sqlwriters.py (stand-in for the name `sqlite3` in the store module: real connections of a reporting subclass; "
    "the second writer on its own thread and event loop)",
]

POLL = 1.0
TMP_ROOT = "/dev/shm" if os.path.isdir("/dev/shm") and os.access("/dev/shm", os.W_OK) else None  # no fsync cost
LEGS = ["mem", "sql", "sql1", "poll"]
BACKEND_OF = {"mem": "mem", "sql": "sql", "sql1": "sql", "poll": "poll"}

# --------------------------------------------------------------------------
# implementation access


def load_impl() -> dict[str, Any]:
    from llama_agents.client.protocol import serializable_events as se
    from llama_agents.server._store.abstract_workflow_store import AbstractWorkflowStore, PersistentHandler
    from llama_agents.server._store.memory_workflow_store import MemoryWorkflowStore
    from llama_agents.server._store.sqlite.sqlite_workflow_store import SqliteWorkflowStore
    from workflows import events as wev

    I: dict[str, Any] = {"se": se, "Abstract": AbstractWorkflowStore, "Handler": PersistentHandler,
                         "Memory": MemoryWorkflowStore, "Sqlite": SqliteWorkflowStore, "wev": wev, "api": None}
    try:
        from llama_agents.server import _api
        from starlette.exceptions import HTTPException
        from starlette.requests import Request

        I["api"], I["HTTPException"], I["Request"] = _api, HTTPException, Request
    except Exception as e:  # noqa: BLE001
        I["api_error"] = repr(e)

    class Progress(wev.Event):
        pass

    class MyStop(wev.StopEvent):
        pass

    class DeepStop(MyStop):
        pass

    class MyInternal(wev.InternalDispatchEvent):
        pass

    classes = {
        "event": wev.Event, "progress": Progress, "input": wev.InputRequiredEvent, "human": wev.HumanResponseEvent,
        "stop": wev.StopEvent, "failed": wev.WorkflowFailedEvent, "cancelled": wev.WorkflowCancelledEvent,
        "timedout": wev.WorkflowTimedOutEvent, "idlereleased": wev.IdleReleasedEvent, "mystop": MyStop, "deepstop": DeepStop,
        "stepstate": wev.StepStateChanged, "idle": wev.WorkflowIdleEvent, "unhandled": wev.UnhandledEvent,
        "myinternal": MyInternal, "stepfailed": wev.StepFailedEvent,
    }
    kinds: dict[str, dict] = {}
    for k, cls in classes.items():
        inst = None
        if k in ("event", "progress", "stop", "cancelled", "idle", "mystop", "deepstop", "myinternal"):
            try:
                inst = cls()
            except Exception:  # noqa: BLE001
                inst = None
        if inst is not None:
            envl = se.EventEnvelopeWithMetadata.from_event(inst)  # the real MRO walk
            ty, tys = envl.type, envl.types
        else:
            ty, tys = cls.__name__, se._get_event_subtypes(cls)
        kinds[k] = {"type": ty, "types": tys, "terminal": issubclass(cls, wev.StopEvent),
                    "internal": issubclass(cls, wev.InternalDispatchEvent)}
    # hand-built envelopes around the name test
    kinds["raw_lower"] = {"type": "stopevent", "types": None, "terminal": False, "internal": False}
    kinds["raw_types"] = {"type": "Other", "types": ["Base", "StopEvent"], "terminal": True, "internal": False}
    kinds["raw_prefix"] = {"type": "StopEventX", "types": ["XStopEvent", "internaldispatchevent"], "terminal": False, "internal": False}
    kinds["raw_both"] = {"type": "Weird", "types": ["InternalDispatchEvent", "StopEvent"], "terminal": True, "internal": True}
    kinds["raw_none"] = {"type": "StopEvent", "types": None, "terminal": True, "internal": False}
    kinds["raw_empty"] = {"type": "InternalDispatchEvent", "types": [], "terminal": False, "internal": True}
    I["kinds"] = kinds
    return I


PLAIN = ["event", "event", "event", "progress", "input", "human", "stepfailed", "raw_lower", "raw_prefix"]
INTERNAL = ["stepstate", "idle", "unhandled", "myinternal", "raw_empty"]
TERMINAL = ["stop", "stop", "failed", "cancelled", "timedout", "idlereleased", "mystop", "deepstop", "raw_types", "raw_none", "raw_both"]


def envelope(I: dict, kind: str, tag: int):
    k = I["kinds"][kind]
    return I["se"].EventEnvelopeWithMetadata(value={"tag": tag}, qualified_name=f"harness.{kind}", type=k["type"], types=k["types"])


# --------------------------------------------------------------------------
# op streams -> model lines


def cps(s: str) -> str:
    return ",".join(str(ord(c)) for c in s)


def py_int(s: str | None) -> str:
    if s is None:
        return "~"
    try:
        return str(int(s))
    except ValueError:
        return "x"


def op_line(I: dict, t: int, op: list) -> str:
    k = op[0]
    if k in ("append", "xappend"):
        kd = I["kinds"][op[2]]
        return f"{k}|{op[1]}|{t}|{kd['type']}|{','.join(kd['types'] or [])}"
    if k == "trim":
        return f"trim|{op[1]}|{op[2]}"
    if k == "race":
        kd = I["kinds"][op[4]]
        return f"race|{op[1]}|{op[3]}|{t}|{kd['type']}|{','.join(kd['types'] or [])}"
    if k == "open":
        return f"open|{op[1]}|{op[2]}"
    if k in ("next", "cancel", "apinext", "apicancel"):
        return f"{k}|{op[1]}"
    if k == "tick":
        return "tick"
    if k == "query":
        return f"query|{op[1]}|{'~' if op[2] is None else op[2]}|{'~' if op[3] is None else op[3]}"
    if k == "handler":
        return f"handler|{op[1]}|{'~' if op[2] is None else op[2]}|{op[3]}"
    if k == "apiopen":
        _, hid, sse, q, h, incl = op
        qi = py_int(q)
        return f"apiopen|{hid}|{int(sse)}|{'~' if q is None else cps(q)}|{'x' if q is None else qi}|{py_int(h)}|{int(incl)}"
    if k == "malformed":
        return op[1]
    raise ValueError(op)


# --------------------------------------------------------------------------
# running the real stores, one op at a time, to quiescence


class WallTimeout(KeyboardInterrupt):
    """raised by the wall-clock watchdog; derives from KeyboardInterrupt so that asyncio lets it through"""


def with_watchdog(seconds: float, fn):
    """run fn(); a store that never suspends (e.g. a subscriber re-reading the same row for ever) cannot be
    stopped by virtual time, only by real time"""
    armed = [True]

    def on_alarm(_sig, _frm):
        if armed[0]:
            armed[0] = False
            raise WallTimeout()

    old = signal.signal(signal.SIGALRM, on_alarm)
    signal.setitimer(signal.ITIMER_REAL, seconds)
    try:
        return fn()
    finally:
        armed[0] = False
        signal.setitimer(signal.ITIMER_REAL, 0)
        signal.signal(signal.SIGALRM, old)


WALL_LIMIT = 5.0
FAIL_FAST = 6  # distinct violation signatures after which the search stops (the tree is broken anyway)


class Sched:
    """`await settle()` returns when every other task is blocked (nothing ready);
    virtual time does not advance while settling."""

    def __init__(self, loop: vloop.VLoop) -> None:
        self.loop = loop
        self.fut: asyncio.Future | None = None
        loop.quiescence_hook = self.hook

    def hook(self) -> bool:
        if self.fut is not None and not self.fut.done():
            self.fut.set_result(None)
            return True
        return False

    async def settle(self) -> None:
        self.fut = self.loop.create_future()
        await self.fut
        self.fut = None


class Rec:
    """What the real store showed, for the monitors."""

    def __init__(self) -> None:
        self.published: dict[str, list[tuple[int, str]]] = {}  # run -> [(tag, kind)] in publication order
        self.subs: list[dict] = []  # {run, after, out:[(seq,tag)], ended, cancelled, pending, after_end:[...]}
        self.apis: list[dict] = []  # {run, hid, sse, incl, q, h, out:[(id,tag)], ended, cancelled, opened_at}
        self.queries: list[dict] = []
        self.stored: dict[str, list[tuple[int, int]]] = {}  # run -> [(seq, tag)] at the end
        self.errors: list[str] = []
        self.handlers: dict[str, tuple] = {}
        self.https: list[dict] = []


class Real:
    def __init__(self, I: dict, leg: str, tmp: str) -> None:
        self.I = I
        self.leg = leg
        if leg == "mem":
            self.store = I["Memory"]()
            self.writer2 = None
        else:
            path = os.path.join(tmp, f"{leg}.db")
            self.store = I["Sqlite"](path, poll_interval=POLL, single_connection=(leg == "sql1"))
            # a second store object on the same database: its appends notify none of the first one's waiters
            w2 = object.__new__(I["Sqlite"])
            w2.__dict__.update(self.store.__dict__)
            w2._conditions = weakref.WeakValueDictionary()
            self.writer2 = w2
        self.rec = Rec()
        self.gens: list[Any] = []
        self.pending: dict[int, asyncio.Task] = {}
        self.apigens: list[Any] = []
        self.apipending: dict[int, asyncio.Task] = {}
        self.api = None
        if I["api"] is not None and leg != "poll":
            api = object.__new__(I["api"]._WorkflowAPI)
            api._service = types.SimpleNamespace(store=self.store)
            api._sse_heartbeat_interval = None
            self.api = api

    # ---- formatting
    def show(self, ev: Any) -> str:
        return f"{ev.sequence}:{ev.event.value.get('tag')}:{'T' if self.I['Abstract']._is_terminal_event(ev) else 'N'}"

    @staticmethod
    def parse_frame(sse: bool, frame: str) -> tuple[str, int | None]:
        if sse:
            lines = frame.split("\n")
            if len(lines) != 4 or not lines[0].startswith("id: ") or not lines[1].startswith("data: ") or lines[2] or lines[3]:
                return ("?" + repr(frame[:60]), None)
            return (lines[0][4:], json.loads(lines[1][6:])["value"].get("tag"))
        if not frame.endswith("\n") or "\n" in frame[:-1]:
            return ("?" + repr(frame[:60]), None)
        return ("-", json.loads(frame)["value"].get("tag"))

    def collect(self) -> str:
        outs = []
        for g in sorted(self.pending):
            t = self.pending[g]
            if t.done():
                del self.pending[g]
                r = self.rec.subs[g]
                r["pending"] = False
                try:
                    ev = t.result()
                    (r["after_end"] if (r["ended"] or r["cancelled"]) else r["out"]).append((ev.sequence, ev.event.value.get("tag")))
                    outs.append(f"s{g}={self.show(ev)}")
                except StopAsyncIteration:
                    if not r["cancelled"]:
                        r["ended"] = True
                    outs.append(f"s{g}=end")
                except BaseException as e:  # noqa: BLE001
                    outs.append(f"s{g}=raises {type(e).__name__}")
        for j in sorted(self.apipending):
            t = self.apipending[j]
            if t.done():
                del self.apipending[j]
                r = self.rec.apis[j]
                r["pending"] = False
                try:
                    fid, tag = self.parse_frame(r["sse"], t.result())
                    r["out"].append((fid, tag))
                    outs.append(f"a{j}={fid}:{tag}")
                except StopAsyncIteration:
                    r["ended"] = True
                    outs.append(f"a{j}=end")
                except BaseException as e:  # noqa: BLE001
                    outs.append(f"a{j}=raises {type(e).__name__}")
        return "deliver=" + ",".join(outs)

    # ---- ops
    async def do(self, sc: Sched, t: int, op: list) -> str:
        I, store, rec = self.I, self.store, self.rec
        k = op[0]
        if k in ("append", "xappend"):
            run, kind = op[1], op[2]
            if k == "xappend" and self.leg == "mem":
                return "unsupported"
            target = store if k == "append" else self.writer2
            await target.append_event(run, envelope(I, kind, t))
            rec.published.setdefault(run, []).append((t, kind))
            await sc.settle()
            seq = [e.sequence for e in await store.query_events(run) if e.event.value.get("tag") == t]
            return f"seq={seq[-1] if seq else '?'} " + self.collect()
        if k == "race":
            # __anext__ of subscriber g is in flight (it got `turns` turns of the loop) when the event is published
            _, g, turns, run, kind = op
            if 0 <= g < len(self.gens) and g not in self.pending:
                self.pending[g] = asyncio.ensure_future(self.gens[g].__anext__())
                rec.subs[g]["pending"] = True
                for _ in range(turns):
                    await asyncio.sleep(0)
            await store.append_event(run, envelope(I, kind, t))
            rec.published.setdefault(run, []).append((t, kind))
            await sc.settle()
            seq = [e.sequence for e in await store.query_events(run) if e.event.value.get("tag") == t]
            return f"seq={seq[-1] if seq else '?'} " + self.collect()
        if k == "trim":
            run, n = op[1], op[2]
            if self.leg == "mem":
                if run in store.events:
                    del store.events[run][:n]
            else:
                with store._connect() as conn:
                    conn.execute("DELETE FROM events WHERE id IN (SELECT id FROM events WHERE run_id = ? ORDER BY sequence LIMIT ?)", (run, n))
                    conn.commit()
            return "ok"
        if k == "open":
            run, after = op[1], op[2]
            if self.leg == "poll":
                gen = I["Abstract"].subscribe_events(store, run, after)
            else:
                gen = store.subscribe_events(run, after)
            self.gens.append(gen)
            rec.subs.append({"run": run, "after": after, "out": [], "ended": False, "cancelled": False, "pending": False,
                             "after_end": [], "at": len(rec.published.get(run, []))})
            return f"sub={len(self.gens) - 1}"
        if k == "next":
            g = op[1]
            if not (0 <= g < len(self.gens)):
                return "no-sub"
            if g in self.pending:
                return "busy"
            r = rec.subs[g]
            task = asyncio.ensure_future(self.gens[g].__anext__())
            await sc.settle()
            if not task.done():
                self.pending[g] = task
                r["pending"] = True
                return "pending"
            try:
                ev = task.result()
            except StopAsyncIteration:
                if not r["cancelled"]:
                    r["ended"] = True
                return "end"
            item = (ev.sequence, ev.event.value.get("tag"))
            (r["after_end"] if (r["ended"] or r["cancelled"]) else r["out"]).append(item)
            return "item " + self.show(ev)
        if k == "cancel":
            g = op[1]
            if not (0 <= g < len(self.gens)):
                return "no-sub"
            task = self.pending.pop(g, None)
            if task is not None:
                task.cancel()
                await sc.settle()
            await self.gens[g].aclose()
            rec.subs[g]["cancelled"] = True
            rec.subs[g]["pending"] = False
            return "ok"
        if k == "tick":
            await asyncio.sleep(POLL * 1.5)
            await sc.settle()
            return self.collect()
        if k == "query":
            run, after, limit = op[1], op[2], op[3]
            res = await store.query_events(run, after_sequence=after, limit=limit)
            rec.queries.append({"run": run, "after": after, "limit": limit, "n": len(rec.published.get(run, [])),
                                "res": [(e.sequence, e.event.value.get("tag")) for e in res]})
            return "[" + " ".join(self.show(e) for e in res) + "]"
        if k == "handler":
            hid, run, status = op[1], op[2], op[3]
            await store.update(I["Handler"](handler_id=hid, workflow_name="w", status=status, run_id=run))
            rec.handlers[hid] = (run, status)
            return "ok"
        if k == "apiopen":
            if self.api is None:
                return "unsupported"
            _, hid, sse, q, h, incl = op
            qp = {"sse": "true" if sse else "false", "include_internal": "true" if incl else "false"}
            if q is not None:
                qp["after_sequence"] = q
            hdrs = {} if h is None else {"Last-Event-ID": h}
            req = I["Request"](path_params={"handler_id": hid}, query_params=qp, headers=hdrs)
            try:
                resp = await self.api._stream_events(req)
            except I["HTTPException"] as e:
                hrun = rec.handlers.get(hid, (None, None))
                rec.https.append({"hid": hid, "sse": sse, "q": q, "h": h, "code": e.status_code, "run": hrun[0], "status": hrun[1],
                                  "known": hid in rec.handlers, "at": len(rec.published.get(hrun[0], []))})
                return f"http {e.status_code}"
            self.apigens.append(resp.body_iterator)
            run = rec.handlers.get(hid, (None, None))[0]
            rec.apis.append({"run": run, "hid": hid, "sse": sse, "incl": incl, "q": q, "h": h, "out": [], "ended": False,
                             "cancelled": False, "pending": False, "at": len(rec.published.get(run, [])),
                             "media": resp.media_type})
            return f"api={len(self.apigens) - 1}"
        if k == "apinext":
            j = op[1]
            if not (0 <= j < len(self.apigens)):
                return "no-sub"
            if j in self.apipending:
                return "busy"
            r = rec.apis[j]
            task = asyncio.ensure_future(self.apigens[j].__anext__())
            await sc.settle()
            if not task.done():
                self.apipending[j] = task
                r["pending"] = True
                return "pending"
            try:
                frame = task.result()
            except StopAsyncIteration:
                if not r["cancelled"]:
                    r["ended"] = True
                return "end"
            fid, tag = self.parse_frame(r["sse"], frame)
            if not r["cancelled"]:
                r["out"].append((fid, tag))
            return f"frame {fid}:{tag}"
        if k == "apicancel":
            j = op[1]
            if not (0 <= j < len(self.apigens)):
                return "no-sub"
            task = self.apipending.pop(j, None)
            if task is not None:
                task.cancel()
                await sc.settle()
            await self.apigens[j].aclose()
            await sc.settle()
            rec.apis[j]["cancelled"] = True
            rec.apis[j]["pending"] = False
            return "ok"
        if k == "malformed":
            return "bad-op"
        return "bad-op"

    async def finish(self, sc: Sched) -> None:
        for run in self.rec.published:
            self.rec.stored[run] = [(e.sequence, e.event.value.get("tag")) for e in await self.store.query_events(run)]
        for t in list(self.pending.values()) + list(self.apipending.values()):
            t.cancel()
        await sc.settle()
        for g in self.gens + self.apigens:
            try:
                await g.aclose()
            except BaseException:  # noqa: BLE001
                pass
        await sc.settle()
        conn = getattr(self.store, "_persistent_conn", None)
        if conn is not None:
            conn.close()


def run_real(I: dict, leg: str, ops: list[list]) -> tuple[list[str], Rec]:
    outs: list[str] = []
    holder: dict[str, Any] = {}

    async def main(loop: vloop.VLoop) -> None:
        sc = Sched(loop)
        with tempfile.TemporaryDirectory(prefix="c16_", dir=TMP_ROOT) as tmp:
            real = Real(I, leg, tmp)
            holder["rec"] = real.rec
            try:
                for t, op in enumerate(ops):
                    try:
                        outs.append(await real.do(sc, t, op))
                    except Exception as e:  # noqa: BLE001 - behaviour the model does not have
                        outs.append(f"raises {type(e).__name__}: {str(e)[:80]}")
                        real.rec.errors.append(f"op {t} {op}: {type(e).__name__}: {e}")
            finally:
                await real.finish(sc)

    try:
        with_watchdog(WALL_LIMIT, lambda: vloop.run_virtual(main, max_time=1000.0 + 10_000_000.0))
    except TimeoutError:
        outs.append("deadlock")
        holder.setdefault("rec", Rec()).errors.append("op ?: deadlock: virtual loop deadlocked")
    except WallTimeout:
        outs.append("livelock")
        holder.setdefault("rec", Rec()).errors.append(f"op {len(outs) - 1} {ops[len(outs) - 1] if 0 < len(outs) <= len(ops) else '?'}: livelock: "
                                                      f"the store kept running without suspending for {WALL_LIMIT:.0f} s of real time")
    return outs, holder["rec"]


# --------------------------------------------------------------------------
# monitors: the property stated on what the real stores showed


def expected_stream(I: dict, published: list[tuple[int, str]], after: int) -> list[tuple[int, int]]:
    res = []
    for i, (tag, kind) in enumerate(published):
        if i > after:
            res.append((i, tag))
            if I["kinds"][kind]["terminal"]:
                break
    return res


def has_terminal(I: dict, published: list[tuple[int, str]], after: int) -> bool:
    return any(I["kinds"][kind]["terminal"] for i, (_tag, kind) in enumerate(published) if i > after)


def cursor_class(after: int, at: int) -> str:
    if after < 0:
        return "start"
    if after >= at:
        return "ahead-of-log"
    return "inside-log"


def classify(got: list, want: list) -> str:
    """how a delivered list differs from the expected one"""
    wseq = [s for s, _ in want]
    for i, item in enumerate(got):
        if i < len(want) and item == want[i]:
            continue
        seq = item[0]
        if got.count(item) > 1 or seq in [s for s, _ in got[:i]]:
            return "duplicate"
        if seq in wseq[i + 1:]:
            return "gap"
        if seq in wseq[:i]:
            return "out-of-order"
        return "not-in-stream"
    return "missing" if len(got) < len(want) else "ok"


STORE_NAME = {"mem": "memory", "sql": "sqlite", "sql1": "sqlite-single-connection", "poll": "abstract-polling-default"}


def monitor_store(I: dict, leg: str, case: dict, rec: Rec, drained: bool) -> list[Violation]:
    vs: list[Violation] = []
    name = STORE_NAME[leg]

    def V(rule: str, facts: str, what: str) -> None:
        vs.append(Violation(f"C16/{rule}[store={name},{facts}]", what, case))

    for e in rec.errors:
        parts = e.split(": ")
        V("store_raises", "what=" + (parts[1].split(" ")[0] if len(parts) > 1 else "?"), f"{name}: {e}")
    # consecutive numbering in publication order
    for run, pub in rec.published.items():
        stored = rec.stored.get(run, [])
        seqs = [s for s, _ in stored]
        tags = [t for _, t in stored]
        if seqs != list(range(len(pub))):
            V("consecutive", "what=sequences", f"{name}: run {run}: stored sequences {seqs} after {len(pub)} publications, expected 0..{len(pub) - 1}")
        elif tags != [t for t, _ in pub]:
            V("consecutive", "what=publication-order", f"{name}: run {run}: stored payloads {tags} are not in publication order {[t for t, _ in pub]}")
    # subscriptions
    for g, r in enumerate(rec.subs):
        pub = rec.published.get(r["run"], [])
        want = expected_stream(I, pub, r["after"])
        got = r["out"]
        cc = cursor_class(r["after"], r["at"])
        if got != want[:len(got)]:
            how = classify(got, want)
            V("subscribe_exact", f"what={how},cursor={cc}",
              f"{name}: subscriber {g} after {r['after']} on run {r['run']} yielded {got}; the events above {r['after']} up to the first terminal one are {want}")
            continue
        if r["after_end"]:
            V("ends_after_terminal", f"what=yield-after-end,cursor={cc}",
              f"{name}: subscriber {g} after {r['after']} yielded {r['after_end']} after its stream had ended")
        if r["ended"] and not r["cancelled"] and (not got or got != want or not has_terminal(I, pub, r["after"])):
            V("ends_after_terminal", f"what=ended-early,cursor={cc}",
              f"{name}: subscriber {g} after {r['after']} ended after {got}; expected {want} and an end only after a terminal event")
        if drained and not r["cancelled"]:
            if got != want:
                V("subscribe_complete", f"what=missing,cursor={cc}",
                  f"{name}: subscriber {g} after {r['after']} was scheduled until it blocked and has yielded {got}; expected {want}")
            elif has_terminal(I, pub, r["after"]) and not r["ended"]:
                V("ends_after_terminal", f"what=not-ended,cursor={cc}",
                  f"{name}: subscriber {g} after {r['after']} yielded the terminal event {got[-1]} and is still open")
    # resume chains
    for a, ra in enumerate(rec.subs):
        if not ra["out"]:
            continue
        last = ra["out"][-1][0]
        puba = rec.published.get(ra["run"], [])
        if last < len(puba) and I["kinds"][puba[last][1]]["terminal"]:
            continue
        wanta = expected_stream(I, puba, ra["after"])
        for b2, rb in enumerate(rec.subs):
            if b2 == a or rb["run"] != ra["run"] or rb["after"] != last:
                continue
            chain = ra["out"] + rb["out"]
            if chain != wanta[:len(chain)] or (drained and not rb["cancelled"] and chain != wanta):
                V("resume", f"what={classify(chain, wanta)}",
                  f"{name}: subscriber {a} (after {ra['after']}) saw {ra['out']}, subscriber {b2} resumed after {last} and saw {rb['out']}; uninterrupted stream: {wanta}")
    # query_events
    for q in rec.queries:
        if q["limit"] is not None and q["limit"] < 0:
            continue
        pub = rec.published.get(q["run"], [])[: q["n"]]
        want = [(i, t) for i, (t, _k) in enumerate(pub) if q["after"] is None or i > q["after"]]
        if q["limit"] is not None:
            want = want[: q["limit"]]
        if q["res"] != want:
            V("query", f"what={classify(q['res'], want)}",
              f"{name}: query_events(after={q['after']}, limit={q['limit']}) = {q['res']}, expected {want}")
    return vs


def api_cursor(I: dict, r: dict, pub_at: list) -> tuple[str, int | None]:
    """the cursor the request asks for, read off the request the way the docs state it"""
    q, h = r["q"], r["h"]
    if q is None or q.lower() == "now":
        c: int | None = None
    else:
        c = int(q)
    if r["sse"] and h is not None:
        try:
            c = int(h)
        except ValueError:
            pass
    if c is None:
        return ("now", len(pub_at) - 1)
    return ("explicit", c)


def monitor_api(I: dict, leg: str, case: dict, rec: Rec, drained: bool) -> list[Violation]:
    vs: list[Violation] = []
    name = STORE_NAME[leg]
    for j, r in enumerate(rec.apis):
        if r["run"] is None:
            continue
        pub = rec.published.get(r["run"], [])
        how, k = api_cursor(I, r, pub[: r["at"]])
        full = expected_stream(I, pub, k)
        want = [((str(s) if r["sse"] else "-"), t) for (s, t) in full if r["incl"] or not I["kinds"][pub[s][1]]["internal"]]
        got = r["out"]
        facts = f"store={name},cursor={how},sse={int(r['sse'])}"
        if got != want[:len(got)]:
            gi = [(int(a) if a.lstrip('-').isdigit() else -9, b) for a, b in got]
            wi = [(int(a) if a.lstrip('-').isdigit() else -9, b) for a, b in want]
            vs.append(Violation(f"C16/api_stream[{facts},what={classify(gi, wi)}]",
                                f"{name}: GET /events/{r['hid']} (after_sequence={r['q']!r}, Last-Event-ID={r['h']!r}, sse={r['sse']}, include_internal={r['incl']}) "
                                f"sent frames (id, payload) {got}; expected {want}", case))
            continue
        if r["sse"]:
            ids = [int(a) for a, _ in got]
            if any(b <= a for a, b in zip(ids, ids[1:])) or any(i <= k for i in ids):
                vs.append(Violation(f"C16/sse_ids[{facts}]", f"{name}: SSE ids {ids} after cursor {k} are not increasing sequences above it", case))
        if drained and not r["cancelled"]:
            if got != want:
                vs.append(Violation(f"C16/api_stream[{facts},what=missing]",
                                    f"{name}: endpoint stream for cursor {k} was read until it blocked: {got}; expected {want}", case))
            elif has_terminal(I, pub, k) and not r["ended"]:
                vs.append(Violation(f"C16/api_stream[{facts},what=not-ended]", f"{name}: endpoint stream did not end after the terminal event", case))
        if r["ended"] and not r["cancelled"] and not has_terminal(I, pub, k):
            vs.append(Violation(f"C16/api_stream[{facts},what=ended-early]", f"{name}: endpoint stream ended without a terminal event: {got}", case))
    for r in rec.https:
        facts = f"store={name},code={r['code']}"
        try:
            valid_q = r["q"] is None or r["q"].lower() == "now" or int(r["q"]) is not None
        except ValueError:
            valid_q = False
        if r["code"] == 400:
            if valid_q:
                vs.append(Violation(f"C16/api_status[{facts},what=valid-cursor-rejected]", f"{name}: after_sequence={r['q']!r} answered 400", case))
        elif r["code"] == 404:
            if valid_q and r["known"] and r["run"] is not None:
                vs.append(Violation(f"C16/api_status[{facts},what=known-run-not-found]", f"{name}: handler {r['hid']} with run {r['run']} answered 404", case))
        elif r["code"] == 204:
            pub = rec.published.get(r["run"], [])[: r["at"]]
            _how, k = api_cursor(I, {"q": r["q"], "h": r["h"], "sse": r["sse"]}, pub)
            left = expected_stream(I, pub, k)
            last_terminal = bool(pub) and I["kinds"][pub[-1][1]]["terminal"]
            if left or not (r["status"] in ("completed", "failed", "cancelled") or last_terminal):
                vs.append(Violation(f"C16/api_status[{facts},what=events-withheld]",
                                    f"{name}: 204 for cursor {k} although {left} are stored above it / the run is not complete", case))
        else:
            vs.append(Violation(f"C16/api_status[{facts},what=unexpected-code]", f"{name}: unexpected status {r['code']}", case))
    return vs


def monitor_agreement(case: dict, outs: dict[str, list[str]], recs: dict[str, Rec], lockstep: bool, drained: bool) -> list[Violation]:
    vs: list[Violation] = []
    ops = full_ops(case)
    if lockstep:
        for other in ("sql", "sql1"):
            a, b = outs["mem"], outs[other]
            for i in range(min(len(a), len(b))):
                if a[i] != b[i]:
                    vs.append(Violation(f"C16/backends_agree[memory-vs-{STORE_NAME[other]},op={ops[i][0] if i < len(ops) else '?'}]",
                                        f"op {i} {ops[i] if i < len(ops) else '?'}: memory store answered {a[i]!r}, {STORE_NAME[other]} answered {b[i]!r}", case))
                    break
    if drained:
        ref = recs["mem"]
        for other in ("sql", "sql1", "poll"):
            if other not in recs:
                continue
            for g, (ra, rb) in enumerate(zip(ref.subs, recs[other].subs)):
                if ra["cancelled"] or rb["cancelled"]:
                    continue
                if ra["out"] != rb["out"] or ra["ended"] != rb["ended"]:
                    vs.append(Violation(f"C16/backends_same_stream[memory-vs-{STORE_NAME[other]}]",
                                        f"subscriber {g} after {ra['after']}: memory delivered {ra['out']} (ended={ra['ended']}), "
                                        f"{STORE_NAME[other]} delivered {rb['out']} (ended={rb['ended']})", case))
                    break
    return vs


# --------------------------------------------------------------------------
# generators (all randomness from the rng passed in)


def gen_kind(rng, p_term: float) -> str:
    r = rng.random()
    if r < p_term:
        return rng.choice(TERMINAL)
    if r < p_term + 0.15:
        return rng.choice(INTERNAL)
    return rng.choice(PLAIN)


def drain_ops(nsubs: int, napi: int, nlog: int, live: list[int] | None = None) -> list[list]:
    ops: list[list] = [["tick"]]
    for _round in range(2):
        for g in (range(nsubs) if live is None else live):
            ops += [["next", g]] * (nlog + 2)
        for j in range(napi):
            ops += [["apinext", j]] * (nlog + 2)
        ops.append(["tick"])
    return ops


def gen_store_stream(rng, flavour: str) -> dict:
    """flavour: core (append/open/next/cancel/query/tick), ext (plus external writer), trim (plus deletion)"""
    runs = ["r1"] if rng.random() < 0.6 else ["r1", "r2"]
    n = {r: 0 for r in runs}
    term_at: dict[str, int | None] = {r: None for r in runs}
    subs: list[dict] = []  # {run, after, nexts}
    ops: list[list] = []
    length = rng.randint(8, 45)
    p_term = rng.choice([0.0, 0.03, 0.08, 0.2])
    after_terminal_ok = rng.random() < 0.25  # publications after a terminal event: outside the property, still modelled
    for r in runs:
        for _ in range(rng.choice([0, 0, 1, 2, 3, 5])):
            ops.append(["append", r, gen_kind(rng, 0.0)])
            n[r] += 1
    for _ in range(length):
        x = rng.random()
        r = rng.choice(runs)
        if x < 0.30:
            if term_at[r] is not None and not after_terminal_ok:
                continue
            kind = gen_kind(rng, p_term)
            if flavour == "ext" and rng.random() < 0.4:
                ops.append(["xappend", r, kind])
            else:
                ops.append(["append", r, kind])
            if term_at[r] is None and kind in TERMINAL:
                term_at[r] = n[r]
            n[r] += 1
        elif x < 0.42:
            y = rng.random()
            if y < 0.30:
                after = -1
            elif y < 0.55 and n[r] > 0:
                after = rng.randrange(-1, n[r])
            elif y < 0.70:
                after = n[r] - 1  # "now"
            elif y < 0.85:
                after = n[r] - 1 + rng.randint(1, 4)  # ahead of the log
            elif y < 0.92:
                after = rng.choice([-2, -5, -100])
            else:
                cand = [s for s in subs if s["run"] == r and s["nexts"] > 0]
                if cand:
                    s = rng.choice(cand)
                    after = max(s["after"], -1) + s["nexts"]  # about where that subscriber is
                else:
                    after = 0
            ops.append(["open", r, after])
            subs.append({"run": r, "after": after, "nexts": 0})
        elif x < 0.50 and subs and (term_at[r] is None or after_terminal_ok):
            g = rng.randrange(len(subs))
            rr = subs[g]["run"] if rng.random() < 0.8 else r
            if term_at[rr] is None or after_terminal_ok:
                kind = gen_kind(rng, p_term)
                ops.append(["race", g, rng.choice([1, 1, 2, 3]), rr, kind])
                subs[g]["nexts"] += 1
                if term_at[rr] is None and kind in TERMINAL:
                    term_at[rr] = n[rr]
                n[rr] += 1
        elif x < 0.78 and subs:
            g = rng.randrange(len(subs))
            for _ in range(rng.choice([1, 1, 1, 2, 3])):
                ops.append(["next", g])
                subs[g]["nexts"] += 1
        elif x < 0.82 and subs:
            g = rng.randrange(len(subs))
            ops.append(["cancel", g])
            if rng.random() < 0.7:  # reconnect about where it was
                s = subs[g]
                after = max(s["after"], -1) + s["nexts"] - rng.choice([0, 0, 0, 1])
                ops.append(["open", s["run"], after])
                subs.append({"run": s["run"], "after": after, "nexts": 0})
        elif x < 0.90:
            after = rng.choice([None, -1, 0, rng.randint(-2, n[r] + 2)])
            limit = rng.choice([None, None, 0, 1, 2, rng.randint(0, n[r] + 2)])
            ops.append(["query", r, after, limit])
        elif x < 0.96:
            ops.append(["tick"])
        elif flavour == "trim":
            ops.append(["trim", r, rng.choice([0, 1, 1, 2, n[r], n[r] + 1])])
        else:
            ops.append(["next", rng.randint(0, len(subs) + 1)])
    if flavour == "trim":
        # the property does not speak about partly deleted logs: correspondence only
        for r in runs:
            ops.append(["append", r, "event"])
            ops.append(["query", r, None, None])
        return {"kind": "trim", "ops": ops}
    if rng.random() < 0.5:
        for r in runs:
            if term_at[r] is None:
                ops.append(["append", r, rng.choice(TERMINAL)])
                n[r] += 1
    return {"kind": flavour, "ops": ops}


Q_NOW = [None, None, "now", "NOW", "Now", "nOw"]
Q_BAD = ["abc", "", "1.5", "0x5", "5 6", "ＮＯＷ", "no w", "--1", "1e3"]


def q_int(rng, n: int) -> str:
    v = rng.choice([-1, -1, 0, n - 1, n, n + 2, rng.randint(-3, n + 3)])
    return rng.choice([str(v), str(v), f" {v}", f"{v} ", f"+{v}" if v >= 0 else str(v), f"0{v}" if v >= 0 else str(v),
                       str(v).replace("1", "١") if v >= 0 else str(v), f"{v}\n"])


def gen_api_stream(rng) -> dict:
    ops: list[list] = []
    n = 0
    napi = 0
    term = False
    status = rng.choice(["running", "running", "running", "completed", "failed", "cancelled"])
    ops.append(["handler", "h1", "r1", status])
    if rng.random() < 0.3:
        ops.append(["handler", "h0", None, "running"])
    for _ in range(rng.choice([0, 1, 2, 3, 4])):
        ops.append(["append", "r1", gen_kind(rng, 0.0)])
        n += 1
    for _ in range(rng.randint(6, 30)):
        x = rng.random()
        if x < 0.30 and not term:
            kind = gen_kind(rng, rng.choice([0.0, 0.1, 0.25]))
            ops.append(["append", "r1", kind])
            term = term or kind in TERMINAL
            n += 1
        elif x < 0.50:
            y = rng.random()
            q = rng.choice(Q_NOW) if y < 0.35 else (q_int(rng, n) if y < 0.85 else rng.choice(Q_BAD))
            z = rng.random()
            h = None if z < 0.6 else (q_int(rng, n) if z < 0.85 else rng.choice(["abc", "", "1.5", "now"]))
            hid = "h1" if rng.random() < 0.9 else rng.choice(["h0", "nope"])
            ops.append(["apiopen", hid, rng.random() < 0.7, q, h, rng.random() < 0.4])
            napi += 1  # upper bound on ids
        elif x < 0.85 and napi:
            j = rng.randrange(napi)
            ops += [["apinext", j]] * rng.choice([1, 1, 2, 3])
        elif x < 0.90 and napi:
            ops.append(["apicancel", rng.randrange(napi)])
        elif x < 0.95:
            ops.append(["tick"])
        else:
            ops.append(["handler", "h1", "r1", rng.choice(["running", "completed"])])
    if rng.random() < 0.5 and not term:
        ops.append(["append", "r1", rng.choice(TERMINAL)])
        n += 1
    return {"kind": "api", "ops": ops}


MALFORMED = ["", "race|0|r|x|Event|", "race|0|r", "append", "append|r|x|Event|", "open|r|", "open|r|1.5", "next|-1", "next|a", "query|r|~", "query|r|x|~",
             "trim|r|-1", "apiopen|h|2|~|x|~|0", "apiopen|h|1|1,,2|x|~|0", "bogus|1", "tick|1", "backend|pg", "cancel"]


def corpus() -> list[dict]:
    cs: list[dict] = []
    wit = os.path.join(os.path.dirname(os.path.dirname(os.path.abspath(__file__))), "corpus", "c16_cursor_ahead_of_log.json")
    try:
        cs.append(json.load(open(wit))["case"])
    except (OSError, KeyError, ValueError):
        pass
    # slow consumer: an append lands while the subscriber is suspended in the middle of a batch (seeded/C16-a)
    ops = [["append", "r1", "event"], ["append", "r1", "event"], ["open", "r1", -1], ["next", 0], ["append", "r1", "event"],
           ["next", 0], ["next", 0], ["next", 0], ["append", "r1", "stop"], ["next", 0], ["open", "r1", 0]]
    cs.append({"kind": "core", "ops": ops})
    # publication while __anext__ is in flight (1..3 loop turns after it started): must behave as if read-and-wait were atomic
    ops = [["open", "r1", -1], ["race", 0, 1, "r1", "event"], ["race", 0, 2, "r1", "event"], ["next", 0], ["race", 0, 1, "r1", "idle"],
           ["race", 0, 3, "r1", "event"], ["open", "r1", 3], ["race", 1, 1, "r1", "event"], ["race", 1, 1, "r1", "stop"], ["race", 1, 1, "r1", "event"]]
    cs.append({"kind": "core", "ops": ops})
    # a cursor ahead of the log (memory store yielded events at or below it before the repair)
    ops = [["append", "r1", "event"], ["append", "r1", "event"], ["open", "r1", 5], ["next", 0], ["append", "r1", "event"],
           ["append", "r1", "event"], ["next", 0], ["append", "r1", "event"], ["append", "r1", "event"], ["append", "r1", "event"],
           ["next", 0], ["append", "r1", "failed"]]
    cs.append({"kind": "core", "ops": ops})
    # terminal in the middle, subscribers before / at / after it, publications after the terminal event
    ops = [["append", "r1", "event"], ["append", "r1", "mystop"], ["append", "r1", "event"], ["open", "r1", -1], ["open", "r1", 0],
           ["open", "r1", 1], ["open", "r1", 2], ["append", "r1", "deepstop"]]
    cs.append({"kind": "core", "ops": ops})
    # two runs are independent; blocked subscribers are woken by their own run only
    ops = [["open", "r1", -1], ["open", "r2", -1], ["next", 0], ["next", 1], ["append", "r2", "event"], ["append", "r1", "idle"],
           ["next", 0], ["next", 1], ["cancel", 1], ["append", "r2", "stop"], ["append", "r1", "cancelled"], ["next", 1]]
    cs.append({"kind": "core", "ops": ops})
    # external writer: only the poll finds the rows
    ops = [["open", "r1", -1], ["next", 0], ["xappend", "r1", "event"], ["tick"], ["next", 0], ["xappend", "r1", "event"],
           ["append", "r1", "event"], ["next", 0], ["xappend", "r1", "timedout"]]
    cs.append({"kind": "ext", "ops": ops})
    # deletion of the oldest rows: next sequence is last + 1, not the count; all rows: numbering restarts
    ops = [["append", "r1", "event"], ["append", "r1", "event"], ["append", "r1", "event"], ["trim", "r1", 2], ["append", "r1", "event"],
           ["query", "r1", None, None], ["open", "r1", 2], ["next", 0], ["trim", "r1", 5], ["append", "r1", "event"], ["query", "r1", None, None],
           ["open", "r1", -1], ["next", 1], ["next", 0]]
    cs.append({"kind": "trim", "ops": ops})
    # endpoint: now / explicit / Last-Event-ID priority / 400 / 404 / 204 / internal filter / NDJSON
    ops = [["handler", "h1", "r1", "running"], ["handler", "h0", None, "running"], ["append", "r1", "event"], ["append", "r1", "idle"],
           ["apiopen", "h1", True, None, None, False], ["apiopen", "h1", True, "-1", None, False], ["apiopen", "h1", True, "-1", None, True],
           ["apiopen", "h1", True, "5", "0", True], ["apiopen", "h1", False, "0", "7", True], ["apiopen", "h1", True, "abc", "0", True],
           ["apiopen", "nope", True, None, None, True], ["apiopen", "h0", True, None, None, True], ["apiopen", "h1", True, "NOW", "abc", True],
           ["apinext", 0], ["apinext", 1], ["apinext", 1], ["apinext", 2], ["apinext", 2], ["apinext", 3], ["apinext", 4],
           ["append", "r1", "event"], ["append", "r1", "raw_both"], ["apiopen", "h1", True, None, None, True], ["apiopen", "h1", True, "1", None, True]]
    cs.append({"kind": "api", "ops": ops})
    ops = [["handler", "h1", "r1", "completed"], ["apiopen", "h1", True, None, None, True], ["append", "r1", "event"],
           ["apiopen", "h1", True, None, None, True], ["apiopen", "h1", True, "-1", None, True], ["apinext", 0], ["apinext", 0]]
    cs.append({"kind": "api", "ops": ops})
    return cs


# --------------------------------------------------------------------------
# free-running scenarios (monitors only): real tasks, real timers, virtual time


def run_free(I: dict, leg: str, sc_case: dict) -> list[Violation]:
    """producer / consumers / reconnecting consumers as real asyncio tasks under virtual time"""
    prod, cons = sc_case["producer"], sc_case["consumers"]
    results: list[dict] = []
    holder: dict[str, Any] = {}

    async def main(loop: vloop.VLoop) -> None:
        with tempfile.TemporaryDirectory(prefix="c16f_", dir=TMP_ROOT) as tmp:
            real = Real(I, leg, tmp)
            store = real.store

            def subscribe(after: int):
                if leg == "poll":
                    return I["Abstract"].subscribe_events(store, "r", after)
                return store.subscribe_events("r", after)

            async def producer() -> None:
                for t, (delay, kind, ext) in enumerate(prod):
                    if delay:
                        await asyncio.sleep(delay)
                    target = real.writer2 if (ext and real.writer2 is not None) else store
                    await target.append_event("r", envelope(I, kind, t))

            async def consumer(c: dict, res: dict) -> None:
                await asyncio.sleep(c["start"])
                after = c["after"]
                pauses = list(c["pauses"])
                budget = c.get("reconnect_every")
                while True:
                    got_here = 0
                    ended = True
                    gen = subscribe(after)
                    try:
                        async for ev in gen:
                            res["out"].append((ev.sequence, ev.event.value.get("tag")))
                            if len(res["out"]) > 3 * len(prod) + 10:
                                res["overflow"] = True
                                return
                            after = ev.sequence
                            got_here += 1
                            if pauses:
                                p = pauses.pop(0)
                                if p:
                                    await asyncio.sleep(p)
                            if budget and got_here >= budget:
                                ended = False
                                break
                    finally:
                        await gen.aclose()
                    if ended:
                        res["ended"] = True
                        return
                    if res["out"] and I["kinds"][prod[res["out"][-1][1]][1]]["terminal"]:
                        res["ended"] = True  # a client that has seen the terminal event does not reconnect
                        return
                    res["connections"] += 1

            tasks = []
            for c in cons:
                res = {"after": c["after"], "out": [], "ended": False, "connections": 1}
                results.append(res)
                tasks.append(asyncio.ensure_future(consumer(c, res)))
            ptask = asyncio.ensure_future(producer())
            await ptask
            try:
                await asyncio.wait_for(asyncio.gather(*tasks), timeout=sc_case.get("grace", 50.0))
            except asyncio.TimeoutError:
                holder["timeout"] = True
            holder["stored"] = [(e.sequence, e.event.value.get("tag")) for e in await store.query_events("r")]
            conn = getattr(store, "_persistent_conn", None)
            if conn is not None:
                conn.close()

    try:
        with_watchdog(WALL_LIMIT, lambda: vloop.run_virtual(main, max_time=1000.0 + 1_000_000.0))
    except TimeoutError:
        holder["timeout"] = True
    except WallTimeout:
        holder["timeout"] = True
        holder["livelock"] = True
    name = STORE_NAME[leg]
    case = {"kind": "free", "scenario": sc_case}
    vs: list[Violation] = []
    pub = [(t, kind) for t, (_d, kind, _x) in enumerate(prod)]
    if holder.get("livelock"):
        return [Violation(f"C16/free_running[store={name},what=livelock]",
                          f"{name}: producer/consumer scenario kept running without suspending for {WALL_LIMIT:.0f} s of real time", case)]
    if "stored" not in holder:
        return [Violation(f"C16/free_running[store={name},what=deadlock]", f"{name}: producer/consumer scenario deadlocked", case)]
    stored = holder.get("stored", [])
    if [s for s, _ in stored] != list(range(len(pub))) or [t for _, t in stored] != [t for t, _ in pub]:
        vs.append(Violation(f"C16/consecutive[store={name},what=free-running]", f"{name}: stored {stored} after publishing {len(pub)} events concurrently with subscribers", case))
    for i, res in enumerate(results):
        want = expected_stream(I, pub, res["after"])
        if res["out"] != want:
            vs.append(Violation(f"C16/free_running[store={name},what={classify(res['out'], want)},reconnects={'yes' if res['connections'] > 1 else 'no'}]",
                                f"{name}: consumer {i} after {res['after']} ({res['connections']} connection(s)) collected {res['out']}; expected {want}", case))
        elif not res["ended"] and holder.get("timeout") and has_terminal(I, pub, res["after"]) and res["connections"] == 1:
            vs.append(Violation(f"C16/free_running[store={name},what=not-ended]", f"{name}: consumer {i} never finished although the terminal event was published", case))
    return vs


def gen_free(rng) -> dict:
    n = rng.randint(3, 14)
    prod = []
    for i in range(n):
        delay = rng.choice([0, 0, 0.001, 0.01, 0.3, 1.0, 2.5])
        prod.append((delay, gen_kind(rng, 0.0), rng.random() < 0.25))
    prod.append((rng.choice([0, 0.01, 1.0]), rng.choice(TERMINAL), rng.random() < 0.25))
    cons = []
    for _ in range(rng.randint(1, 4)):
        after = rng.choice([-1, -1, 0, rng.randint(-1, n), rng.randint(-1, n)])
        cons.append({"start": rng.choice([0, 0, 0.005, 0.5, 3.0]), "after": after,
                     "pauses": [rng.choice([0, 0, 0.001, 0.02, 0.7]) for _ in range(n + 2)],
                     "reconnect_every": rng.choice([None, None, 1, 2, 3])})
    return {"producer": prod, "consumers": cons}


# --------------------------------------------------------------------------
# two writers on one SQLite file, interleaved BETWEEN SQL STATEMENTS (harness/sqlwriters.py)
#
# SqliteWorkflowStore opens a connection per call and is meant to be used by several processes / store objects on
# one db_path (subscribe_events polls for rows written by somebody else).  Inside one event loop nothing can run
# between two statements of an operation, so the op streams above never show what another writer's commit does
# when it lands there.  Here writer A (this thread, virtual-time loop) performs an operation; at a chosen statement
# boundary of it writer B (a second store object on the same file, own thread and loop = another process) performs
# whole append_event calls, and a client connected to B reads what is committed and disconnects.  Afterwards the
# client reconnects to A with the last sequence it saw.  Oracle = the property on what was committed (the harness
# knows the commit order because it owns the schedule): numbering 0,1,2,... in commit order, and
# seen-before-the-disconnect ++ resumed-stream = the uninterrupted stream.

WRUN = "r1"
W_WALL_LIMIT = 30.0
W_NEVER = 10 ** 6  # a boundary that is never reached: B runs right after A's operation (op-level interleaving)
A_OPS = ("append", "update", "tick")


def run_writers(I: dict, case: dict) -> dict:
    """-> {"violations", "lines", "impl", "stmts" (statements A executed per step), "fired", "notes"}"""
    import itertools
    import sqlite3
    import sys

    from .. import sqlwriters as sw

    mod = sys.modules[I["Sqlite"].__module__]
    lines: list[str] = []
    impl: list[str] = []
    res: dict[str, Any] = {"violations": [], "lines": lines, "impl": impl, "stmts": [], "fired": [], "notes": []}
    committed: list[tuple[int, str]] = []  # (tag, kind) in commit order
    errors: list[str] = []
    client: dict[str, Any] = {"after": case.get("after", -1), "cursor": case.get("after", -1), "seen": [], "connections": 0,
                              "ended": False, "timeout": False}
    full: dict[str, Any] = {"seen": [], "ended": False, "timeout": False}
    holder: dict[str, Any] = {}
    tags = itertools.count()
    st: dict[str, Any] = {"armed": None, "count": 0, "op": False, "queue": [], "read": False, "appending": set(), "path": None}
    WID = {"A": 0, "B": 1}
    tap = sw.Tap()
    tap.timeouts = {"B": 0.0}  # B never sleeps on A's lock: a boundary at which it would have to wait is observed as such

    def raw_rows() -> list[tuple[int, Any]]:
        conn = sqlite3.connect(st["path"], timeout=0)
        try:
            rows = conn.execute("SELECT sequence, event_json FROM events WHERE run_id = ? ORDER BY rowid", (WRUN,)).fetchall()
        finally:
            conn.close()
        out = []
        for seq, js in rows:
            try:
                tag = json.loads(js)["value"].get("tag")
            except Exception:  # noqa: BLE001
                tag = None
            out.append((seq, tag))
        return out

    def after(conn: Any, kind: str, text: str, params: tuple, cur: Any, exc: BaseException | None) -> None:
        if conn.actor not in st["appending"]:
            if conn.actor == "A" and st["op"]:
                # another writing operation of A (handler row, tick): for the event log only its hold on the write lock matters
                if kind == "commit" and exc is None:
                    lines.append("wraw|0|commit")
                    impl.append("commit log=" + ",".join(str(s) for s, _ in raw_rows()))
                elif re.match(r"(INSERT|UPDATE|DELETE|REPLACE)\b", text, re.I):
                    lines.append("wraw|0|write")
                    impl.append("write" if exc is None else ("busy" if sw.is_lock_error(exc) else f"raises {type(exc).__name__}"))
            return
        if exc is not None:
            o = "busy" if sw.is_lock_error(exc) else f"raises {type(exc).__name__}"
        elif kind == "commit":
            o = "commit log=" + ",".join(str(s) for s, _ in raw_rows())
        elif kind == "execute" and re.match(r"INSERT INTO events\b", text, re.I):
            row = conn.plain_cursor().execute("SELECT sequence FROM events WHERE rowid = ?", (cur.lastrowid,)).fetchone()
            o = f"insert seq={row[0] if row else '?'}"
        else:
            o = "other " + text.split(" ")[0].upper()
        lines.append(f"wstmt|{WID[conn.actor]}")
        impl.append(o)

    def before(conn: Any, kind: str, text: str, params: tuple) -> None:
        if conn.actor != "A" or not st["op"]:
            return
        idx = st["count"]
        st["count"] += 1
        if st["armed"] is not None and idx == st["armed"]:
            st["armed"] = None
            res["fired"].append((idx, text[:60]))
            run_b()

    tap.before, tap.after = before, after

    async def do_append(actor: str, store: Any, kind: str, tag: int) -> bool:
        kd = I["kinds"][kind]
        lines.append(f"wbegin|{WID[actor]}|{tag}|{kd['type']}|{','.join(kd['types'] or [])}")
        impl.append("ok")
        st["appending"].add(actor)
        try:
            await store.append_event(WRUN, envelope(I, kind, tag))
        except Exception as e:  # noqa: BLE001
            st["appending"].discard(actor)
            lines.append(f"wend|{WID[actor]}")
            impl.append("aborted")
            if actor == "B" and sw.is_lock_error(e):
                return False
            raise
        st["appending"].discard(actor)
        lines.append(f"wend|{WID[actor]}")
        impl.append("done")
        committed.append((tag, kind))
        return True

    async def client_read(store: Any) -> None:
        avail = await store.query_events(WRUN, after_sequence=client["cursor"])
        if not avail:
            return
        client["connections"] += 1
        gen = store.subscribe_events(WRUN, after_sequence=client["cursor"])
        try:
            for _ in range(len(avail)):
                try:
                    ev = await asyncio.wait_for(gen.__anext__(), 10.0)
                except StopAsyncIteration:
                    client["ended"] = True
                    break
                client["seen"].append((ev.sequence, ev.event.value.get("tag")))
                client["cursor"] = ev.sequence
        finally:
            await gen.aclose()

    async def b_job() -> None:
        while st["queue"]:
            kind, tag = st["queue"][0]
            if not await do_append("B", holder["b"], kind, tag):
                return  # B has to wait for A's transaction: it proceeds when A is done
            st["queue"].pop(0)
        if st["read"]:
            st["read"] = False
            await client_read(holder["b"])

    def run_b() -> None:
        prev = tap.actor
        tap.actor = "B"
        try:
            sw.in_thread(b_job)
        except sw.Stuck as e:
            errors.append(f"writer B: stuck: {e}")
        except Exception as e:  # noqa: BLE001
            errors.append(f"writer B: {type(e).__name__}: {e}")
            st["queue"], st["read"] = [], False
        finally:
            tap.actor = prev

    async def drain(store: Any, into: dict, after_seq: int, limit: int) -> None:
        async def go() -> None:
            async for ev in store.subscribe_events(WRUN, after_sequence=after_seq):
                into["seen"].append((ev.sequence, ev.event.value.get("tag")))
                if len(into["seen"]) > limit:
                    into["overflow"] = True
                    return
            into["ended"] = True

        try:
            await asyncio.wait_for(go(), timeout=20 * POLL)
        except asyncio.TimeoutError:
            into["timeout"] = True

    async def main(loop: vloop.VLoop) -> None:
        with tempfile.TemporaryDirectory(prefix="c16w_", dir=TMP_ROOT) as tmp:
            st["path"] = os.path.join(tmp, "w.db")
            a = I["Sqlite"](st["path"], poll_interval=POLL)
            b = I["Sqlite"](st["path"], poll_interval=POLL)
            holder["a"], holder["b"] = a, b
            tap.actor = "A"
            try:
                for kind in case.get("prefix", []):
                    await do_append("A", a, kind, next(tags))
                for step in case["steps"]:
                    st["queue"] = [(k, next(tags)) for k in step.get("b", [])]
                    st["read"] = bool(step.get("read"))
                    st["armed"], st["count"], st["op"] = step.get("at", W_NEVER), 0, True
                    op = step["a"]
                    try:
                        if op[0] == "append":
                            await do_append("A", a, op[1], next(tags))
                        elif op[0] == "update":
                            await a.update(I["Handler"](handler_id="h1", workflow_name="w", status=op[1], run_id=WRUN))
                        elif op[0] == "tick":
                            await a.append_tick(WRUN, {"n": len(committed)})
                        else:
                            raise ValueError(op)
                    finally:
                        st["op"], st["armed"] = False, None
                    res["stmts"].append(st["count"])
                    if st["queue"] or st["read"]:
                        run_b()
                        if st["queue"]:
                            errors.append("writer B: blocked: the database is still locked after writer A's operation returned")
                            st["queue"] = []
                for kind in case.get("tail", []):
                    await do_append("A", a, kind, next(tags))
            except ValueError:
                raise
            except Exception as e:  # noqa: BLE001
                errors.append(f"writer A: {type(e).__name__}: {e}")
            tap.actor = None
            holder["raw"] = raw_rows()
            holder["stored"] = [(e.sequence, e.event.value.get("tag")) for e in await a.query_events(WRUN)]
            limit = 3 * len(committed) + 10
            client["connections"] += 1
            await drain(a, client, client["cursor"], limit + len(client["seen"]))
            await drain(a, full, -1, limit)

    try:
        with sw.installed(mod, tap):
            with_watchdog(W_WALL_LIMIT, lambda: vloop.run_virtual(main, max_time=1000.0 + 1_000_000.0))
    except TimeoutError:
        errors.append("harness: deadlock: virtual loop deadlocked")
    except WallTimeout:
        errors.append(f"harness: livelock: the scenario kept running for {W_WALL_LIMIT:.0f} s of real time")
    if tap.connections == 0:
        res["notes"].append("two-writer scenarios: the statement tap saw no connection (the store module no longer opens them through "
                            "its `sqlite3` name); statement boundaries were not exercised")

    vs: list[Violation] = res["violations"]
    name = "sqlite"
    where = "; ".join(f"B ran before A's statement #{i} ({t!r})" for i, t in res["fired"]) or "B ran between A's operations"

    def V(rule: str, facts: str, what: str) -> None:
        vs.append(Violation(f"C16/{rule}[store={name},{facts},writers=two-connections]", f"{name}, two writers on one file ({where}): {what}", case))

    for e in errors:
        parts = e.split(": ")
        V("store_raises", "what=" + (parts[1] if len(parts) > 1 else "?"), e)
    if "raw" not in holder:
        return res
    pub = committed
    raw = holder["raw"]
    seqs = [s for s, _ in raw]
    want_tags = [t for t, _ in pub]
    if seqs != list(range(len(pub))) or [t for _, t in raw] != want_tags:
        if len(raw) != len(pub):
            how = "row-count"
        elif len(set(seqs)) < len(seqs):
            how = "duplicate-sequence"
        elif sorted(seqs) != list(range(len(pub))):
            how = "gap"
        else:
            how = "commit-order"
        V("consecutive", f"what={how}",
          f"{len(pub)} events were committed in the order (payload tags) {want_tags}; the table holds (sequence, tag) in rowid order {raw}; "
          f"expected sequences 0..{len(pub) - 1} in commit order")
    elif holder["stored"] != list(zip(range(len(pub)), want_tags)):
        V("query", f"what={classify(holder['stored'], list(zip(range(len(pub)), want_tags)))}",
          f"query_events returned {holder['stored']} for the committed events {want_tags}")
    want = expected_stream(I, pub, client["after"])
    if client["seen"] != want:
        got_t, want_t = [t for _, t in client["seen"]], [t for _, t in want]
        if any(t not in got_t for t in want_t):
            how = "event-lost"
        elif len(set(got_t)) < len(got_t):
            how = "event-twice"
        elif got_t != want_t:
            how = "out-of-order" if sorted(got_t, key=repr) == sorted(want_t, key=repr) else "not-in-stream"
        else:
            how = "renumbered"
        V("resume", f"what={how},reconnects={'yes' if client['connections'] > 1 else 'no'}",
          f"a client subscribed after {client['after']} read {client['seen']} over {client['connections']} connection(s), "
          f"reconnecting with the last sequence it had seen; the uninterrupted stream is {want}")
    elif has_terminal(I, pub, client["after"]) and not client["ended"]:
        V("ends_after_terminal", "what=not-ended", f"the resumed client received the terminal event {want[-1]} and its stream is still open")
    wantf = expected_stream(I, pub, -1)
    if full["seen"] != wantf:
        V("subscribe_exact", f"what={classify(full['seen'], wantf)},cursor=start",
          f"a subscriber after -1 opened when all was committed yielded {full['seen']}; expected {wantf}")
    return res


def writers_case(prefix: list[str], steps: list[dict], tail: list[str], after: int = -1) -> dict:
    return {"kind": "writers", "prefix": prefix, "after": after, "steps": steps, "tail": tail}


def gen_writers(rng) -> dict:
    prefix = [gen_kind(rng, 0.0) for _ in range(rng.choice([0, 1, 2, 2, 3]))]
    steps = []
    for _ in range(rng.choice([1, 1, 2, 3])):
        x = rng.random()
        a = ["append", gen_kind(rng, 0.0)] if x < 0.7 else (["update", rng.choice(["running", "completed"])] if x < 0.85 else ["tick"])
        steps.append({"a": a, "at": rng.choice([0, 1, 2, 3, W_NEVER]), "b": [gen_kind(rng, 0.0) for _ in range(rng.choice([1, 1, 2]))],
                      "read": rng.random() < 0.6})
    after = rng.choice([-1, -1, -1, len(prefix) - 1, rng.randint(-1, len(prefix))])
    return writers_case(prefix, steps, [rng.choice(TERMINAL)], after)


def writers_corpus() -> list[dict]:
    cs: list[dict] = []
    wit = os.path.join(os.path.dirname(os.path.dirname(os.path.abspath(__file__))), "corpus", "c16_two_writers_between_statements.json")
    try:
        cs += json.load(open(wit))["cases"]
    except (OSError, KeyError, ValueError):
        pass
    return cs


def check_writers(I: dict, base: dict, out: Outcome, batches: dict[str, list], sweep: bool) -> list[Violation]:
    """run the case; with `sweep`, also once per statement boundary of each of A's operations (the number of
    statements is whatever the implementation executes)"""
    vs: list[Violation] = []

    def one(case: dict) -> dict:
        r = run_writers(I, case)
        out.evaluations += 1
        out.count("stream:writers")
        out.count("writers:B-ran-" + ("between-statements" if r["fired"] else "between-operations"))
        for step in case["steps"]:
            out.count("writers:A-op-" + step["a"][0])
        out.count("writers:statements-observed", len(r["lines"]))
        for n in r["notes"]:
            if n not in out.notes:
                out.notes.append(n)
        batches.setdefault("sql", []).append(("sql", case, r["lines"], r["impl"]))
        out.nontrivial(("writers", case["steps"], case.get("prefix"), case.get("after")))
        return r

    r0 = one(base)
    vs += r0["violations"]
    if sweep:
        for s, n in enumerate(r0["stmts"]):
            for j in range(n):
                if base["steps"][s].get("at", W_NEVER) == j:
                    continue
                c = copy.deepcopy(base)
                c["steps"][s]["at"] = j
                vs += one(c)["violations"]
    return vs


# --------------------------------------------------------------------------


def full_ops(case: dict) -> list[list]:
    """the stream as executed: the case's ops followed by the drain phase (every subscriber is advanced until it
    blocks or ends, with poll ticks in between), so that completeness can be judged"""
    ops = case["ops"]
    if case["kind"] == "trim":
        return list(ops)
    nsub = sum(1 for o in ops if o[0] == "open")
    napi = sum(1 for o in ops if o[0] == "apiopen")
    nlog = sum(1 for o in ops if o[0] in ("append", "xappend", "race"))
    return list(ops) + drain_ops(nsub, napi, nlog)


def legs_for(kind: str) -> list[str]:
    if kind == "api":
        return ["mem", "sql", "sql1"]
    return list(LEGS)


def check_case(I: dict, case: dict, out: Outcome, batches: dict[str, list], api_ok: bool) -> list[Violation]:
    """run one op stream on every leg, queue the model comparison, run the monitors"""
    kind, ops = case["kind"], full_ops(case)
    if kind == "api" and not api_ok:
        return []
    lines = [op_line(I, t, op) for t, op in enumerate(ops)]
    outs: dict[str, list[str]] = {}
    recs: dict[str, Rec] = {}
    vs: list[Violation] = []
    for leg in legs_for(kind):
        o, rec = run_real(I, leg, ops)
        outs[leg], recs[leg] = o, rec
        batches.setdefault(BACKEND_OF[leg], []).append((leg, case, lines, o))
        out.evaluations += len(ops)
        if leg == "mem":
            for r in rec.subs:
                out.count("subscriber:" + ("cancelled" if r["cancelled"] else "ended-after-terminal" if r["ended"] else
                                           "waiting-at-end" if r["out"] else "never-received"))
                out.count("subscriber-items", len(r["out"]))
            for r in rec.apis:
                out.count("endpoint-stream:" + ("sse" if r["sse"] else "ndjson"))
                out.count("endpoint-frames", len(r["out"]))
            for r in rec.https:
                out.count(f"endpoint-http-{r['code']}")
        if kind != "trim":
            vs += monitor_store(I, leg, case, rec, drained=True)
            if kind == "api":
                vs += monitor_api(I, leg, case, rec, drained=True)
    if kind in ("core", "api"):
        vs += monitor_agreement(case, outs, recs, lockstep=True, drained=True)
    elif kind == "ext":
        vs += monitor_agreement(case, outs, recs, lockstep=False, drained=False)
    return vs


def compare_model(out: Outcome, batches: dict[str, list]) -> None:
    for backend, items in batches.items():
        lines: list[str] = []
        spans = []
        for leg, case, ls, impl in items:
            start = len(lines)
            lines.append(f"backend|{backend}")
            lines += ls
            spans.append((leg, case, start, ls, impl))
        try:
            mo = Driver("eventlog").run(lines)
        except Exception as ex:  # noqa: BLE001
            out.divergences.append(Divergence("eventlog", 0, "<driver>", repr(ex), ""))
            return
        for leg, case, start, ls, impl in spans:
            model = mo[start + 1: start + 1 + len(ls)]
            out.traces_validated += 1
            out.disagreements_checked += len(ls)
            d = diff_streams("eventlog", ls, model, impl, context={"store": STORE_NAME[leg], "case": case})
            if d is not None and len(out.divergences) < 5:
                out.divergences.append(d)


def shrink(I: dict, case: dict, v0: Violation, api_ok: bool) -> Violation:
    """greedy removal of ops while a violation with the same signature remains"""
    if case.get("kind") not in ("core", "ext", "api"):
        return v0
    ops = list(case["ops"])
    sig = v0.signature
    best = [v0]

    def bad(cand: list) -> bool:
        c = {"kind": case["kind"], "ops": cand}
        try:
            vs = check_case(I, c, Outcome(), {}, api_ok)
        except Exception:  # noqa: BLE001
            return False
        hit = [v for v in vs if v.signature == sig]
        if hit:
            best[0] = hit[0]
        return bool(hit)

    def drop(ops: list, i: int) -> list:
        op = ops[i]
        res = ops[:i] + ops[i + 1:]
        if op[0] in ("open", "apiopen"):
            # ids are positional: drop the ops of that subscriber and renumber the later ones
            nk, ck = ("next", "cancel") if op[0] == "open" else ("apinext", "apicancel")
            idx = sum(1 for o in ops[:i] if o[0] == op[0])
            res2 = []
            for o in res:
                if o[0] in (nk, ck) or (o[0] == "race" and op[0] == "open"):
                    if o[1] == idx:
                        if o[0] == "race":
                            res2.append(["append", o[3], o[4]])
                        continue
                    if o[1] > idx:
                        o = [o[0], o[1] - 1] + list(o[2:])
                res2.append(o)
            return res2
        return res

    budget = 120
    i = len(ops) - 1
    while i >= 0 and budget > 0:
        if ops[i][0] == "apiopen":
            i -= 1
            continue  # api ids count only successful opens: keep them
        cand = drop(ops, i)
        budget -= 1
        if bad(cand):
            ops = cand
            i = min(i, len(ops)) - 1
        else:
            i -= 1
    return best[0]


def run(env: Env) -> Outcome:
    out = Outcome()
    out.rule = ("op streams over 1-2 runs: appends of 22 event kinds (plain / internal / 11 terminal incl. subclasses and hand-built "
                "envelopes), subscribers opened at -1 / inside / at the end / ahead of the log / below -1 / at another subscriber's "
                "position, advanced one item at a time, cancelled and reconnected, queries with cursor and limit, poll ticks, external "
                "SQLite writers, storage-level deletion (correspondence only), endpoint requests with now / integer / unparsable "
                "after_sequence and Last-Event-ID in SSE and NDJSON mode; every stream ends with a drain phase; plus free-running "
                "producer/consumer/reconnect tasks under virtual time; plus two store objects on one SQLite file, the second one appending "
                "(and its client reading) at every statement boundary of the first one's append_event / update / append_tick. non-trivial = a stream in which some subscriber received an "
                "event; distinct by op list")
    I = load_impl()
    api_ok = I["api"] is not None
    if not api_ok:
        out.notes.append(f"_api could not be imported ({I.get('api_error')}); endpoint streams skipped")
    rng = env.rng
    cases: list[dict] = []
    free_cases: list[dict] = []
    wcases: list[tuple[dict, bool]] = []
    if env.replay is not None:
        rc = env.replay.get("payload", {}).get("case")
        if isinstance(rc, dict) and rc.get("kind") in ("core", "ext", "trim", "api"):
            cases.append({"kind": rc["kind"], "ops": rc["ops"]})
        elif isinstance(rc, dict) and rc.get("kind") == "free":
            free_cases.append(rc["scenario"])
        elif isinstance(rc, dict) and rc.get("kind") == "writers":
            wcases.append((rc, False))
    cases += corpus()
    wcases += [(c, True) for c in writers_corpus()]
    n_core, n_ext, n_trim, n_api, n_free = (env.budget(26, 900), env.budget(10, 350), env.budget(8, 250), env.budget(16, 600), env.budget(10, 400))
    for _ in range(n_core):
        cases.append(gen_store_stream(rng, "core"))
    for _ in range(n_ext):
        cases.append(gen_store_stream(rng, "ext"))
    for _ in range(n_trim):
        cases.append(gen_store_stream(rng, "trim"))
    for _ in range(n_api):
        cases.append(gen_api_stream(rng))
    cases.append({"kind": "core", "ops": [["malformed", m] for m in MALFORMED]})
    for _ in range(n_free):
        free_cases.append(gen_free(rng))
    for _ in range(env.budget(5, 60)):  # drawn last: the streams above stay what they were for a given seed
        wcases.append((gen_writers(rng), True))

    batches: dict[str, list] = {}
    seen_sigs: set[str] = set()
    for wcase, sweep in wcases:
        if len(seen_sigs) >= FAIL_FAST:
            break
        for v in check_writers(I, wcase, out, batches, sweep):
            if v.signature not in seen_sigs:
                seen_sigs.add(v.signature)
                out.violations.append(v)
    for case in cases:
        out.count("stream:" + case["kind"])
        for op in case["ops"]:
            out.count("op:" + op[0])
            if op[0] in ("append", "xappend", "race"):
                kd = I["kinds"][op[4] if op[0] == "race" else op[2]]
                out.count("event:" + ("terminal" if kd["terminal"] else "internal" if kd["internal"] else "plain"))
            if op[0] == "open":
                out.count("cursor:" + ("start" if op[2] == -1 else "below-start" if op[2] < -1 else "explicit"))
        if len(seen_sigs) >= FAIL_FAST:
            out.notes.append(f"stopped after {len(seen_sigs)} distinct violation signatures")
            break
        try:
            vs = check_case(I, case, out, batches, api_ok)
        except WallTimeout:  # a watchdog that fired outside the guarded region (cleanup of a runaway task)
            vs = [Violation("C16/store_raises[store=?,what=livelock]", "a store kept running without suspending (watchdog fired during cleanup)", case)]
        for v in vs:
            if v.signature in seen_sigs:
                continue
            seen_sigs.add(v.signature)
            try:
                out.violations.append(shrink(I, case, v, api_ok) if (len(case["ops"]) > 12 and len(seen_sigs) <= 2) else v)
            except WallTimeout:
                out.violations.append(v)
        if any(o[0] in ("next", "apinext") for o in case["ops"]):
            out.nontrivial(case["ops"])
        if len(out.samples) < 4 and case["kind"] in ("core", "api") and len(case["ops"]) < 60:
            out.sample({"kind": case["kind"], "ops": [op_line(I, t, op) for t, op in enumerate(case["ops"])][:25]})
    compare_model(out, batches)
    for fc in free_cases:
        if len(seen_sigs) >= FAIL_FAST:
            break
        out.count("stream:free")
        for leg in LEGS:
            out.evaluations += 1
            try:
                fvs = run_free(I, leg, fc)
            except WallTimeout:
                fvs = [Violation(f"C16/free_running[store={STORE_NAME[leg]},what=livelock]", "watchdog fired during cleanup", {"kind": "free", "scenario": fc})]
            for v in fvs:
                if v.signature not in seen_sigs:
                    seen_sigs.add(v.signature)
                    out.violations.append(v)
        out.nontrivial(fc)
    return out
