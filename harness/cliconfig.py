"""Run llamactl's real configuration services (ConfigManager / EnvService / AuthService)
in-process on a private SQLite file (used by C37).

The three anchored modules, `schema.py`, `_migrations.py`, the SQL migrations, `cli/paths.py` and
`cli/utils/redact.py` are the real files.  What `auth_service.py` imports besides them is network
client code that is absent from the sandbox (jwt, cryptography, the control-plane client); those
modules are replaced by name-only stubs: no configuration operation calls into them except
`AuthService.delete_profile`, which revokes a remote API key through `PlatformAuthClient`
(recorded here, errors swallowed by the code under test).
"""
from __future__ import annotations

import asyncio
import json
import os
import shutil
import sqlite3
import sys
import tempfile
import types
from typing import Any

from .boot import boot

_impl: dict[str, Any] | None = None


class _StubAuthClient:
    """PlatformAuthClient stand-in: async context manager, records revoked API-key ids."""

    revoked: list[str] = []

    def __init__(self, *a: Any, **k: Any) -> None:
        pass

    async def __aenter__(self) -> "_StubAuthClient":
        return self

    async def __aexit__(self, *a: Any) -> bool:
        return False

    async def delete_api_key(self, key_id: str) -> None:
        _StubAuthClient.revoked.append(key_id)


class _StubRefresh:
    def __init__(self, *a: Any, **k: Any) -> None:
        pass


def _stub(name: str, package: bool = False, **attrs: Any) -> None:
    m = sys.modules.get(name)
    if m is not None and not getattr(m, "__verif_stub__", False):
        return  # a real module is already loaded: leave it alone
    if m is None:
        m = types.ModuleType(name)
        m.__verif_stub__ = True  # type: ignore[attr-defined]
        if package:
            m.__path__ = []  # type: ignore[attr-defined]
        sys.modules[name] = m
    m.__dict__.update(attrs)


def load_impl() -> dict[str, Any]:
    global _impl
    if _impl is not None:
        return _impl
    boot()
    import httpx

    _stub("llama_agents.cli.auth", package=True)
    _stub("llama_agents.cli.auth.client", PlatformAuthClient=_StubAuthClient, RefreshMiddleware=_StubRefresh)
    _stub("llama_agents.core.client", package=True)
    _stub("llama_agents.core.client.manage_client", ControlPlaneClient=object, httpx=httpx)
    _stub("llama_agents.core.schema", package=True, VersionResponse=object)
    _stub("llama_agents.core.schema.projects", ProjectSummary=object)
    # ConfigManager() resolves the directory at construction; never let an import touch ~/.config
    os.environ.setdefault("LLAMACTL_CONFIG_DIR", os.path.join(tempfile.gettempdir(), "c37-unused-config"))
    from llama_agents.cli.config import _config, auth_service, env_service, schema
    from llama_agents.cli.utils.redact import redact_api_key

    _impl = {
        "ConfigManager": _config.ConfigManager,
        "EnvService": env_service.EnvService,
        "AuthService": auth_service.AuthService,
        "Environment": schema.Environment,
        "DeviceOIDC": schema.DeviceOIDC,
        "DEFAULT_URL": schema.DEFAULT_ENVIRONMENT.api_url,
        "redact": redact_api_key,
    }
    return _impl


def enc(s: str) -> str:
    return ".".join(str(ord(c)) for c in s)


def enc_opt(s: str | None) -> str:
    return "~" if s is None else enc(s)


def cps(s: str) -> str:
    return ",".join(str(ord(c)) for c in s)


def cps_opt(s: str | None) -> str:
    return "~" if s is None else cps(s)


def op_line(op: list) -> str:
    k = op[0]
    if k in ("env-add", "env-upsert"):
        return "|".join([k, cps(op[1]), "1" if op[2] else "0", cps_opt(op[3])])
    if k in ("env-switch", "env-del", "select", "delete"):
        return "|".join([k, cps(op[1])])
    if k == "create-token":
        return "|".join([k, cps(op[1]), cps_opt(op[2])])
    if k == "create-oidc":
        return "|".join([k, cps(op[1]), cps(op[2]), cps(op[3]), cps(op[4])])
    if k == "set-project":
        return "|".join([k, cps(op[1]), cps(op[2])])
    if k == "update-key":
        return "|".join([k, cps(op[1]), cps_opt(op[2]), cps_opt(op[3])])
    if k in ("select-any", "destroy"):
        return k
    if k == "probe":
        return "|".join([k, "1" if op[1] else "0", cps_opt(op[2])])
    if k == "refresh":
        return "|".join([k, str(op[1]), cps(op[2]), cps(op[3])])
    if k == "held":  # the inner op through an AuthService bound to op[1]
        return "|".join([k, cps(op[1]), op_line(op[2])])
    if k == "raw":  # malformed line, passed through
        return op[1]
    raise ValueError(f"unknown op {op!r}")


class _Version:
    """what `fetch_server_version` returns, as far as auto_update_env reads it"""

    def __init__(self, requires_auth: bool, min_llamactl_version: str | None) -> None:
        self.requires_auth = requires_auth
        self.min_llamactl_version = min_llamactl_version
        self.capabilities = ["code_push"]


class RealConfig:
    """One private llamactl configuration (fresh temp dir, real SQLite file)."""

    def __init__(self) -> None:
        self.impl = load_impl()
        base = "/dev/shm" if os.path.isdir("/dev/shm") and os.access("/dev/shm", os.W_OK) else None
        self.dir = tempfile.mkdtemp(prefix="verif-c37-", dir=base)
        self._old = os.environ.get("LLAMACTL_CONFIG_DIR")
        os.environ["LLAMACTL_CONFIG_DIR"] = self.dir
        self.cm = self.impl["ConfigManager"]()
        self.svc = self.impl["EnvService"](lambda: self.cm)
        self.pids: dict[str, int] = {}
        # the harness's own record of the latest select/create event (independent of the model)
        self.pick: tuple[str, str] | None = None
        # every profile ever picked: uuid of the profile that a select/create event designated, and
        # (name, environment) of select events that named no stored profile
        self.picked_ids: set[str] = set()
        self.picked_dangling: set[tuple[str, str]] = set()
        # every select/create event as (name, environment the service was bound to, environment current at that time)
        self.events: list[tuple[str, str, str]] = []
        self.n_picks = 0  # number of select/create events so far (a monitor asks "was the last op a pick event?")
        self._bound: str | None = None

    def close(self) -> None:
        if self._old is None:
            os.environ.pop("LLAMACTL_CONFIG_DIR", None)
        else:
            os.environ["LLAMACTL_CONFIG_DIR"] = self._old
        shutil.rmtree(self.dir, ignore_errors=True)

    # ---- observation (real services + the raw tables)
    def current_env(self) -> Any:
        return self.svc.get_current_environment()

    def active(self) -> Any:
        return self.svc.current_auth_service().get_current_profile()

    def rows(self) -> tuple[list[tuple], list[tuple]]:
        with sqlite3.connect(self.cm.db_path) as conn:
            envs = conn.execute("SELECT api_url, requires_auth, min_llamactl_version FROM environments").fetchall()
            profs = conn.execute(
                "SELECT id, name, api_url, project_id, api_key, api_key_id, device_oidc FROM profiles").fetchall()
        conn.close()
        return envs, profs

    def _picked(self, name: str, env_url: str, profile: Any) -> None:
        """Record a select/create event: the name, the environment current when the operation started, the profile."""
        self.pick = (name, env_url)
        self.events.append((name, self._bound if self._bound is not None else env_url, env_url))
        self.n_picks += 1
        if profile is not None:
            self.picked_ids.add(profile.id)
        else:
            self.picked_dangling.add((name, env_url))

    def _pid(self, uuid: str) -> str:
        return str(self.pids[uuid]) if uuid in self.pids else "?" + uuid

    def _note_created(self, auth: Any) -> int:
        if auth.id not in self.pids:
            self.pids[auth.id] = len(self.pids)
        return self.pids[auth.id]

    def observe(self) -> dict[str, Any]:
        """One observation of the real configuration through the services and the raw tables."""
        env_rows, prof_rows = self.rows()
        return {"cur": self.current_env(), "ptr": self.cm.get_settings_current_profile_name(), "active": self.active(),
                "listed": self.svc.list_environments(), "env_rows": env_rows, "prof_rows": prof_rows}

    def state_line(self, obs: dict[str, Any]) -> str:
        cur, ptr, act, envs, profs = obs["cur"], obs["ptr"], obs["active"], obs["listed"], obs["prof_rows"]
        plist = []
        for (uid, name, url, proj, key, keyid, oidc) in profs:
            o = "~"
            if oidc:
                d = json.loads(oidc)
                o = f"{enc(d['user_id'])}/{enc(d['device_access_token'])}"
            plist.append((self.pids.get(uid, 10**9), f"{self._pid(uid)}:{enc(name)}:{enc(url)}:{enc(proj)}:{enc_opt(key)}:{enc_opt(keyid)}:{o}"))
        plist.sort()
        elist = sorted(((e.api_url, f"{enc(e.api_url)}:{1 if e.requires_auth else 0}:{enc_opt(e.min_llamactl_version)}") for e in envs),
                       key=lambda t: [ord(c) for c in t[0]])
        pick = "~" if self.pick is None else f"{enc(self.pick[0])}@{enc(self.pick[1])}"
        return (f"cur={enc(cur.api_url)}:{1 if cur.requires_auth else 0};ptr={enc_opt(ptr)};"
                f"active={'~' if act is None else self._pid(act.id)};pick={pick};"
                f"envs={','.join(x[1] for x in elist)};profiles={','.join(x[1] for x in plist)}")

    # ---- operations: exactly the service calls the CLI commands make
    def apply(self, op: list) -> str:
        I = self.impl
        k = op[0]
        env_before = self.current_env().api_url  # the environment that is current when the operation starts
        try:
            if k == "env-add":
                self.svc.create_or_update_environment(I["Environment"](api_url=op[1], requires_auth=op[2], min_llamactl_version=op[3]))
                return "ok"
            if k == "env-upsert":
                self.cm.create_or_update_environment(op[1], op[2], op[3])
                return "ok"
            if k == "env-switch":
                self.svc.switch_environment(op[1])
                return "ok"
            if k == "env-del":
                return "true" if self.svc.delete_environment(op[1]) else "false"
            if k == "probe":
                # `env switch` / the capability probes: auto_update_env(current environment); the server's answer is scripted
                AS = I["AuthService"]
                orig = AS.fetch_server_version
                AS.fetch_server_version = lambda _self: _Version(op[1], op[2])
                try:
                    self.svc.auto_update_env(self.svc.get_current_environment())
                finally:
                    AS.fetch_server_version = orig
                return "ok"
            if k == "destroy":
                I["ConfigManager"](init_database=False).destroy_database()
                return "ok"
            if k == "refresh":
                # the token-refresh middleware of some client: AuthService.refresh_to_db(profile id, new DeviceOIDC), by id
                uuid = next((u for u, n in self.pids.items() if n == op[1]), "00000000-0000-4000-8000-%012d" % op[1])
                d = I["DeviceOIDC"](device_name="verif-host", user_id=op[2], email="r@x.io", client_id="cid",
                                    discovery_url="https://idp.invalid/.well-known", device_access_token=op[3])
                self.svc.current_auth_service().refresh_to_db(uuid, d)
                return "ok"
            if k == "held":
                inner = op[2]
                if inner[0] in ("env-add", "env-upsert", "env-switch", "env-del", "probe", "destroy", "refresh", "held", "raw"):
                    return self.apply(inner) if inner[0] not in ("held", "raw") else "bad-op"
                # an AuthService constructed for op[1] (earlier, or by another process), used now
                env = self.cm.get_environment(op[1]) or I["Environment"](api_url=op[1], requires_auth=False)
                self._bound = op[1]
                try:
                    return self._auth_op(I["AuthService"](self.cm, env), inner, env_before)
                finally:
                    self._bound = None
            return self._auth_op(self.svc.current_auth_service(), op, env_before)
        except ValueError as e:
            return self._value_error(k if k != "held" else op[2][0], e)
        except Exception as e:  # anything else is not an outcome the model knows
            return f"raised {type(e).__name__}: {e}"

    def _value_error(self, k: str, e: ValueError) -> str:
        msg = str(e)
        if k == "env-switch" and "not found" in msg:
            return "err-env-not-found"
        if "already exists" in msg:
            return "err-exists"
        if "Project ID is required" in msg:
            return "err-blank-project"
        return f"raised ValueError: {msg}"

    def _auth_op(self, auth_svc: Any, op: list, env_before: str) -> str:
        """One profile operation through the given AuthService (exceptions propagate to `apply`)."""
        I = self.impl
        k = op[0]
        if k == "create-token":
            a = auth_svc.create_profile_from_token(op[1], op[2])
            self._picked(a.name, env_before, a)
            return f"profile {self._note_created(a)} {enc(a.name)}"
        if k == "create-oidc":
            d = I["DeviceOIDC"](device_name="verif-host", user_id=op[2], email=op[3], client_id="cid",
                                discovery_url="https://idp.invalid/.well-known", device_access_token=op[4])
            a = auth_svc.create_or_update_profile_from_oidc(op[1], d)
            self._picked(a.name, env_before, a)
            return f"profile {self._note_created(a)} {enc(a.name)}"
        if k == "select":
            target = auth_svc.get_profile(op[1])
            auth_svc.set_current_profile(op[1])
            self._picked(op[1], env_before, target)
            return "ok"
        if k == "select-any":
            listed = auth_svc.list_profiles()
            auth_svc.select_any_profile()
            if listed:
                # whichever profile the service selected is the pick ("any"): read it back
                chosen = self.cm.get_settings_current_profile_name()
                if chosen is not None:
                    self._picked(chosen, env_before, next((p for p in listed if p.name == chosen), None))
            return "ok"
        if k == "delete":
            return "true" if asyncio.run(auth_svc.delete_profile(op[1])) else "false"
        if k == "set-project":
            auth_svc.set_project(op[1], op[2])
            return "ok"
        if k == "update-key":
            p = auth_svc.get_profile(op[1])
            if p is None:
                return "no-profile"
            p.api_key = op[2]
            p.api_key_id = op[3]
            auth_svc.update_profile(p)
            return "ok"
        raise ValueError(f"unknown op {op!r}")


def decode_line(line: str) -> str:
    """Human-readable form of a driver / implementation output line (for divergence reports)."""
    import re

    def dec(m: "re.Match[str]") -> str:
        try:
            return repr("".join(chr(int(x)) for x in m.group(0).split(".")))
        except ValueError:
            return m.group(0)

    return re.sub(r"\d+(?:\.\d+)+", dec, line)
