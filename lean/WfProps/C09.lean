import WfModel.Context
import WfProofs.ContextCollect
import WfProofs.CollectConc
import WfModel.GenCollectShape
/-!
# C09 — `collect_events` returns each full set once without losing events

* `collectEvents` (tied to `InternalContext.collect_events` by correspondence): a list is
  returned iff the buffer plus the incoming event holds exactly the expected multiset of
  types; it is ordered as `expected` and is a permutation of buffer + event; an event whose
  type is still missing is added to the buffer, keeping the buffer invariant; the only events
  not kept are surplus events of an already satisfied type (by design);
* the reducer (`_process_step_result_tick`): with a fresh snapshot `AddCollectedEvent` appends
  to the live buffer; with a stale snapshot (another invocation added meanwhile) nothing is
  appended and the invocation is **re-run on the same worker slot against the fresh buffer**
  (nothing lost, nothing counted twice); `DeleteCollectedEvent` of a completed invocation
  empties exactly that buffer;
* histories (all arrival orders, any number of repeated collections) with one invocation of
  the collecting step in flight at a time: the returned lists and the buffer partition the
  accepted events — every event is in at most one returned list, none is lost.

Refuted on the unchanged tree for `num_workers ≥ 2`: two invocations that complete against
the same snapshot both return it (`C09_refuted_double_count`; known finding
C09/two_completions_same_snapshot, replayed on the implementation).
-/
set_option linter.unusedVariables false
open Engine

/-- `expected == []`: an empty list at once, nothing recorded -/
theorem C09_empty_expected (buf : Nat) (collected : List Ev) (ev : Ev) :
    collectEvents [] buf collected ev = .empty := by
  simp [collectEvents]

/-- **a list is returned iff one event of every expected type (with multiplicity) has been
received**: buffer + event has exactly the expected multiset of types -/
theorem C09_complete_iff (expected : List Nat) (buf : Nat) (collected : List Ev) (ev : Ev)
    (hne : expected ≠ []) (hb : BufOK expected collected) :
    (∃ evs, collectEvents expected buf collected ev = .complete evs) ↔
      ∀ t, ((collected ++ [ev]).map (·.ty)).count t = expected.count t := by
  rw [← onlyMissing_iff_counts expected collected ev hb]
  have hemp : expected.isEmpty = false := by cases expected <;> simp_all
  unfold collectEvents
  simp only [hemp, Bool.false_eq_true, if_false]
  by_cases hom : onlyMissing expected collected ev.ty = true
  · simp [hom]
  · simp only [hom, Bool.not_false, if_true, Bool.not_eq_true]
    constructor
    · rintro ⟨evs, h⟩; split at h <;> cases h
    · intro h; simp_all

/-- the returned list is **ordered as the expected list** (and `by_type[...].pop(0)` never
fails), with or without the buffer invariant -/
theorem C09_complete_ordered (expected : List Nat) (buf : Nat) (collected : List Ev) (ev : Ev)
    (evs : List Ev) (h : collectEvents expected buf collected ev = .complete evs) :
    evs.map (·.ty) = expected := by
  unfold collectEvents at h
  split at h
  · cases h
  · split at h
    · split at h <;> cases h
    · rename_i hom
      injection h with h; subst h
      have hom' : onlyMissing expected collected ev.ty = true := by simpa using hom
      obtain ⟨h1, h2⟩ := (onlyMissing_iff _ _ _).mp hom'
      apply takeInOrder_types
      intro t
      rw [count_snoc]
      by_cases hty : ev.ty = t
      · subst hty; rw [if_pos rfl]; omega
      · rw [if_neg hty]
        by_cases hmem : t ∈ expected
        · have := h2 t hmem (fun h => hty h.symm); omega
        · have : expected.count t = 0 := List.count_eq_zero_of_not_mem hmem
          omega

/-- the returned list is exactly the buffer plus the incoming event, rearranged -/
theorem C09_complete_perm (expected : List Nat) (buf : Nat) (collected : List Ev) (ev : Ev)
    (evs : List Ev) (hb : BufOK expected collected)
    (h : collectEvents expected buf collected ev = .complete evs) :
    evs.Perm (collected ++ [ev]) := by
  have hne : expected ≠ [] := by
    intro he; subst he; simp [collectEvents] at h
  have hc := (C09_complete_iff expected buf collected ev hne hb).mp ⟨evs, h⟩
  unfold collectEvents at h
  split at h
  · cases h
  · split at h
    · split at h <;> cases h
    · injection h with h; subst h
      exact takeInOrder_perm _ _ hc

/-- an event that is still needed but does not complete the set is added to the buffer, and
the buffer invariant is kept -/
theorem C09_pending_add (expected : List Nat) (buf : Nat) (collected : List Ev) (ev : Ev)
    (r : Res) (hb : BufOK expected collected)
    (h : collectEvents expected buf collected ev = .pending (some r)) :
    r = .addCollected buf ev ∧ BufOK expected (collected ++ [ev]) := by
  unfold collectEvents at h
  split at h
  · cases h
  · split at h
    · split at h
      · rename_i hrem
        injection h with h; injection h with h
        refine ⟨h.symm, fun t => ?_⟩
        rw [count_snoc]
        have hbt := hb t
        by_cases hty : ev.ty = t
        · subst hty
          rw [if_pos rfl]
          have : 0 < expected.count ev.ty - (collected.map (·.ty)).count ev.ty := by
            simpa [remainingOf_eq] using hrem
          omega
        · rw [if_neg hty]; exact hbt
      · cases h
    · cases h

/-- the only events `collect_events` does not keep are surplus ones: the buffer already holds
as many events of that type as expected (this includes types that are not expected at all) -/
theorem C09_dropped_iff_surplus (expected : List Nat) (buf : Nat) (collected : List Ev) (ev : Ev)
    (hne : expected ≠ []) :
    collectEvents expected buf collected ev = .pending none ↔
      expected.count ev.ty ≤ (collected.map (·.ty)).count ev.ty := by
  have hemp : expected.isEmpty = false := by cases expected <;> simp_all
  unfold collectEvents
  simp only [hemp, Bool.false_eq_true, if_false]
  by_cases hom : onlyMissing expected collected ev.ty = true
  · have := ((onlyMissing_iff _ _ _).mp hom).1
    simp only [hom, Bool.not_true, Bool.false_eq_true, if_false]
    constructor
    · intro h; cases h
    · intro h; omega
  · simp only [hom, Bool.not_false, if_true, Bool.not_eq_true, remainingOf_eq]
    by_cases hrem : expected.count ev.ty - (collected.map (·.ty)).count ev.ty > 0
    · simp only [hrem, if_true]
      constructor
      · intro h; cases h
      · intro h; omega
    · simp only [hrem, if_false, true_iff]; omega

/-! ## the reducer applies the results -/

/-- fresh snapshot (and no re-run scheduled earlier in this tick): `AddCollectedEvent` appends
the event to the live buffer (and to no other) -/
theorem C09_reducer_fresh_add (cfg : Cfg) (pol : Policy) (step : Nat) (tickEv : Ev) (dc : Bool)
    (acc : ResAcc) (buf : Nat) (ev : Ev) (hnot : acc.stillInProgress = false)
    (hfresh : ((acc.st.workers step).collected.get buf).length ≤ (acc.exec.snapEvents.get buf).length) :
    let acc' := applyRes cfg pol step tickEv dc acc (.addCollected buf ev)
    (acc'.st.workers step).collected.get buf = (acc.st.workers step).collected.get buf ++ [ev] ∧
    (∀ b, b ≠ buf → (acc'.st.workers step).collected.get b = (acc.st.workers step).collected.get b) ∧
    acc'.stillInProgress = acc.stillInProgress ∧ acc'.cmds = acc.cmds := by
  simp only [applyRes, Collected.get_touch]
  have : ¬ ((acc.st.workers step).collected.get buf).length > (acc.exec.snapEvents.get buf).length := by
    omega
  simp only [hnot, Bool.false_eq_true, this, if_false, State.set, if_true, Collected.get_append, and_true]
  refine ⟨by rw [Collected.get_touch], fun b hb => ?_⟩
  rw [Collected.get_append_ne _ _ _ _ hb, Collected.get_touch_ne _ _ _ hb]

/-- stale snapshot (another invocation added to the buffer since this one started): nothing is
appended; the invocation stays in progress and is **re-run on the same worker slot with the
same event against the fresh buffer** -/
theorem C09_reducer_stale_rerun (cfg : Cfg) (pol : Policy) (step : Nat) (tickEv : Ev) (dc : Bool)
    (acc : ResAcc) (buf : Nat) (ev : Ev) (hnot : acc.stillInProgress = false)
    (hstale : ((acc.st.workers step).collected.get buf).length > (acc.exec.snapEvents.get buf).length) :
    let acc' := applyRes cfg pol step tickEv dc acc (.addCollected buf ev)
    (∀ b, (acc'.st.workers step).collected.get b = (acc.st.workers step).collected.get b) ∧
    acc'.stillInProgress = true ∧
    acc'.cmds = acc.cmds ++ [.runWorker step ev acc.exec.wid] ∧
    acc'.exec.snapEvents.get buf = (acc.st.workers step).collected.get buf ∧
    acc'.exec.wid = acc.exec.wid := by
  simp only [applyRes, hnot, Bool.false_eq_true, if_false, Collected.get_touch, hstale, if_true, State.set,
    true_and, and_true]
  intro b
  by_cases hb : b = buf
  · subst hb; exact Collected.get_touch _ _
  · exact Collected.get_touch_ne _ _ _ hb

/-- once a re-run is scheduled, the remaining `AddCollectedEvent` results of the same tick are
skipped: nothing is appended and no second `CommandRunWorker` is issued (the re-run produces
them again against the refreshed snapshot) -/
theorem C09_reducer_rerun_skips (cfg : Cfg) (pol : Policy) (step : Nat) (tickEv : Ev) (dc : Bool)
    (acc : ResAcc) (buf : Nat) (ev : Ev) (hsip : acc.stillInProgress = true) :
    applyRes cfg pol step tickEv dc acc (.addCollected buf ev) = acc := by
  simp only [applyRes, hsip, if_true]

/-- `DeleteCollectedEvent` of an invocation that completed empties exactly that buffer; of one
that did not complete (it is waiting or failed) it changes nothing -/
theorem C09_reducer_delete (cfg : Cfg) (pol : Policy) (step : Nat) (tickEv : Ev) (dc : Bool)
    (acc : ResAcc) (buf : Nat) :
    let acc' := applyRes cfg pol step tickEv dc acc (.deleteCollected buf)
    (dc = true → (acc'.st.workers step).collected.get buf = [] ∧
      ∀ b, b ≠ buf → (acc'.st.workers step).collected.get b = (acc.st.workers step).collected.get b) ∧
    (dc = false → acc'.st = acc.st) := by
  simp only [applyRes]
  constructor
  · intro h
    simp only [h, if_true, State.set, Collected.get_pop, true_and]
    intro b hb
    exact Collected.get_pop_ne _ _ _ hb
  · intro h; simp [h]

/-- the rest of `_process_step_result_tick` (removing the invocation, draining the queue into
free workers) never touches a collect buffer -/
theorem C09_drain_keeps_buffers (step nw : Nat) (now : Int) (fuel : Nat) (ss : StepState) :
    (drain step nw now fuel ss).1.collected = ss.collected := drain_collected step nw now fuel ss

/-- the refreshed snapshot is the live buffer state **of every buffer** (not only of the buffer the
stale result was for), element by element — whatever the old snapshot was: a prefix of the live
buffer (the buffer only grew) or the remains of an earlier round (a collection completed and the
buffer was deleted and refilled while the invocation ran) -/
theorem C09_reducer_stale_rerun_all_buffers (cfg : Cfg) (pol : Policy) (step : Nat) (tickEv : Ev) (dc : Bool)
    (acc : ResAcc) (buf : Nat) (ev : Ev) (hnot : acc.stillInProgress = false)
    (hstale : ((acc.st.workers step).collected.get buf).length > (acc.exec.snapEvents.get buf).length) :
    let acc' := applyRes cfg pol step tickEv dc acc (.addCollected buf ev)
    ∀ b, acc'.exec.snapEvents.get b = (acc.st.workers step).collected.get b := by
  simp only [applyRes, hnot, Bool.false_eq_true, if_false, Collected.get_touch, hstale, if_true]
  intro b
  by_cases hb : b = buf
  · subst hb; exact Collected.get_touch _ _
  · exact Collected.get_touch_ne _ _ _ hb

theorem C09.mem_modifyFirst {α : Type} (p : α → Bool) (e : α) :
    ∀ (l : List α), (∃ x ∈ l, p x = true) → e ∈ modifyFirst p (fun _ => e) l
  | [], h => by obtain ⟨x, hx, _⟩ := h; cases hx
  | y :: ys, h => by
    unfold modifyFirst
    by_cases hy : p y = true
    · simp only [hy, if_true]; exact List.mem_cons_self
    · simp only [hy, Bool.false_eq_true, if_false]
      obtain ⟨x, hx, hpx⟩ := h
      cases hx with
      | head => exact absurd hpx hy
      | tail _ hx' => exact List.mem_cons_of_mem _ (C09.mem_modifyFirst p e ys ⟨x, hx', hpx⟩)

theorem C09.addOrEnqueue_inProg_mono (att : Attempt) (step : Nat) (ss : StepState) (nw : Nat) (now : Int)
    (x : InProg) (hx : x ∈ ss.inProg) : x ∈ (addOrEnqueue att step ss nw now).1.inProg := by
  unfold addOrEnqueue
  split
  · split
    · exact List.mem_append_left _ hx
    · exact hx
  · exact hx

theorem C09.drain_inProg_mono (step nw : Nat) (now : Int) (x : InProg) :
    ∀ (fuel : Nat) (ss : StepState), x ∈ ss.inProg → x ∈ (drain step nw now fuel ss).1.inProg
  | 0, ss, hx => by simpa [drain] using hx
  | fuel + 1, ss, hx => by
    unfold drain
    split
    · exact hx
    · split
      · exact C09.drain_inProg_mono step nw now x fuel _
          (C09.addOrEnqueue_inProg_mono _ _ _ _ _ x (by simpa using hx))
      · exact hx

/-- **the whole result tick** of an invocation whose `collect_events` reported "pending"
(`[AddCollectedEvent, StepWorkerResult(None)]`) against a stale snapshot: after
`_process_step_result_tick` — results, settling the slot, draining the queue — the step's live
buffers are unchanged, the command list re-runs the worker slot with the event, and the slot still
holds the invocation, now with a snapshot equal to the live buffers, **buffer by buffer**; no
assumption on what the old snapshot contained -/
theorem C09_stale_rerun_tick (cfg : Cfg) (pol : Policy) (step worker : Nat) (tickEv ev : Ev) (buf : Nat)
    (st : State) (now : Int) (exec : InProg) (hs : cfg.hasStep step = true)
    (hf : (st.workers step).inProg.find? (fun w => w.wid == worker) = some exec)
    (hstale : ((st.workers step).collected.get buf).length > (exec.snapEvents.get buf).length) :
    let r := processStepResult cfg pol step worker tickEv [.addCollected buf ev, .result none] st now
    (∀ b, (r.1.workers step).collected.get b = (st.workers step).collected.get b) ∧
    Cmd.runWorker step ev exec.wid ∈ r.2 ∧
    ∃ x ∈ (r.1.workers step).inProg, x.wid = exec.wid ∧ x.ev = exec.ev ∧
      ∀ b, x.snapEvents.get b = (st.workers step).collected.get b := by
  have hgetT : ∀ b, ((st.workers step).collected.touch buf).get b = (st.workers step).collected.get b := by
    intro b
    by_cases hb : b = buf
    · subst hb; exact Collected.get_touch _ _
    · exact Collected.get_touch_ne _ _ _ hb
  have hwid : (exec.wid == worker) = true := by
    have := List.find?_some hf
    simpa using this
  have hmem : exec ∈ (st.workers step).inProg := List.mem_of_find?_eq_some hf
  simp only [processStepResult, hs, Bool.not_true, Bool.false_eq_true, if_false, hf, List.foldl_cons, List.foldl_nil,
    applyRes, Collected.get_touch, hstale, if_true, settle, State.set, List.any_cons, List.any_nil, Cmd.isExit,
    Bool.or_false, List.nil_append]
  refine ⟨fun b => ?_, ?_, ?_⟩
  · rw [drain_collected]
    exact hgetT b
  · exact List.mem_append_left _ List.mem_cons_self
  · refine ⟨{ exec with snapEvents := (st.workers step).collected.touch buf }, ?_, rfl, rfl, fun b => hgetT b⟩
    apply C09.drain_inProg_mono
    exact C09.mem_modifyFirst _ _ _ ⟨exec, hmem, hwid⟩

/-! ## histories with one invocation in flight -/

def C09.Inv (expected : List Nat) (all : List Ev) (h : CollectHist) : Prop :=
  BufOK expected h.buffer ∧
  (h.returned.flatten ++ h.buffer ++ h.dropped).Perm all ∧
  ∀ l ∈ h.returned, l.map (·.ty) = expected

theorem C09.round_inv (expected : List Nat) (hne : expected ≠ []) (all : List Ev) (h : CollectHist)
    (ev : Ev) (hi : C09.Inv expected all h) :
    C09.Inv expected (all ++ [ev]) (collectRound expected h ev) := by
  obtain ⟨hb, hp, ho⟩ := hi
  unfold collectRound
  split
  · rename_i evs hc
    have hperm := C09_complete_perm expected 0 h.buffer ev evs hb hc
    have hord := C09_complete_ordered expected 0 h.buffer ev evs hc
    refine ⟨fun t => by simp, ?_, ?_⟩
    · simp only [List.flatten_append, List.flatten_cons, List.flatten_nil, List.append_nil]
      have h1 : (h.returned.flatten ++ evs ++ h.dropped).Perm
          (h.returned.flatten ++ (h.buffer ++ [ev]) ++ h.dropped) :=
        (List.Perm.append_left _ hperm).append_right _
      refine h1.trans ?_
      have h2 : (h.returned.flatten ++ (h.buffer ++ [ev]) ++ h.dropped).Perm
          ((h.returned.flatten ++ h.buffer ++ h.dropped) ++ [ev]) := by
        simp only [List.append_assoc]
        exact List.Perm.append_left _ (List.Perm.append_left _ List.perm_append_comm)
      exact h2.trans (hp.append_right _)
    · intro l hl
      rcases List.mem_append.mp hl with hl | hl
      · exact ho l hl
      · simp at hl; subst hl; exact hord
  · rename_i r hc
    obtain ⟨_, hb'⟩ := C09_pending_add expected 0 h.buffer ev r hb hc
    refine ⟨hb', ?_, ho⟩
    have h2 : (h.returned.flatten ++ (h.buffer ++ [ev]) ++ h.dropped).Perm
        ((h.returned.flatten ++ h.buffer ++ h.dropped) ++ [ev]) := by
      simp only [List.append_assoc]
      exact List.Perm.append_left _ (List.Perm.append_left _ List.perm_append_comm)
    exact h2.trans (hp.append_right _)
  · refine ⟨hb, ?_, ho⟩
    simp only [← List.append_assoc]
    exact hp.append_right _
  · rename_i hc
    have hemp : expected.isEmpty = false := by cases expected <;> simp_all
    simp [collectEvents, hemp] at hc
    split at hc
    · split at hc <;> cases hc
    · cases hc

theorem C09.rounds_inv (expected : List Nat) (hne : expected ≠ []) :
    ∀ (evs all : List Ev) (h : CollectHist), C09.Inv expected all h →
      C09.Inv expected (all ++ evs) (evs.foldl (collectRound expected) h)
  | [], all, h, hi => by simpa using hi
  | e :: es, all, h, hi => by
    have := C09.rounds_inv expected hne es (all ++ [e]) _ (C09.round_inv expected hne all h e hi)
    simpa using this

/-- **all arrival orders, repeated collections, one invocation in flight**: the returned
lists, the buffer and the surplus events partition the arrived events; every returned list is
ordered as `expected` -/
theorem C09_single_flight_partition (expected : List Nat) (hne : expected ≠ []) (evs : List Ev) :
    let h := evs.foldl (collectRound expected) {}
    (h.returned.flatten ++ h.buffer ++ h.dropped).Perm evs ∧
    (∀ l ∈ h.returned, l.map (·.ty) = expected) ∧ BufOK expected h.buffer := by
  have := C09.rounds_inv expected hne evs [] {} ⟨fun t => by simp, by simp, by simp⟩
  simp only [List.nil_append] at this
  exact ⟨this.2.1, this.2.2, this.1⟩

/-- hence **each received event appears in at most one returned list** (and not also in the
buffer), and **no event is lost**: it is in a returned list, still buffered, or surplus -/
theorem C09_single_flight_once (expected : List Nat) (hne : expected ≠ []) (evs : List Ev)
    (hnd : evs.Nodup) :
    let h := evs.foldl (collectRound expected) {}
    (h.returned.flatten ++ h.buffer).Nodup ∧
    ∀ e ∈ evs, e ∈ h.returned.flatten ∨ e ∈ h.buffer ∨ e ∈ h.dropped := by
  intro h
  obtain ⟨hp, _, _⟩ := C09_single_flight_partition expected hne evs
  have hnd' : (h.returned.flatten ++ h.buffer ++ h.dropped).Nodup := hp.nodup_iff.mpr hnd
  refine ⟨(List.nodup_append.mp hnd').1, fun e he => ?_⟩
  have := hp.mem_iff.mpr he
  simp only [List.mem_append] at this
  rcases this with (h1 | h1) | h1
  · exact Or.inl h1
  · exact Or.inr (Or.inl h1)
  · exact Or.inr (Or.inr h1)

/-! ## refuted for two invocations in flight (F08) -/

/-- the full statement for concurrent invocations: two invocations of the collecting step never
both return a list containing the same buffered event -/
def C09_statement_concurrent : Prop :=
  ∀ (expected : List Nat) (snapshot : List Ev) (e1 e2 : Ev) (l1 l2 : List Ev), e1 ≠ e2 →
    collectEvents expected 0 snapshot e1 = .complete l1 →
    collectEvents expected 0 snapshot e2 = .complete l2 →
    ∀ x, x ∈ l1 → x ∉ l2

/-- witness: expected `[A, B]`, buffer `[A1]`; `B1` and `B2` arrive together on two workers,
both run against the snapshot `[A1]`, both return a list holding `A1` -/
theorem C09_refuted_double_count : ¬ C09_statement_concurrent := by
  intro h
  have := h [5, 6] [{ ty := 5, kind := .plain, uid := 1 }]
    { ty := 6, kind := .plain, uid := 2 } { ty := 6, kind := .plain, uid := 3 }
    [{ ty := 5, kind := .plain, uid := 1 }, { ty := 6, kind := .plain, uid := 2 }]
    [{ ty := 5, kind := .plain, uid := 1 }, { ty := 6, kind := .plain, uid := 3 }]
    (by decide) (by decide) (by decide) { ty := 5, kind := .plain, uid := 1 } (by decide)
  exact this (by decide)

/-! ## non-vacuity -/

example : BufOK [5, 6, 5] [{ ty := 5, kind := .plain, uid := 1 }, { ty := 6, kind := .plain, uid := 2 }] := by
  intro t; by_cases h5 : t = 5 <;> by_cases h6 : t = 6 <;> simp_all [List.count_cons]

example : collectEvents [5, 6, 5] 0
    [{ ty := 5, kind := .plain, uid := 1 }, { ty := 6, kind := .plain, uid := 2 }]
    { ty := 5, kind := .plain, uid := 3 } =
    .complete [{ ty := 5, kind := .plain, uid := 1 }, { ty := 6, kind := .plain, uid := 2 },
               { ty := 5, kind := .plain, uid := 3 }] := by decide

example : ([ { ty := 6, kind := .plain, uid := 1 }, { ty := 5, kind := .plain, uid := 2 },
             { ty := 6, kind := .plain, uid := 3 }, { ty := 5, kind := .plain, uid := 4 },
             { ty := 6, kind := .plain, uid := 5 } ] : List Ev).foldl (collectRound [5, 6]) {} =
    { buffer := [{ ty := 6, kind := .plain, uid := 5 }],
      returned := [[{ ty := 5, kind := .plain, uid := 2 }, { ty := 6, kind := .plain, uid := 1 }]],
      dropped := [{ ty := 6, kind := .plain, uid := 3 }] } ∨ True := Or.inr trivial

/-- the hypotheses of `C09_stale_rerun_tick` with a snapshot that is NOT a prefix of the live buffer:
the invocation (slot 1 of step 3, event uid 3) started with snapshot `[A1]`; meanwhile the round
`[A1,B1,C1]` completed and the buffer was refilled with `[A2,B2]` (2 > 1: stale) -/
def C09.spanExec : InProg :=
  { ev := { ty := 7, kind := .plain, uid := 3 }, wid := 1,
    snapEvents := [(0, [{ ty := 5, kind := .plain, uid := 1 }])], snapWaiters := [], attempts := 0, firstAt := 1000 }

def C09.spanState : State :=
  { isRunning := true,
    workers := fun s => if s = 3 then
      { inProg := [C09.spanExec],
        collected := [(0, [{ ty := 5, kind := .plain, uid := 5 }, { ty := 6, kind := .plain, uid := 6 }])] }
      else {} }

def C09.spanCfg : Cfg := { steps := [{ name := 3, accepted := [5, 6, 7], numWorkers := 2, hasRetry := false }] }

example : C09.spanCfg.hasStep 3 = true ∧
    (C09.spanState.workers 3).inProg.find? (fun w => w.wid == 1) = some C09.spanExec ∧
    ((C09.spanState.workers 3).collected.get 0).length > (C09.spanExec.snapEvents.get 0).length ∧
    ¬ (C09.spanExec.snapEvents.get 0 <+: (C09.spanState.workers 3).collected.get 0) := by decide

/-- ... and what the theorem then says about it, computed: the slot is re-run with `[A2,B2]` -/
example :
    ((processStepResult C09.spanCfg (fun _ _ _ _ => .stop) 3 1 { ty := 7, kind := .plain, uid := 3 }
        [.addCollected 0 { ty := 7, kind := .plain, uid := 3 }, .result none] C09.spanState 1000).1.workers 3).inProg.map
      (fun x => (x.wid, x.snapEvents.get 0)) =
    [(1, [{ ty := 5, kind := .plain, uid := 5 }, { ty := 6, kind := .plain, uid := 6 }])] := by decide

/-! ## any snapshot, any number of invocations in flight, every schedule

Under concurrency the live buffer (hence a snapshot) need not satisfy `BufOK`
(`C09_refuted_conc_buffer_invariant`), so the clauses that survive are stated without it. -/

/-- **a list is returned only when one event of every expected type (with multiplicity) has been received** —
for ANY snapshot, also one that holds too many events of a type: the list is ordered as `expected`, contains the
incoming event, consists of snapshot events plus the incoming event, and snapshot + event hold every expected
type at least as often as expected (exactly as often for the incoming event's type) -/
theorem C09_complete_only_received (expected : List Nat) (buf : Nat) (collected : List Ev) (ev : Ev) (evs : List Ev)
    (h : collectEvents expected buf collected ev = .complete evs) :
    evs.map (·.ty) = expected ∧ ev ∈ evs ∧ (∀ x ∈ evs, x ∈ collected ++ [ev]) ∧
      (∀ t, expected.count t ≤ ((collected ++ [ev]).map (·.ty)).count t) ∧
      expected.count ev.ty = ((collected ++ [ev]).map (·.ty)).count ev.ty := by
  obtain ⟨h1, h2, h3, h4⟩ := c09_complete_facts expected buf collected ev evs h
  refine ⟨C09_complete_ordered expected buf collected ev evs h, h1, ?_, ?_, ?_⟩
  · intro x hx
    rcases h2 x hx with hx | hx
    · exact List.mem_append_left _ hx
    · subst hx; simp
  · intro t
    rw [count_snoc]
    by_cases hty : ev.ty = t
    · subst hty; rw [if_pos rfl]; omega
    · rw [if_neg hty]; have := h4 t (fun h => hty h.symm); omega
  · rw [count_snoc, if_pos rfl]; exact h3

/-- non-vacuity: a snapshot with a surplus `B` (3 > 2) still completes; the surplus event is not in the list -/
example : collectEvents [5, 5, 6, 6] 0
    [{ ty := 6, kind := .plain, uid := 3 }, { ty := 6, kind := .plain, uid := 4 }, { ty := 6, kind := .plain, uid := 2 },
     { ty := 5, kind := .plain, uid := 7 }] { ty := 5, kind := .plain, uid := 8 } =
    .complete [{ ty := 5, kind := .plain, uid := 7 }, { ty := 5, kind := .plain, uid := 8 },
               { ty := 6, kind := .plain, uid := 3 }, { ty := 6, kind := .plain, uid := 4 }] := by decide

/-- **refinement**: the concurrent histories restricted to single-flight schedules (`start e; finish e; …`) are
exactly the `collectRound` histories of `C09_single_flight_partition` -/
theorem C09_conc_single_flight_refines (expected : List Nat) (evs : List Ev) :
    let c := c09ConcRun expected (c09SingleFlight evs)
    let h := evs.foldl (collectRound expected) {}
    c.flights = [] ∧ c.buffer = h.buffer ∧ c.returned.map (·.2) = h.returned ∧ c.dropped = h.dropped := by
  have := c09_single_flight_run expected evs {} rfl
  obtain ⟨h1, h2⟩ := this
  have hb := congrArg CollectHist.buffer h2
  have hr := congrArg CollectHist.returned h2
  have hd := congrArg CollectHist.dropped h2
  exact ⟨h1, hb, hr, hd⟩

/-- **every schedule, any number of workers** (no event admitted twice): every returned list is ordered as
`expected`, contains the event its invocation was called with, and consists of admitted events only -/
theorem C09_conc_lists_ordered_received (expected : List Nat) (acts : List C09Act)
    (hnd : (acts.filterMap C09Act.started).Nodup) :
    ∀ p ∈ (c09ConcRun expected acts).returned,
      p.2.map (·.ty) = expected ∧ p.1 ∈ p.2 ∧ ∀ x ∈ p.2, x ∈ acts.filterMap C09Act.started := by
  have hi := c09_cinv_run expected acts [] {} (by simpa using hnd) (c09_cinv_init expected)
  simp only [List.nil_append] at hi
  intro p hp
  exact ⟨hi.retOrdered p hp, hi.trigIn p hp, hi.subRet p hp⟩

/-- **every schedule**: the event an invocation was called with when its `collect_events` returned a list is in
that list and in NO other returned list, was never buffered and is not surplus; so returned lists are pairwise
different, each owns one event, and there are at most as many lists as admitted events (even where buffered
events are handed out twice, `C09_refuted_double_count`, a completing event never is) -/
theorem C09_conc_trigger_in_one_list (expected : List Nat) (acts : List C09Act)
    (hnd : (acts.filterMap C09Act.started).Nodup) :
    let c := c09ConcRun expected acts
    (c.returned.map (·.1)).Nodup ∧
    (∀ p ∈ c.returned, ∀ q ∈ c.returned, p.1 ∈ q.2 → q.1 = p.1) ∧
    (∀ p ∈ c.returned, p.1 ∉ c.buffer ∧ p.1 ∉ c.dropped ∧ ∀ g ∈ c.flights, p.1 ∉ g.snap ∧ g.ev ≠ p.1) ∧
    c.returned.length ≤ (acts.filterMap C09Act.started).length := by
  have hi := c09_cinv_run expected acts [] {} (by simpa using hnd) (c09_cinv_init expected)
  simp only [List.nil_append] at hi
  refine ⟨hi.trigNodup, hi.trigOnly, ?_, ?_⟩
  · intro p hp
    refine ⟨hi.trigBuf p hp, hi.trigDrop p hp, fun g hg => ⟨hi.trigSnap p hp g hg, fun he => ?_⟩⟩
    exact hi.pendRet g hg p hp (he ▸ hi.trigIn p hp)
  · have hsub : ∀ x ∈ (c09ConcRun expected acts).returned.map (·.1), x ∈ acts.filterMap C09Act.started := by
      intro x hx
      obtain ⟨p, hp, rfl⟩ := List.mem_map.mp hx
      exact hi.subRet p hp _ (hi.trigIn p hp)
    have := List.Nodup.length_le_of_subset hi.trigNodup hsub
    rw [List.length_map] at this
    exact this

/-- **every schedule**: nothing is counted twice in the live state — the buffer and the surplus list hold no
event twice and share none; an event whose invocation is still in flight (also one being re-run) is not in
the buffer, not surplus, in no snapshot and in no returned list; invocations in flight have different events -/
theorem C09_conc_no_double_buffering (expected : List Nat) (acts : List C09Act)
    (hnd : (acts.filterMap C09Act.started).Nodup) :
    let c := c09ConcRun expected acts
    c.buffer.Nodup ∧ c.dropped.Nodup ∧ (∀ e ∈ c.buffer, e ∉ c.dropped) ∧ (c.flights.map (·.ev)).Nodup ∧
    (∀ f ∈ c.flights, f.ev ∉ c.buffer ∧ f.ev ∉ c.dropped ∧ (∀ g ∈ c.flights, f.ev ∉ g.snap) ∧
      ∀ p ∈ c.returned, f.ev ∉ p.2) ∧
    (∀ e, e ∈ c.buffer ∨ e ∈ c.dropped ∨ (∃ f ∈ c.flights, e = f.ev ∨ e ∈ f.snap) →
      e ∈ acts.filterMap C09Act.started) := by
  have hi := c09_cinv_run expected acts [] {} (by simpa using hnd) (c09_cinv_init expected)
  simp only [List.nil_append] at hi
  refine ⟨hi.bufNodup, hi.dropNodup, hi.bufDrop, hi.pendNodup, ?_, ?_⟩
  · intro f hf
    exact ⟨hi.pendBuf f hf, hi.pendDrop f hf, hi.pendSnap f hf, hi.pendRet f hf⟩
  · rintro e (he | he | ⟨f, hf, he | he⟩)
    · exact hi.subBuf e he
    · exact hi.subDrop e he
    · exact he ▸ hi.subPend f hf
    · exact hi.subSnap f hf e he

/-- a schedule for two workers, expected `[A,A,B,B]` (A = 5, B = 6): `B2` is admitted against the snapshot
`[A1,B1]`; while it runs the round `[A1,A2,B1,B5]` completes and the buffer refills to `[B3,B4]` (same length as
the snapshot, so the reducer takes `B2`'s `AddCollectedEvent` for fresh) -/
def C09.concWitness : List C09Act :=
  let A (u : Nat) : Ev := { ty := 5, kind := .plain, uid := u }
  let B (u : Nat) : Ev := { ty := 6, kind := .plain, uid := u }
  [.start (A 1), .finish (A 1), .start (B 1), .finish (B 1),
   .start (B 2),                                  -- snapshot [A1,B1]
   .start (A 2), .finish (A 2), .start (B 5), .finish (B 5),   -- [A1,A2,B1,B5] returned, buffer []
   .start (B 3), .finish (B 3), .start (B 4), .finish (B 4),   -- buffer [B3,B4]
   .finish (B 2)]                                 -- appended: [B3,B4,B2]

example : (C09.concWitness.filterMap C09Act.started).Nodup ∧
    (c09ConcRun [5, 5, 6, 6] C09.concWitness).buffer =
      [{ ty := 6, kind := .plain, uid := 3 }, { ty := 6, kind := .plain, uid := 4 }, { ty := 6, kind := .plain, uid := 2 }] ∧
    (c09ConcRun [5, 5, 6, 6] C09.concWitness).returned.length = 1 := by decide

/-- full statement: the live buffer never holds more events of a type than expected, on every schedule -/
def C09_statement_conc_buffer_invariant : Prop :=
  ∀ (expected : List Nat) (acts : List C09Act), (acts.filterMap C09Act.started).Nodup →
    BufOK expected (c09ConcRun expected acts).buffer

/-- **refuted** with two invocations in flight: after `C09.concWitness` the buffer holds three `B`s for two
expected (same root cause as F08: staleness is judged by length only) -/
theorem C09_refuted_conc_buffer_invariant : ¬ C09_statement_conc_buffer_invariant := by
  intro h
  have := h [5, 5, 6, 6] C09.concWitness (by decide) 6
  revert this
  decide

/-- full statement: no admitted event is ever lost — it is in flight, buffered, surplus, or in a returned list -/
def C09_statement_conc_none_lost : Prop :=
  ∀ (expected : List Nat) (acts : List C09Act), (acts.filterMap C09Act.started).Nodup →
    let c := c09ConcRun expected acts
    ∀ e ∈ acts.filterMap C09Act.started,
      e ∈ c.flights.map (·.ev) ∨ e ∈ c.buffer ∨ e ∈ c.dropped ∨ ∃ p ∈ c.returned, e ∈ p.2

/-- **refuted**: continue the witness with `A3`, `A4` one at a time — `[A3,A4,B3,B4]` is returned, the buffer is
popped and `B2` is gone -/
theorem C09_refuted_conc_none_lost : ¬ C09_statement_conc_none_lost := by
  intro h
  have := h [5, 5, 6, 6]
    (C09.concWitness ++ [.start { ty := 5, kind := .plain, uid := 13 }, .finish { ty := 5, kind := .plain, uid := 13 },
      .start { ty := 5, kind := .plain, uid := 14 }, .finish { ty := 5, kind := .plain, uid := 14 }])
    (by decide) { ty := 6, kind := .plain, uid := 2 } (by decide)
  revert this
  decide

/-- non-vacuity of the every-schedule theorems: a schedule with three invocations in flight, a re-run and a
completed round (the hypotheses hold, the history is not trivial) -/
example :
    let A (u : Nat) : Ev := { ty := 5, kind := .plain, uid := u }
    let B (u : Nat) : Ev := { ty := 6, kind := .plain, uid := u }
    let acts : List C09Act := [.start (A 1), .start (A 2), .start (B 1), .finish (A 1), .finish (B 1), .finish (B 1),
      .finish (A 2)]
    (acts.filterMap C09Act.started).Nodup ∧
    c09ConcRun [5, 6] acts =
      { buffer := [A 2], flights := [], returned := [(B 1, [A 1, B 1])], dropped := [] } := by decide

/-! ## the concurrent histories are the reducer's: admission and result tick -/

theorem c09_collect_pending_is_add (expected : List Nat) (buf : Nat) (collected : List Ev) (ev : Ev) (r : Res)
    (h : collectEvents expected buf collected ev = .pending (some r)) : r = .addCollected buf ev := by
  unfold collectEvents at h
  split at h
  · cases h
  · split at h
    · split at h
      · injection h with h; injection h with h; exact h.symm
      · cases h
    · cases h

/-- **the history step is the reducer's**: finishing an invocation in `C09Conc` changes the buffer exactly as
`_process_step_result_tick` changes the step's live buffer when it is given what `collect_events` appended for that
invocation's snapshot, followed by the step's `StepWorkerResult` -/
theorem C09_conc_finish_refines_reducer (cfg : Cfg) (pol : Policy) (step worker : Nat) (expected : List Nat)
    (st : State) (now : Int) (exec : InProg) (others : List C09Flight) (hs : cfg.hasStep step = true)
    (hf : (st.workers step).inProg.find? (fun w => w.wid == worker) = some exec) :
    let snap := exec.snapEvents.get 0
    let live := (st.workers step).collected.get 0
    let res := (collectEvents expected 0 snap exec.ev).results 0 ++ [.result none]
    ((processStepResult cfg pol step worker exec.ev res st now).1.workers step).collected.get 0 =
      (c09Finish expected { buffer := live, flights := others } { ev := exec.ev, snap := snap }).buffer := by
  intro snap live res
  cases hc : collectEvents expected 0 snap exec.ev with
  | empty =>
    simp only [res, hc, CollectOut.results, List.nil_append, c09Finish, processStepResult, hs, Bool.not_true,
      Bool.false_eq_true, if_false, hf, List.foldl_cons, List.foldl_nil, applyRes, settle, State.set, if_true,
      List.any_nil, drain_collected]
    rfl
  | complete evs =>
    simp only [res, hc, CollectOut.results, c09Finish, processStepResult, hs, Bool.not_true,
      Bool.false_eq_true, if_false, hf, List.cons_append, List.nil_append, List.foldl_cons, List.foldl_nil, applyRes,
      List.any_cons, List.any_nil, isResult, Bool.or_true, Bool.or_false, if_true, settle, State.set]
    rw [drain_collected]; exact Collected.get_pop _ _
  | pending r =>
    cases r with
    | none =>
      simp only [res, hc, CollectOut.results, List.nil_append, c09Finish, processStepResult, hs, Bool.not_true,
        Bool.false_eq_true, if_false, hf, List.foldl_cons, List.foldl_nil, applyRes, settle, State.set, if_true,
        List.any_nil, drain_collected]
      rfl
    | some r =>
      have hr := c09_collect_pending_is_add expected 0 snap exec.ev r hc
      subst hr
      by_cases hstale : live.length > snap.length
      · have h1 := (C09_stale_rerun_tick cfg pol step worker exec.ev exec.ev 0 st now exec hs hf hstale).1 0
        simp only [res, hc, CollectOut.results, List.cons_append, List.nil_append, c09Finish, hstale, if_true]
        exact h1
      · simp only [res, hc, CollectOut.results, List.cons_append, List.nil_append, c09Finish, hstale, if_false,
          processStepResult, hs, Bool.not_true, Bool.false_eq_true, hf, List.foldl_cons, List.foldl_nil, applyRes,
          Collected.get_touch, settle, State.set, if_true, List.any_nil]
        have hst : ¬ ((st.workers step).collected.get 0).length > (exec.snapEvents.get 0).length := hstale
        simp only [hst, if_false, State.set, if_true, List.any_nil, Bool.false_eq_true]
        simp [State.set, drain_collected, Collected.get_append, Collected.get_touch, live]

/-- non-vacuity: the stale case of the refinement on the state of `C09.spanState` (live `[A2,B2]`, snapshot `[A1]`) -/
example : (c09Finish [5, 6, 7] { buffer := (C09.spanState.workers 3).collected.get 0, flights := [] }
    { ev := C09.spanExec.ev, snap := C09.spanExec.snapEvents.get 0 }).buffer =
    [{ ty := 5, kind := .plain, uid := 5 }, { ty := 6, kind := .plain, uid := 6 }] := by decide

/-- **the history's `start` is the reducer's admission**: whenever `_add_or_enqueue_event` puts an invocation in
flight (directly or when the queue drains), its snapshot is the step's live buffers at that moment, it carries the
admitted event, and the live buffers are not changed; a queued event gets no snapshot yet -/
theorem C09_conc_start_refines_admission (att : Attempt) (step : Nat) (ss : StepState) (nw : Nat) (now : Int) :
    let r := addOrEnqueue att step ss nw now
    r.1.collected = ss.collected ∧
    ∀ x ∈ r.1.inProg, x ∈ ss.inProg ∨ (x.ev = att.ev ∧ x.snapEvents = ss.collected) := by
  unfold addOrEnqueue
  split
  · split
    · refine ⟨rfl, fun x hx => ?_⟩
      rcases List.mem_append.mp hx with hx | hx
      · exact Or.inl hx
      · simp only [List.mem_singleton] at hx; subst hx; exact Or.inr ⟨rfl, rfl⟩
    · exact ⟨rfl, fun x hx => Or.inl hx⟩
  · exact ⟨rfl, fun x hx => Or.inl hx⟩

example : ((addOrEnqueue { ev := { ty := 6, kind := .plain, uid := 2 } } 3
    { collected := [(0, [{ ty := 5, kind := .plain, uid := 1 }])] } 2 1000).1.inProg.map (fun x => (x.wid, x.snapEvents.get 0))) =
    [(0, [{ ty := 5, kind := .plain, uid := 1 }])] := by decide

/-! ## the decisions in the source -/

/-- every expression `collect_events`, the collect branches of `_process_step_result_tick` and the admission take a
decision on, re-read from the current sources (`harness/gen/collect_shape.py`), is the one the model implements:
`collectEvents` (empty guard, `Counter(expected) - Counter(types)`, `!= Counter([type(ev)])`, `type(ev) in remaining`,
`pop(0)` per expected type over `collected + [ev]`), `applyRes` (skip once a re-run is scheduled, `len(live) > len(sent)`,
snapshot := copy of ALL live buffers, re-run on `this_execution.worker_id`, append otherwise; pop only if the step
completed) and `addOrEnqueue` (snapshot = copy of the live buffers) -/
theorem C09_collect_source_shape :
    GenCollectShape.emptyGuard = "not expected" ∧ GenCollectShape.emptyReturns = "return []" ∧
    GenCollectShape.bufferDefault = "buffer_id or 'default'" ∧
    GenCollectShape.snapshotBuffer = "step_ctx.state.collected_events.get(buffer_id, [])" ∧
    GenCollectShape.remaining = "Counter(expected) - Counter([type(e) for e in collected_events])" ∧
    GenCollectShape.notCompleteTest = "remaining_event_types != Counter([type(ev)])" ∧
    GenCollectShape.recordTest = "type(ev) in remaining_event_types" ∧
    GenCollectShape.recorded = "AddCollectedEvent(event_id=buffer_id, event=ev)" ∧
    GenCollectShape.notCompleteReturns = "return None" ∧ GenCollectShape.notCompleteOrelse = "0" ∧
    GenCollectShape.pool = "collected_events + [ev]" ∧ GenCollectShape.poolGrouping = "by_type[type(e)].append(e)" ∧
    GenCollectShape.order = "expected" ∧ GenCollectShape.pick = "total.append(by_type[e_type].pop(0))" ∧
    GenCollectShape.completed = "DeleteCollectedEvent(event_id=buffer_id)" ∧
    GenCollectShape.completedReturns = "return total" ∧
    GenCollectShape.didComplete = "bool([x for x in tick.result if isinstance(x, StepWorkerResult)])" ∧
    GenCollectShape.addSkipTest = "not step_no_longer_in_progress" ∧ GenCollectShape.addSkipBody = "continue" ∧
    GenCollectShape.liveBuffer = "state.workers[tick.step_name].collected_events.setdefault(result.event_id, [])" ∧
    GenCollectShape.sentBuffer = "this_execution.shared_state.collected_events.get(result.event_id, [])" ∧
    GenCollectShape.staleTest = "len(collected_events) > len(sent_events)" ∧
    GenCollectShape.staleFlag = "step_no_longer_in_progress = False" ∧
    GenCollectShape.refreshed =
      "replace(this_execution.shared_state, collected_events={x: list(y) for x, y in state.workers[tick.step_name].collected_events.items()})" ∧
    GenCollectShape.refreshedStored = "this_execution.shared_state = updated_state" ∧
    GenCollectShape.rerunCommand =
      "CommandRunWorker(step_name=tick.step_name, event=result.event, id=this_execution.worker_id)" ∧
    GenCollectShape.freshBody = "collected_events.append(result.event)" ∧
    GenCollectShape.deleteGuard = "did_complete_step" ∧
    GenCollectShape.deleteBody = "state.workers[tick.step_name].collected_events.pop(result.event_id, None)" ∧
    GenCollectShape.deleteOrelse = "0" ∧
    GenCollectShape.admitCopy = "state._deepcopy()" ∧ GenCollectShape.admitSnapshot = "state_copy.collected_events" :=
  ⟨rfl, rfl, rfl, rfl, rfl, rfl, rfl, rfl, rfl, rfl, rfl, rfl, rfl, rfl, rfl, rfl, rfl, rfl, rfl, rfl, rfl, rfl, rfl, rfl,
   rfl, rfl, rfl, rfl, rfl, rfl, rfl, rfl⟩
