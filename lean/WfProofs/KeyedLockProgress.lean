import WfProofs.KeyedLockInv
/-! Progress for M6: one step never increases the FIFO measure of a live waiter
and a fairness step strictly decreases it. -/
namespace KeyedLock
open GenKeyedLock

def LiveF (o : Option Fut) : Prop := o = some .pending ∨ o = some .woken

theorem live_iff {st : KeySt} {a : Nat} :
    live st a = true ↔ ∃ l, st.lock = some l ∧ LiveF (findW a l.waiters) := by
  unfold live LiveF
  cases st.lock with
  | none => simp
  | some l => simp

theorem liveF_wakeFirst {a : Nat} {ws : List (Nat × Fut)} (h : LiveF (findW a ws)) :
    LiveF (findW a (wakeFirst ws)) := by
  unfold wakeFirst; split
  · rename_i b r
    simp only [findW] at h ⊢
    by_cases hb : b = a
    · simp only [hb, if_true]; right; rfl
    · simpa only [hb, if_false] using h
  · exact h

theorem findW_pos {a : Nat} {f : Fut} {ws : List (Nat × Fut)} (h : findW a ws = some f) : 0 < ws.length := by
  cases ws with
  | nil => simp [findW] at h
  | cons => simp

theorem not_fastPath_of_live {a : Nat} {l : Lock} (h : LiveF (findW a l.waiters)) : l.fastPath = false := by
  have : ∃ f, findW a l.waiters = some f ∧ f.futCancelled = false := by
    rcases h with h | h <;> exact ⟨_, h, rfl⟩
  obtain ⟨f, hf, hc⟩ := this
  have hm := findW_mem hf
  simp only [Lock.fastPath, Bool.and_eq_false_iff]
  right
  apply Bool.eq_false_iff.mpr
  intro hall
  have := List.all_eq_true.mp hall _ hm
  simp [hc] at this

theorem progress_step {st st' : KeySt} {x : KAct} {a : Nat} (hi : Inv st) (hl : live st a = true)
    (h : kstep false st x = .ok st') (hx : x ≠ .cancel a) :
    a ∈ st'.inside ∨ (live st' a = true ∧ measure st' a ≤ measure st a ∧
      (isProgress st x = true → measure st' a < measure st a)) := by
  rcases Inv.shape hi with hs | ⟨l, ins, hs, hinv⟩
  · subst hs; simp [live] at hl
  · subst hs
    obtain ⟨hr, hp, hm, hh, ht⟩ := hinv
    simp only at hm
    have hlv : LiveF (findW a l.waiters) := by
      obtain ⟨l', h1, h2⟩ := live_iff.mp hl; simp at h1; subst h1; exact h2
    have hsome : ∃ f, findW a l.waiters = some f := by rcases hlv with h | h <;> exact ⟨_, h⟩
    obtain ⟨fa, hfa⟩ := hsome
    cases x with
    | enter b =>
      obtain ⟨hpb, h⟩ := enter_some h
      have hne : a ≠ b := by
        intro he; subst he
        simp [present, hfa] at hpb
      rw [not_fastPath_of_live hlv] at h
      simp only [Bool.false_eq_true, if_false] at h
      subst h
      right
      refine ⟨live_iff.mpr ⟨_, rfl, ?_⟩, ?_, by simp [isProgress]⟩
      · simpa [findW_append_ne hne] using hlv
      · simp [measure, idxW_append hfa]
    | cancel b =>
      have hne : a ≠ b := fun he => hx (by rw [he])
      right
      rcases cancel_some h with h | ⟨_, h⟩ | ⟨_, h⟩
      · subst h; exact ⟨hl, Nat.le_refl _, by simp [isProgress]⟩
      · subst h
        exact ⟨live_iff.mpr ⟨_, rfl, by simpa [findW_setW_ne hne] using hlv⟩,
          by simp [measure, idxW_setW], by simp [isProgress]⟩
      · subst h
        exact ⟨live_iff.mpr ⟨_, rfl, by simpa [findW_setW_ne hne] using hlv⟩,
          by simp [measure, idxW_setW], by simp [isProgress]⟩
    | resume b =>
      rcases resume_some h with ⟨hf, h⟩ | ⟨hf, h⟩
      · subst h
        by_cases he : a = b
        · left; simp [he]
        · right
          obtain ⟨r, hws⟩ := woken_is_head ht hf rfl
          have hlk : l.locked = false := (hh (b, .woken) (by simp [hws])).1 rfl
          have hne : ¬ b = a := fun h => he h.symm
          refine ⟨live_iff.mpr ⟨_, rfl, ?_⟩, ?_, fun _ => ?_⟩
          · simpa [findW_removeW_ne he] using hlv
          · simp [measure, hws, removeW_head, idxW, hne, hlk]; omega
          · simp [measure, hws, removeW_head, idxW, hne, hlk]; omega
      · have hne : a ≠ b := by
          intro he; subst he
          rcases hlv with h1 | h1 <;> rcases hf with h2 | h2 <;> simp [h1] at h2
        have hfb : ∃ f, findW b l.waiters = some f := by rcases hf with h | h <;> exact ⟨_, h⟩
        obtain ⟨fb, hfb⟩ := hfb
        have hlen := length_removeW hfb
        have hfa' : findW a (removeW b l.waiters) = some fa := by rw [findW_removeW_ne hne]; exact hfa
        have hpos := findW_pos hfa'
        simp only at h
        split at h
        · omega
        · subst h
          right
          have hle := idxW_removeW_le hne l.waiters
          refine ⟨live_iff.mpr ⟨_, rfl, ?_⟩, ?_, ?_⟩
          · simp only; split
            · simpa [findW_removeW_ne hne] using hlv
            · exact liveF_wakeFirst (by simpa [findW_removeW_ne hne] using hlv)
          · simp only [measure]; split <;> simp [idxW_wakeFirst] <;> omega
          · intro hpr
            simp only [isProgress] at hpr
            cases hws : l.waiters with
            | nil => simp [hws] at hpr
            | cons w r =>
              obtain ⟨c, f⟩ := w
              simp [hws] at hpr
              obtain ⟨hc, _⟩ := hpr
              subst hc
              have hne' : ¬ c = a := fun h => hne h.symm
              simp only [measure, hws, removeW_head, idxW, hne', if_false]
              split <;> simp [idxW_wakeFirst] <;> omega
    | exit b =>
      obtain ⟨hb, hlk, h⟩ := exit_some h
      have hpos := findW_pos hfa
      simp only [hlk, if_true] at hm
      split at h
      · omega
      · subst h
        right
        refine ⟨live_iff.mpr ⟨_, rfl, liveF_wakeFirst hlv⟩, ?_, fun _ => ?_⟩
        · simp [measure, idxW_wakeFirst, hlk]
        · simp [measure, idxW_wakeFirst, hlk]

/-- a fairness step is always enabled in an invariant state -/
theorem progress_enabled {st : KeySt} {x : KAct} (hi : Inv st) (hp : isProgress st x = true) :
    ∃ st', kstep false st x = .ok st' := by
  cases hk : kstep false st x with
  | ok st' => exact ⟨st', rfl⟩
  | error e =>
    exfalso
    have he := kstep_error_disabled hi hk
    subst he
    rcases Inv.shape hi with hs | ⟨l, ins, hs, hinv⟩
    · subst hs; cases x <;> simp [isProgress] at hp
    · subst hs
      cases x with
      | enter b => simp [isProgress] at hp
      | cancel b => simp [isProgress] at hp
      | exit b =>
        simp only [isProgress] at hp
        simp only [kstep, hp, mainSection, deregister_some] at hk
        simp at hk
        split at hk <;> cases hk
      | resume b =>
        simp only [isProgress] at hp
        cases hws : l.waiters with
        | nil => simp [hws] at hp
        | cons w r =>
          obtain ⟨c, f⟩ := w
          simp [hws] at hp
          obtain ⟨hc, hd⟩ := hp
          subst hc
          simp only [kstep, hws, findW, if_true, mainSection, deregister_some] at hk
          cases f <;> simp [Fut.done] at hd <;> simp at hk

/-- no lost wake-up: while somebody is queued, a fairness step exists -/
theorem exists_progress {st : KeySt} (hi : Inv st) {l : Lock} (hl : st.lock = some l) (hne : l.waiters ≠ []) :
    ∃ x, isProgress st x = true := by
  rcases Inv.shape hi with hs | ⟨l', ins, hs, hinv⟩
  · subst hs; simp at hl
  · subst hs
    simp at hl; subst hl
    obtain ⟨hr, hp, hm, hh, ht⟩ := hinv
    simp only at hm
    cases hlk : l'.locked with
    | true =>
      simp [hlk] at hm
      cases ins with
      | nil => simp at hm
      | cons b _ => exact ⟨.exit b, by simp [isProgress]⟩
    | false =>
      cases hws : l'.waiters with
      | nil => exact absurd hws hne
      | cons w r =>
        obtain ⟨c, f⟩ := w
        have := (hh (c, f) (by simp [hws])).2 (by simp [hlk])
        refine ⟨.resume c, ?_⟩
        simp only [isProgress, hws]
        cases f <;> simp_all [Fut.done]
end KeyedLock
