import WfModel.ValidateCache
import WfProofs.Validate
/-!
Helper lemmas for the C23 extension, part 3: the result record of `_validate_workflow`, the version an
instance sees along the class chain, and the invariant that makes the cached verdict of
`Workflow._validate` equal to a fresh one in every reachable state of a session.
-/
open Validate

namespace ValidateCache

/-! ### `validateFull` against `validateWorkflow` -/

theorem validateFull_cases (H : Hier) (W : List Step) (skip : List Nat) :
    (∃ r, validateFull H W skip = .ok r ∧ validateWorkflow H W skip = .ok r.hitl ∧ ensureStart H W = .ok r.start ∧
      ensureStop H W = .ok r.stop ∧ r.handlers = handlerDecls W ∧ r.routes = routesOf W) ∨
    (∃ e, validateFull H W skip = .error e ∧ validateWorkflow H W skip = .error e) := by
  unfold validateFull validateWorkflow
  by_cases hW : W.isEmpty = true
  · right; exact ⟨.noSteps, by simp [hW], by simp [hW]⟩
  · simp only [hW, Bool.false_eq_true, if_false]
    cases hs : ensureStart H W with
    | error e => right; exact ⟨e, rfl, rfl⟩
    | ok start =>
      cases ht : ensureStop H W with
      | error e => right; exact ⟨e, rfl, rfl⟩
      | ok stop =>
        simp only
        cases h1 : (!(acceptingStop H W).isEmpty)
        case true => right; exact ⟨_, rfl, rfl⟩
        cases h2 : (!(unconsumed H W start).isEmpty)
        case true => right; exact ⟨_, rfl, rfl⟩
        cases h3 : (!(unused H W start).isEmpty)
        case true => right; exact ⟨_, rfl, rfl⟩
        cases h4 : (!Handlers.valid (names W) (handlerDecls W))
        case true => right; exact ⟨_, rfl, rfl⟩
        simp only [Bool.false_eq_true, if_false]
        cases h5 : (validateGraph H W start skip).none
        case false => right; exact ⟨_, rfl, rfl⟩
        left
        exact ⟨_, rfl, rfl, rfl, rfl, rfl, rfl⟩

theorem validateFull_ok {H : Hier} {W : List Step} {skip : List Nat} {r : Result} (h : validateFull H W skip = .ok r) :
    validateWorkflow H W skip = .ok r.hitl ∧ ensureStart H W = .ok r.start ∧ ensureStop H W = .ok r.stop ∧
      r.handlers = handlerDecls W ∧ r.routes = routesOf W := by
  rcases validateFull_cases H W skip with ⟨r', hr, rest⟩ | ⟨e, he, _⟩
  · rw [h] at hr; injection hr with hr; subst hr; exact rest
  · rw [h] at he; cases he

theorem validateFull_error {H : Hier} {W : List Step} {skip : List Nat} {e : Err} (h : validateFull H W skip = .error e) :
    validateWorkflow H W skip = .error e := by
  rcases validateFull_cases H W skip with ⟨r', hr, _⟩ | ⟨e', he, hw⟩
  · rw [h] at hr; cases hr
  · rw [h] at he; injection he with he; subst he; exact hw

theorem validateFull_of_ok {H : Hier} {W : List Step} {skip : List Nat} {b : Bool} (h : validateWorkflow H W skip = .ok b) :
    ∃ r, validateFull H W skip = .ok r ∧ r.hitl = b := by
  rcases validateFull_cases H W skip with ⟨r, hr, hw, _⟩ | ⟨e, _, hw⟩
  · rw [h] at hw; injection hw with hw; exact ⟨r, hr, hw.symm⟩
  · rw [h] at hw; cases hw

theorem validateFull_of_error {H : Hier} {W : List Step} {skip : List Nat} {e : Err} (h : validateWorkflow H W skip = .error e) :
    validateFull H W skip = .error e := by
  rcases validateFull_cases H W skip with ⟨r, _, hw, _⟩ | ⟨e', he, hw⟩
  · rw [h] at hw; cases hw
  · rw [h] at hw; injection hw with hw; subst hw; exact he

/-- the answer of a fresh validation, in terms of `validateWorkflow` -/
theorem respOf_validateFull (H : Hier) (W : List Step) (skip : List Nat) :
    respOf (validateFull H W skip) =
      match validateWorkflow H W skip with
      | .ok b => .flag b
      | .error e => .err e := by
  rcases validateFull_cases H W skip with ⟨r, hr, hw, _⟩ | ⟨e, he, hw⟩
  · rw [hr, hw]; rfl
  · rw [he, hw]; rfl

/-! ### the version a class sees -/

theorem visFrom_mono {v0 v1 : Nat} (h : v0 ≤ v1) : ∀ (cs : List ClassSt) (j : Nat), visFrom v0 cs j ≤ visFrom v1 cs j := by
  intro cs
  induction cs generalizing v0 v1 with
  | nil => intro j; simpa [visFrom] using h
  | cons c cs ih =>
    have hc : c.own.getD v0 ≤ c.own.getD v1 := by cases c.own <;> simp [h]
    intro j
    cases j with
    | zero => exact hc
    | succ j => exact ih hc j

/-- writing `seen + b` into class `k`'s own attribute: class `k` then sees exactly that -/
theorem visFrom_set_self (b : Nat) : ∀ (cs : List ClassSt) (v0 k : Nat) (c' : ClassSt), k < cs.length →
    c'.own = some (visFrom v0 cs k + b) → visFrom v0 (cs.set k c') k = visFrom v0 cs k + b := by
  intro cs
  induction cs with
  | nil => intro v0 k c' hk; cases hk
  | cons c cs ih =>
    intro v0 k c' hk hc'
    cases k with
    | zero => simp only [List.set_cons_zero, visFrom, hc', Option.getD_some]
    | succ k =>
      simp only [List.set_cons_succ, visFrom] at hc' ⊢
      exact ih _ k c' (Nat.lt_of_succ_lt_succ hk) hc'

/-- ... and no class sees a smaller version than before -/
theorem visFrom_set_ge (b : Nat) : ∀ (cs : List ClassSt) (v0 k : Nat) (c' : ClassSt), k < cs.length →
    c'.own = some (visFrom v0 cs k + b) → ∀ j, visFrom v0 cs j ≤ visFrom v0 (cs.set k c') j := by
  intro cs
  induction cs with
  | nil => intro v0 k c' hk; cases hk
  | cons c cs ih =>
    intro v0 k c' hk hc' j
    cases k with
    | zero =>
      simp only [List.set_cons_zero]
      have h0 : c.own.getD v0 ≤ c'.own.getD v0 := by
        simp only [visFrom] at hc'
        rw [hc']; simp
      cases j with
      | zero => exact h0
      | succ j => exact visFrom_mono h0 cs j
    | succ k =>
      simp only [List.set_cons_succ]
      cases j with
      | zero => exact Nat.le_refl _
      | succ j =>
        simp only [visFrom] at hc' ⊢
        exact ih _ k c' (Nat.lt_of_succ_lt_succ hk) hc' j

theorem visFrom_append (c : ClassSt) : ∀ (cs : List ClassSt) (v0 j : Nat), j < cs.length →
    visFrom v0 (cs ++ [c]) j = visFrom v0 cs j := by
  intro cs
  induction cs with
  | nil => intro v0 j hj; cases hj
  | cons a cs ih =>
    intro v0 j hj
    cases j with
    | zero => rfl
    | succ j => simp only [List.cons_append, visFrom]; exact ih _ j (Nat.lt_of_succ_lt_succ hj)

/-! ### the invariant -/

/-- what an instance remembers is either out of date *and recognisably so* (its validated version is below the version
its class sees) or equal to what a fresh `_validate_workflow` on the class's current steps returns -/
def InstOK (H : Hier) (S : State) (x : Inst) : Prop :=
  ∃ c, S.classes[x.cls]? = some c ∧
    ∀ v, x.vver = some v → v ≤ vis S x.cls ∧
      (v = vis S x.cls → ∀ b, x.result = some b →
        ∃ r, validateFull H c.steps x.skip = .ok r ∧ r.hitl = b ∧ x.start = r.start ∧ x.stop = r.stop ∧
          x.handlers = r.handlers ∧ x.routes = r.routes)

structure Inv (H : Hier) (S : State) : Prop where
  insts : ∀ x ∈ S.insts, InstOK H S x
  names : ∀ c ∈ S.classes, (names c.steps).Nodup

theorem inv_init (H : Hier) : Inv H {} :=
  ⟨fun x h => absurd (show x ∈ ([] : List Inst) from h) List.not_mem_nil,
   fun c h => absurd (show c ∈ ([] : List ClassSt) from h) List.not_mem_nil⟩

theorem bump_pos : 0 < Gen.C23c.versionBump := by decide

theorem names_append_single (W : List Step) (s : Step) : names (W ++ [s]) = names W ++ [s.name] := by
  simp [names]

theorem inv_newClass {H : Hier} {S : State} (hinv : Inv H S) (methods : List Step) (hn : (names methods).Nodup) :
    Inv H { S with classes := S.classes ++ [{ methods }] } := by
  refine ⟨fun x hx => ?_, fun c hc => ?_⟩
  · obtain ⟨c, hc, hrest⟩ := hinv.insts x hx
    have hlt : x.cls < S.classes.length := by
      rcases Nat.lt_or_ge x.cls S.classes.length with h | h
      · exact h
      · rw [List.getElem?_eq_none h] at hc; cases hc
    have hvis : vis { S with classes := S.classes ++ [{ methods }] } x.cls = vis S x.cls :=
      visFrom_append _ _ _ _ hlt
    refine ⟨c, ?_, ?_⟩
    · show (S.classes ++ [{ methods }])[x.cls]? = some c
      rw [List.getElem?_append_left hlt]; exact hc
    · rw [hvis]; exact hrest
  · rcases List.mem_append.mp hc with h | h
    · exact hinv.names c h
    · simp only [List.mem_singleton] at h
      subst h
      simpa [ClassSt.steps] using hn

theorem inv_addStep {H : Hier} {S : State} (hinv : Inv H S) (k : Nat) (s : Step) : Inv H (addStep S k s).1 := by
  unfold addStep
  cases hk : S.classes[k]? with
  | none => exact hinv
  | some c =>
    simp only
    by_cases hdup : (names c.steps).contains s.name = true
    · simp only [hdup, if_true]; exact hinv
    · simp only [hdup, Bool.false_eq_true, if_false]
      have hlt : k < S.classes.length := by
        rcases Nat.lt_or_ge k S.classes.length with h | h
        · exact h
        · rw [List.getElem?_eq_none h] at hk; cases hk
      let c' : ClassSt := { c with free := c.free ++ [s], own := some (vis S k + Gen.C23c.versionBump) }
      have hown : c'.own = some (visFrom 0 S.classes k + Gen.C23c.versionBump) := rfl
      have hself := visFrom_set_self Gen.C23c.versionBump S.classes 0 k c' hlt hown
      have hge := visFrom_set_ge Gen.C23c.versionBump S.classes 0 k c' hlt hown
      show Inv H { S with classes := S.classes.set k c' }
      refine ⟨fun x hx => ?_, fun d hd => ?_⟩
      · obtain ⟨cx, hcx, hrest⟩ := hinv.insts x hx
        by_cases hxk : x.cls = k
        · refine ⟨c', ?_, ?_⟩
          · show (S.classes.set k c')[x.cls]? = some c'
            rw [hxk, List.getElem?_set_self hlt]
          · intro v hv
            obtain ⟨hle, _⟩ := hrest v hv
            have hvis' : vis { S with classes := S.classes.set k c' } x.cls = vis S x.cls + Gen.C23c.versionBump := by
              rw [hxk]; exact hself
            rw [hvis']
            refine ⟨Nat.le_trans hle (Nat.le_add_right _ _), fun heq => ?_⟩
            have := bump_pos
            omega
        · refine ⟨cx, ?_, ?_⟩
          · show (S.classes.set k c')[x.cls]? = some cx
            rw [List.getElem?_set_ne (fun h => hxk h.symm)]; exact hcx
          · intro v hv
            obtain ⟨hle, hfresh⟩ := hrest v hv
            have hmono : vis S x.cls ≤ vis { S with classes := S.classes.set k c' } x.cls := hge x.cls
            refine ⟨Nat.le_trans hle hmono, fun heq => ?_⟩
            have : v = vis S x.cls := by omega
            exact hfresh this
      · rcases List.mem_or_eq_of_mem_set hd with h | h
        · exact hinv.names d h
        · subst h
          have hc : c ∈ S.classes := List.mem_of_getElem? hk
          have hn := hinv.names c hc
          have hsteps : c'.steps = c.steps ++ [s] := by simp [c', ClassSt.steps, List.append_assoc]
          rw [hsteps, names_append_single]
          rw [List.nodup_append]
          refine ⟨hn, by simp, ?_⟩
          intro a ha b hb
          simp only [List.mem_singleton] at hb
          subst hb
          intro hab
          subst hab
          exact hdup (List.contains_iff_mem.mpr ha)

theorem inv_construct {H : Hier} {S : State} (hinv : Inv H S) (k : Nat) (skip : List Nat) (disabled : Bool) :
    Inv H (construct H S k skip disabled).1 := by
  unfold construct
  cases hk : S.classes[k]? with
  | none => exact hinv
  | some c =>
    simp only
    cases hs : ensureStart H c.steps with
    | error e => exact hinv
    | ok start =>
      cases ht : ensureStop H c.steps with
      | error e => exact hinv
      | ok stop =>
        simp only
        by_cases hu : (skip.any fun x => decide (2 < x)) = true
        · simp only [hu, if_true]; exact hinv
        · simp only [hu, Bool.false_eq_true, if_false]
          refine ⟨fun x hx => ?_, hinv.names⟩
          rcases List.mem_append.mp hx with h | h
          · exact hinv.insts x h
          · simp only [List.mem_singleton] at h
            subst h
            exact ⟨c, hk, fun v hv => by cases hv⟩

theorem inv_validateAt {H : Hier} {S : State} (hinv : Inv H S) (i : Nat) (force : Bool) : Inv H (validateAt H S i force).1 := by
  unfold validateAt
  cases hi : S.insts[i]? with
  | none => exact hinv
  | some x =>
    simp only
    cases hc : S.classes[x.cls]? with
    | none => exact hinv
    | some c =>
      simp only
      by_cases hd : (x.disabled && !force) = true
      · simp only [hd, if_true]; exact hinv
      · simp only [hd, Bool.false_eq_true, if_false]
        cases hg : (if (!force && !stale S x) = true then x.result else none) with
        | some b => exact hinv
        | none =>
          simp only
          cases hv : validateFull H c.steps x.skip with
          | error e => exact hinv
          | ok r =>
            simp only
            refine ⟨fun y hy => ?_, hinv.names⟩
            rcases List.mem_or_eq_of_mem_set hy with h | h
            · exact hinv.insts y h
            · subst h
              refine ⟨c, hc, fun v hv' => ?_⟩
              simp only [Option.some.injEq] at hv'
              subst hv'
              refine ⟨Nat.le_refl _, fun _ b hb => ?_⟩
              simp only [Option.some.injEq] at hb
              exact ⟨r, hv, hb, rfl, rfl, rfl, rfl⟩

theorem inv_step {H : Hier} {S : State} (hinv : Inv H S) (a : Act) : Inv H (step H S a).1 := by
  cases a with
  | newClass methods =>
    simp only [step]
    by_cases hn : (names methods).Nodup
    · simp only [hn, decide_true, if_true]; exact inv_newClass hinv methods hn
    · simp only [hn, decide_false, Bool.false_eq_true, if_false]; exact hinv
  | addStep k s => exact inv_addStep hinv k s
  | construct k skip disabled => exact inv_construct hinv k skip disabled
  | validate i => exact inv_validateAt hinv i _
  | runValidate i => exact inv_validateAt hinv i _

theorem inv_run {H : Hier} : ∀ (acts : List Act) {S : State}, Inv H S → Inv H (run H S acts) := by
  intro acts
  induction acts with
  | nil => intro S h; exact h
  | cons a as ih => intro S h; exact ih (inv_step h a)

/-! ### one call of `_validate` in a state satisfying the invariant -/

/-- a forced validation answers what a fresh `_validate_workflow` answers (no invariant needed) -/
theorem validateAt_force {H : Hier} {S : State} {i : Nat} {x : Inst} {c : ClassSt} (hi : S.insts[i]? = some x)
    (hc : S.classes[x.cls]? = some c) : (validateAt H S i true).2 = respOf (validateFull H c.steps x.skip) := by
  unfold validateAt
  simp only [hi, hc, Bool.not_true, Bool.and_false, Bool.false_eq_true, if_false, Bool.false_and]
  cases hv : validateFull H c.steps x.skip <;> rfl

/-- the cached path: an enabled instance answers what a fresh `_validate_workflow` answers -/
theorem validateAt_cached {H : Hier} {S : State} (hinv : Inv H S) {i : Nat} {x : Inst} {c : ClassSt}
    (hi : S.insts[i]? = some x) (hc : S.classes[x.cls]? = some c) (hd : x.disabled = false) :
    (validateAt H S i false).2 = respOf (validateFull H c.steps x.skip) := by
  unfold validateAt
  simp only [hi, hc, hd, Bool.not_false, Bool.and_true, Bool.false_eq_true, if_false, Bool.true_and]
  by_cases hst : stale S x = true
  · simp only [hst, Bool.not_true, Bool.false_eq_true, if_false]
    cases hv : validateFull H c.steps x.skip <;> rfl
  · simp only [hst, Bool.not_false, if_true]
    cases hr : x.result with
    | none => simp only; cases hv : validateFull H c.steps x.skip <;> rfl
    | some b =>
      simp only
      have hver : x.vver = some (vis S x.cls) := by
        have hflag : Gen.C23c.staleIsVersionMismatch = true := by decide
        simp only [stale, hflag, if_true, bne_iff_ne, ne_eq] at hst
        exact Decidable.byContradiction fun hne => by simp [hne] at hst
      obtain ⟨c', hc', hrest⟩ := hinv.insts x (List.mem_of_getElem? hi)
      rw [hc] at hc'; injection hc' with hc'; subst hc'
      obtain ⟨_, hfresh⟩ := hrest _ hver
      obtain ⟨r, hv, hb, _⟩ := hfresh rfl b hr
      rw [hv, respOf, hb]

/-- after any answered flag the instance holds the fields of the fresh result, stamped with the version its class sees -/
theorem validateAt_state {H : Hier} {S : State} (hinv : Inv H S) {i : Nat} {x : Inst} {c : ClassSt} (force : Bool)
    (hi : S.insts[i]? = some x) (hc : S.classes[x.cls]? = some c) (hd : x.disabled = false ∨ force = true) {b : Bool}
    (hb : (validateAt H S i force).2 = .flag b) :
    (validateAt H S i force).1.classes = S.classes ∧
    ∃ x' r, (validateAt H S i force).1.insts[i]? = some x' ∧ validateFull H c.steps x.skip = .ok r ∧ r.hitl = b ∧
      x'.start = r.start ∧ x'.stop = r.stop ∧ x'.handlers = r.handlers ∧ x'.routes = r.routes ∧
      x'.result = some b ∧ x'.vver = some (vis S x.cls) ∧ x'.cls = x.cls ∧ x'.skip = x.skip ∧ x'.disabled = x.disabled := by
  have hguard : (x.disabled && !force) = false := by
    rcases hd with h | h
    · simp [h]
    · simp [h]
  have hlt : i < S.insts.length := by
    rcases Nat.lt_or_ge i S.insts.length with h | h
    · exact h
    · rw [List.getElem?_eq_none h] at hi; cases hi
  unfold validateAt at hb ⊢
  simp only [hi, hc, hguard, Bool.false_eq_true, if_false] at hb ⊢
  cases hg : (if (!force && !stale S x) = true then x.result else none) with
  | some b' =>
    simp only [hg] at hb ⊢
    injection hb with hb; subst hb
    by_cases hcond : (!force && !stale S x) = true
    · simp only [hcond, if_true] at hg
      simp only [Bool.and_eq_true, Bool.not_eq_true'] at hcond
      have hver : x.vver = some (vis S x.cls) := by
        have hflag : Gen.C23c.staleIsVersionMismatch = true := by decide
        have hst := hcond.2
        simp only [stale, hflag, if_true] at hst
        exact Decidable.byContradiction fun hne => by simp [bne, hne] at hst
      obtain ⟨c', hc', hrest⟩ := hinv.insts x (List.mem_of_getElem? hi)
      rw [hc] at hc'; injection hc' with hc'; subst hc'
      obtain ⟨_, hfresh⟩ := hrest _ hver
      obtain ⟨r, hv, hb, h1, h2, h3, h4⟩ := hfresh rfl b' hg
      exact ⟨trivial, x, r, hi, hv, hb, h1, h2, h3, h4, hg, hver, rfl, rfl, rfl⟩
    · simp only [hcond, Bool.false_eq_true, if_false] at hg; cases hg
  | none =>
    simp only [hg] at hb ⊢
    cases hv : validateFull H c.steps x.skip with
    | error e => simp only [hv] at hb; cases hb
    | ok r =>
      simp only [hv] at hb ⊢
      injection hb with hb
      refine ⟨trivial, _, r, List.getElem?_set_self hlt, rfl, hb, rfl, rfl, rfl, rfl, by rw [hb], rfl, rfl, rfl, rfl⟩

/-- a disabled instance, asked by `run()`: answers `False`, validates nothing, remembers nothing -/
theorem validateAt_disabled {H : Hier} {S : State} {i : Nat} {x : Inst} {c : ClassSt} (hi : S.insts[i]? = some x)
    (hc : S.classes[x.cls]? = some c) (hd : x.disabled = true) : validateAt H S i false = (S, .flag false) := by
  unfold validateAt
  simp only [hi, hc, hd, Bool.not_false, Bool.and_true, if_true]

end ValidateCache
