"""C01 witness (open finding, found while lifting C01 to the runner model).

A step with num_workers=2 whose body calls ctx.collect_events three times on the
same buffer in one invocation.  When the buffer grew since the invocation's snapshot
(another worker of the step added to it), `_process_step_result_tick` takes the
"rerun" branch for the first AddCollectedEvent, appends the second, and takes the
rerun branch AGAIN for the third (the snapshot was refreshed by the first rerun, the
second result made the live buffer longer than it).  Two CommandRunWorker commands
with the same worker id are emitted by one tick: two tasks run on slot 1, the step has
3 live invocations with num_workers=2, and the second task's result raises
`ValueError: Worker 1 not found in in_progress`.

Lean: WfProps/C01.lean `C01_refuted_running_bounded`, `C01.doubleRerun`.
Run:  /venv/bin/python harness/corpus/c01_double_collect_rerun_witness.py
Expected output on the unrepaired engine: peak 3, ValueError.
(Not a .json corpus entry: the generated workflows never call collect_events twice on
one buffer in one invocation, so the stream stays silent.)
"""
import asyncio
import os
import sys

sys.path.insert(0, os.path.dirname(os.path.dirname(os.path.dirname(os.path.abspath(__file__)))))
from harness.boot import boot  # noqa: E402

boot()
from workflows import Context, Workflow, step  # noqa: E402
from workflows.events import Event, StartEvent, StopEvent  # noqa: E402


class A(Event):
    n: int


class B(Event):
    pass


cur = 0
peak = 0
second = 0
log: list = []


class W(Workflow):
    @step
    async def start(self, ctx: Context, ev: StartEvent) -> A | None:
        ctx.send_event(A(n=1))
        ctx.send_event(A(n=2))
        ctx.send_event(A(n=3))
        return None

    @step(num_workers=2)
    async def s(self, ctx: Context, ev: A) -> StopEvent | None:
        global cur, peak, second
        cur += 1
        peak = max(peak, cur)
        log.append(("enter", ev.n, cur))
        try:
            if ev.n == 1:  # slot 0: finishes first, adds to buffer "b"
                await asyncio.sleep(0.02)
                ctx.collect_events(ev, [A, A, A, B], "b")
                return None
            if ev.n == 3:  # queued, takes slot 0 when n=1 is done, stays busy
                await asyncio.sleep(0.5)
                return StopEvent(result="done")
            second += 1
            if second == 1:  # slot 1: snapshot taken before n=1 added to "b"
                await asyncio.sleep(0.05)
                ctx.collect_events(ev, [A, A, A, B], "b")
                ctx.collect_events(ev, [A, A, A, B], "b")
                ctx.collect_events(ev, [A, A, A, B], "b")
                return None
            await asyncio.sleep(0.2)  # the re-runs
            return None
        finally:
            cur -= 1
            log.append(("exit", ev.n, cur))


async def main() -> int:
    w = W(timeout=5)
    err = None
    try:
        await w.run()
    except Exception as e:  # noqa: BLE001
        err = e
    print("peak concurrent invocations of step s (num_workers=2):", peak)
    print("run raised:", type(err).__name__ if err else None, err if err else "")
    print(log)
    return 1 if peak > 2 else 0


if __name__ == "__main__":
    sys.exit(asyncio.run(main()))
