"""SQL text, control shapes, defaults and `create` call sites of the idle-release code ->
lean/WfModel/GenLifecycleShape.lean (extraction lives in harness/gen/lifecycle.py; a separate Lean module so
that a changed shape re-checks the property theorems without rebuilding the model and its proofs)."""
from __future__ import annotations

from . import lifecycle as _L

LEAN_MODULE = "GenLifecycleShape"


def generate(notes: list[str]) -> list[str]:
    return _L.generate_shape(notes)
