import WfModel.HandlerStatus
/-! Lemmas about the handler status machine (`WfModel/HandlerStatus.lean`). -/
set_option linter.unusedVariables false
set_option linter.unusedSimpArgs false
namespace HandlerStatus

/-! ### the generated tables, evaluated -/

theorem statusRow_stop : statusRow .stop = some ("StopEvent", "completed", false, true) := by decide
theorem statusRow_failed : statusRow .failed = some ("WorkflowFailedEvent", "failed", true, false) := by decide
theorem statusRow_timedOut : statusRow .timedOut = some ("WorkflowTimedOutEvent", "failed", true, false) := by decide
theorem statusRow_cancelled : statusRow .cancelled = some ("WorkflowCancelledEvent", "cancelled", false, false) := by decide
theorem statusRow_idleReleased : statusRow .idleReleased = some ("StopEvent", "completed", false, true) := by decide
theorem statusRow_idle : statusRow .idle = none := by decide
theorem statusRow_other : statusRow .other = none := by decide

theorem statusArgs_stop (t : Nat) : statusArgs { kind := .stop, tok := t } = some (.completed, none, some t) := by
  simp [statusArgs, statusRow_stop, Status.ofName?]
theorem statusArgs_failed (t : Nat) : statusArgs { kind := .failed, tok := t } = some (.failed, some (.exc t), none) := by
  simp [statusArgs, statusRow_failed, Status.ofName?, Ev.err]
theorem statusArgs_timedOut (t : Nat) : statusArgs { kind := .timedOut, tok := t } = some (.failed, some (.timeout t), none) := by
  simp [statusArgs, statusRow_timedOut, Status.ofName?, Ev.err]
theorem statusArgs_cancelled (t : Nat) : statusArgs { kind := .cancelled, tok := t } = some (.cancelled, none, none) := by
  simp [statusArgs, statusRow_cancelled, Status.ofName?]
theorem statusArgs_idleReleased (t : Nat) : statusArgs { kind := .idleReleased, tok := t } = some (.completed, none, some t) := by
  simp [statusArgs, statusRow_idleReleased, Status.ofName?]
theorem statusArgs_idle (t : Nat) : statusArgs { kind := .idle, tok := t } = none := by
  simp [statusArgs, statusRow_idle]
theorem statusArgs_other (t : Nat) : statusArgs { kind := .other, tok := t } = none := by
  simp [statusArgs, statusRow_other]

/-- every status the adapter writes for an event is terminal -/
theorem statusArgs_terminal (e : Ev) (st : Status) (x : Option Err) (y : Option Nat)
    (h : statusArgs e = some (st, x, y)) : st.isTerminal = true := by
  obtain ⟨k, t⟩ := e
  cases k
  · rw [statusArgs_stop] at h; cases h; decide
  · rw [statusArgs_failed] at h; cases h; decide
  · rw [statusArgs_timedOut] at h; cases h; decide
  · rw [statusArgs_cancelled] at h; cases h; decide
  · rw [statusArgs_idleReleased] at h; cases h; decide
  · rw [statusArgs_idle] at h; cases h
  · rw [statusArgs_other] at h; cases h

theorem isIdle_iff (k : EvKind) : k.mro.contains GenHandlerStatus.idleClass = true ↔ k = .idle := by
  cases k <;> decide

theorem idleStatus_running : Status.ofName? GenHandlerStatus.idleStatus = some .running := by decide

theorem terminal_ne_running {s : Status} (h : s.isTerminal = true) : s ≠ .running := by
  intro hs; subst hs; revert h; decide

theorem terminal_not_resumed {s : Status} (h : s.isTerminal = true) :
    GenHandlerStatus.resumeStatusIn.contains s.name = false := by
  cases s
  · exact absurd rfl (terminal_ne_running h)
  all_goals decide

theorem stamps_completed : Status.completed.stampsCompletedAt = true := by decide
theorem stamps_failed : Status.failed.stampsCompletedAt = true := by decide
theorem stamps_cancelled : Status.cancelled.stampsCompletedAt = true := by decide
theorem stamps_running : Status.running.stampsCompletedAt = false := by decide

theorem exitArgs_stop (u : Nat) : exitArgs (.completeStop u) = some { status := some .completed, result := some u } := by
  simp [exitArgs, ExitKind.label, GenHandlerStatus.exitTable, List.find?, Status.ofName?]
theorem exitArgs_fail (u : Nat) : exitArgs (.fail u) = some { status := some .failed, error := some (.exc u) } := by
  simp [exitArgs, ExitKind.label, GenHandlerStatus.exitTable, List.find?, Status.ofName?]
theorem exitArgs_cancel : exitArgs .haltCancel = some { status := some .cancelled } := by
  simp [exitArgs, ExitKind.label, GenHandlerStatus.exitTable, List.find?, Status.ofName?]
theorem exitArgs_timeout (t : Nat) : exitArgs (.haltTimeout t) = some { status := some .failed, error := some (.timeout t) } := by
  simp [exitArgs, ExitKind.label, GenHandlerStatus.exitTable, List.find?, Status.ofName?]
theorem exitArgs_idleReleased : exitArgs .completeIdleReleased = none := by
  simp [exitArgs, ExitKind.label, GenHandlerStatus.exitTable, List.find?]

/-! ### `update_handler_status` -/

theorem uhs_ok (s : St) (run : Nat) (a : UArgs) (h : s.failUhs = 0) :
    s.uhs run a =
      ({ s with clock := s.clock + 1, row := s.row.map (fun r => if r.runId = run then r.apply a (s.clock + 1) else r) }, true) := by
  unfold St.uhs
  simp only [h, Nat.lt_irrefl, gt_iff_lt, ↓reduceIte]
  cases hr : s.row with
  | none => simp
  | some r =>
    by_cases hq : r.runId = run <;> simp [hq]

theorem uhs_fail (s : St) (run : Nat) (a : UArgs) (h : 0 < s.failUhs) :
    s.uhs run a = ({ s with failUhs := s.failUhs - 1 }, false) := by
  unfold St.uhs
  simp [h]

/-- what a call of `update_handler_status` may change -/
structure UhsStep (run : Nat) (a : UArgs) (s s' : St) : Prop where
  events : s'.events = s.events
  published : s'.published = s.published
  releases : s'.releases = s.releases
  backoff : s'.backoff = s.backoff
  idleLayer : s'.idleLayer = s.idleLayer
  failApp : s'.failApp = s.failApp
  failUpd : s'.failUpd = s.failUpd
  row : s'.row = s.row ∨ ∃ now, s'.row = s.row.map (fun r => if r.runId = run then r.apply a now else r)

theorem UhsStep.refl (run : Nat) (a : UArgs) (s : St) : UhsStep run a s s :=
  ⟨rfl, rfl, rfl, rfl, rfl, rfl, rfl, Or.inl rfl⟩

theorem uhs_step (s : St) (run : Nat) (a : UArgs) : UhsStep run a s (s.uhs run a).1 := by
  by_cases h : s.failUhs = 0
  · rw [uhs_ok s run a h]
    exact ⟨rfl, rfl, rfl, rfl, rfl, rfl, rfl, Or.inr ⟨_, rfl⟩⟩
  · rw [uhs_fail s run a (Nat.pos_of_ne_zero h)]
    exact ⟨rfl, rfl, rfl, rfl, rfl, rfl, rfl, Or.inl rfl⟩

/-- a successful call did write (or skipped because the run is not the row's) -/
theorem uhs_true (s : St) (run : Nat) (a : UArgs) (h : (s.uhs run a).2 = true) :
    s.failUhs = 0 := by
  by_cases h0 : s.failUhs = 0
  · exact h0
  · rw [uhs_fail s run a (Nat.pos_of_ne_zero h0)] at h; cases h

/-! ### `_retry_store_write` around `update_handler_status` -/

/-- only the fault counter of `update_handler_status` and the slept back-off differ -/
structure Quiet (s s' : St) : Prop where
  row : s'.row = s.row
  clock : s'.clock = s.clock
  events : s'.events = s.events
  published : s'.published = s.published
  releases : s'.releases = s.releases
  backoff : s'.backoff = s.backoff
  idleLayer : s'.idleLayer = s.idleLayer
  failApp : s'.failApp = s.failApp
  failUpd : s'.failUpd = s.failUpd

theorem UhsStep.of_quiet {run : Nat} {a : UArgs} {s s1 s2 : St} (q : Quiet s s1) (h : UhsStep run a s1 s2) :
    UhsStep run a s s2 :=
  ⟨h.events.trans q.events, h.published.trans q.published, h.releases.trans q.releases, h.backoff.trans q.backoff,
   h.idleLayer.trans q.idleLayer, h.failApp.trans q.failApp, h.failUpd.trans q.failUpd,
   by rw [← q.row]; exact h.row⟩

/-- whatever the faults: a retried status write changes nothing but (possibly) the row's fields -/
theorem retry_uhs_step (run : Nat) (a : UArgs) : ∀ (bs : List Nat) (s : St),
    UhsStep run a s (retry (fun x => x.uhs run a) bs s).1
  | [], s => by simpa [retry] using uhs_step s run a
  | b :: bs, s => by
    by_cases h0 : s.failUhs = 0
    · simp only [retry, uhs_ok s run a h0]
      have := uhs_step s run a
      rwa [uhs_ok s run a h0] at this
    · simp only [retry, uhs_fail s run a (Nat.pos_of_ne_zero h0)]
      exact UhsStep.of_quiet (s1 := { s with failUhs := s.failUhs - 1, slept := s.slept + b })
        ⟨rfl, rfl, rfl, rfl, rfl, rfl, rfl, rfl, rfl⟩ (retry_uhs_step run a bs _)

/-- a retried status write that returned did reach the store -/
theorem retry_uhs_true (run : Nat) (a : UArgs) : ∀ (bs : List Nat) (s : St),
    (retry (fun x => x.uhs run a) bs s).2 = true →
    ∃ now, (retry (fun x => x.uhs run a) bs s).1.row = s.row.map (fun r => if r.runId = run then r.apply a now else r)
  | [], s => by
    intro h
    simp only [retry] at h ⊢
    have h0 := uhs_true s run a h
    exact ⟨s.clock + 1, by rw [uhs_ok s run a h0]⟩
  | b :: bs, s => by
    by_cases h0 : s.failUhs = 0
    · intro _
      simp only [retry, uhs_ok s run a h0]
      exact ⟨s.clock + 1, rfl⟩
    · simp only [retry, uhs_fail s run a (Nat.pos_of_ne_zero h0)]
      intro h
      exact retry_uhs_true run a bs _ h

/-- at most `len(backoff)` transient failures: the write goes through and the faults are used up -/
theorem retry_uhs_budget (run : Nat) (a : UArgs) : ∀ (bs : List Nat) (s : St), s.failUhs ≤ bs.length →
    (retry (fun x => x.uhs run a) bs s).2 = true ∧ (retry (fun x => x.uhs run a) bs s).1.failUhs = 0
  | [], s => by
    intro h
    have h0 : s.failUhs = 0 := by simpa using h
    simp [retry, uhs_ok s run a h0, h0]
  | b :: bs, s => by
    intro h
    by_cases h0 : s.failUhs = 0
    · simp [retry, uhs_ok s run a h0, h0]
    · simp only [retry, uhs_fail s run a (Nat.pos_of_ne_zero h0)]
      apply retry_uhs_budget run a bs
      simp only [List.length_cons] at h
      show s.failUhs - 1 ≤ bs.length
      omega

/-- one failure too many: the exception leaves the retry loop and the row is untouched -/
theorem retry_uhs_exhausted (run : Nat) (a : UArgs) : ∀ (bs : List Nat) (s : St), bs.length < s.failUhs →
    (retry (fun x => x.uhs run a) bs s).2 = false ∧ (retry (fun x => x.uhs run a) bs s).1.row = s.row
  | [], s => by
    intro h
    simp only [retry]
    rw [uhs_fail s run a (by simpa using h)]
    exact ⟨rfl, rfl⟩
  | b :: bs, s => by
    intro h
    have hp : 0 < s.failUhs := by omega
    simp only [retry, uhs_fail s run a hp]
    have := retry_uhs_exhausted run a bs { s with failUhs := s.failUhs - 1, slept := s.slept + b }
      (by simp only [List.length_cons] at h; show bs.length < s.failUhs - 1; omega)
    exact this

/-! ### `write_to_event_stream` -/

theorem andThen_true (s : St) (f : St → St × Bool) : andThen (s, true) f = f s := rfl
theorem andThen_false (s : St) (f : St → St × Bool) : andThen (s, false) f = (s, false) := rfl
theorem andThen_ok (r : St × Bool) (f : St → St × Bool) (h : r.2 = true) : andThen r f = f r.1 := by
  simp [andThen, h]
theorem andThen_raised (r : St × Bool) (f : St → St × Bool) (h : r.2 = false) : andThen r f = r := by
  simp [andThen, h]

/-- the row belongs to `run` and says `running` -/
def RunningFor (run : Nat) (s : St) : Prop := ∃ r, s.row = some r ∧ r.runId = run ∧ r.status = .running

theorem append_ok (s : St) (run : Nat) (e : Ev) (h : s.failApp = 0) :
    s.append run e = ({ s with events := s.events ++ [(run, e.kind)] }, true) := by
  simp [St.append, h]

theorem append_fail (s : St) (run : Nat) (e : Ev) (h : 0 < s.failApp) :
    s.append run e = ({ s with failApp := s.failApp - 1 }, false) := by
  simp [St.append, h]

theorem forward_plain (s : St) (run : Nat) (e : Ev) (h : e.kind ≠ .idle) :
    s.forward run e = s.publish run e false := by
  have : e.kind.mro.contains GenHandlerStatus.idleClass = false := by
    cases hc : e.kind.mro.contains GenHandlerStatus.idleClass
    · rfl
    · exact absurd ((isIdle_iff e.kind).mp hc) h
  simp only [St.forward, this, Bool.and_false, Bool.false_eq_true, ↓reduceIte]

theorem forward_nolayer (s : St) (run : Nat) (e : Ev) (h : s.idleLayer = false) :
    s.forward run e = s.publish run e false := by
  simp only [St.forward, h, Bool.false_and, Bool.false_eq_true, ↓reduceIte]

theorem forward_idle (s : St) (run : Nat) (t : Nat) (h : s.idleLayer = true) :
    s.forward run { kind := .idle, tok := t } =
      andThen (s.uhs run { status := some .running, idle := some (some (s.clock + 1)) })
        (fun x => x.publish run { kind := .idle, tok := t } true) := by
  have hc : (EvKind.idle).mro.contains GenHandlerStatus.idleClass = true := by decide
  simp only [St.forward, h, hc, Bool.and_self, ↓reduceIte, idleStatus_running]

theorem statusWrite_none (s : St) (run : Nat) (e : Ev) (h : statusArgs e = none) : s.statusWrite run e = (s, true) := by
  simp [St.statusWrite, h]

theorem statusWrite_some (s : St) (run : Nat) (e : Ev) (st : Status) (x : Option Err) (y : Option Nat)
    (h : statusArgs e = some (st, x, y)) :
    s.statusWrite run e = retry (fun z => z.uhs run { status := some st, result := y, error := x }) s.backoff s := by
  simp [St.statusWrite, h]

theorem writeEvent_live (s : St) (run : Nat) (e : Ev) :
    s.writeEvent run e false =
      andThen (andThen (s.statusWrite run e) (fun x => x.append run e)) (fun x => x.forward run e) := by
  simp [St.writeEvent]

theorem forward_nonterminal (s : St) (run : Nat) (e : Ev) (hk : e.kind = .other ∨ e.kind = .idle)
    (hr : RunningFor run s) (hidle : e.kind = .idle → s.failUhs = 0) :
    (s.forward run e).2 = true ∧ RunningFor run (s.forward run e).1 ∧
      (s.forward run e).1.backoff = s.backoff ∧ (s.forward run e).1.idleLayer = s.idleLayer := by
  obtain ⟨k, t⟩ := e
  obtain ⟨r, hrow, hrun, hst⟩ := hr
  rcases hk with hk | hk <;> simp only at hk <;> subst hk
  · rw [forward_plain _ _ _ (by simp)]
    exact ⟨rfl, ⟨r, hrow, hrun, hst⟩, rfl, rfl⟩
  · by_cases hl : s.idleLayer = true
    · rw [forward_idle _ _ _ hl, uhs_ok _ run _ (hidle rfl), andThen_true]
      refine ⟨rfl, ⟨r.apply { status := some .running, idle := some (some (s.clock + 1)) } (s.clock + 1), ?_, ?_, ?_⟩, rfl, rfl⟩
      · simp [St.publish, hrow, hrun]
      · simp [hrun, Rec.apply]
      · simp [Rec.apply]
    · rw [forward_nolayer _ _ _ (by simpa using hl)]
      exact ⟨rfl, ⟨r, hrow, hrun, hst⟩, rfl, rfl⟩

/-- events that carry no status (`StepStateChanged`, user events, `WorkflowIdleEvent`): the row stays
`running`; the only store calls are the unretried `append_event` and, for the idle event, the idle adapter's
unretried `update_handler_status` -/
theorem writeEvent_nonterminal (s : St) (run : Nat) (e : Ev) (hk : e.kind = .other ∨ e.kind = .idle)
    (hr : RunningFor run s) (happ : s.failApp = 0) (hidle : e.kind = .idle → s.failUhs = 0) :
    (s.writeEvent run e false).2 = true ∧ RunningFor run (s.writeEvent run e false).1 ∧
      (s.writeEvent run e false).1.backoff = s.backoff ∧ (s.writeEvent run e false).1.idleLayer = s.idleLayer := by
  have hnone : statusArgs e = none := by
    obtain ⟨k, t⟩ := e
    rcases hk with hk | hk <;> simp only at hk <;> subst hk
    · exact statusArgs_other t
    · exact statusArgs_idle t
  rw [writeEvent_live, statusWrite_none _ _ _ hnone, andThen_true, append_ok s run _ happ, andThen_true]
  exact forward_nonterminal _ run e hk hr hidle

/-- an event the chain maps to a status, written while the row is `running`, with at most `len(backoff)`
transient failures of the status write and none of `append_event`: the row gets exactly the chain's
arguments, the event is appended and forwarded -/
theorem writeEvent_terminal (s : St) (run : Nat) (e : Ev) (st : Status) (x : Option Err) (y : Option Nat)
    (hargs : statusArgs e = some (st, x, y)) (hr : RunningFor run s)
    (hb : s.failUhs ≤ s.backoff.length) (happ : s.failApp = 0) :
    (s.writeEvent run e false).2 = true ∧
    ∃ r0 now, s.row = some r0 ∧ r0.runId = run ∧
      (s.writeEvent run e false).1.row = some (r0.apply { status := some st, result := y, error := x } now) ∧
      (s.writeEvent run e false).1.events = s.events ++ [(run, e.kind)] := by
  obtain ⟨r, hrow, hrun, hst⟩ := hr
  have hk : e.kind ≠ .idle := by
    intro hk
    obtain ⟨k, t⟩ := e
    simp only at hk; subst hk
    rw [statusArgs_idle] at hargs; cases hargs
  have hbud := retry_uhs_budget run { status := some st, result := y, error := x } s.backoff s hb
  have hstep := retry_uhs_step run { status := some st, result := y, error := x } s.backoff s
  obtain ⟨now, hnow⟩ := retry_uhs_true run { status := some st, result := y, error := x } s.backoff s hbud.1
  rw [writeEvent_live, statusWrite_some _ _ _ _ _ _ hargs]
  generalize retry (fun z => z.uhs run { status := some st, result := y, error := x }) s.backoff s = q at *
  obtain ⟨q1, q2⟩ := q
  simp only at hbud hstep hnow
  obtain ⟨hq2, _⟩ := hbud
  subst hq2
  rw [andThen_true, append_ok q1 run e (hstep.failApp.trans happ), andThen_true, forward_plain _ _ _ hk]
  refine ⟨rfl, r, now, hrow, hrun, ?_, ?_⟩
  · simp [St.publish, hnow, hrow, hrun]
  · simp [St.publish, hstep.events]

end HandlerStatus
