import WfModel.RpTree
import Driver.Policy
/-! Line protocol for the nested part of the retry-policy model (C07): trees of combinators of any depth,
constructors with omitted arguments (`-` = take the default regenerated from the source), the function-style
policy constructors, Python's `sum()` over strategies, and the documented interval of a wait tree.

    wtree ::= L wleaf | C n wtree*n | S n wtree*n        (wait_chain / wait_combine)
    stree ::= L sleaf | A n stree*n | B n stree*n        (stop_any / stop_all)
    ctree ::= L cleaf | A n ctree*n | B n ctree*n        (retry_any / retry_all)
    wleaf ::= (the leaves of `policy`) | dexp o o o o | dinc o o om | drand o o | djit o o o o | drexp o o o o
            | dfj o o o o | wnone                        o ::= - | p/q     om ::= - | inf | p/q
-/
open Policy Drv.Engine Drv.Policy

namespace Drv.RpTree

def orat : P (Option Rat) := fun ts =>
  match ts with
  | "-" :: r => some (none, r)
  | _ => (rat ts).map (fun (q, r) => (some q, r))

def omax : P (Option (Option Rat)) := fun ts =>
  match ts with
  | "-" :: r => some (none, r)
  | "inf" :: r => some (some none, r)
  | _ => (rat ts).map (fun (q, r) => (some (some q), r))

def obool : P (Option Bool) := fun ts =>
  match ts with
  | "-" :: r => some (none, r)
  | "0" :: r => some (some false, r)
  | "1" :: r => some (some true, r)
  | _ => none

def wleafD : P WLeaf := fun ts =>
  match ts with
  | "dexp" :: r => (do let m ← orat; let b ← orat; let mx ← orat; let mn ← orat; pure (mkExponential m b mx mn)) r
  | "dinc" :: r => (do let s ← orat; let i ← orat; let mx ← omax; pure (mkIncrementing s i mx)) r
  | "drand" :: r => (do let mn ← orat; let mx ← orat; pure (mkRandom mn mx)) r
  | "djit" :: r => (do let i ← orat; let b ← orat; let mx ← orat; let j ← orat; pure (mkExpJitter i b mx j)) r
  | "drexp" :: r => (do let m ← orat; let b ← orat; let mx ← orat; let mn ← orat; pure (mkRandomExp m b mx mn)) r
  | "dfj" :: r => (do let m ← orat; let b ← orat; let mx ← orat; let mn ← orat; pure (mkFullJitter m b mx mn)) r
  | "wnone" :: r => some (mkWaitNone, r)
  | _ => wleaf ts

def wtreeF : Nat → P WTree
  | 0 => fun _ => none
  | f + 1 => do
    match ← tok with
    | "L" => do let l ← wleafD; pure (.leaf l)
    | "C" => do let ls ← counted (wtreeF f); pure (.chain ls)
    | "S" => do let ls ← counted (wtreeF f); pure (.combine ls)
    | _ => fun _ => none
def wtree : P WTree := fun ts => wtreeF (ts.length + 1) ts

def streeF : Nat → P RSTree
  | 0 => fun _ => none
  | f + 1 => do
    match ← tok with
    | "L" => do let l ← sleaf; pure (.leaf l)
    | "A" => do let ls ← counted (streeF f); pure (.any ls)
    | "B" => do let ls ← counted (streeF f); pure (.all ls)
    | _ => fun _ => none
def stree : P RSTree := fun ts => streeF (ts.length + 1) ts

def ctreeF : Nat → P RCTree
  | 0 => fun _ => none
  | f + 1 => do
    match ← tok with
    | "L" => do let l ← cleaf; pure (.leaf l)
    | "A" => do let ls ← counted (ctreeF f); pure (.any ls)
    | "B" => do let ls ← counted (ctreeF f); pure (.all ls)
    | _ => fun _ => none
def ctree : P RCTree := fun ts => ctreeF (ts.length + 1) ts

def optTree (none_ some_ : String) (p : P α) : P (Option α) := fun ts =>
  match ts with
  | t :: r => if t = none_ then some (none, r) else if t = some_ then (p r).map (fun (a, r') => (some a, r')) else none
  | [] => none

def sNext : Option Rat → String
  | some d => "some " ++ sRat d
  | none => "none"

def step (_ : Unit) (line : String) : Unit × String :=
  match tokens line with
  | "twait" :: ts =>
    match (do let w ← wtree; let k ← nat; let u ← rat; pure (w, k, u)) ts with
    | some ((w, k, u), []) => ((), sRat (w.eval k u))
    | _ => ((), "bad-op")
  | "tbounds" :: ts =>
    match (do let w ← wtree; let k ← nat; pure (w, k)) ts with
    | some ((w, k), []) => ((), s!"{sBool w.wf} {sBool w.jitterFree} {sRat (w.lo k)} {sRat (w.hi k)}")
    | _ => ((), "bad-op")
  | "tstop" :: ts =>
    match (do let s ← stree; let k ← nat; let el ← rat; let up ← rat; pure (s, k, el, up)) ts with
    | some ((s, k, el, up), []) => ((), sBool (s.eval k el up))
    | _ => ((), "bad-op")
  | "tcond" :: ts =>
    match (do let c ← ctree; let e ← nat; pure (c, e)) ts with
    | some ((c, e), []) => ((), sBool (c.eval e))
    | _ => ((), "bad-op")
  | "tnext" :: ts =>
    match (do let c ← optTree "CN" "CT" ctree; let w ← optTree "WD" "WT" wtree; let s ← optTree "SD" "ST" stree
              let el ← rat; let k ← nat; let e ← nat; let u ← rat; pure (mkPolicy c w s, el, k, e, u)) ts with
    | some ((p, el, k, e, u), []) => ((), sNext (p.eval.next el k e u))
    | _ => ((), "bad-op")
  | "tcdp" :: ts =>
    match (do let n ← orat; let d ← orat; let el ← rat; let k ← nat; let e ← nat; let u ← rat
              pure (mkConstantDelay n d, el, k, e, u)) ts with
    | some ((p, el, k, e, u), []) => ((), sNext (p.eval.next el k e u))
    | _ => ((), "bad-op")
  | "tebp" :: ts =>
    match (do let n ← orat; let i ← orat; let m ← orat; let mx ← orat; let j ← obool
              let el ← rat; let k ← nat; let e ← nat; let u ← rat
              pure (mkExpBackoff n i m mx j, el, k, e, u)) ts with
    | some ((p, el, k, e, u), []) => ((), sNext (p.eval.next el k e u))
    | _ => ((), "bad-op")
  | "tsum" :: ts =>
    match (do let ws ← counted wtree; let k ← nat; let u ← rat; pure (ws, k, u)) ts with
    | some ((ws, k, u), []) =>
      match pySum (ws.map WTree.eval) with
      | some f => ((), sRat (f k u))
      | none => ((), "int0")
    | _ => ((), "bad-op")
  | _ => ((), "bad-op")

end Drv.RpTree
