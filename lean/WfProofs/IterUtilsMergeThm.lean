import WfProofs.IterUtilsMerge
/-! Consequences of the merge invariant; effect of one action on the observable fields. -/
namespace IterUtils
open Merge

theorem prefix_of_inv {m : Merge α} (h : MInv m) (i : Nat) : proj i m.out <+: proj i m.hist := by
  have := h.conserve i
  rw [← this]
  simp only [List.append_assoc]
  exact List.prefix_append _ _

theorem mem_hist_of_mem_out {m : Merge α} (h : MInv m) {p : Nat × α} (hp : p ∈ m.out) : p ∈ m.hist := by
  obtain ⟨i, v⟩ := p
  exact mem_of_mem_proj ((prefix_of_inv h i).subset (mem_proj_of_mem hp))

theorem stopped_false_of_flag {m : Merge α} (h : MInv m) (hf : m.stopFirst = false) : m.stopped = false := by
  cases hs : m.stopped with
  | false => rfl
  | true => have := h.stopFlag hs; simp [hf] at this

/-- at normal completion without `stop_on_first_completion`, every slot is `gone` -/
theorem all_gone {m : Merge α} (h : MInv m) (hp : m.phase = .finished none) (hf : m.stopFirst = false) :
    ∀ (i : Nat) (s : Slot α), m.slots[i]? = some s → s = Slot.gone := by
  intro i s hs
  have hst := stopped_false_of_flag h hf
  have hmem : s ∈ m.slots := List.mem_iff_getElem?.mpr ⟨i, hs⟩
  have ht := h.finClean hp hst s hmem
  cases s with
  | idle =>
    rcases h.idle i hs with h1 | ⟨j, r, h2, _⟩
    · simp [hst] at h1
    · simp [hp] at h2
  | gone => rfl
  | pending => simp [Slot.hasTask] at ht
  | item v => simp [Slot.hasTask] at ht
  | ended => simp [Slot.hasTask] at ht
  | failed e => simp [Slot.hasTask] at ht

theorem complete_of_inv {m : Merge α} (h : MInv m) (hp : m.phase = .finished none) (hf : m.stopFirst = false)
    (i : Nat) : proj i m.out = proj i m.hist := by
  have hst := stopped_false_of_flag h hf
  have := h.conserve i
  rw [hp, h.dropNil hst] at this
  have hsl : slotItem m.slots[i]? = [] := by
    cases hs : m.slots[i]? with
    | none => rfl
    | some s => rw [all_gone h hp hf i s hs]; rfl
  simpa [Phase.rest, hsl] using this

theorem no_errs_of_complete {m : Merge α} (h : MInv m) (hp : m.phase = .finished none) (hf : m.stopFirst = false) :
    m.errs = [] := by
  cases he : m.errs with
  | nil => rfl
  | cons p ps =>
    obtain ⟨i, e⟩ := p
    have := h.core.errSlot i e (by simp [he])
    have := all_gone h hp hf i _ this
    simp at this

theorem count_proj [DecidableEq α] (i : Nat) (v : α) (l : List (Nat × α)) :
    List.count (i, v) l = List.count v (proj i l) := by
  induction l with
  | nil => rfl
  | cons p ps ih =>
    obtain ⟨j, w⟩ := p
    rw [proj_cons, List.count_cons, ih]
    by_cases hj : j = i
    · subst hj
      by_cases hw : w = v
      · subst hw; simp
      · simp [hw]
    · simp [hj]

/-- equal per-source subsequences ⇒ same multiset of tagged items -/
theorem perm_of_proj [DecidableEq α] {l₁ l₂ : List (Nat × α)} (h : ∀ i, proj i l₁ = proj i l₂) : l₁.Perm l₂ := by
  rw [List.perm_iff_count]
  intro p
  obtain ⟨i, v⟩ := p
  rw [count_proj, count_proj, h i]

/-! ### effect of one action on the observable fields -/

def Act.prodOf : Act α → Option (Nat × α)
  | .prod i v => some (i, v)
  | .fin _ => none | .err _ _ => none | .batch _ => none | .resume => none

def Act.errOf : Act α → Option (Nat × Nat)
  | .err i e => some (i, e)
  | .prod _ _ => none | .fin _ => none | .batch _ => none | .resume => none

def Act.finOf : Act α → Option Nat
  | .fin i => some i
  | .prod _ _ => none | .err _ _ => none | .batch _ => none | .resume => none

theorem yieldNext_fields (m : Merge α) (rest : List (Nat × α)) :
    (yieldNext m rest).1.out = m.out ++ (yieldNext m rest).2.toList
    ∧ (yieldNext m rest).1.hist = m.hist ∧ (yieldNext m rest).1.errs = m.errs
    ∧ (yieldNext m rest).1.ends = m.ends ∧ (yieldNext m rest).1.stopFirst = m.stopFirst
    ∧ (yieldNext m rest).1.slots = m.slots := by
  cases rest with
  | nil => simp only [yieldNext, loopTop]; split <;> simp
  | cons p r => obtain ⟨i, v⟩ := p; simp [yieldNext]

theorem yieldNext_fields' {mm m' : Merge α} {rest : List (Nat × α)} {em : Option (Nat × α)}
    (hh : mm.yieldNext rest = (m', em)) :
    m'.out = mm.out ++ em.toList ∧ m'.hist = mm.hist ∧ m'.errs = mm.errs
    ∧ m'.ends = mm.ends ∧ m'.stopFirst = mm.stopFirst ∧ m'.slots = mm.slots := by
  have := yieldNext_fields mm rest
  rw [hh] at this
  exact this

theorem step_fields {m m' : Merge α} {a : Act α} {em : Option (Nat × α)} (hs : m.step a = some (m', em)) :
    m'.out = m.out ++ em.toList ∧ m'.hist = m.hist ++ a.prodOf.toList
    ∧ m'.errs = m.errs ++ a.errOf.toList ∧ m'.ends = m.ends ++ a.finOf.toList
    ∧ m'.stopFirst = m.stopFirst ∧ m'.slots.length = m.slots.length := by
  cases a with
  | prod i v =>
    simp only [Merge.step] at hs
    split at hs
    · split at hs
      · simp only [Option.some.injEq, Prod.mk.injEq] at hs
        obtain ⟨rfl, rfl⟩ := hs
        simp [Act.prodOf, Act.errOf, Act.finOf]
      · simp at hs
    · simp at hs
  | fin i =>
    simp only [Merge.step] at hs
    split at hs
    · split at hs
      · simp only [Option.some.injEq, Prod.mk.injEq] at hs
        obtain ⟨rfl, rfl⟩ := hs
        simp [Act.prodOf, Act.errOf, Act.finOf]
      · simp at hs
    · simp at hs
  | err i e =>
    simp only [Merge.step] at hs
    split at hs
    · split at hs
      · simp only [Option.some.injEq, Prod.mk.injEq] at hs
        obtain ⟨rfl, rfl⟩ := hs
        simp [Act.prodOf, Act.errOf, Act.finOf]
      · simp at hs
    · simp at hs
  | batch order =>
    simp only [Merge.step] at hs
    split at hs
    · split at hs
      · have hlen : ∀ (o : List Nat) (a : Acc α), (o.foldl (collect m.stopFirst) a).slots.length = a.slots.length := by
          intro o
          induction o with
          | nil => intro a; rfl
          | cons i is ih =>
            intro a
            rw [List.foldl_cons, ih]
            unfold collect
            split
            · rfl
            · split
              · simp
              · split <;> simp
              · rfl
              · rfl
        have hl := hlen order { slots := m.slots, exc := m.exc, stopped := m.stopped }
        generalize order.foldl (collect m.stopFirst) { slots := m.slots, exc := m.exc, stopped := m.stopped } = a at hs hl
        split at hs
        · simp only [Option.some.injEq, Prod.mk.injEq] at hs
          obtain ⟨rfl, rfl⟩ := hs
          simp only [loopTop]
          split <;> simp [Act.prodOf, Act.errOf, Act.finOf, hl]
        · simp only [Option.some.injEq] at hs
          obtain ⟨h1, h2, h3, h4, h5, h6⟩ := yieldNext_fields' hs
          refine ⟨h1, ?_, ?_, ?_, h5, ?_⟩
          · simpa [Act.prodOf] using h2
          · simpa [Act.errOf] using h3
          · simpa [Act.finOf] using h4
          · rw [h6]; exact hl
      · simp at hs
    · simp at hs
  | resume =>
    simp only [Merge.step] at hs
    split at hs
    · rename_i i rest hp
      simp only [Option.some.injEq] at hs
      obtain ⟨h1, h2, h3, h4, h5, h6⟩ := yieldNext_fields' hs
      refine ⟨h1, ?_, ?_, ?_, h5, ?_⟩
      · simpa [Act.prodOf] using h2
      · simpa [Act.errOf] using h3
      · simpa [Act.finOf] using h4
      · rw [h6]; simp only; split <;> simp
    · simp at hs

theorem filterMap_cons_toList {γ δ : Type} (f : γ → Option δ) (a : γ) (l : List γ) :
    List.filterMap f (a :: l) = (f a).toList ++ List.filterMap f l := by
  cases h : f a <;> simp [h]

theorem exec_fields {m m' : Merge α} (acts : List (Act α)) (he : m.exec acts = some m') :
    m'.hist = m.hist ++ acts.filterMap Act.prodOf ∧ m'.errs = m.errs ++ acts.filterMap Act.errOf
    ∧ m'.ends = m.ends ++ acts.filterMap Act.finOf ∧ m'.stopFirst = m.stopFirst
    ∧ m'.slots.length = m.slots.length := by
  induction acts generalizing m with
  | nil => simp only [Merge.exec, Option.some.injEq] at he; subst he; simp
  | cons a as ih =>
    simp only [Merge.exec] at he
    split at he
    · rename_i m1 em hs
      obtain ⟨_, h2, h3, h4, h5, h6⟩ := step_fields hs
      obtain ⟨i2, i3, i4, i5, i6⟩ := ih he
      refine ⟨?_, ?_, ?_, ?_, ?_⟩
      · rw [i2, h2, filterMap_cons_toList, List.append_assoc]
      · rw [i3, h3, filterMap_cons_toList, List.append_assoc]
      · rw [i4, h4, filterMap_cons_toList, List.append_assoc]
      · rw [i5, h5]
      · rw [i6, h6]
    · simp at he

end IterUtils
