import WfProofs.ValidateSpec
import WfProofs.ValidateExt
import WfProofs.ValidatePerm
import WfProofs.ValidateRoutes
/-!
# C23 — workflow validation accepts exactly the well-formed graphs

Property theorems only.  The specification (`C23.WellFormed`, `C23.UsesHitl`, `C23.Edge`, …) and its bridges to the
model are in `WfProofs/ValidateSpec.lean`; helper lemmas in `WfProofs/ValidateDfs.lean`, `WfProofs/Validate.lean`.
Quantification: every class table `H` (any subclass relation, multiple inheritance included),
every step list `W` whose names are distinct (they are dict keys), every workflow-level and
step-level `skip_graph_checks` setting.

The specification `C23.WellFormed` is declarative: it speaks of consumed / returned / produced
types, of an inductively defined edge relation and its reflexive-transitive closure `Reach`, and
never of the lists, stacks or fuel the code (and the model) computes with.
-/
open Validate

namespace C23

/-! Example data for the non-vacuity checks: `7` derives from InputRequiredEvent, `8` from
HumanResponseEvent, `9` and `10` are plain events (`10` derives from `9`), `11` derives from StartEvent. -/
def exH : Hier := { bases := builtinBases ++ [[3], [4], [0], [9], [1]] }
/-- a HITL workflow with a scoped handler, a `None` return, a union parameter and a skipped island -/
def exW : List Step :=
  [ { name := 1, accepted := [11], returns := [9, 7] },
    { name := 2, accepted := [9, 8], returns := [2, 6] },
    { name := 3, accepted := [5], returns := [10], handler := true, forSteps := some [1], maxRec := 2 },
    { name := 4, accepted := [10], returns := [2] },
    { name := 5, accepted := [0], returns := [0], skip := [ckReach, ckDeadEnd] } ]
/-- the same with the island's skips removed: unreachable and a dead end -/
def exBad : List Step :=
  [ { name := 1, accepted := [1], returns := [2] },
    { name := 5, accepted := [0], returns := [0] } ]

end C23

open C23

/-- The source still has the shape the model transcribes: the order of the checks in `_validate_workflow`
and in `Workflow.__init__`, the tuple of root classes each `issubclass` test uses, which set difference each
boundary tuple filters, how the two DFS runs are seeded, which reachable set each graph check reads, the three
skip guards and the per-step skip names, the order inside the handler collection, and the shape of the
returned flag (two `any(issubclass(..))` tests).  Regenerated from `/repo` on every run; independent of the
names of local variables. -/
theorem C23_source_shape :
    Gen.C23.emptyCheckedFirst = true ∧
    Gen.C23.checkOrder = ["_ensure_start_event_class", "_ensure_stop_event_class", "_validate_event_connectivity",
      "_collect_catch_error_handlers", "validate_graph"] ∧
    Gen.C23.initOrder = ["_ensure_start_event_class", "_ensure_stop_event_class", "raise-unknown-check"] ∧
    (Gen.C23.startRoots, Gen.C23.startScans, Gen.C23.startCounts) = ([cStart], ["accepted_events"], ["Eq 0", "Gt 1"]) ∧
    (Gen.C23.stopRoots, Gen.C23.stopScans, Gen.C23.stopCounts) = ([cStop], ["return_types"], ["Eq 0", "Gt 1"]) ∧
    Gen.C23.acceptStopRoots = [cStop] ∧
    Gen.C23.consumedBoundary = [cInputRequired, cHumanResponse, cStop, cStepFailed] ∧
    Gen.C23.producedBoundary = [cInputRequired, cHumanResponse, cStop] ∧
    Gen.C23.connectivityRaises = ["acceptsStop", "consumedNotProduced", "producedNotConsumed"] ∧
    Gen.C23.producedStartsWithStart = true ∧ Gen.C23.consumedStartsEmpty = true ∧ Gen.C23.producedSkipsNone = true ∧
    Gen.C23.hitlShapeKnown = true ∧
    Gen.C23.hitlTerms = [(true, cInputRequired, true), (true, cHumanResponse, false)] ∧
    Gen.C23.seedRoots = [cHumanResponse] ∧ Gen.C23.seedsStartWithStart = true ∧ Gen.C23.handlersAreSeeds = true ∧
    Gen.C23.outputRoots = [cStop, cInputRequired] ∧ Gen.C23.terminalRoots = [cStop, cInputRequired] ∧
    Gen.C23.dfsRuns = 2 ∧
    Gen.C23.graphGuards = ["reachability", "terminal_event", "dead_end"] ∧
    (Gen.C23.stepSkipIn_reachability, Gen.C23.stepSkipIn_terminal_event, Gen.C23.stepSkipIn_dead_end) =
      (["reachability"], [], ["dead_end"]) ∧
    (Gen.C23.reachSetIn_reachability, Gen.C23.reachSetIn_terminal_event, Gen.C23.reachSetIn_dead_end) =
      (["forward_reachable"], [], ["reverse_reachable"]) ∧
    Gen.C23.handlerBudgetCheckedFirst = true ∧ Gen.C23.handlerBudgetTest = ["Lt 1"] ∧
    Gen.C23.workflowGraphChecks = ["reachability", "terminal_event", "dead_end"] ∧
    Gen.C23.stepGraphChecks = ["reachability", "dead_end"] ∧
    Gen.C23.validateSkipArg = ["self._skip_graph_checks"] ∧
    Gen.C23.validateReturns = ["uses_hitl"] := by decide +kernel

/-- `_dfs` computes exactly reachability: for every edge list (any graph, any adjacency order) and every
seed list, a node is in the returned set iff it is reachable from some seed through the reflexive-transitive
closure of the edge relation.  (The fuel of the model's loop is shown sufficient inside.) -/
theorem C23_dfs_is_reachability (E : List (Node × Node)) (seeds : List Node) (x : Node) :
    x ∈ dfs E seeds ↔ ∃ s ∈ seeds, Reach (fun a b => (a, b) ∈ E) s x :=
  mem_dfs E seeds x

example : Node.ev 3 ∈ dfs [(.step 1, .ev 2), (.ev 2, .step 4), (.step 4, .ev 3), (.step 4, .step 1), (.ev 9, .step 1)] [.step 1] ∧
    Node.ev 9 ∉ dfs [(.step 1, .ev 2), (.ev 2, .step 4), (.step 4, .ev 3), (.step 4, .step 1), (.ev 9, .step 1)] [.step 1] := by
  decide

/-- `forward_reachable` of `build_step_graph`: exactly the nodes reachable from an input seed of the spec -/
theorem C23_forward_reachable (H : Hier) (W : List Step) (start : Cls) (hs : ensureStart H W = .ok start) (x : Node) :
    x ∈ fwdReach H W start ↔ ∃ seed, InputSeed H W seed ∧ Reach (Edge W) seed x := by
  unfold fwdReach
  rw [mem_dfs]
  constructor
  · rintro ⟨y, hy, hr⟩; exact ⟨y, (inputSeed_iff hs y).mpr hy, (reach_iff W _ _).mpr hr⟩
  · rintro ⟨y, hy, hr⟩; exact ⟨y, (inputSeed_iff hs y).mp hy, (reach_iff W _ _).mp hr⟩

example : ensureStart exH exW = .ok 11 ∧ Node.step 4 ∈ fwdReach exH exW 11 ∧ Node.step 5 ∉ fwdReach exH exW 11 := by
  decide

/-- `reverse_reachable`: exactly the nodes from which some output event of the graph can be reached -/
theorem C23_reverse_reachable (H : Hier) (W : List Step) (x : Node) :
    x ∈ revReach H W ↔ ∃ o, Output H W o ∧ Reach (Edge W) x (.ev o) := by
  unfold revReach
  rw [mem_dfs]
  constructor
  · rintro ⟨y, hy, hr⟩
    obtain ⟨c, hc, ho, rfl⟩ := mem_outSeeds.mp hy
    exact ⟨c, ⟨(eventType_iff W c).mpr hc, ho⟩, (reach_flip_iff W _ _).mp hr⟩
  · rintro ⟨o, ⟨he, ho⟩, hr⟩
    exact ⟨Node.ev o, mem_outSeeds.mpr ⟨o, (eventType_iff W o).mp he, ho, rfl⟩, (reach_flip_iff W _ _).mpr hr⟩

example : Node.step 3 ∈ revReach exH exW ∧ Node.step 5 ∉ revReach exH exW := by decide

/-- `_validate_workflow` accepts (returns, with whatever flag) iff the step set is well formed -/
theorem C23_accepts_iff_wellformed (H : Hier) (W : List Step) (skip : List Nat) (hnd : (names W).Nodup) :
    (∃ b, validateWorkflow H W skip = .ok b) ↔ WellFormed H W skip := by
  constructor
  · rintro ⟨b, h⟩
    obtain ⟨hW, start, hs, ht, h1, h2, h3, h4, h5, _⟩ := validateWorkflow_ok_iff.mp h
    obtain ⟨g1, g2, g3⟩ := validateGraph_none.mp h5
    exact {
      nonempty := hW
      start := (uniqueStart_iff H W).mpr ⟨start, hs⟩
      stop := (uniqueStop_iff H W).mpr ht
      noStopConsumer := (noStopConsumer_iff H W).mpr h1
      consumedProduced := (consumedProduced_iff hs).mpr h2
      producedConsumed := (producedConsumed_iff hs).mpr h3
      handlers := (handlersOK_iff hnd).mpr h4
      reachable := (allReachable_iff hnd hs).mpr g1
      terminal := terminalOK_iff.mpr g2
      noDeadEnd := (noDeadEnd_iff hnd).mpr g3 }
  · intro wf
    obtain ⟨start, hs⟩ := (uniqueStart_iff H W).mp wf.start
    refine ⟨usesHitl H W start, validateWorkflow_ok_iff.mpr ⟨wf.nonempty, start, hs, (uniqueStop_iff H W).mp wf.stop,
      (noStopConsumer_iff H W).mp wf.noStopConsumer, (consumedProduced_iff hs).mp wf.consumedProduced,
      (producedConsumed_iff hs).mp wf.producedConsumed, (handlersOK_iff hnd).mp wf.handlers,
      validateGraph_none.mpr ⟨(allReachable_iff hnd hs).mp wf.reachable, terminalOK_iff.mp wf.terminal,
        (noDeadEnd_iff hnd).mp wf.noDeadEnd⟩, rfl⟩⟩

/-- non-vacuity: a five-step workflow with subclassed events, a handler and a skipped island is well formed;
without the skips it is not -/
example : WellFormed exH exW [] ∧ ¬WellFormed exH exBad [] ∧ WellFormed exH exBad [ckReach, ckDeadEnd] := by
  refine ⟨(C23_accepts_iff_wellformed exH exW [] (by decide)).mp ⟨true, by decide⟩, ?_,
    (C23_accepts_iff_wellformed exH exBad _ (by decide)).mp ⟨false, by decide⟩⟩
  intro h
  obtain ⟨b, hb⟩ := (C23_accepts_iff_wellformed exH exBad [] (by decide)).mpr h
  revert hb
  cases b <;> decide

/-- `Workflow(skip_graph_checks=skip).validate()` returns iff the step set is well formed and every
workflow-level check name is a known one -/
theorem C23_validate_iff_wellformed (H : Hier) (W : List Step) (skip : List Nat) (hnd : (names W).Nodup) :
    (∃ b, constructAndValidate H W skip = .ok b) ↔ WellFormed H W skip ∧ ∀ c ∈ skip, c ≤ 2 := by
  have hany : skip.any (fun c => decide (2 < c)) = true ↔ ¬∀ c ∈ skip, c ≤ 2 := by
    simp only [List.any_eq_true, decide_eq_true_eq, Classical.not_forall, Nat.not_le]
    constructor
    · rintro ⟨c, hc, h⟩; exact ⟨c, hc, h⟩
    · rintro ⟨c, hc, h⟩; exact ⟨c, hc, h⟩
  constructor
  · rintro ⟨b, h⟩
    unfold constructAndValidate at h
    rcases ensureStart_cases H W with ⟨start, hs⟩ | hs | hs
    · rcases ensureStop_cases H W with ⟨stop, ht⟩ | ht | ht
      · simp only [hs, ht] at h
        by_cases hk : skip.any (fun c => decide (2 < c)) = true
        · simp [hk] at h
        · simp only [hk, Bool.false_eq_true, if_false] at h
          exact ⟨(C23_accepts_iff_wellformed H W skip hnd).mp ⟨b, h⟩, Decidable.byContradiction fun hn => hk (hany.mpr hn)⟩
      · simp [hs, ht] at h
      · simp [hs, ht] at h
    · simp [hs] at h
    · simp [hs] at h
  · rintro ⟨wf, hk⟩
    obtain ⟨b, hb⟩ := (C23_accepts_iff_wellformed H W skip hnd).mpr wf
    obtain ⟨start, hs⟩ := (uniqueStart_iff H W).mp wf.start
    obtain ⟨stop, ht⟩ := (uniqueStop_iff H W).mp wf.stop
    refine ⟨b, ?_⟩
    unfold constructAndValidate
    have hk' : skip.any (fun c => decide (2 < c)) = false := by
      rw [← Bool.not_eq_true, hany]; exact fun h => h hk
    simp only [hs, ht, hk', Bool.false_eq_true, if_false]
    exact hb

example : constructAndValidate exH exW [ckTerminal] = .ok true ∧ constructAndValidate exH exW [7] = .error .unknownCheck := by
  decide

/-- the flag `_validate_workflow` returns is true iff some produced type is an InputRequiredEvent or some
consumed type is a HumanResponseEvent — subclasses included -/
theorem C23_hitl_flag (H : Hier) (W : List Step) (skip : List Nat) (b : Bool)
    (h : validateWorkflow H W skip = .ok b) : b = true ↔ UsesHitl H W := by
  obtain ⟨_, start, hs, _, _, _, _, _, _, hb⟩ := validateWorkflow_ok_iff.mp h
  rw [← hb]
  exact usesHitl_spec hs

/-- the same for `Workflow.validate()` -/
theorem C23_validate_hitl_flag (H : Hier) (W : List Step) (skip : List Nat) (b : Bool)
    (h : constructAndValidate H W skip = .ok b) : b = true ↔ UsesHitl H W := by
  unfold constructAndValidate at h
  rcases ensureStart_cases H W with ⟨start, hs⟩ | hs | hs
  · rcases ensureStop_cases H W with ⟨stop, ht⟩ | ht | ht
    · simp only [hs, ht] at h
      by_cases hk : skip.any (fun c => decide (2 < c)) = true
      · simp [hk] at h
      · simp only [hk, Bool.false_eq_true, if_false] at h
        exact C23_hitl_flag H W skip b h
    · simp [hs, ht] at h
    · simp [hs, ht] at h
  · simp [hs] at h
  · simp [hs] at h

/-- non-vacuity, both values: only subclasses of the two root events occur in `exW` (F21's shape) and the
flag is true; a workflow without them is accepted with the flag false -/
example : validateWorkflow exH exW [] = .ok true ∧ UsesHitl exH exW ∧
    validateWorkflow exH [{ name := 1, accepted := [1], returns := [2] }] [] = .ok false := by
  refine ⟨by decide, (C23_hitl_flag exH exW [] true (by decide)).mp rfl, by decide⟩

/-- First error wins, in source order: whatever error `_validate_workflow` reports, every clause checked
before it holds, the clause it stands for fails, and the names it carries are exactly the offenders
(`C23.ErrorMeaning` spells this out per error kind) -/
theorem C23_error_is_first_failure (H : Hier) (W : List Step) (skip : List Nat) (hnd : (names W).Nodup) (e : Err)
    (h : validateWorkflow H W skip = .error e) : ErrorMeaning H W skip e :=
  errorMeaning_of_error hnd h

/-- non-vacuity: a later clause is reported only when the earlier ones hold — `exBad` passes everything up
to the graph checks and fails two of them, and a second start type is reported before anything else -/
example : validateWorkflow exH exBad [] = .error (.graph { unreach := [5], dangling := [], deadEnd := [5] }) ∧
    validateWorkflow exH ({ name := 9, accepted := [11, 2], returns := [] } :: exBad) [] = .error .multiStart := by
  decide

/-- Events the engine does not deliver reach nobody.  A step that is not a `@catch_error` handler and accepts only
event types that nothing *feeds* (`C23.Fed`: the start type, a HumanResponseEvent type, or a type some step returns)
is not reachable from any entry point of the graph - in particular an ordinary step whose only input is
StepFailedEvent, which the engine hands to the owning handler by name and never to steps by type, whether or not
the workflow has handlers. -/
theorem C23_unfed_step_unreachable (H : Hier) (W : List Step) (hnd : (names W).Nodup) (s : Step) (hs : s ∈ W)
    (hh : s.handler = false) (hacc : ∀ c ∈ s.accepted, ¬Fed H W c) :
    ¬∃ seed, InputSeed H W seed ∧ Reach (Edge W) seed (.step s.name) :=
  unfed_step_unreachable hnd hs hh hacc

/-- ... and validation rejects such a step set unless the reachability check is skipped for the workflow or for
that step: `_validate_workflow` and `Workflow(...).validate()` return no value. -/
theorem C23_unfed_step_rejected (H : Hier) (W : List Step) (skip : List Nat) (hnd : (names W).Nodup) (s : Step)
    (hs : s ∈ W) (hh : s.handler = false) (hacc : ∀ c ∈ s.accepted, ¬Fed H W c)
    (hk : ckReach ∉ skip) (hks : ckReach ∉ s.skip) :
    (∀ b, validateWorkflow H W skip ≠ .ok b) ∧ (∀ b, constructAndValidate H W skip ≠ .ok b) := by
  have hnwf : ¬WellFormed H W skip := fun wf => by
    rcases wf.reachable with h | h
    · exact hk h
    · exact unfed_step_unreachable hnd hs hh hacc (h s hs hks)
  exact ⟨fun b hb => hnwf ((C23_accepts_iff_wellformed H W skip hnd).mp ⟨b, hb⟩),
    fun b hb => hnwf ((C23_validate_iff_wellformed H W skip hnd).mp ⟨b, hb⟩).1⟩

/-- non-vacuity: next to a wildcard handler (step 5) the ordinary step 3 consumes StepFailedEvent only; nothing
feeds that type, the hypotheses hold, and the model reports exactly step 3 as unreachable.  When step 1 also
returns StepFailedEvent the type is fed and the same step set is accepted. -/
example :
    let W : List Step := [ { name := 1, accepted := [1], returns := [2] },
      { name := 5, accepted := [5], returns := [2], handler := true },
      { name := 3, accepted := [5], returns := [2] } ]
    (∀ c ∈ [cStepFailed], ¬Fed exH W c) ∧
    validateWorkflow exH W [] = .error (.graph { unreach := [3], dangling := [], deadEnd := [] }) ∧
    validateWorkflow exH W [ckReach] = .ok false ∧
    validateWorkflow exH ({ name := 1, accepted := [1], returns := [2, 5] } :: W.tail) [] = .ok false := by
  refine ⟨?_, by decide, by decide, by decide⟩
  intro c hc
  simp only [List.mem_singleton] at hc
  subst hc
  rintro (⟨_, h⟩ | h | ⟨⟨s, hs, hc⟩, _⟩)
  · revert h; decide
  · revert h; decide
  · revert hc; revert s; decide

/-- `issubclass` of the model is the reflexive-transitive closure of the direct-base relation, for every
class table in which bases are defined before their subclasses -/
theorem C23_subclass_is_closure (H : Hier) (hwf : H.wf = true) (c d : Cls) :
    IsA H c d ↔ SubClass H c d :=
  isSub_iff_subClass hwf c d

example : exH.wf = true ∧ IsA exH 10 0 ∧ ¬IsA exH 10 1 ∧ IsA exH 11 1 := by decide

/-! ## Extension: offender sets, the reach of `skip_graph_checks`, the terminal-event check -/

/-- The names a graph error carries are exactly the offenders, member by member (not only "the list is empty iff
the clause holds"): the unreachable steps are the steps, not exempted for the workflow or by their own
`skip_graph_checks`, that no entry point reaches; the dangling events are the event types of the graph that no step
consumes and that are neither StopEvent nor InputRequiredEvent types; the dead ends are the steps returning some
event, not exempted, from which no output event can be reached. -/
theorem C23_graph_offenders_exact (H : Hier) (W : List Step) (skip : List Nat) (hnd : (names W).Nodup) (g : GraphErrs)
    (h : validateWorkflow H W skip = .error (.graph g)) :
    (∀ n, n ∈ g.unreach ↔ ckReach ∉ skip ∧ ∃ s ∈ W, s.name = n ∧ ckReach ∉ s.skip ∧
        ¬∃ seed, InputSeed H W seed ∧ Reach (Edge W) seed (.step n)) ∧
    (∀ c, c ∈ g.dangling ↔ ckTerminal ∉ skip ∧ EventType W c ∧ ¬Consumed W c ∧ ¬IsA H c cStop ∧ ¬IsA H c cInputRequired) ∧
    (∀ n, n ∈ g.deadEnd ↔ ckDeadEnd ∉ skip ∧ ∃ s ∈ W, s.name = n ∧ (∃ c ∈ s.returns, c ≠ cNone) ∧ ckDeadEnd ∉ s.skip ∧
        ¬∃ o, Output H W o ∧ Reach (Edge W) (.step n) (.ev o)) := by
  rw [validateWorkflow_split] at h
  cases hp : preGraph H W with
  | error e =>
    rw [hp] at h; simp only at h
    injection h with h; subst h
    exact absurd hp preGraph_not_graph
  | ok start =>
    have hs := preGraph_start hp
    rw [hp] at h
    simp only at h
    have hg : g = validateGraph H W start skip := by
      by_cases hn : (validateGraph H W start skip).none = true
      · simp [hn] at h
      · simp only [hn, Bool.false_eq_true, if_false] at h
        injection h with h; injection h with h; exact h.symm
    subst hg
    refine ⟨fun n => ?_, fun c => ?_, fun n => ?_⟩
    · simp only [validateGraph, mem_skip_ite, mem_unreachable hnd, C23_forward_reachable H W start hs]
    · simp only [validateGraph, mem_skip_ite, mem_dangling, ← eventType_iff, not_or]
      rfl
    · simp only [validateGraph, mem_skip_ite, mem_deadEnds hnd, C23_reverse_reachable H W]

/-- non-vacuity: `exBad` is rejected with exactly step 5 unreachable and a dead end, nothing dangling -/
example : ∃ g, validateWorkflow exH exBad [] = .error (.graph g) ∧ 5 ∈ g.unreach ∧ 1 ∉ g.unreach ∧ 5 ∈ g.deadEnd :=
  ⟨{ unreach := [5], dangling := [], deadEnd := [5] }, by decide, by decide, by decide, by decide⟩

/-- Only the graph checks read `skip_graph_checks`: every error other than a graph error is reported for one skip set
iff it is reported for any other, and whenever two skip sets both accept, the flag is the same. -/
theorem C23_skip_only_affects_graph_checks (H : Hier) (W : List Step) (skip skip' : List Nat) :
    (∀ e, (∀ g, e ≠ .graph g) → (validateWorkflow H W skip = .error e ↔ validateWorkflow H W skip' = .error e)) ∧
    (∀ b b', validateWorkflow H W skip = .ok b → validateWorkflow H W skip' = .ok b' → b = b') := by
  have key : ∀ (k k' : List Nat) (e : Err), (∀ g, e ≠ .graph g) → validateWorkflow H W k = .error e →
      validateWorkflow H W k' = .error e := by
    intro k k' e hne h
    rw [validateWorkflow_split] at h ⊢
    cases hp : preGraph H W with
    | error e' => rw [hp] at h; exact h
    | ok start =>
      rw [hp] at h
      simp only at h
      by_cases hn : (validateGraph H W start k).none = true
      · simp [hn] at h
      · simp only [hn, Bool.false_eq_true, if_false] at h
        injection h with h
        exact absurd h.symm (hne _)
  refine ⟨fun e hne => ⟨key skip skip' e hne, key skip' skip e hne⟩, ?_⟩
  intro b b' h h'
  rw [validateWorkflow_split] at h h'
  cases hp : preGraph H W with
  | error e => rw [hp] at h; cases h
  | ok start =>
    rw [hp] at h h'
    simp only at h h'
    by_cases hn : (validateGraph H W start skip).none = true
    · by_cases hn' : (validateGraph H W start skip').none = true
      · simp only [hn, hn', if_true] at h h'
        injection h with h; injection h' with h'
        rw [← h, ← h']
      · simp [hn'] at h'
    · simp [hn] at h

example : validateWorkflow exH exBad [] ≠ validateWorkflow exH exBad [ckReach, ckDeadEnd] ∧
    validateWorkflow exH ({ name := 9, accepted := [11, 2], returns := [] } :: exBad) [ckReach, ckDeadEnd] = .error .multiStart := by
  decide

/-- Skipping more never rejects: a step set accepted under a skip set is accepted, with the same flag, under every
larger one. -/
theorem C23_skip_monotone (H : Hier) (W : List Step) (skip skip' : List Nat) (hsub : ∀ c ∈ skip, c ∈ skip') (b : Bool)
    (h : validateWorkflow H W skip = .ok b) : validateWorkflow H W skip' = .ok b := by
  rw [validateWorkflow_split] at h ⊢
  cases hp : preGraph H W with
  | error e => rw [hp] at h; cases h
  | ok start =>
    rw [hp] at h
    simp only at h ⊢
    by_cases hn : (validateGraph H W start skip).none = true
    · rw [validateGraph_none_mono hsub hn]
      simpa [hn] using h
    · simp [hn] at h

example : validateWorkflow exH exBad [ckReach, ckDeadEnd] = .ok false ∧
    validateWorkflow exH exBad [ckDeadEnd, ckTerminal, ckReach] = .ok false := by decide

/-- With all three checks skipped for the workflow, validation accepts iff the clauses that cannot be skipped hold:
a non-empty step set with one start and one stop type, no StopEvent consumer, event connectivity both ways and a
consistent handler table. -/
theorem C23_all_skipped (H : Hier) (W : List Step) (skip : List Nat) (hnd : (names W).Nodup)
    (h0 : ckReach ∈ skip) (h1 : ckTerminal ∈ skip) (h2 : ckDeadEnd ∈ skip) :
    (∃ b, validateWorkflow H W skip = .ok b) ↔ Pre5 H W ∧ HandlersOK W := by
  rw [C23_accepts_iff_wellformed H W skip hnd]
  constructor
  · intro wf
    exact ⟨⟨⟨wf.nonempty, wf.start, wf.stop⟩, wf.noStopConsumer, wf.consumedProduced, wf.producedConsumed⟩, wf.handlers⟩
  · rintro ⟨⟨⟨a, b, c⟩, d, e, f⟩, g⟩
    exact ⟨a, b, c, d, e, f, g, Or.inl h0, Or.inl h1, Or.inl h2⟩

example : Pre5 exH exBad ∧ HandlersOK exBad :=
  (C23_all_skipped exH exBad [0, 1, 2] (by decide) (by decide) (by decide) (by decide)).mp ⟨false, by decide⟩

/-- What is left for the terminal-event check.  Event connectivity is checked first and already demands that every
produced type be consumed unless it is an InputRequiredEvent, HumanResponseEvent or StopEvent type; so whenever a graph
error is reported, every event it lists as dangling is a HumanResponseEvent type that some step returns and no step
consumes. -/
theorem C23_dangling_only_human_response (H : Hier) (W : List Step) (skip : List Nat) (hnd : (names W).Nodup)
    (g : GraphErrs) (h : validateWorkflow H W skip = .error (.graph g)) :
    ∀ c ∈ g.dangling, IsA H c cHumanResponse ∧ (Returned W c ∧ c ≠ cNone) ∧ ¬Consumed W c := by
  intro c hc
  obtain ⟨⟨_, _, _, hpc⟩, _⟩ := C23_error_is_first_failure H W skip hnd _ h
  obtain ⟨_, het, hnc, hns, hni⟩ := ((C23_graph_offenders_exact H W skip hnd g h).2.1 c).mp hc
  have hret : Returned W c ∧ c ≠ cNone := by
    rcases het with h | h
    · exact absurd h hnc
    · exact h
  refine ⟨?_, hret, hnc⟩
  rcases hpc c (Or.inl hret) with h | h | h | h
  · exact absurd h hnc
  · exact absurd h hni
  · exact h
  · exact absurd h hns

/-- ... and such a type is always found: a step set in which some step returns an event type that no step consumes and
that is neither a StopEvent nor an InputRequiredEvent type is rejected unless the terminal-event check is skipped. -/
theorem C23_unconsumed_return_rejected (H : Hier) (W : List Step) (skip : List Nat) (hnd : (names W).Nodup) (c : Cls)
    (hr : Returned W c) (hn : c ≠ cNone) (hc : ¬Consumed W c) (hs : ¬IsA H c cStop) (hi : ¬IsA H c cInputRequired)
    (hk : ckTerminal ∉ skip) : ∀ b, validateWorkflow H W skip ≠ .ok b := by
  intro b hb
  have wf := (C23_accepts_iff_wellformed H W skip hnd).mp ⟨b, hb⟩
  rcases wf.terminal with h | h
  · exact hk h
  · rcases h c (Or.inr ⟨hr, hn⟩) with h | h | h
    · exact hc h
    · exact hs h
    · exact hi h

/-- non-vacuity: a returned and unconsumed HumanResponseEvent subclass (`8`) passes event connectivity and is what the
terminal-event check reports -/
example :
    let W : List Step := [{ name := 1, accepted := [1], returns := [2, 8] }]
    validateWorkflow exH W [] = .error (.graph { unreach := [], dangling := [8], deadEnd := [] }) ∧
    validateWorkflow exH W [ckTerminal] = .ok false := by decide

/-! ## Extension: the order of the steps does not matter -/

/-- The verdict does not depend on the order of the `steps` dict: for every reordering of the step list, validation
accepts the one iff it accepts the other, with the same flag; and when it rejects, the two errors stand for the same
clause and carry the same offending steps / events (as sets). -/
theorem C23_order_independent (H : Hier) (W W' : List Step) (skip : List Nat) (hp : W.Perm W') (hnd : (names W).Nodup) :
    (∀ b, validateWorkflow H W skip = .ok b ↔ validateWorkflow H W' skip = .ok b) ∧
    (∀ e e', validateWorkflow H W skip = .error e → validateWorkflow H W' skip = .error e' →
      e.kind = e'.kind ∧ SameOffenders e e') := by
  have hnd' : (names W').Nodup := (names_perm hp).nodup_iff.mp hnd
  have hm : ∀ s, s ∈ W ↔ s ∈ W' := fun s => hp.mem_iff
  have one : ∀ (V V' : List Step), V.Perm V' → (names V).Nodup → (names V').Nodup → ∀ b,
      validateWorkflow H V skip = .ok b → validateWorkflow H V' skip = .ok b := by
    intro V V' hpv hn hn' b hb
    have wf := (C23_accepts_iff_wellformed H V skip hn).mp ⟨b, hb⟩
    obtain ⟨b', hb'⟩ := (C23_accepts_iff_wellformed H V' skip hn').mpr (wellFormed_perm hpv skip wf)
    have h1 := C23_hitl_flag H V skip b hb
    have h2 := C23_hitl_flag H V' skip b' hb'
    have : b = b' := by
      rw [Bool.eq_iff_iff, h1, h2]
      exact usesHitl_congr fun s => hpv.mem_iff
    rw [this]; exact hb'
  refine ⟨fun b => ⟨one W W' hp hnd hnd' b, one W' W hp.symm hnd' hnd b⟩, ?_⟩
  intro e e' he he'
  have m := C23_error_is_first_failure H W skip hnd e he
  have m' := errorMeaning_perm hp.symm skip e' (C23_error_is_first_failure H W' skip hnd' e' he')
  have hk := errorMeaning_kind_unique m m'
  refine ⟨hk, ?_⟩
  cases e <;> cases e' <;> simp only [Err.kind] at hk <;> try (first | rfl | omega)
  · exact fun n => (m.2.2 n).trans (m'.2.2 n).symm
  · exact fun n => (m.2.2.2 n).trans (m'.2.2.2 n).symm
  · exact fun n => (m.2.2.2.2 n).trans (m'.2.2.2.2 n).symm
  · rename_i g g'
    have o := C23_graph_offenders_exact H W skip hnd g he
    have o' := C23_graph_offenders_exact H W' skip hnd' g' he'
    refine ⟨fun n => ?_, fun n => ?_, fun n => ?_⟩
    · rw [o.1 n, o'.1 n]
      simp only [inputSeed_congr hm, reach_congr hm]
      apply and_congr Iff.rfl
      constructor <;> rintro ⟨s, hs, r⟩
      · exact ⟨s, (hm s).mp hs, r⟩
      · exact ⟨s, (hm s).mpr hs, r⟩
    · rw [o.2.1 n, o'.2.1 n, eventType_congr hm, consumed_congr hm]
    · rw [o.2.2 n, o'.2.2 n]
      simp only [output_congr hm, reach_congr hm]
      apply and_congr Iff.rfl
      constructor <;> rintro ⟨s, hs, r⟩
      · exact ⟨s, (hm s).mp hs, r⟩
      · exact ⟨s, (hm s).mpr hs, r⟩

/-- non-vacuity: `exW` reversed is accepted with the same flag; `exBad` reversed is rejected with the same offenders -/
example : exW.reverse.Perm exW ∧ validateWorkflow exH exW.reverse [] = .ok true ∧
    validateWorkflow exH exBad.reverse [] = .error (.graph { unreach := [5], dangling := [], deadEnd := [5] }) :=
  ⟨List.reverse_perm _, by decide, by decide⟩

/-! ## Extension: everything `_validate_workflow` returns -/

open ValidateCache in
/-- The whole result record, not only the flag: whenever `_validate_workflow` returns, the start (stop) class it
reports is the one StartEvent type consumed (StopEvent type returned) by the step set; the handler descriptors are
those of the `@catch_error` steps, in step order; and the routing table `handler_for_step` contains `(n, h)` iff
handler `h` lists step `n` in its `for_steps`, or nobody lists `n`, `n` is a declared step that is not a handler, and
`h` is the wildcard handler.  The table is a function and never routes a handler's own failure to a handler. -/
theorem C23_result_record (H : Hier) (W : List Step) (skip : List Nat) (hnd : (names W).Nodup) (r : Result)
    (h : validateFull H W skip = .ok r) :
    validateWorkflow H W skip = .ok r.hitl ∧
    (StartType H W r.start ∧ ∀ d, StartType H W d → d = r.start) ∧
    (StopType H W r.stop ∧ ∀ d, StopType H W d → d = r.stop) ∧
    (r.hitl = true ↔ UsesHitl H W) ∧
    r.handlers = (W.filter (·.handler)).map (fun s => { name := s.name, forSteps := s.forSteps, maxRec := s.maxRec }) ∧
    (∀ n h, (n, h) ∈ r.routes ↔ Routes W n h) ∧
    (∀ n h h', (n, h) ∈ r.routes → (n, h') ∈ r.routes → h = h') ∧
    (∀ n h, (n, h) ∈ r.routes → (∃ s ∈ W, s.name = n ∧ s.handler = false) ∧ ∃ d ∈ W, d.name = h ∧ d.handler = true) := by
  obtain ⟨hw, hs, ht, hh, hr⟩ := validateFull_ok h
  obtain ⟨_, _, _, _, _, _, _, hv, _, _⟩ := validateWorkflow_ok_iff.mp hw
  have hsp := ensureStart_ok.mp hs
  have htp := ensureStop_ok.mp ht
  have hroutes : ∀ n h, (n, h) ∈ r.routes ↔ Routes W n h := fun n h => by rw [hr]; exact mem_routesOf hnd hv n h
  refine ⟨hw, ⟨hsp.1, fun d hd => hsp.2 d hd.1 hd.2⟩, ⟨htp.1, fun d hd => htp.2 d hd.1 hd.2⟩,
    C23_hitl_flag H W skip r.hitl hw, hh, hroutes, ?_, ?_⟩
  · intro n a b ha hb
    rw [hr, mem_routesOf_raw] at ha hb
    have := ha.2.symm.trans hb.2
    injection this
  · intro n a ha
    have hok := (handlersOK_iff hnd).mpr hv
    rcases (hroutes n a).mp ha with ⟨d, hd, hdh, hn, ts, hts, hmem⟩ | ⟨hs', _, d, hd, hdh, _, hn⟩
    · exact ⟨hok.targets d hd hdh ts hts n hmem, d, hd, hn, hdh⟩
    · exact ⟨hs', d, hd, hn, hdh⟩

open ValidateCache in
/-- `_validate_workflow` returns a record iff the step set is well formed, and raises the same error as the model of
the flag-only view otherwise (the two transcriptions of the pipeline agree) -/
theorem C23_result_iff_wellformed (H : Hier) (W : List Step) (skip : List Nat) (hnd : (names W).Nodup) :
    ((∃ r, validateFull H W skip = .ok r) ↔ WellFormed H W skip) ∧
    (∀ e, validateFull H W skip = .error e ↔ validateWorkflow H W skip = .error e) := by
  refine ⟨?_, fun e => ⟨validateFull_error, validateFull_of_error⟩⟩
  rw [← C23_accepts_iff_wellformed H W skip hnd]
  constructor
  · rintro ⟨r, hr⟩; exact ⟨r.hitl, (validateFull_ok hr).1⟩
  · rintro ⟨b, hb⟩
    obtain ⟨r, hr, _⟩ := validateFull_of_ok hb
    exact ⟨r, hr⟩

open ValidateCache in
/-- non-vacuity: the record of `exW` — start class 11, stop class 2, one scoped handler (step 3 owns step 1) -/
example : validateFull exH exW [] =
    .ok ⟨11, 2, [{ name := 3, forSteps := some [1], maxRec := 2 }], [(1, 3)], true⟩ := by decide

/-! ## Extension: the life of a verdict — `add_step`, `validate()`, and the cached `_validate()` of `run()` -/

/-- `Workflow._validate`, `add_step`, `validate`, `run` and `__init__` still have the shape the session model
transcribes: the two early returns of `_validate` and their guards, how staleness is computed, that every assignment
to the instance follows the `_validate_workflow` call and which attributes are assigned, what is stored as validated version and
result, that `add_step` stores the function and bumps the class version by a positive constant, that `validate()`
forces and `run()` does not.  Regenerated from `/repo` on every run. -/
theorem C23_cache_source_shape :
    Gen.C23c.classVersionInit = "0" ∧ Gen.C23c.metaFreshStepDict = true ∧
    Gen.C23c.versionBump = 1 ∧ Gen.C23c.versionBumpTarget = "cls._step_functions_version" ∧
    Gen.C23c.addStepStores = ["[func.__name__] = func"] ∧
    Gen.C23c.addStepDupGuard = ["func.__name__ in cls._get_steps_from_class()"] ∧
    Gen.C23c.initValidationResult = "None" ∧ Gen.C23c.initValidatedVersion = "-1" ∧
    Gen.C23c.disabledGuard = ["self._disable_validation", "not force"] ∧ Gen.C23c.disabledReturns = "False" ∧
    Gen.C23c.staleIsVersionMismatch = true ∧
    Gen.C23c.cacheGuard = ["not force", "not stale", "self._validation_result is not None"] ∧
    Gen.C23c.cacheReturns = "self._validation_result" ∧
    Gen.C23c.assignedByValidate = ["_catch_error_handlers", "_handler_for_step", "_start_event_class", "_stop_event_class",
      "_validated_version", "_validation_result"] ∧
    Gen.C23c.assignsOnlyAfterValidateWorkflow = true ∧
    Gen.C23c.validatedVersionValue = "self.__class__._step_functions_version" ∧
    Gen.C23c.validationResultValue = "result.uses_hitl" ∧
    Gen.C23c.validateForces = true ∧ Gen.C23c.runCallsValidate = 1 ∧ Gen.C23c.runForces = false := by decide +kernel

open ValidateCache in
/-- Step names stay distinct through every history: classes are created with distinct method names and `add_step`
refuses a name that is already a step, so the hypothesis `(names W).Nodup` of the theorems above holds for the step
set of every class in every reachable state of a session. -/
theorem C23_session_names_distinct (H : Hier) (acts : List Act) :
    ∀ c ∈ (run H {} acts).classes, (names c.steps).Nodup :=
  (inv_run acts (inv_init H)).names

open ValidateCache in
/-- **A cached verdict is never stale.**  For every history of class definitions, `add_step` calls (on any class of
the chain, before or after instances exist), instance constructions, `validate()` and `run()`-time `_validate()`
calls: in the state reached, what `_validate()` answers for an instance with validation enabled - from its cache or
not - is what a fresh `_validate_workflow` on the current steps of its class answers (the flag, or the error); and so
does `validate()`. -/
theorem C23_cached_verdict_is_fresh (H : Hier) (acts : List Act) (i : Nat) (x : Inst) (c : ClassSt)
    (hi : (run H {} acts).insts[i]? = some x) (hc : (run H {} acts).classes[x.cls]? = some c) (hd : x.disabled = false) :
    (step H (run H {} acts) (.runValidate i)).2 = respOf (validateFull H c.steps x.skip) ∧
    (step H (run H {} acts) (.validate i)).2 = respOf (validateFull H c.steps x.skip) := by
  have hinv := inv_run acts (inv_init H)
  have hf : Gen.C23c.validateForces = true := by decide
  have hr : Gen.C23c.runForces = false := by decide
  simp only [step, hf, hr]
  exact ⟨validateAt_cached hinv hi hc hd, validateAt_force hi hc⟩

open ValidateCache in
/-- ... hence the main theorem holds along every history: in every reachable state, `run()`-time validation of an
enabled instance passes iff the current step set of its class is well formed under the instance's skip set, and the
flag it hands back is true iff an InputRequiredEvent type is produced or a HumanResponseEvent type is consumed. -/
theorem C23_session_accepts_iff_wellformed (H : Hier) (acts : List Act) (i : Nat) (x : Inst) (c : ClassSt)
    (hi : (run H {} acts).insts[i]? = some x) (hc : (run H {} acts).classes[x.cls]? = some c) (hd : x.disabled = false) :
    ((∃ b, (step H (run H {} acts) (.runValidate i)).2 = .flag b) ↔ WellFormed H c.steps x.skip) ∧
    (∀ b, (step H (run H {} acts) (.runValidate i)).2 = .flag b → (b = true ↔ UsesHitl H c.steps)) := by
  have hnd := C23_session_names_distinct H acts c (List.mem_of_getElem? hc)
  rw [(C23_cached_verdict_is_fresh H acts i x c hi hc hd).1, respOf_validateFull]
  rw [← C23_accepts_iff_wellformed H c.steps x.skip hnd]
  cases hv : validateWorkflow H c.steps x.skip with
  | ok b =>
    refine ⟨⟨fun _ => ⟨b, rfl⟩, fun _ => ⟨b, rfl⟩⟩, fun b' hb' => ?_⟩
    injection hb' with hb'; subst hb'
    exact C23_hitl_flag H c.steps x.skip b hv
  | error e =>
    refine ⟨⟨fun ⟨b, hb⟩ => (by cases hb), fun ⟨b, hb⟩ => (by cases hb)⟩, fun b' hb' => (by cases hb')⟩

open ValidateCache in
/-- What the engine reads afterwards is fresh too: after any `validate()` or `_validate()` call that returned a flag,
the instance's start / stop classes, handler descriptors and routing table are those of a fresh `_validate_workflow`
on the current steps of its class, its stored result is the flag, its validated version is the version its class
sees; classes are untouched. -/
theorem C23_validated_instance_is_fresh (H : Hier) (acts : List Act) (i : Nat) (x : Inst) (c : ClassSt) (forced : Bool)
    (hi : (run H {} acts).insts[i]? = some x) (hc : (run H {} acts).classes[x.cls]? = some c)
    (hd : x.disabled = false ∨ forced = true) (b : Bool)
    (hb : (step H (run H {} acts) (if forced then .validate i else .runValidate i)).2 = .flag b) :
    let S' := (step H (run H {} acts) (if forced then .validate i else .runValidate i)).1
    S'.classes = (run H {} acts).classes ∧
    ∃ x' r, S'.insts[i]? = some x' ∧ validateFull H c.steps x.skip = .ok r ∧ r.hitl = b ∧
      x'.start = r.start ∧ x'.stop = r.stop ∧ x'.handlers = r.handlers ∧ x'.routes = r.routes ∧
      x'.result = some b ∧ x'.vver = some (vis (run H {} acts) x.cls) := by
  have hinv := inv_run acts (inv_init H)
  have hf : Gen.C23c.validateForces = true := by decide
  have hr : Gen.C23c.runForces = false := by decide
  cases forced with
  | true =>
    simp only [if_true, step, hf] at hb ⊢
    obtain ⟨h1, x', r, h2, h3, h4, h5, h6, h7, h8, h9, h10, _⟩ := validateAt_state hinv true hi hc (Or.inr rfl) hb
    exact ⟨h1, x', r, h2, h3, h4, h5, h6, h7, h8, h9, h10⟩
  | false =>
    simp only [Bool.false_eq_true, if_false, step, hr] at hb ⊢
    have hd' : x.disabled = false := by
      rcases hd with h | h
      · exact h
      · cases h
    obtain ⟨h1, x', r, h2, h3, h4, h5, h6, h7, h8, h9, h10, _⟩ := validateAt_state hinv false hi hc (Or.inl hd') hb
    exact ⟨h1, x', r, h2, h3, h4, h5, h6, h7, h8, h9, h10⟩

open ValidateCache in
/-- An instance built with `disable_validation=True`, asked by `run()`: answers `False` without validating and without
touching its state - in particular its routing table stays as it was (empty until an explicit `validate()`). -/
theorem C23_disabled_instance_skips_validation (H : Hier) (S : State) (i : Nat) (x : Inst) (c : ClassSt)
    (hi : S.insts[i]? = some x) (hc : S.classes[x.cls]? = some c) (hd : x.disabled = true) :
    step H S (.runValidate i) = (S, .flag false) := by
  have hr : Gen.C23c.runForces = false := by decide
  simp only [step, hr]
  exact validateAt_disabled hi hc hd

namespace C23
open ValidateCache
/-- a session: class 0 with one step `1 → 2`; an instance; `validate()`; then `add_step` of a step consuming the
never-produced type 9; a subclass (class 1) with an instance created before a later `add_step` on the *parent* -/
def exActs : List Act :=
  [ .newClass [{ name := 1, accepted := [1], returns := [2] }],
    .construct 0 [] false,
    .validate 0,
    .newClass [{ name := 1, accepted := [1], returns := [2] }],
    .construct 1 [] false,
    .runValidate 1,
    .addStep 0 { name := 2, accepted := [9], returns := [2] } ]
end C23

open ValidateCache in
/-- non-vacuity: after the history `exActs` instance 0 holds a cached `False` from before the `add_step`, and
`_validate()` does not serve it: it reports the consumed-but-never-produced type.  Instance 1 (of the subclass, whose
own steps did not change) sees the parent's bumped version, re-validates and is accepted again. -/
example :
    let S := run exH {} exActs
    (S.insts[0]?.map (·.result)) = some (some false) ∧ vis S 0 = 1 ∧ vis S 1 = 1 ∧
    (step exH S (.runValidate 0)).2 = .err (.consumedNotProduced [9]) ∧
    (step exH S (.runValidate 1)).2 = .flag false ∧
    (S.insts[1]?.map (·.vver)) = some (some 0) ∧
    ((step exH S (.runValidate 1)).1.insts[1]?.map (·.vver)) = some (some 1) := by decide +kernel
