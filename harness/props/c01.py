"""C01 — a step never runs more invocations at once than its worker limit."""
from __future__ import annotations

from ..engine import monitors, suite
from ..runner import Env, Outcome

THEOREMS = [
    "C01_slots_distinct_in_range",
    "C01_workers_bounded",
    "C01_init",
    "C01_allocator_total",
    "C01_started_on_free_slot",
    "C01_running_subset_in_progress",
    "C01_running_bounded",
    "C01_running_same_event_partial",
    "C01_refuted_running_bounded_unrepaired",
    "C01_refuted_running_subset_in_progress_unrepaired",
]
LEAN_TARGETS = ["WfProps.C01"]
EXPLANATION = (
    "Invariant proved in Lean by induction over arbitrary tick sequences on the reducer model: in every reachable "
    "state the in-progress worker ids of every step are distinct and in [0,num_workers) (hence at most num_workers), "
    "the slot allocator never fails, and a started worker gets a slot that was free; lifted to the runner LTS for arbitrary action lists: "
    "the live worker tasks are backed by in_progress rows and occupy pairwise distinct slots, hence at most num_workers per step "
    "(every schedule; the reducer before the repair 'at most one collect re-run per step result' is kept as a variant and refuted by a concrete witness). Tie: reducer model vs real "
    "_reduce_tick/rewind_in_progress on generated (state,tick) pairs incl. ill-formed ones, and whole live runs "
    "replayed tick by tick on the runner model (buffer, timers, worker set, commands, state). Search: real step "
    "bodies count concurrent entries per step; stream slot discipline; in_progress tables after every tick."
)
ASSUMPTIONS = suite.ENGINE_ASSUMPTIONS + [
    "the event of a live task equals the event of its in_progress row only when collect re-runs carry the invocation's own event "
    "(C01_running_same_event_partial; a step may pass any event to collect_events)",
    "cannot exhibit: a sync step whose executor thread outlives its cancelled task",
]


def run(env: Env) -> Outcome:
    out = Outcome()
    out.rule = ("direct: random (state,tick) pairs; live: random scripted workflows (2-5 steps, num_workers 1-4, retries, collect, wait, "
                "handlers, externals) under random gate schedules, plus a fan-in family whose collecting step calls collect_events 2-4 times on one buffer per invocation; non-trivial = more than 2 ticks processed; distinct by (spec, schedule)")
    suite.direct_corr(env, out, env.budget(3000, 60000))
    import random as _random

    from ..engine import specgen
    mrng = _random.Random(env.rng.randrange(1 << 30))
    multi = [{"spec": specgen.gen_multicollect_spec(mrng), "seed": mrng.randrange(1 << 30)} for _ in range(env.budget(40, 800))]
    out.count("live:multicollect_specs", len(multi))
    suite.live_runs(env, out, env.budget(400, 8000), [monitors.mon_c01],
                    extra_specs=[c for c in suite.load_corpus("C01")] + multi)
    # fan-in: collecting steps with 1..3 workers, some of them with zero-delay retries that fail before / right after collecting
    suite.live_runs(env, out, env.budget(250, 5000), [monitors.mon_c01], gen_kwargs={"family": "fanin", "raise_incomplete": True})
    return out
