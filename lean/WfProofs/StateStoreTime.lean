import WfProofs.StateStoreSpawn
/-!
# Time (C20): the clock of `TSys` is invisible to a store that sets no timers

`TSys` = `SpSys` + a clock, `tick d` actions and durations for the awaits inside `edit_state`
bodies.  With `patience = none` (no operation ever stops waiting for the lock) every timed run is
a run of the untimed system on the schedule without its ticks: ticks change the clock only, and a
`run` / `cancel` action of the timed system is that action of the untimed one, possibly disabled
for a while.
-/
open StateStore

namespace StateStore

theorem giveUp_none {σ : Type} (B : Backend σ) (prog : List COp) (pat : COp → Option Nat)
    (hpat : ∀ op, pat op = none) (s : TSys σ) (t : Nat) : TSys.giveUp B prog pat s t = none := by
  unfold TSys.giveUp
  split
  · rfl
  · simp [hpat]
  · rfl

/-- one action of the timed system is the same action of the untimed one -/
theorem texec_act {σ : Type} (B : Backend σ) (prog : List COp) (sp : Spawn) (dur : Durs) (pat : COp → Option Nat)
    (hpat : ∀ op, pat op = none) (s s' : TSys σ) (a : Act)
    (h : TSys.exec B prog sp dur pat s (.act a) = some s') : SpSys.exec B prog sp s.sp a = some s'.sp := by
  cases a with
  | run t =>
    simp only [TSys.exec] at h
    split at h
    · cases h
    · split at h
      · rename_i s'' hs
        cases h
        exact hs
      · rw [giveUp_none B prog pat hpat] at h
        cases h
  | cancel t =>
    simp only [TSys.exec] at h
    split at h
    · rename_i s'' hs
      cases h
      exact hs
    · cases h

/-- a tick changes the clock and nothing else; it is always enabled -/
theorem texec_tick {σ : Type} (B : Backend σ) (prog : List COp) (sp : Spawn) (dur : Durs) (pat : COp → Option Nat)
    (s : TSys σ) (d : Nat) :
    TSys.exec B prog sp dur pat s (.tick d) = some { s with now := s.now + d } := rfl

/-- erasure: a timed run is the untimed run of the schedule without its ticks -/
theorem texecAll_untimed {σ : Type} (B : Backend σ) (prog : List COp) (sp : Spawn) (dur : Durs) (pat : COp → Option Nat)
    (hpat : ∀ op, pat op = none) (acts : List TAct) (s s' : TSys σ)
    (h : TSys.execAll B prog sp dur pat s acts = some s') :
    SpSys.execAll B prog sp s.sp (untimed acts) = some s'.sp := by
  induction acts generalizing s with
  | nil =>
    simp only [TSys.execAll] at h
    cases h
    rfl
  | cons a as ih =>
    simp only [TSys.execAll] at h
    split at h
    · rename_i s1 hs1
      cases a with
      | act a =>
        simp only [untimed, SpSys.execAll]
        rw [texec_act B prog sp dur pat hpat s s1 a hs1]
        exact ih s1 h
      | tick d =>
        simp only [untimed]
        rw [texec_tick] at hs1
        cases hs1
        exact ih { s with now := s.now + d } h
    · cases h

/-- ticks can be put anywhere: they never disable an action of a later point in time and the clock is
all they change.  (Monotonicity: an action enabled now stays enabled after a tick.) -/
theorem texec_after_tick {σ : Type} (B : Backend σ) (prog : List COp) (sp : Spawn) (dur : Durs) (pat : COp → Option Nat)
    (hpat : ∀ op, pat op = none) (s s' : TSys σ) (a : Act) (d : Nat)
    (h : TSys.exec B prog sp dur pat s (.act a) = some s') :
    ∃ s'', TSys.exec B prog sp dur pat { s with now := s.now + d } (.act a) = some s'' ∧ s''.sp = s'.sp := by
  cases a with
  | run t =>
    simp only [TSys.exec] at h ⊢
    split at h
    · cases h
    · rename_i hna
      have hna' : TSys.asleep { s with now := s.now + d } t = false := by
        simp only [TSys.asleep] at hna ⊢
        split
        · rename_i heq
          simp only [heq] at hna
          simp only [decide_eq_false_iff_not, Nat.not_lt, Bool.not_eq_true] at hna ⊢
          omega
        · rfl
      simp only [hna']
      split at h
      · rename_i s1 hs1
        cases h
        exact ⟨_, rfl, rfl⟩
      · rw [giveUp_none B prog pat hpat] at h
        cases h
  | cancel t =>
    simp only [TSys.exec] at h ⊢
    split at h
    · rename_i s1 hs1
      cases h
      exact ⟨_, rfl, rfl⟩
    · cases h

end StateStore
