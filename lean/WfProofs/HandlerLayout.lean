import WfModel.Handlers
/-! Helper lemmas for the `@catch_error` layout rules (`Handlers.errors` vs `Handlers.valid`). -/
namespace Handlers

theorem claimErrs_nil_iff (steps hn : List Nat) (cs owners : List (Nat × Nat)) :
    claimErrs steps hn owners cs = [] ↔
      (∀ c ∈ cs, c.1 ∈ steps ∧ c.1 ∉ hn) ∧ (cs.map (·.1)).Nodup ∧
        ∀ c ∈ cs, c.1 ∉ owners.map (·.1) := by
  induction cs generalizing owners with
  | nil => simp [claimErrs]
  | cons c cs ih =>
    obtain ⟨t, h⟩ := c
    by_cases h1 : t ∈ steps
    · by_cases h2 : t ∈ hn
      · have e : claimErrs steps hn owners ((t, h) :: cs) = .coversHandler h t :: claimErrs steps hn owners cs := by
          simp [claimErrs, h1, h2]
        rw [e]
        constructor
        · intro hh; cases hh
        · intro ⟨ha, _, _⟩
          exact absurd h2 (ha (t, h) List.mem_cons_self).2
      · cases hf : owners.find? (fun o => o.1 == t) with
        | some o =>
          have hm := List.mem_of_find?_eq_some hf
          have ho : o.1 = t := by simpa using List.find?_some hf
          have e : claimErrs steps hn owners ((t, h) :: cs) = .claimedTwice t o.2 h :: claimErrs steps hn owners cs := by
            simp [claimErrs, h1, h2, hf]
          rw [e]
          constructor
          · intro hh; cases hh
          · intro ⟨_, _, h3⟩
            exact absurd (List.mem_map.mpr ⟨o, hm, ho⟩) (h3 (t, h) List.mem_cons_self)
        | none =>
          have hnot : t ∉ owners.map (·.1) := by
            intro hm
            obtain ⟨o, ho, hot⟩ := List.mem_map.mp hm
            have := List.find?_eq_none.mp hf o ho
            simp [hot] at this
          have e : claimErrs steps hn owners ((t, h) :: cs) = claimErrs steps hn ((t, h) :: owners) cs := by
            simp [claimErrs, h1, h2, hf]
          rw [e, ih]
          constructor
          · intro ⟨ha, hnd, hb⟩
            refine ⟨?_, ?_, ?_⟩
            · intro c hc
              rcases List.mem_cons.mp hc with rfl | hc
              · exact ⟨h1, h2⟩
              · exact ha c hc
            · rw [List.map_cons, List.nodup_cons]
              refine ⟨?_, hnd⟩
              intro hm
              obtain ⟨c, hc, hct⟩ := List.mem_map.mp hm
              exact hb c hc (by rw [List.map_cons, List.mem_cons]; exact Or.inl hct)
            · intro c hc
              rcases List.mem_cons.mp hc with rfl | hc
              · exact hnot
              · intro hm
                exact hb c hc (by rw [List.map_cons, List.mem_cons]; exact Or.inr hm)
          · intro ⟨ha, hnd, hb⟩
            rw [List.map_cons, List.nodup_cons] at hnd
            refine ⟨fun c hc => ha c (List.mem_cons_of_mem _ hc), hnd.2, ?_⟩
            intro c hc hm
            rw [List.map_cons, List.mem_cons] at hm
            rcases hm with hm | hm
            · exact hnd.1 (by have := List.mem_map_of_mem (f := (·.1)) hc; rw [hm] at this; exact this)
            · exact hb c (List.mem_cons_of_mem _ hc) hm
    · have e : claimErrs steps hn owners ((t, h) :: cs) = .unknown h t :: claimErrs steps hn owners cs := by
        simp [claimErrs, h1]
      rw [e]
      constructor
      · intro hh; cases hh
      · intro ⟨ha, _, _⟩
        exact absurd (ha (t, h) List.mem_cons_self).1 h1

/-- a claim on a handler step is reported, whatever surrounds it -/
theorem coversHandler_mem_claimErrs (steps hn : List Nat) (cs owners : List (Nat × Nat)) (t h : Nat)
    (hm : (t, h) ∈ cs) (h1 : t ∈ steps) (h2 : t ∈ hn) :
    LayoutErr.coversHandler h t ∈ claimErrs steps hn owners cs := by
  induction cs generalizing owners with
  | nil => cases hm
  | cons c cs ih =>
    obtain ⟨t', h'⟩ := c
    rcases List.mem_cons.mp hm with heq | hm
    · injection heq with e1 e2
      subst e1; subst e2
      simp [claimErrs, h1, h2]
    · have := fun o => ih o hm
      unfold claimErrs
      split
      · exact List.mem_cons_of_mem _ (this _)
      · split
        · exact List.mem_cons_of_mem _ (this _)
        · split
          · exact List.mem_cons_of_mem _ (this _)
          · exact this _

/-- accepted = no message and every budget at least one -/
theorem valid_iff_errors (steps : List Nat) (hs : List Decl) :
    valid steps hs = true ↔ errors steps hs = [] ∧ ∀ h ∈ hs, 1 ≤ h.maxRec := by
  unfold valid errors
  rw [List.append_eq_nil_iff, claimErrs_nil_iff]
  simp only [Bool.and_eq_true, decide_eq_true_eq, List.all_eq_true, Bool.not_eq_true', List.contains_eq_mem,
    List.map_nil, List.not_mem_nil, not_false_eq_true, implies_true, and_true]
  constructor
  · intro ⟨⟨⟨hw, hc⟩, hn⟩, hm⟩
    refine ⟨⟨?_, ?_, hn⟩, hm⟩
    · split
      · omega
      · rfl
    · intro c hcm
      have := hc c hcm
      simpa using this
  · intro ⟨⟨hw, hc, hn⟩, hm⟩
    refine ⟨⟨⟨?_, ?_⟩, hn⟩, hm⟩
    · split at hw
      · cases hw
      · omega
    · intro c hcm
      have := hc c hcm
      simpa using this

end Handlers
