import WfProofs.Version
import WfProofs.VersionIdem
import WfProofs.VersionNewline
/-!
`semver_to_pep440` never changes which version a string denotes: inversion of the
scanner (`scanRel_text`: the consumed text is the joined components), of the semver
regex match, and of `Version(...)` (accepted strings are ASCII once the surrounding
white space is stripped).
-/
namespace Version

/-! ## the scanner returns a split of its input -/

theorem dotTail_snoc_append (xs : List (List Char)) (cur x : List Char) :
    dotTail (xs ++ [cur ++ x]) = dotTail (xs ++ [cur]) ++ x := by
  induction xs with
  | nil => simp [dotTail]
  | cons y ys ih => simp [dotTail, ih]

theorem joinDot_snoc_append (acc : List (List Char)) (cur x : List Char) :
    joinDot (acc ++ [cur ++ x]) = joinDot (acc ++ [cur]) ++ x := by
  cases acc with
  | nil => simp [joinDot, dotTail]
  | cons y ys => simp [joinDot, dotTail_snoc_append]

theorem dotTail_snoc (xs : List (List Char)) (y : List Char) : dotTail (xs ++ [y]) = dotTail xs ++ '.' :: y := by
  induction xs with
  | nil => simp [dotTail]
  | cons z zs ih => simp [dotTail, ih]

theorem joinDot_snoc (xs : List (List Char)) (y : List Char) (h : xs ≠ []) :
    joinDot (xs ++ [y]) = joinDot xs ++ '.' :: y := by
  cases xs with
  | nil => exact absurd rfl h
  | cons z zs => simp [joinDot, dotTail_snoc]

theorem scanGo_text (isD : Char → Bool) (s : List Char) (dot : Bool) (acc : List (List Char)) (cur : List Char) :
    joinDot (scanGo isD s dot acc cur).1 ++ (scanGo isD s dot acc cur).2 =
      joinDot (acc ++ [cur]) ++ (if dot then ['.'] else []) ++ s := by
  induction s generalizing dot acc cur with
  | nil => cases dot <;> simp [scanGo]
  | cons c cs ih =>
    cases dot
    · simp only [scanGo]
      split
      · rw [ih false acc (cur ++ [c]), joinDot_snoc_append]; simp
      · split
        · rename_i hc
          rw [ih true acc cur, hc]; simp
        · simp
    · simp only [scanGo]
      split
      · rw [ih false (acc ++ [cur]) [c], joinDot_snoc _ _ (by simp)]; simp
      · simp

theorem scanRel_text {isD : Char → Bool} {s : List Char} {comps : List (List Char)} {rest : List Char}
    (h : scanRel isD s = some (comps, rest)) : s = joinDot comps ++ rest := by
  cases s with
  | nil => simp [scanRel] at h
  | cons c cs =>
    simp only [scanRel] at h
    split at h
    · simp only [Option.some.injEq] at h
      have := scanGo_text isD cs false [] [c]
      rw [h] at this
      simpa [joinDot, dotTail] using this.symm
    · simp at h

/-! ## ASCII -/

def Ascii (s : List Char) : Prop := ∀ c ∈ s, c.toNat < 128

theorem Ascii.append {a b : List Char} (ha : Ascii a) (hb : Ascii b) : Ascii (a ++ b) := by
  intro c hc
  rcases List.mem_append.1 hc with h | h
  · exact ha c h
  · exact hb c h

theorem ascii_of_isDig {c : Char} (h : isDig c = true) : c.toNat < 128 := by
  have := (isDig_iff c).1 h; omega

theorem mem_dotTail {xs : List (List Char)} {c : Char} (h : c ∈ dotTail xs) : c = '.' ∨ ∃ x ∈ xs, c ∈ x := by
  induction xs with
  | nil => simp [dotTail] at h
  | cons y ys ih =>
    simp only [dotTail, List.cons_append, List.mem_cons, List.mem_append] at h
    rcases h with h | h | h
    · exact Or.inl h
    · exact Or.inr ⟨y, by simp, h⟩
    · rcases ih h with h' | ⟨x, hx, hcx⟩
      · exact Or.inl h'
      · exact Or.inr ⟨x, by simp [hx], hcx⟩

theorem mem_joinDot {xs : List (List Char)} {c : Char} (h : c ∈ joinDot xs) : c = '.' ∨ ∃ x ∈ xs, c ∈ x := by
  cases xs with
  | nil => simp [joinDot] at h
  | cons y ys =>
    simp only [joinDot, List.mem_append] at h
    rcases h with h | h
    · exact Or.inr ⟨y, by simp, h⟩
    · rcases mem_dotTail h with h' | ⟨x, hx, hcx⟩
      · exact Or.inl h'
      · exact Or.inr ⟨x, by simp [hx], hcx⟩

theorem mem_joinDot_of_mem {xs : List (List Char)} {x : List Char} {c : Char} (hx : x ∈ xs) (hc : c ∈ x) :
    c ∈ joinDot xs := by
  cases xs with
  | nil => cases hx
  | cons y ys =>
    simp only [joinDot, List.mem_append]
    rcases List.mem_cons.1 hx with rfl | h
    · exact Or.inl hc
    · right
      clear hx
      induction ys with
      | nil => cases h
      | cons z zs ih =>
        simp only [dotTail, List.cons_append, List.mem_cons, List.mem_append]
        rcases List.mem_cons.1 h with rfl | h'
        · exact Or.inr (Or.inl hc)
        · exact Or.inr (Or.inr (ih h'))

theorem lowerNat_ge (n : Nat) : n ≤ lowerNat n := by
  unfold lowerNat; split <;> omega

theorem stripPrefixCI_inv {w s r : List Char} (h : stripPrefixCI w s = some r) (hw : Ascii w) :
    ∃ p, s = p ++ r ∧ Ascii p := by
  induction w generalizing s with
  | nil =>
    simp only [stripPrefixCI, Option.some.injEq] at h
    exact ⟨[], by simp [h], by intro c hc; cases hc⟩
  | cons a ws ih =>
    cases s with
    | nil => simp [stripPrefixCI] at h
    | cons c cs =>
      simp only [stripPrefixCI] at h
      split at h
      · rename_i he
        obtain ⟨p, hp, hap⟩ := ih h (fun d hd => hw d (List.mem_cons_of_mem _ hd))
        refine ⟨c :: p, by simp [hp], ?_⟩
        intro d hd
        rcases List.mem_cons.1 hd with rfl | hd'
        · have h1 : lowerNat d.toNat = a.toNat := by simpa [eqCI] using he
          have h2 := lowerNat_ge d.toNat
          have h3 := hw a (by simp)
          omega
        · exact hap d hd'
      · cases h

theorem preAlts_ascii : ∀ a ∈ Gen.Version.preAlts, Ascii a.1 := by
  have h : ∀ a ∈ Gen.Version.preAlts, ∀ c ∈ a.1, c.toNat < 128 := by decide
  exact h

theorem matchLabel_inv {s r : List Char} {l : Label} (h : matchLabel s = some (l, r)) :
    ∃ p, s = p ++ r ∧ Ascii p := by
  unfold matchLabel at h
  have key : ∀ alts : List (List Char × List Char), (∀ a ∈ alts, Ascii a.1) →
      alts.findSome? (fun alt =>
        match stripPrefixCI alt.1 s, Label.ofChars alt.2 with
        | some rest, some l => some (l, rest)
        | _, _ => none) = some (l, r) → ∃ p, s = p ++ r ∧ Ascii p := by
    intro alts
    induction alts with
    | nil => intro _ h; simp at h
    | cons a as ih =>
      intro ha h
      rw [List.findSome?_cons] at h
      split at h
      · rename_i b hb
        simp only [Option.some.injEq] at h
        subst h
        split at hb
        · rename_i rest l' hs _
          simp only [Option.some.injEq, Prod.mk.injEq] at hb
          rw [hb.2] at hs
          exact stripPrefixCI_inv hs (ha a (by simp))
        · cases hb
      · exact ih (fun x hx => ha x (List.mem_cons_of_mem _ hx)) h
  exact key _ preAlts_ascii h

theorem ascii_of_dropSep {x : List Char} (h : Ascii (dropSep x)) : Ascii x := by
  cases x with
  | nil => intro c hc; cases hc
  | cons c cs =>
    simp only [dropSep] at h
    split at h
    · rename_i hs
      intro d hd
      rcases List.mem_cons.1 hd with rfl | hd'
      · have : (d = '.' ∨ d = '_') ∨ d = '-' := by simpa [isSep] using hs
        rcases this with (rfl | rfl) | rfl <;> decide
      · exact h d hd'
    · exact h

theorem parsePre_ascii {rest : List Char} {pre : Option (Label × Nat)} (h : parsePre rest = some pre) : Ascii rest := by
  cases rest with
  | nil => intro c hc; cases hc
  | cons c cs =>
    simp only [parsePre] at h
    split at h
    · cases h
    · rename_i l r2 hm
      obtain ⟨p, hp, hap⟩ := matchLabel_inv hm
      split at h
      · rename_i hall
        apply ascii_of_dropSep
        rw [hp]
        apply hap.append
        apply ascii_of_dropSep
        intro d hd
        exact ascii_of_isDig (List.all_eq_true.1 hall d hd)
      · cases h

/-- what `Version(...)` accepts is ASCII once white space and the `v` are gone -/
theorem parsePep_ascii {s : List Char} {v : Ver} (h : parsePep s = some v) : Ascii (dropV (stripSpace s)) := by
  unfold parsePep at h
  split at h
  · cases h
  · rename_i comps rest hscan
    split at h
    · cases h
    · rename_i pre hpre
      rw [scanRel_text hscan]
      apply Ascii.append
      · intro c hc
        rcases mem_joinDot hc with rfl | ⟨x, hx, hcx⟩
        · decide
        · exact ascii_of_isDig (((scanRel_runs hscan).2 x hx).2 c hcx)
      · exact parsePre_ascii hpre

/-! ## full inversion of a successful match of the semver regex -/

theorem mem_takeWhile_pred {p : Char → Bool} {l : List Char} {c : Char} (h : c ∈ l.takeWhile p) : p c = true := by
  induction l with
  | nil => simp at h
  | cons a as ih =>
    rw [List.takeWhile_cons] at h
    split at h
    · rename_i ha
      rcases List.mem_cons.1 h with rfl | h'
      · exact ha
      · exact ih h'
    · cases h

theorem semverMatch_inv {s base label num : List Char} (h : semverMatch s = some (base, label, num)) :
    ∃ comps r4, comps ≠ [] ∧ (∀ y ∈ comps, IsRun isDecimal y) ∧ base = joinDot comps ∧
      s = joinDot comps ++ '-' :: (label ++ '.' :: (num ++ r4)) ∧
      num ≠ [] ∧ (∀ c ∈ num, isDecimal c = true) ∧ (r4 = [] ∨ r4 = ['\n']) := by
  unfold semverMatch at h
  split at h
  · rename_i comps r1 hscan
    obtain ⟨hne, hruns⟩ := scanRel_runs hscan
    have htext := scanRel_text hscan
    simp only at h
    split at h
    · rename_i c l' r3 hlab hdrop
      split at h
      · rename_i hcond
        simp only [Option.some.injEq, Prod.mk.injEq] at h
        obtain ⟨hb, hl, hn⟩ := h
        have hr1 : r1 = label ++ '.' :: r3 := by
          rw [← hl, ← hdrop]; exact (List.takeWhile_append_dropWhile (p := isLetter) (l := r1)).symm
        have hr3 : r3 = num ++ r3.dropWhile isDecimal := by
          rw [← hn]; exact (List.takeWhile_append_dropWhile (p := isDecimal) (l := r3)).symm
        refine ⟨comps, r3.dropWhile isDecimal, hne, hruns, hb.symm, ?_, ?_, ?_, hcond.2⟩
        · rw [htext, hr1]; congr 3; exact congrArg _ hr3
        · rw [← hn]; exact hcond.1
        · intro d hd; rw [← hn] at hd; exact mem_takeWhile_pred hd
      · cases h
    · cases h
  · cases h

/-! ## decimals, spaces, letters, ASCII -/

theorem not_space_of_decimal {c : Char} (h : isDecimal c = true) : isSpace c = false := by
  cases hs : isSpace c with
  | false => rfl
  | true =>
    exfalso
    simp only [isSpace, Gen.Version.spaceChars, List.contains_cons, List.contains_nil, Bool.or_false, Bool.or_eq_true,
      beq_iff_eq] at hs
    simp only [isDecimal, Gen.Version.decimalRanges, List.any_cons, List.any_nil, Bool.or_false, Bool.or_eq_true,
      Bool.and_eq_true, decide_eq_true_eq] at h
    omega

theorem not_letter_of_decimal {c : Char} (h : isDecimal c = true) : isLetter c = false := by
  cases hl : isLetter c with
  | false => rfl
  | true => rw [not_decimal_of_letter hl] at h; cases h

theorem isDig_of_decimal_ascii {c : Char} (h : isDecimal c = true) (ha : c.toNat < 128) : isDig c = true := by
  rw [isDig_iff]
  simp only [isDecimal, Gen.Version.decimalRanges, List.any_cons, List.any_nil, Bool.or_false, Bool.or_eq_true,
    Bool.and_eq_true, decide_eq_true_eq] at h
  omega

theorem stripSpace_core {s0 : List Char} {d e : Char} {t i post : List Char} (hs : s0 = d :: t)
    (hd : isSpace d = false) (he : s0 = i ++ [e]) (hes : isSpace e = false)
    (hpost : ∀ c ∈ post, isSpace c = true) : stripSpace (s0 ++ post) = s0 := by
  unfold stripSpace
  have hdw : (s0 ++ post).dropWhile isSpace = s0 ++ post := by
    rw [hs, List.cons_append, List.dropWhile_cons_of_neg (by simp [hd])]
  rw [hdw, List.reverse_append]
  have hpost' : ∀ c ∈ post.reverse, isSpace c = true := fun c hc => hpost c (List.mem_reverse.1 hc)
  rw [List.dropWhile_append_of_pos hpost', he, List.reverse_append]
  simp only [List.reverse_cons, List.reverse_nil, List.nil_append, List.singleton_append]
  rw [List.dropWhile_cons_of_neg (by simp [hes])]
  simp

theorem label_of_mem_labels {label : List Char} (h : Gen.Version.labels.contains label = true) :
    ∃ l : Label, label = l.chars := by
  have : label = ['a'] ∨ label = ['b'] ∨ label = ['r', 'c'] := by
    simpa [Gen.Version.labels] using h
  rcases this with rfl | rfl | rfl
  · exact ⟨.a, rfl⟩
  · exact ⟨.b, rfl⟩
  · exact ⟨.rc, rfl⟩

/-- **`semver_to_pep440` preserves the version a string denotes** -- for every string
`packaging` reads as a release/pre-release version, whatever its spelling. -/
theorem semverToPep_preserves (s t : List Char) (v : Ver) (hp : parsePep s = some v)
    (h : semverToPep s = .ok t) : parsePep t = some v := by
  unfold semverToPep at h
  cases hm : semverMatch s with
  | none =>
    rw [hm] at h
    simp only [Res.ok.injEq] at h
    rw [← h]; exact hp
  | some m =>
    obtain ⟨base, label, num⟩ := m
    rw [hm] at h
    simp only at h
    split at h
    · rename_i hlab
      simp only [Res.ok.injEq] at h
      obtain ⟨comps, r4, hne, hruns, hb, hs, hnum, hdec, hr4⟩ := semverMatch_inv hm
      obtain ⟨l, hl⟩ := label_of_mem_labels hlab
      -- the stripped string
      have hpost : ∀ c ∈ r4, isSpace c = true := by
        rcases hr4 with rfl | rfl
        · intro c hc; cases hc
        · intro c hc; simp at hc; subst hc; exact isSpace_newline
      obtain ⟨x, xs, hcx⟩ : ∃ x xs, comps = x :: xs := by
        cases comps with
        | nil => exact absurd rfl hne
        | cons x xs => exact ⟨x, xs, rfl⟩
      obtain ⟨d, x', hxd⟩ : ∃ d x', x = d :: x' := by
        have := (hruns x (by simp [hcx])).1
        cases x with
        | nil => exact absurd rfl this
        | cons d x' => exact ⟨d, x', rfl⟩
      have hdd : isDecimal d = true := (hruns x (by simp [hcx])).2 d (by simp [hxd])
      obtain ⟨ni, e, hne'⟩ : ∃ ni e, num = ni ++ [e] := by
        rcases List.eq_nil_or_concat num with h0 | ⟨ni, e, h1⟩
        · exact absurd h0 hnum
        · exact ⟨ni, e, by rw [h1, List.concat_eq_append]⟩
      have hed : isDecimal e = true := hdec e (by simp [hne'])
      let s0 := joinDot comps ++ '-' :: (label ++ '.' :: num)
      have hs' : s = s0 ++ r4 := by simp [s0, hs]
      have hhead : s0 = d :: (x' ++ dotTail xs ++ '-' :: (label ++ '.' :: num)) := by
        simp [s0, hcx, hxd, joinDot]
      have hend : s0 = (joinDot comps ++ '-' :: (label ++ '.' :: ni)) ++ [e] := by
        simp [s0, hne']
      have hstrip : stripSpace s = s0 := by
        rw [hs']
        exact stripSpace_core hhead (not_space_of_decimal hdd) hend (not_space_of_decimal hed) hpost
      have hv : dropV s0 = s0 := by
        rw [hhead]
        have : eqCI 'v' d = false := eqCI_of_not_letter (by decide) (not_letter_of_decimal hdd)
        simp [dropV, this]
      have hascii : Ascii s0 := by
        have := parsePep_ascii hp
        rwa [hstrip, hv] at this
      -- so every digit is an ASCII digit
      have hcomps : ∀ y ∈ comps, DigRun y := by
        intro y hy
        refine ⟨(hruns y hy).1, fun c hc => ?_⟩
        apply isDig_of_decimal_ascii ((hruns y hy).2 c hc)
        apply hascii c
        show c ∈ joinDot comps ++ _
        exact List.mem_append_left _ (mem_joinDot_of_mem hy hc)
      have hnumd : DigRun num := by
        refine ⟨hnum, fun c hc => ?_⟩
        apply isDig_of_decimal_ascii (hdec c hc)
        apply hascii c
        show c ∈ joinDot comps ++ '-' :: (label ++ '.' :: num)
        simp [hc]
      let r : Raw := ⟨comps, some (l, num)⟩
      have hwf : r.WF := ⟨hne, hcomps, by intro p hp'; simp [r] at hp'; subst hp'; exact hnumd⟩
      have hsem : r.semver = s0 := by simp [r, s0, Raw.semver, hl]
      have hpep : r.pep = t := by rw [← h]; simp [r, Raw.pep, hl, hb]
      have hval : some r.val = some v := by
        rw [← hp, hs', ← hsem]
        rcases hr4 with rfl | rfl
        · rw [List.append_nil]; exact (parsePep_semver r hwf).symm
        · exact (parsePep_semver_newline r hwf).symm
      rw [← hpep, parsePep_pep r hwf]; exact hval
    · cases h

end Version
