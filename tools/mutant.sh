#!/bin/sh
# tools/mutant.sh <seeded-id> <prop> [<prop>...]: run checks against a scratch worktree with the seeded patch applied
id="$1"; shift
wt=/tmp/mut_wt_$$
git -C /repo worktree add -q "$wt" HEAD || exit 2
( cd "$wt" && git apply /verif/seeded/$id/patch.diff ) || { echo "patch does not apply"; git -C /repo worktree remove --force "$wt"; exit 2; }
for p in "$@"; do
  ( cd /verif && VERIF_REPO="$wt" ./check "$p" 2>&1 | tail -2 )
done
git -C /repo worktree remove --force "$wt"
rm -rf /verif/evidence/replays
