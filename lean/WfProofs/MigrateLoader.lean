import WfModel.Migrate
/-! The loader's result does not depend on the order in which the directory is listed
(`Traversable.iterdir()` promises none): insertion sort by name of a permutation is the same list. -/
namespace Migrate

def nameLe (f g : File) : Prop := f.name ≤ g.name

theorem insertByName_perm (f : File) (l : List File) : (insertByName f l).Perm (f :: l) := by
  induction l with
  | nil => exact List.Perm.refl _
  | cons g gs ih =>
    simp only [insertByName]
    split
    · exact List.Perm.refl _
    · exact ((List.Perm.cons g ih).trans (List.Perm.swap f g gs))

theorem sortByName_perm (l : List File) : (sortByName l).Perm l := by
  induction l with
  | nil => exact List.Perm.refl _
  | cons f fs ih => exact (insertByName_perm f (sortByName fs)).trans (List.Perm.cons f ih)

theorem insertByName_sorted (f : File) (l : List File) (h : l.Pairwise nameLe) :
    (insertByName f l).Pairwise nameLe := by
  induction l with
  | nil => simp [insertByName]
  | cons g gs ih =>
    rw [List.pairwise_cons] at h
    simp only [insertByName]
    split
    · rename_i hlt
      have hfg : nameLe f g := String.lt_asymm hlt
      refine List.pairwise_cons.mpr ⟨?_, List.pairwise_cons.mpr h⟩
      intro x hx
      rcases List.mem_cons.mp hx with rfl | hx
      · exact hfg
      · exact String.le_trans hfg (h.1 x hx)
    · rename_i hnlt
      have hgf : nameLe g f := hnlt
      refine List.pairwise_cons.mpr ⟨?_, ih h.2⟩
      intro x hx
      rcases List.mem_cons.mp ((insertByName_perm f gs).subset hx) with rfl | hx
      · exact hgf
      · exact h.1 x hx

theorem sortByName_sorted (l : List File) : (sortByName l).Pairwise nameLe := by
  induction l with
  | nil => simp [sortByName]
  | cons f fs ih => exact insertByName_sorted f _ ih

theorem sortByName_perm_eq (fs gs : List File) (hp : fs.Perm gs)
    (hu : ∀ f ∈ fs, ∀ g ∈ fs, f.name = g.name → f = g) : sortByName fs = sortByName gs := by
  have hperm : (sortByName fs).Perm (sortByName gs) :=
    (sortByName_perm fs).trans (hp.trans (sortByName_perm gs).symm)
  refine List.Perm.eq_of_pairwise (le := nameLe) ?_ (sortByName_sorted fs) (sortByName_sorted gs) hperm
  intro a b ha hb hab hba
  have ha' : a ∈ fs := (sortByName_perm fs).subset ha
  have hb' : b ∈ fs := hp.symm.subset ((sortByName_perm gs).subset hb)
  exact hu a ha' b hb' (String.le_antisymm hab hba)

theorem loadMigrations_perm (fs gs : List File) (hp : fs.Perm gs)
    (hu : ∀ f ∈ fs, ∀ g ∈ fs, f.name = g.name → f = g) : loadMigrations fs = loadMigrations gs := by
  unfold loadMigrations
  rw [sortByName_perm_eq _ _ (hp.filter _)]
  intro f hf g hg
  exact hu f (List.mem_filter.mp hf).1 g (List.mem_filter.mp hg).1

end Migrate
