import WfModel.GenSqliteConn
/-!
# SqliteConn — connection lifecycle of `SqliteWorkflowStore` / `SqliteStateStore`

The store as a resource-handling state machine.  The *content* of the database
is abstract (`C`): what a statement computes is an oracle `Sem` that is the same
in both connection modes; the model only tracks what the modes can differ in:

* which connection a *section* (a method body that obtains a connection, runs
  statements, maybe commits, and releases the connection) runs on — the shared
  connection of single-connection mode, or a connection opened for the call;
* whether that connection is open (statements on a closed connection raise
  `sqlite3.ProgrammingError`), what it sees (committed content, plus its own
  uncommitted changes), whether it is left inside a transaction;
* what survives the section: committed changes survive; uncommitted changes are
  discarded when a per-call connection is closed, and stay visible on the shared
  connection;
* how many per-call connections were opened and closed.

The lifecycle facts of every section function (`Sec`) come from the generated
table `GenSqliteConn` (re-extracted from the source on every run).  Public
operations are arbitrary glue programs (`Prog`) over sections: the glue sees each
section's result and decides what to do next, so every data-dependent control
flow of the real methods (early returns, exceptions between two sections, loops
over pages) is an instance.
-/
namespace SqliteConn

inductive Mode where
  | perCall
  | single
  deriving DecidableEq, Repr

inductive Acquire where
  | provider   -- through `_connect`: the shared connection if the object has one, else a new one
  | own        -- `sqlite3.connect` directly: always a new connection
  | unknown
  deriving DecidableEq, Repr

/-- what a section does with the connection it runs on -/
structure Life where
  closeOk : Bool        -- closes it when the section ends normally
  closeErr : Bool       -- closes it when the section ends with an exception
  commitOk : Bool       -- on the normal path every data change is committed before the section ends
  commitErr : Bool      -- commits on the exception path
  pendingOnErr : Bool   -- an exception can leave a successful data change uncommitted
  deriving DecidableEq, Repr

structure Sec where
  name : String
  cls : Nat             -- 0 workflow store, 1 state store
  acquire : Acquire
  writes : Bool         -- contains a data-changing statement
  shared : Life         -- lifecycle on the shared connection
  fresh : Life          -- lifecycle on a connection opened for the call
  deriving DecidableEq, Repr

structure Table where
  wsShared : Bool
  ssShared : Bool
  createPassesShared : Bool
  ctorOpensShared : Bool
  /-- every locking section of a state store takes a lock the store object created for itself -/
  lockPerStore : Bool
  unknowns : Nat
  secs : List Sec
  ops : List (Nat × String × List String)
  staticOps : List (Nat × String × List String)
  /-- names of the sections with statements on connection-scoped objects (TEMP schema, ATTACH, PRAGMA) -/
  scratch : List String := []
  deriving Repr

def Life.ofRaw (r : Bool × Bool × Bool × Bool × Bool) : Life :=
  ⟨r.1, r.2.1, r.2.2.1, r.2.2.2.1, r.2.2.2.2⟩

def Acquire.decode : Nat → Acquire
  | 0 => .provider
  | 1 => .own
  | _ => .unknown

def Sec.ofRaw (r : String × Nat × Nat × Bool × (Bool × Bool × Bool × Bool × Bool) × (Bool × Bool × Bool × Bool × Bool)) : Sec :=
  { name := r.1, cls := r.2.1, acquire := Acquire.decode r.2.2.1, writes := r.2.2.2.1,
    shared := Life.ofRaw r.2.2.2.2.1, fresh := Life.ofRaw r.2.2.2.2.2 }

/-- the table of the current source tree -/
def table : Table :=
  { wsShared := GenSqliteConn.wsShared, ssShared := GenSqliteConn.ssShared,
    createPassesShared := GenSqliteConn.createPassesShared, ctorOpensShared := GenSqliteConn.ctorOpensShared,
    lockPerStore := GenSqliteConn.lockPerStore,
    unknowns := GenSqliteConn.unknowns, secs := GenSqliteConn.secs.map Sec.ofRaw,
    ops := GenSqliteConn.ops, staticOps := GenSqliteConn.staticOps, scratch := GenSqliteConn.scratchSecs }

/-! ## state -/

structure St (C : Type) where
  committed : C                 -- what a newly opened connection sees
  sharedOpen : Bool             -- the persistent connection exists and is open
  pending : Option C            -- view of the shared connection when it has uncommitted changes
  inTx : Bool                   -- the shared connection is inside a transaction
  stores : List Bool            -- state store objects: `true` = was handed the shared connection
  opened : Nat                  -- per-call connections opened
  closed : Nat                  -- per-call connections closed

def init {C : Type} (t : Table) (m : Mode) (c0 : C) : St C :=
  { committed := c0, sharedOpen := (m == .single) && t.ctorOpensShared, pending := none, inTx := false,
    stores := [], opened := 0, closed := 0 }

/-- what the statements of a section do on the content its connection sees -/
structure Out (C V : Type) where
  ok : Bool          -- the section ends normally (else with an exception)
  began : Bool       -- a data-changing statement was attempted (sqlite3 opens a transaction before it)
  wrote : Bool       -- a data-changing statement succeeded
  content : C        -- the content the connection sees when the section stops
  val : V            -- what the section returns / raises

/-- the oracle: section index → argument → content seen → outcome.  The same in both modes. -/
abbrev Sem (C V : Type) := Nat → V → C → Out C V

inductive Res (V : Type) where
  | val (ok : Bool) (v : V)   -- the section returned (`ok`) or raised an ordinary exception
  | closedErr                 -- `ProgrammingError: Cannot operate on a closed database.`
  | noStore                   -- no such state store object
  | noSec                     -- no such section
  deriving DecidableEq, Repr

/-- does the section run on the shared connection?  (`none`: the addressed object does not exist) -/
def onShared (t : Table) (m : Mode) (sec : Sec) (obj : Option Nat) (stores : List Bool) : Option Bool :=
  match obj with
  | none => some ((m == .single) && (sec.acquire == .provider) && t.wsShared)
  | some i =>
    match stores[i]? with
    | none => none
    | some given => some ((m == .single) && (sec.acquire == .provider) && t.ssShared && given)

/-- the shared connection after a section whose statements did `o` (it saw `view`) -/
def sharedAfter {C V : Type} (sec : Sec) (o : Out C V) (view : C) (st : St C) : St C :=
  let w := o.wrote && sec.writes
  let changed := w && (o.ok || sec.shared.pendingOnErr)
  let c' := if changed then o.content else view
  let commits := if o.ok then w && sec.shared.commitOk else sec.shared.commitErr
  let closes := if o.ok then sec.shared.closeOk else sec.shared.closeErr
  let st1 : St C :=
    if commits then { st with committed := c', pending := none, inTx := false }
    else { st with pending := if changed then some c' else st.pending,
                   inTx := st.inTx || ((o.began || o.wrote) && sec.writes) }
  if closes then { st1 with sharedOpen := false, pending := none, inTx := false } else st1

/-- the database after a section that ran on a connection opened for the call:
uncommitted changes are gone once that connection is closed (or leaked) -/
def freshAfter {C V : Type} (sec : Sec) (o : Out C V) (st : St C) : St C :=
  let w := o.wrote && sec.writes
  let changed := w && (o.ok || sec.fresh.pendingOnErr)
  let c' := if changed then o.content else st.committed
  let commits := if o.ok then w && sec.fresh.commitOk else sec.fresh.commitErr
  let closes := if o.ok then sec.fresh.closeOk else sec.fresh.closeErr
  { st with committed := if commits then c' else st.committed,
            opened := st.opened + 1, closed := st.closed + (if closes then 1 else 0) }

/-- one section -/
def secStep {C V : Type} (t : Table) (m : Mode) (sem : Sem C V) (obj : Option Nat) (s : Nat) (a : V)
    (st : St C) : St C × Res V :=
  match t.secs[s]? with
  | none => (st, .noSec)
  | some sec =>
    match onShared t m sec obj st.stores with
    | none => (st, .noStore)
    | some true =>
      if st.sharedOpen then
        let view := st.pending.getD st.committed
        let o := sem s a view
        (sharedAfter sec o view st, .val o.ok o.val)
      else (st, .closedErr)
    | some false =>
      let o := sem s a st.committed
      (freshAfter sec o st, .val o.ok o.val)

/-! ## public operations are glue over sections -/

inductive Prog (V : Type) where
  | ret : V → Prog V
  /-- run section `s` on the workflow store (`none`) or on state store object `i` with argument `a` -/
  | call : Option Nat → Nat → V → (Res V → Prog V) → Prog V
  /-- create a state store object: `true` through `create_state_store`, `false` directly
      (`SqliteStateStore(...)`, `from_dict`); continues with its index -/
  | newStore : Bool → (Nat → Prog V) → Prog V

def runProg {C V : Type} (t : Table) (m : Mode) (sem : Sem C V) : Prog V → St C → St C × V
  | .ret v, st => (st, v)
  | .call o s a k, st =>
    let r := secStep t m sem o s a st
    runProg t m sem (k r.2) r.1
  | .newStore viaCreate k, st =>
    let given := viaCreate && t.createPassesShared && (m == .single) && t.ctorOpensShared
    runProg t m sem (k st.stores.length) { st with stores := st.stores ++ [given] }

/-- a history: operations one after the other; results in order -/
def runAll {C V : Type} (t : Table) (m : Mode) (sem : Sem C V) : List (Prog V) → St C → St C × List V
  | [], st => (st, [])
  | p :: ps, st =>
    let r := runProg t m sem p st
    let rs := runAll t m sem ps r.1
    (rs.1, r.2 :: rs.2)

/-- every section the program can run satisfies `P`, every store it creates satisfies `Q` -/
inductive Uses {V : Type} (P : Nat → Prop) (Q : Bool → Prop) : Prog V → Prop where
  | ret (v : V) : Uses P Q (.ret v)
  | call (o : Option Nat) (s : Nat) (a : V) (k : Res V → Prog V) :
      P s → (∀ r, Uses P Q (k r)) → Uses P Q (.call o s a k)
  | newStore (b : Bool) (k : Nat → Prog V) : Q b → (∀ i, Uses P Q (k i)) → Uses P Q (.newStore b k)

/-- The property: for every oracle, every history of operations and every initial
content, the single-connection store returns the same results and leaves the same
committed content as the per-call store. -/
def ModesAgree (t : Table) : Prop :=
  ∀ (C V : Type) (sem : Sem C V) (ps : List (Prog V)) (c0 : C),
    (runAll t .single sem ps (init t .single c0)).2 = (runAll t .perCall sem ps (init t .perCall c0)).2 ∧
    (runAll t .single sem ps (init t .single c0)).1.committed =
      (runAll t .perCall sem ps (init t .perCall c0)).1.committed

/-! ## decidable conditions on the table -/

/-- The section can neither close the shared connection nor leave it with
uncommitted changes. -/
def secOk (sec : Sec) : Bool :=
  !sec.shared.closeOk && !sec.shared.closeErr && (!sec.writes || sec.shared.commitOk) && !sec.shared.pendingOnErr
    && (!sec.writes || sec.fresh.commitOk) && !sec.fresh.pendingOnErr
    && (sec.acquire != .unknown)

/-- every per-call connection the section opens is closed again -/
def secNoLeak (sec : Sec) : Bool := sec.fresh.closeOk && sec.fresh.closeErr

def secOkAt (t : Table) (s : Nat) : Bool :=
  match t.secs[s]? with
  | none => true
  | some sec => secOk sec

def secNoLeakAt (t : Table) (s : Nat) : Bool :=
  match t.secs[s]? with
  | none => true
  | some sec => secNoLeak sec

def secProviderAt (t : Table) (s : Nat) : Bool :=
  match t.secs[s]? with
  | none => true
  | some sec => sec.acquire == .provider

def secNames (t : Table) : List String := t.secs.map (·.name)

/-- every section name an operation lists is a row of the table -/
def opsClosed (t : Table) : Bool :=
  (t.ops ++ t.staticOps).all fun o => o.2.2.all fun n => (secNames t).contains n

/-- the names of the sections reachable from the operations of a store instance -/
def instanceSecs (t : Table) : List String := (t.ops.map (·.2.2)).flatten

def idxOf (t : Table) (n : String) : Option Nat :=
  let i := (secNames t).idxOf n
  if i < t.secs.length then some i else none

/-- the section is reachable from an operation of a store instance -/
def instanceSecAt (t : Table) (s : Nat) : Bool :=
  match t.secs[s]? with
  | none => false
  | some sec => (instanceSecs t).contains sec.name

def tableOk (t : Table) : Bool :=
  t.ctorOpensShared && t.wsShared && t.ssShared && t.createPassesShared && (t.unknowns == 0)
    && t.secs.all secOk && opsClosed t && !t.ops.isEmpty

/-- sections reachable from instance operations always go through the provider -/
def instanceProvider (t : Table) : Bool :=
  t.secs.all fun sec => !(instanceSecs t).contains sec.name || (sec.acquire == .provider)

def tableNoLeak (t : Table) : Bool := t.secs.all secNoLeak

/-! ## the locks of the state stores

`set_state` / `clear` hold the store's lock for one await-free section; `edit_state`
(and `set`, which goes through it) holds it **across the awaits of its body**.  Which
lock a store object takes is the only thing the connection mode could change here, so the
model keeps exactly that: a map from store objects to lock identities, and the
`asyncio.Lock` discipline (not re-entrant; a request waits while the lock is held or
somebody is queued for it; a release hands the lock to the oldest waiter).  What the
tasks do between their lock actions (sections, events, awaits) is abstracted: a
schedule is an arbitrary list of lock actions. -/

/-- The lock store object `i` takes.  With `lockPerStore` it is the object's own lock
(`i + 1`), whatever connection the object was given.  Otherwise the model assumes the
coarsest alternative: the lock travels with the shared connection (lock `0` for every
object that was handed it). -/
def lockOf (t : Table) (stores : List Bool) (i : Nat) : Option Nat :=
  match stores[i]? with
  | none => none
  | some given => some (if t.lockPerStore || !given then i + 1 else 0)

inductive LAct where
  | acq (task obj : Nat)   -- `await lock.acquire()` of store object `obj` by `task`
  | rel (task obj : Nat)   -- `lock.release()`
  deriving DecidableEq, Repr

inductive LRes where
  | got                      -- acquired without waiting
  | wait                     -- queued behind the holder / earlier waiters
  | next (t : Option Nat)    -- released; the lock goes to this waiter (if any)
  | notHeld                  -- release of a lock the task does not hold
  | noStore
  deriving DecidableEq, Repr

structure LSt where
  held : List (Nat × Nat) := []      -- (lock, task)
  waiting : List (Nat × Nat) := []   -- (lock, task), oldest first
  deriving DecidableEq, Repr

def lockStep (t : Table) (stores : List Bool) (a : LAct) (s : LSt) : LSt × LRes :=
  match a with
  | .acq task obj =>
    match lockOf t stores obj with
    | none => (s, .noStore)
    | some l =>
      if s.held.any (fun p => p.1 == l) || s.waiting.any (fun p => p.1 == l) then
        ({ s with waiting := s.waiting ++ [(l, task)] }, .wait)
      else ({ s with held := (l, task) :: s.held }, .got)
  | .rel task obj =>
    match lockOf t stores obj with
    | none => (s, .noStore)
    | some l =>
      if s.held.contains (l, task) then
        let held' := s.held.erase (l, task)
        match s.waiting.find? (fun p => p.1 == l) with
        | none => ({ s with held := held' }, .next none)
        | some w => ({ held := w :: held', waiting := s.waiting.erase w }, .next (some w.2))
      else (s, .notHeld)

def runLocks (t : Table) (stores : List Bool) : List LAct → LSt → LSt × List LRes
  | [], s => (s, [])
  | a :: as, s =>
    let r := lockStep t stores a s
    let rs := runLocks t stores as r.1
    (rs.1, r.2 :: rs.2)

/-- The lock part of the property: whichever store objects were handed the shared
connection (all of them in single-connection mode, none with per-call connections),
every schedule of lock actions is answered the same way — in particular a request
that is granted at once, or eventually, in one mode is so in the other. -/
def LocksAgree (t : Table) : Prop :=
  ∀ (s1 s2 : List Bool), s1.length = s2.length → ∀ (acts : List LAct),
    (runLocks t s1 acts {}).2 = (runLocks t s2 acts {}).2

/-! ## connection-scoped state

TEMP tables / views / triggers, attached databases and PRAGMA settings belong to a
*connection*, not to the database: a connection opened for one call starts without
them and takes them along when it is closed; on the persistent connection whatever a
section leaves there is seen by every later section that looks.  The content of that
state is abstract (`K`), and so is what a section does with it (`KSem`: section index →
argument → state seen → state left, value returned); `k0` is what a newly opened
connection has.  A section whose code has no statement on such objects neither reads nor
changes them (its value is the one it computes on a new connection). -/

abbrev KSem (K V : Type) := Nat → V → K → K × V

def secScratch (t : Table) (sec : Sec) : Bool := t.scratch.contains sec.name

/-- one section, with respect to the connection-scoped state `k` of the persistent connection -/
def scratchStep {K V : Type} (t : Table) (m : Mode) (ksem : KSem K V) (k0 : K) (stores : List Bool)
    (obj : Option Nat) (s : Nat) (a : V) (k : K) : K × Option V :=
  match t.secs[s]? with
  | none => (k, none)
  | some sec =>
    match onShared t m sec obj stores with
    | none => (k, none)
    | some sh =>
      if secScratch t sec then
        if sh then
          let r := ksem s a k      -- sees what earlier sections left; what it leaves stays
          (r.1, some r.2)
        else (k, some (ksem s a k0).2)   -- new connection: starts from `k0`, its state goes with it
      else (k, some (ksem s a k0).2)

/-- a history of sections `(object, section, argument)`; values in order -/
def runScratch {K V : Type} (t : Table) (m : Mode) (ksem : KSem K V) (k0 : K) (stores : List Bool) :
    List (Option Nat × Nat × V) → K → K × List (Option V)
  | [], k => (k, [])
  | c :: cs, k =>
    let r := scratchStep t m ksem k0 stores c.1 c.2.1 c.2.2 k
    let rs := runScratch t m ksem k0 stores cs r.1
    (rs.1, r.2 :: rs.2)

/-- The connection-scoped part of the property: whatever sections do with such state, every
history returns the same values in both modes (whichever state stores exist), and the
persistent connection is left as a new one would be. -/
def ScratchAgree (t : Table) : Prop :=
  ∀ (K V : Type) (ksem : KSem K V) (k0 : K) (s1 s2 : List Bool), s1.length = s2.length →
    ∀ (h : List (Option Nat × Nat × V)),
      (runScratch t .single ksem k0 s1 h k0).2 = (runScratch t .perCall ksem k0 s2 h k0).2 ∧
      (runScratch t .single ksem k0 s1 h k0).1 = k0

/-- no section has statements on connection-scoped objects -/
def tableNoScratch (t : Table) : Bool := t.secs.all fun sec => !secScratch t sec

end SqliteConn
