import WfModel.GenEventSerial
/-!
M8 — event / tick serialisation (`workflows/events.py`, `workflows/context/serializers.py`,
`workflows/runtime/types/{ticks,results}.py`,
`llama_agents/client/protocol/serializable_events.py`).

**JSON.**  `Json` = null, bool, arbitrary-size int, string, array, object with ordered
`String` keys (a Python `dict`: keys distinct, insertion order).  Floats are **opaque
tokens** (`flt tok`; the harness passes `repr(x)` of finite floats): the code under test
never computes with them, it only tests them for truthiness (`0.0`/`-0.0` are falsy).

**Events.**  A class `Shape` has a module, a `__name__`, a kind (plain `BaseModel`, `Event`
subclass, `StopEvent` subclass), typed fields (name, type from a small type language,
optional default) and its `Event` ancestors.  An instance `Inst` is its class, its typed
field values *in their `model_dump(mode="json")` form* (pydantic's per-field dump/validate
is modelled by `conforms`/`validate` below, not verified), the private `_data` dict of
dynamic fields and the private `_result` (`null` = `None`).

The three paths are modelled as the code implements them (in the repaired tree, see
findings): `dumpModel` = `DictLikeModel.custom_model_dump` / `StopEvent.custom_model_dump`;
`modelValidate` = `cls.model_validate(value)` which, because of the custom `__init__`,
is `cls.__init__(**value)` (partition into fields / private attributes / `_data`;
`StopEvent.__init__(result=None, **kw)`); `serializeValue` / `deserializeValue` =
`JsonSerializer.serialize_value` / `deserialize_value`; `EventEnvelope*` = the client
protocol; `Rec`/`Tick` = the pydantic discriminated unions of `ticks.py` / `results.py`,
interpreted from field tables regenerated from the sources (`Gen.EventSerial`).
Where the real code raises, the model answers an `Err`; it never defaults silently.
-/
namespace EventSerial

instance instDecEqExcept {ε α : Type} [DecidableEq ε] [DecidableEq α] : DecidableEq (Except ε α)
  | .ok a, .ok b => if h : a = b then isTrue (h ▸ rfl) else isFalse (fun e => h (Except.ok.inj e))
  | .error a, .error b => if h : a = b then isTrue (h ▸ rfl) else isFalse (fun e => h (Except.error.inj e))
  | .ok _, .error _ => isFalse (fun e => nomatch e)
  | .error _, .ok _ => isFalse (fun e => nomatch e)

/-! ## JSON values -/

inductive Json where
  | null
  | bool (b : Bool)
  | int (n : Int)
  | flt (tok : String)
  | str (s : String)
  | arr (xs : List Json)
  | obj (kvs : List (String × Json))
deriving Repr, Inhabited

namespace Json
mutual
def beq : Json → Json → Bool
  | .null, .null => true
  | .bool a, .bool b => a == b
  | .int a, .int b => a == b
  | .flt a, .flt b => a == b
  | .str a, .str b => a == b
  | .arr a, .arr b => beqList a b
  | .obj a, .obj b => beqKvs a b
  | _, _ => false
def beqList : List Json → List Json → Bool
  | [], [] => true
  | x :: xs, y :: ys => beq x y && beqList xs ys
  | _, _ => false
def beqKvs : List (String × Json) → List (String × Json) → Bool
  | [], [] => true
  | (k, x) :: xs, (k', y) :: ys => k == k' && beq x y && beqKvs xs ys
  | _, _ => false
end

mutual
theorem eq_of_beq : ∀ (a b : Json), beq a b = true → a = b
  | .null, b, h => by cases b <;> simp_all [beq]
  | .bool _, b, h => by cases b <;> simp_all [beq]
  | .int _, b, h => by cases b <;> simp_all [beq]
  | .flt _, b, h => by cases b <;> simp_all [beq]
  | .str _, b, h => by cases b <;> simp_all [beq]
  | .arr xs, b, h => by
    cases b <;> simp [beq] at h
    rw [eq_of_beqList _ _ h]
  | .obj xs, b, h => by
    cases b <;> simp [beq] at h
    rw [eq_of_beqKvs _ _ h]
theorem eq_of_beqList : ∀ (a b : List Json), beqList a b = true → a = b
  | [], b, h => by cases b <;> simp_all [beqList]
  | x :: xs, b, h => by
    cases b with
    | nil => simp [beqList] at h
    | cons y ys =>
      simp [beqList] at h
      rw [eq_of_beq x y h.1, eq_of_beqList xs ys h.2]
theorem eq_of_beqKvs : ∀ (a b : List (String × Json)), beqKvs a b = true → a = b
  | [], b, h => by cases b <;> simp_all [beqKvs]
  | (k, x) :: xs, b, h => by
    cases b with
    | nil => simp [beqKvs] at h
    | cons y ys =>
      obtain ⟨k', y⟩ := y
      simp [beqKvs] at h
      rw [h.1.1, eq_of_beq x y h.1.2, eq_of_beqKvs xs ys h.2]
end

mutual
theorem beq_refl : ∀ (a : Json), beq a a = true
  | .null => by simp [beq]
  | .bool _ => by simp [beq]
  | .int _ => by simp [beq]
  | .flt _ => by simp [beq]
  | .str _ => by simp [beq]
  | .arr xs => by simp [beq, beqList_refl xs]
  | .obj xs => by simp [beq, beqKvs_refl xs]
theorem beqList_refl : ∀ (a : List Json), beqList a a = true
  | [] => by simp [beqList]
  | x :: xs => by simp [beqList, beq_refl x, beqList_refl xs]
theorem beqKvs_refl : ∀ (a : List (String × Json)), beqKvs a a = true
  | [] => by simp [beqKvs]
  | (k, x) :: xs => by simp [beqKvs, beq_refl x, beqKvs_refl xs]
end

instance : DecidableEq Json := fun a b =>
  if h : beq a b = true then isTrue (eq_of_beq a b h)
  else isFalse (fun e => h (e ▸ beq_refl a))

/-- Python truthiness (`bool(x)`) of a JSON value -/
def truthy : Json → Bool
  | .null => false
  | .bool b => b
  | .int n => n != 0
  | .flt t => !(t == "0.0" || t == "-0.0")
  | .str s => s != ""
  | .arr xs => !xs.isEmpty
  | .obj kvs => !kvs.isEmpty

def isNull : Json → Bool
  | .null => true
  | _ => false
end Json

/-! ## Python dicts as association lists (distinct keys, insertion order) -/

/-- `d[k]` / `d.get(k)` -/
def dget {α : Type} : List (String × α) → String → Option α
  | [], _ => none
  | (k', v) :: d, k => if k' = k then some v else dget d k

/-- `k in d` -/
def dhas {α : Type} (d : List (String × α)) (k : String) : Bool := (dget d k).isSome

/-- `d[k] = v`: replace in place, or append -/
def dset {α : Type} : List (String × α) → String → α → List (String × α)
  | [], k, v => [(k, v)]
  | (k', v') :: d, k, v => if k' = k then (k, v) :: d else (k', v') :: dset d k v

/-- `d.update(u)` -/
def dupdate {α : Type} (d u : List (String × α)) : List (String × α) :=
  u.foldl (fun acc kv => dset acc kv.1 kv.2) d

/-- `{k: v for k, v in d.items() if k != key}` -/
def ddel {α : Type} (d : List (String × α)) (k : String) : List (String × α) :=
  d.filter (fun kv => kv.1 != k)

def keys {α : Type} (d : List (String × α)) : List String := d.map (·.1)

abbrev Dict := List (String × Json)

/-- `bool(d.get(k))` -/
def truthyGet (d : Dict) (k : String) : Bool :=
  match dget d k with
  | some v => v.truthy
  | none => false

/-! ## Exceptions (`_serialize_exception` / `_deserialize_exception`) -/

/-- What the code can observe of an exception class: its `module.qualname`, whether
`cls(message)` succeeds, and how `str(cls(message))` is built from the message
(`pre ++ message ++ post`; `Exception`, `ValueError`, … have `pre = post = ""`). -/
structure ExcClass where
  qual : String
  ctorOk : Bool
  pre : String
  post : String
deriving DecidableEq, Repr

/-- An exception as far as serialisation sees it: its class and `str(exc)` -/
structure ExcVal where
  cls : ExcClass
  msg : String
deriving DecidableEq, Repr

/-- what `import_module_from_qualified_name` finds for names of exception classes
(absent = `ImportError` / `AttributeError` / `ValueError`) -/
abbrev XEnv := List (String × ExcClass)

def builtinException : ExcClass := { qual := "builtins.Exception", ctorOk := true, pre := "", post := "" }

def ExcClass.strFaithful (c : ExcClass) : Bool := c.pre == "" && c.post == ""

def encodeExc (e : ExcVal) : Json :=
  .obj [(Gen.EventSerial.excTypeKey, .str e.cls.qual), (Gen.EventSerial.excMessageKey, .str e.msg)]

inductive XErr
  | notSubscriptable  -- `data["exception_message"]` on a non-dict: `TypeError`, outside the `try`
  | keyError          -- no `exception_message`
  | msgNotStr         -- the message is handed to the constructor unvalidated; the model stops here
deriving DecidableEq, Repr

/-- `_deserialize_exception` (repaired: every failure inside the `try` falls back) -/
def decodeExc (xenv : XEnv) : Json → Except XErr ExcVal
  | .obj d =>
    match dget d Gen.EventSerial.excMessageKey with
    | none => .error .keyError
    | some (.str m) =>
      match dget d Gen.EventSerial.excTypeKey with
      | some (.str q) =>
        match dget xenv q with
        | some c => if c.ctorOk then .ok { cls := c, msg := c.pre ++ m ++ c.post }
                    else .ok { cls := builtinException, msg := m }
        | none => .ok { cls := builtinException, msg := m }
      | _ => .ok { cls := builtinException, msg := m }
    | some _ => .error .msgNotStr
  | _ => .error .notSubscriptable

/-! ## Typed fields: a small type language; pydantic's dump/validate per field -/

inductive FTy where
  | any | int | str | bool | flt
  | exc                         -- `SerializableException`
  | opt (t : FTy)               -- `T | None`
  | list (t : FTy)              -- `list[T]`
  | dict (t : FTy)              -- `dict[str, T]`
  | model (fs : List (String × FTy))   -- nested `BaseModel` with required fields
deriving Repr, Inhabited

namespace FTy
mutual
def beq : FTy → FTy → Bool
  | .any, .any => true
  | .int, .int => true
  | .str, .str => true
  | .bool, .bool => true
  | .flt, .flt => true
  | .exc, .exc => true
  | .opt a, .opt b => beq a b
  | .list a, .list b => beq a b
  | .dict a, .dict b => beq a b
  | .model a, .model b => beqFs a b
  | _, _ => false
def beqFs : List (String × FTy) → List (String × FTy) → Bool
  | [], [] => true
  | (k, x) :: xs, (k', y) :: ys => k == k' && beq x y && beqFs xs ys
  | _, _ => false
end

mutual
theorem eq_of_beq : ∀ (a b : FTy), beq a b = true → a = b
  | .any, b, h => by cases b <;> simp_all [beq]
  | .int, b, h => by cases b <;> simp_all [beq]
  | .str, b, h => by cases b <;> simp_all [beq]
  | .bool, b, h => by cases b <;> simp_all [beq]
  | .flt, b, h => by cases b <;> simp_all [beq]
  | .exc, b, h => by cases b <;> simp_all [beq]
  | .opt x, b, h => by
    cases b <;> simp [beq] at h
    rw [eq_of_beq _ _ h]
  | .list x, b, h => by
    cases b <;> simp [beq] at h
    rw [eq_of_beq _ _ h]
  | .dict x, b, h => by
    cases b <;> simp [beq] at h
    rw [eq_of_beq _ _ h]
  | .model xs, b, h => by
    cases b <;> simp [beq] at h
    rw [eq_of_beqFs _ _ h]
theorem eq_of_beqFs : ∀ (a b : List (String × FTy)), beqFs a b = true → a = b
  | [], b, h => by cases b <;> simp_all [beqFs]
  | (k, x) :: xs, b, h => by
    cases b with
    | nil => simp [beqFs] at h
    | cons y ys =>
      obtain ⟨k', y⟩ := y
      simp [beqFs] at h
      rw [h.1.1, eq_of_beq x y h.1.2, eq_of_beqFs xs ys h.2]
end

mutual
theorem beq_refl : ∀ (a : FTy), beq a a = true
  | .any => by simp [beq]
  | .int => by simp [beq]
  | .str => by simp [beq]
  | .bool => by simp [beq]
  | .flt => by simp [beq]
  | .exc => by simp [beq]
  | .opt x => by simp [beq, beq_refl x]
  | .list x => by simp [beq, beq_refl x]
  | .dict x => by simp [beq, beq_refl x]
  | .model xs => by simp [beq, beqFs_refl xs]
theorem beqFs_refl : ∀ (a : List (String × FTy)), beqFs a a = true
  | [] => by simp [beqFs]
  | (k, x) :: xs => by simp [beqFs, beq_refl x, beqFs_refl xs]
end

instance : DecidableEq FTy := fun a b =>
  if h : beq a b = true then isTrue (eq_of_beq a b h)
  else isFalse (fun e => h (e ▸ beq_refl a))
end FTy

/-- the validated form of an exception field, written back: `encode (decode j)` -/
def validateExc (xenv : XEnv) (j : Json) : Option Json :=
  match decodeExc xenv j with
  | .ok e => some (encodeExc e)
  | .error _ => none

mutual
/-- pydantic validation of one field value coming from JSON, answered in dumped form.
`none` = the value does not have exactly the JSON shape of the type: pydantic then either
rejects it or coerces it (lax mode) — not modelled. -/
def validate (xenv : XEnv) : FTy → Json → Option Json
  | .any, v => some v
  | .int, .int n => some (.int n)
  | .str, .str s => some (.str s)
  | .bool, .bool b => some (.bool b)
  | .flt, .flt t => some (.flt t)
  | .exc, v => validateExc xenv v
  | .opt _, .null => some .null
  | .opt t, v => validate xenv t v
  | .list t, .arr xs => (xs.mapM (fun x => validate xenv t x)).map .arr
  | .dict t, .obj kvs => (kvs.mapM (fun kv => (validate xenv t kv.2).map (fun v => (kv.1, v)))).map .obj
  | .model fs, .obj kvs => (validateNested xenv fs kvs).map .obj
  | _, _ => none
/-- nested model: every declared field required, extras ignored, declaration order -/
def validateNested (xenv : XEnv) : List (String × FTy) → Dict → Option Dict
  | [], _ => some []
  | (k, t) :: fs, kvs =>
    match dget kvs k with
    | none => none
    | some v =>
      match validate xenv t v, validateNested xenv fs kvs with
      | some v', some rest => some ((k, v') :: rest)
      | _, _ => none
end

/-- a JSON value is the dumped form of a valid value of the type (fixpoint of `validate`) -/
def conforms (xenv : XEnv) (t : FTy) (v : Json) : Bool := validate xenv t v == some v

/-! ## Event classes and instances -/

inductive Kind
  | plain   -- a `BaseModel` that is not an `Event`
  | event   -- `Event` subclass (not `StopEvent`)
  | stop    -- `StopEvent` subclass
deriving DecidableEq, Repr

structure Field where
  name : String
  ty : FTy
  dflt : Option Json
deriving DecidableEq, Repr

structure Shape where
  module : String
  name : String
  kind : Kind
  fields : List Field
  ancestors : List String
  /-- `__qualname__` (= `name` for a module-level class) -/
  qualname : String
deriving DecidableEq, Repr

/-- a module-level class: `__qualname__ = __name__` -/
def Shape.top (module name : String) (kind : Kind) (fields : List Field) (ancestors : List String) : Shape :=
  { module := module, name := name, kind := kind, fields := fields, ancestors := ancestors, qualname := name }

/-- `_serialize_event_type`: `__module__ + "." + __qualname__` -/
def Shape.typeQual (c : Shape) : String := c.module ++ "." ++ c.qualname

/-- `get_qualified_name` / `_get_qualified_name`: `__module__ + "." + __name__` -/
def Shape.qual (c : Shape) : String := c.module ++ "." ++ c.name

def Shape.fieldNames (c : Shape) : List String := c.fields.map (·.name)

/-- what `import_module_from_qualified_name` finds for names of model classes -/
abbrev CEnv := List (String × Shape)

structure Inst where
  cls : Shape
  typed : Dict
  data : Dict
  result : Json
deriving DecidableEq, Repr

/-- `model_dump(mode="json")`: the wrap serializers of `DictLikeModel` and `StopEvent` -/
def dumpModel (e : Inst) : Dict :=
  match e.cls.kind with
  | .plain => e.typed
  | .event => if e.data.isEmpty then e.typed else dset e.typed "_data" (.obj e.data)
  | .stop =>
    let d := if e.data.isEmpty then e.typed else dset e.typed "_data" (.obj e.data)
    if e.result.isNull then d else dset d "result" e.result

inductive Err
  | notDict        -- pydantic: input should be a dictionary / object
  | missing        -- pydantic: required field missing
  | laxOrInvalid   -- value not of the field's exact JSON shape (rejected or coerced; not modelled)
  | dupKwarg       -- `TypeError`: `__init__() got multiple values for keyword argument`
  | dataNotDict    -- private `_data` set to a non-dict (unvalidated by the code)
  | importError    -- `import_module_from_qualified_name` raised
  | badQualName    -- truthy non-string `qualified_name`
  | keyError       -- wrapper without `value`
  | component      -- `__is_component` wrapper (llama-index components are outside the model)
  | notObject      -- envelope input is not a JSON object
  | validation     -- `EventValidationError`
  | laxValidation  -- `EventValidationError` caused by `laxOrInvalid` (or acceptance after a lax coercion; not modelled)
  | exception (e : XErr)
  | badTag         -- discriminated union: tag missing / unknown
  | notModel       -- an event slot decoded to something that is not a model instance
  | envelopeInvalid -- pydantic rejects the `EventEnvelopeWithMetadata` itself
  | illTyped       -- (encoding only) a value that does not fit its slot; cannot arise from validated objects
deriving DecidableEq, Repr

/-- How an error surfaces inside a pydantic model validation: 2 = the validator raised something
that is not a `ValueError` — it propagates at once; 1 = a validation error — it is collected,
the remaining fields are still validated, and a `ValidationError` is raised at the end unless
something propagated meanwhile; 0 = not an error for the code at all (an event slot silently
holding a non-model). -/
def Err.rank : Err → Nat
  | .notDict => 1
  | .missing => 1
  | .laxOrInvalid => 1
  | .badTag => 1
  | .validation => 1
  | .laxValidation => 1
  | .envelopeInvalid => 1
  | .notModel => 0
  | _ => 2

/-- the error reported when a field failed with `e` and the remaining fields gave `rest` -/
def combineErr {α : Type} (e : Err) (rest : Except Err α) : Err :=
  match rest with
  | .error e' => if e'.rank > e.rank then e' else e
  | .ok _ => e

/-- the error a rejected field value gives: a `SerializableException` validator that cannot even
read its input raises (`TypeError` / `KeyError`: propagates); everything else is collected -/
def fieldError (xenv : XEnv) (t : FTy) (v : Json) : Err :=
  match t with
  | .exc =>
    match decodeExc xenv v with
    | .error e => .exception e
    | .ok _ => .laxOrInvalid
  | _ => .laxOrInvalid

/-- pydantic validation of the declared fields of an event class from the `fields` kwargs -/
def validateFields (xenv : XEnv) : List Field → Dict → Except Err Dict
  | [], _ => .ok []
  | f :: fs, given =>
    let here : Except Err Json :=
      match dget given f.name with
      | some v =>
        match validate xenv f.ty v with
        | some v' => .ok v'
        | none => .error (fieldError xenv f.ty v)
      | none =>
        match f.dflt with
        | some d => .ok d
        | none => .error .missing
    match here, validateFields xenv fs given with
    | .ok v, .ok rest => .ok ((f.name, v) :: rest)
    | .ok _, .error e => .error e
    | .error e, rest => .error (combineErr e rest)

/-- the second half of `DictLikeModel.__init__`: set the private attributes that were
passed by name, then `_data.update(data)` -/
def setPrivate (c : Shape) (typed priv data : Dict) : Except Err Inst :=
  let result := (dget priv "_result").getD .null
  match dget priv "_data" with
  | none => .ok { cls := c, typed := typed, data := dupdate [] data, result := result }
  | some (.obj d0) => .ok { cls := c, typed := typed, data := dupdate d0 data, result := result }
  | some _ => .error .dataNotDict

/-- `DictLikeModel.__init__(**params)` for a class with private attributes `privNames` -/
def dictInit (xenv : XEnv) (c : Shape) (params : Dict) (privNames : List String) : Except Err Inst :=
  let names := c.fieldNames
  let fields := params.filter (fun kv => names.contains kv.1)
  let rest := params.filter (fun kv => !names.contains kv.1)
  let priv := rest.filter (fun kv => privNames.contains kv.1)
  let data := rest.filter (fun kv => !privNames.contains kv.1)
  match validateFields xenv c.fields fields with
  | .error e => .error e
  | .ok typed => setPrivate c typed priv data

/-- `cls.model_validate(value)` -/
def modelValidate (xenv : XEnv) (c : Shape) : Json → Except Err Inst
  | .obj kvs =>
    match c.kind with
    | .plain =>
      (validateFields xenv c.fields kvs).map (fun t => { cls := c, typed := t, data := [], result := .null })
    | .event =>
      if dhas kvs "self" then .error .dupKwarg
      else dictInit xenv c kvs Gen.EventSerial.dictPrivate
    | .stop =>
      if dhas kvs "self" || dhas kvs "_result" then .error .dupKwarg
      else
        let result := (dget kvs "result").getD .null
        dictInit xenv c (("_result", result) :: ddel kvs "result")
          (Gen.EventSerial.dictPrivate ++ Gen.EventSerial.stopPrivate)
  | _ => .error .notDict

/-! ## `StopEvent.result`: the accessor a subclass may override

`StopEvent.result` is `self._get_result()`; the base class returns the raw payload `_result`, and
"This can be overridden by subclasses to return the desired result".  An override is a function
of the instance (raw payload, typed fields, dynamic fields).  The serializers never call it: what
goes on the wire is the raw payload (`dumpModel`), and `__init__(result=…)` stores the wire value
back as the raw payload. -/

/-- `sum(x for x in raw if type(x) is int)` -/
def sumInts : List Json → Int
  | [] => 0
  | .int n :: xs => n + sumInts xs
  | _ :: xs => sumInts xs

/-- bodies of `_get_result` overrides (the shapes the harness generates; `comp outer inner` is an
override in a subclass of a class that already overrides: `outer(super()._get_result())`) -/
inductive Accessor
  | raw                                           -- `return self._result` (the base class)
  | wrapList                                      -- `[self._result]`
  | wrapObj (key tagKey : String) (tag : Json)    -- `{key: self._result, tagKey: tag}`
  | withField (key field : String)                -- `{key: self._result, field: self.<field>}`
  | withDyn (key dyn : String)                    -- `{key: self._result, dyn: self.get(dyn)}`
  | size                                          -- `len(r)` of a list / dict / str, else -1
  | total                                         -- sum of the ints of a list, else 0
  | first                                         -- `r[0]` of a non-empty list, else None
  | orDefault (d : Json)                          -- `r if r is not None else d`
  | comp (outer inner : Accessor)
deriving Repr

/-- the override applied to a value standing for `self._result` -/
def Accessor.on (e : Inst) : Accessor → Json → Json
  | .raw, r => r
  | .wrapList, r => .arr [r]
  | .wrapObj key tagKey tag, r => .obj (dset (dset [] key r) tagKey tag)
  | .withField key field, r => .obj (dset (dset [] key r) field ((dget e.typed field).getD .null))
  | .withDyn key dyn, r => .obj (dset (dset [] key r) dyn ((dget e.data dyn).getD .null))
  | .size, .arr xs => .int xs.length
  | .size, .obj kvs => .int kvs.length
  | .size, .str s => .int s.length
  | .size, _ => .int (-1)
  | .total, .arr xs => .int (sumInts xs)
  | .total, _ => .int 0
  | .first, .arr (x :: _) => x
  | .first, _ => .null
  | .orDefault d, r => if r.isNull then d else r
  | .comp outer inner, r => outer.on e (inner.on e r)

/-- `event.result` of an instance of a class whose `_get_result` is `a` -/
def publicResult (a : Accessor) (e : Inst) : Json := a.on e e.result

/-- NOT the code: the `StopEvent` wrap serializer as it would be if it wrote what `event.result`
reports instead of the raw payload (`C18_dump_accessor_value_refuted`: that does not round-trip) -/
def dumpModelVia (a : Accessor) (e : Inst) : Dict :=
  match e.cls.kind with
  | .stop =>
    let d := if e.data.isEmpty then e.typed else dset e.typed "_data" (.obj e.data)
    if (publicResult a e).isNull then d else dset d "result" (publicResult a e)
  | _ => dumpModel e

/-! ## Path 1: `JsonSerializer.serialize_value` / `deserialize_value` -/

/-- Python values the serializer walks: JSON leaves, lists, dicts, model instances -/
inductive PyVal where
  | null
  | bool (b : Bool)
  | int (n : Int)
  | flt (tok : String)
  | str (s : String)
  | list (xs : List PyVal)
  | dict (kvs : List (String × PyVal))
  | model (e : Inst)
deriving Repr, Inhabited

/-- the `__is_pydantic` wrapper of one model instance -/
def wrapModel (e : Inst) : Json :=
  .obj [(Gen.EventSerial.pydFlagKey, .bool true), (Gen.EventSerial.pydValueKey, .obj (dumpModel e)),
        (Gen.EventSerial.pydNameKey, .str e.cls.qual)]

mutual
def serializeValue : PyVal → Json
  | .null => .null
  | .bool b => .bool b
  | .int n => .int n
  | .flt t => .flt t
  | .str s => .str s
  | .list xs => .arr (serializeList xs)
  | .dict kvs => .obj (serializeKvs kvs)
  | .model e => wrapModel e
def serializeList : List PyVal → List Json
  | [] => []
  | x :: xs => serializeValue x :: serializeList xs
def serializeKvs : List (String × PyVal) → Dict
  | [] => []
  | (k, x) :: xs => (k, serializeValue x) :: serializeKvs xs
end

/-- `import_module_from_qualified_name(data["qualified_name"])` -/
def importName (cenv : CEnv) (kvs : Dict) : Except Err Shape :=
  match dget kvs Gen.EventSerial.pydNameKey with
  | some (.str q) =>
    match dget cenv q with
    | some c => .ok c
    | none => .error .importError
  -- `"." not in qualified_name` on a list / dict (that does not contain ".") is true: `ValueError`
  | some (.arr _) => .error .importError
  | some (.obj _) => .error .importError
  | _ => .error .badQualName

/-- the wrapper branch of `deserialize_value` -/
def unwrapModel (cenv : CEnv) (xenv : XEnv) (kvs : Dict) : Except Err Inst :=
  match importName cenv kvs with
  | .error e => .error e
  | .ok c =>
    match dget kvs Gen.EventSerial.pydValueKey with
    | some v => modelValidate xenv c v
    | none => .error .keyError

/-- the component branch: the class is imported first, then `from_dict` (not modelled) -/
def unwrapComponent (cenv : CEnv) (kvs : Dict) : Err :=
  match importName cenv kvs with
  | .error e => e
  | .ok _ => .component

def looksPydantic (kvs : Dict) : Bool :=
  truthyGet kvs Gen.EventSerial.pydFlagKey && truthyGet kvs Gen.EventSerial.pydNameKey

def looksComponent (kvs : Dict) : Bool :=
  truthyGet kvs "__is_component" && truthyGet kvs Gen.EventSerial.pydNameKey

mutual
def deserializeValue (cenv : CEnv) (xenv : XEnv) : Json → Except Err PyVal
  | .null => .ok .null
  | .bool b => .ok (.bool b)
  | .int n => .ok (.int n)
  | .flt t => .ok (.flt t)
  | .str s => .ok (.str s)
  | .arr xs => (deserializeList cenv xenv xs).map .list
  | .obj kvs =>
    if looksPydantic kvs then (unwrapModel cenv xenv kvs).map .model
    else if looksComponent kvs then .error (unwrapComponent cenv kvs)
    else (deserializeKvs cenv xenv kvs).map .dict
def deserializeList (cenv : CEnv) (xenv : XEnv) : List Json → Except Err (List PyVal)
  | [] => .ok []
  | x :: xs =>
    match deserializeValue cenv xenv x with
    | .error e => .error e
    | .ok v => (deserializeList cenv xenv xs).map (fun r => v :: r)
def deserializeKvs (cenv : CEnv) (xenv : XEnv) : Dict → Except Err (List (String × PyVal))
  | [] => .ok []
  | (k, x) :: xs =>
    match deserializeValue cenv xenv x with
    | .error e => .error e
    | .ok v => (deserializeKvs cenv xenv xs).map (fun r => (k, v) :: r)
end

/-- `_deserialize_event` (the `PlainValidator` of `SerializableEvent`): whatever
`deserialize_value` returns is accepted unchecked; the model requires a model instance -/
def decodeEvent (cenv : CEnv) (xenv : XEnv) (j : Json) : Except Err Inst :=
  match deserializeValue cenv xenv j with
  | .ok (.model e) => .ok e
  | .ok _ => .error .notModel
  | .error e => .error e

/-! ## Path 2: the client envelope (`serializable_events.py`) -/

/-- `_get_event_subtypes`: `None` when there is no `Event` ancestor below `Event` -/
def typesJson (c : Shape) : Json :=
  if c.ancestors.isEmpty then .null else .arr (c.ancestors.map .str)

/-- `EventEnvelopeWithMetadata.from_event(e, include_qualified_name)` dumped to JSON -/
def metaFromEvent (e : Inst) (includeQn : Bool) : Json :=
  .obj [("value", .obj (dumpModel e)),
        ("qualified_name", if includeQn then .str e.cls.qual else .null),
        ("type", .str e.cls.name),
        ("types", typesJson e.cls)]

/-- `EventEnvelope.from_event(e).model_dump()` (what `WorkflowClient.send_event` posts) -/
def envelopeFromEvent (e : Inst) : Json :=
  .obj [("value", .obj (dumpModel e)), ("type", .str e.cls.name), ("qualified_name", .null)]

/-- a registry given as a list of classes: `{e.__name__: e for e in registry}` (later wins) -/
def registryLookup (reg : List Shape) : List (String × Shape) :=
  reg.foldl (fun acc c => dset acc c.name c) []

structure Envelope where
  value : Json
  type : Option String
  qualifiedName : Option String
deriving DecidableEq, Repr

/-- a `str | None` field with default `None`: outer `none` = pydantic rejects the value -/
def optStr : Option Json → Option (Option String)
  | none => some none
  | some .null => some none
  | some (.str s) => some (some s)
  | some _ => none

/-- `EventEnvelope.model_validate(d)`, `_format_compatibility` included -/
def envelopeValidate (d : Dict) : Except Err Envelope :=
  let d := if !dhas d "value" then
             match dget d "data" with
             | some v => dset d "value" v
             | none => d
           else d
  match dget d "value", optStr (dget d "type"), optStr (dget d "qualified_name") with
  | some v, some t, some q => .ok { value := v, type := t, qualifiedName := q }
  | _, _, _ => .error .validation

/-- a pydantic `ValidationError` inside `parse` is caught and re-raised as `EventValidationError`;
everything else propagates as it is -/
def liftValidation : Except Err Inst → Except Err Inst
  | .error .notDict => .error .validation
  | .error .missing => .error .validation
  | .error .laxOrInvalid => .error .laxValidation
  | r => r

/-- `EventEnvelope.parse(client_data, registry, explicit_event)` for already-parsed JSON -/
def parse (cenv : CEnv) (xenv : XEnv) (clientData : Json) (registry : List (String × Shape))
    (explicit : Option Shape) : Except Err Inst :=
  match clientData with
  | .obj d0 =>
    let missingQ := (!dhas d0 "qualified_name" || !dhas d0 "type") && !dhas d0 "value"
    let bare : Option Shape := if missingQ then explicit else none
    let d : Dict := match bare with
      | some c => [("type", .str c.name), ("value", .obj d0)]
      | none => d0
    let registry := match bare with
      | some c => if dhas registry c.name then registry else dset registry c.name c
      | none => registry
    match envelopeValidate d with
    | .error e => .error e
    | .ok env =>
      let viaQual : Except Err Inst :=
        match env.qualifiedName with
        | some q =>
          if q == "" then .error .validation
          else
            match dget cenv q with
            | none => .error .importError
            | some c =>
              if c.kind == .plain then .error .validation
              else liftValidation (modelValidate xenv c env.value)
        | none => .error .validation
      match env.type with
      | some t =>
        if t == "" then viaQual
        else
          match dget registry t with
          | some c => liftValidation (modelValidate xenv c env.value)
          | none => viaQual
      | none => viaQual
  | _ => .error .notObject

def isStrOrNull : Json → Bool
  | .null => true
  | .str _ => true
  | _ => false

def isStrListOrNull : Json → Bool
  | .null => true
  | .arr xs => xs.all (fun x => match x with | .str _ => true | _ => false)
  | _ => false

/-- `EventEnvelopeWithMetadata.model_validate(meta).load_event(registry)` -/
def loadEvent (cenv : CEnv) (xenv : XEnv) (envelope : Json) (registry : List Shape) : Except Err Inst :=
  match envelope with
  | .obj d =>
    match dget d "value", dget d "qualified_name", dget d "type", dget d "types" with
    | some (.obj v), some qn, some (.str t), some tys =>
      if isStrOrNull qn && isStrListOrNull tys then
        parse cenv xenv (.obj [("value", .obj v), ("type", .str t), ("qualified_name", qn)])
          (registryLookup registry) none
      else .error .envelopeInvalid
    | _, _, _, _ => .error .envelopeInvalid
  | _ => .error .envelopeInvalid

/-! ## Path 3: persisted ticks (`ticks.py`, `results.py`) -/

/-- what a field of a tick / step-result class holds -/
inductive FKind
  | scalar (ty : FTy)   -- plain pydantic field
  | event               -- `SerializableEvent`
  | optEvent            -- `SerializableOptionalEvent`
  | exc                 -- `SerializableException`
  | optExc              -- `SerializableOptionalException`
  | evType              -- `SerializableEventType`
  | results             -- `list[Annotated[StepFunctionResult, Discriminator("type")]]`
deriving DecidableEq, Repr

/-- values of the non-list slots -/
inductive SVal
  | json (j : Json)
  | event (e : Inst)
  | none
  | exc (x : ExcVal)
  | evType (c : Shape)
deriving DecidableEq, Repr

structure FSpec where
  name : String
  kind : FKind
  dflt : Option SVal
deriving DecidableEq, Repr

structure RecSpec where
  cls : String
  tag : String
  fields : List FSpec
  /-- `AddWaiter`: the wrap serializer blanks `requirements` and writes `has_requirements`,
  the wrap validator drops `has_requirements` -/
  waiterHooks : Bool
deriving DecidableEq, Repr

/-- an instance of a step-result class: its tag and its field values in declaration order -/
structure Rec where
  tag : String
  vals : List SVal
deriving DecidableEq, Repr

inductive TVal
  | s (v : SVal)
  | results (rs : List Rec)
deriving DecidableEq, Repr

/-- an instance of a tick class -/
structure Tick where
  tag : String
  vals : List TVal
deriving DecidableEq, Repr

def encodeS : FKind → SVal → Except Err Json
  | .scalar _, .json j => .ok j
  | .event, .event e => .ok (wrapModel e)
  | .optEvent, .event e => .ok (wrapModel e)
  | .optEvent, .none => .ok .null
  | .exc, .exc x => .ok (encodeExc x)
  | .optExc, .exc x => .ok (encodeExc x)
  | .optExc, .none => .ok .null
  | .evType, .evType c => .ok (.str c.typeQual)
  | _, _ => .error .illTyped

def decodeS (cenv : CEnv) (xenv : XEnv) : FKind → Json → Except Err SVal
  | .scalar t, j =>
    match validate xenv t j with
    | some v => .ok (.json v)
    | none => .error .laxOrInvalid
  | .event, j => (decodeEvent cenv xenv j).map .event
  | .optEvent, .null => .ok .none
  | .optEvent, j => (decodeEvent cenv xenv j).map .event
  | .exc, j =>
    match decodeExc xenv j with
    | .ok x => .ok (.exc x)
    | .error e => .error (.exception e)
  | .optExc, .null => .ok .none
  | .optExc, j =>
    match decodeExc xenv j with
    | .ok x => .ok (.exc x)
    | .error e => .error (.exception e)
  | .evType, .str q =>
    match dget cenv q with
    | some c => .ok (.evType c)
    | none => .error .importError
  | .evType, _ => .error .badQualName
  | .results, _ => .error .illTyped

/-- pydantic dump of the declared fields, in declaration order (`enc` = per-slot encoder) -/
def encodeFieldsG {α : Type} (enc : FKind → α → Except Err Json) : List FSpec → List α → Except Err Dict
  | [], [] => .ok []
  | f :: fs, v :: vs =>
    match enc f.kind v, encodeFieldsG enc fs vs with
    | .ok j, .ok rest => .ok ((f.name, j) :: rest)
    | .error e, _ => .error e
    | _, .error e => .error e
  | _, _ => .error .illTyped

/-- pydantic validation of the declared fields from a dict: absent key → default or `missing`;
extra keys are ignored -/
def decodeFieldsG {α : Type} (dec : FKind → Json → Except Err α) (inj : SVal → α) :
    List FSpec → Dict → Except Err (List α)
  | [], _ => .ok []
  | f :: fs, d =>
    let here : Except Err α :=
      match dget d f.name with
      | some j => dec f.kind j
      | none =>
        match f.dflt with
        | some v => .ok (inj v)
        | none => .error .missing
    match here, decodeFieldsG dec inj fs d with
    | .ok v, .ok rest => .ok (v :: rest)
    | .ok _, .error e => .error e
    | .error e, rest => .error (combineErr e rest)

def encodeFields : List FSpec → List SVal → Except Err Dict := encodeFieldsG encodeS

def decodeFields (cenv : CEnv) (xenv : XEnv) : List FSpec → Dict → Except Err (List SVal) :=
  decodeFieldsG (decodeS cenv xenv) id

def tagKey : String := Gen.EventSerial.tickDiscriminator

/-- position of a field in a class -/
def fieldIndex : List FSpec → String → Option Nat
  | [], _ => none
  | f :: fs, k => if f.name = k then some 0 else (fieldIndex fs k).map (· + 1)

/-- `AddWaiter._serialize` applied to the dumped dict -/
def waiterSerialize (spec : RecSpec) (vals : List SVal) (d : Dict) : Dict :=
  let req : Json := match fieldIndex spec.fields "requirements" with
    | some i => (match vals[i]? with | some (.json j) => j | _ => .null)
    | none => .null
  dset (dset d "has_requirements" (.bool req.truthy)) "requirements" (.obj [])

def encodeRec (spec : RecSpec) (r : Rec) : Except Err Json :=
  match encodeFields spec.fields r.vals with
  | .error e => .error e
  | .ok d =>
    let d := (tagKey, Json.str spec.tag) :: d
    .ok (.obj (if spec.waiterHooks then waiterSerialize spec r.vals d else d))

def findSpec : List RecSpec → String → Option RecSpec
  | [], _ => none
  | s :: ss, t => if s.tag = t then some s else findSpec ss t

/-- one member of a union discriminated by `type` -/
def decodeRec (cenv : CEnv) (xenv : XEnv) (specs : List RecSpec) : Json → Except Err Rec
  | .obj d =>
    match dget d tagKey with
    | some (.str t) =>
      match findSpec specs t with
      | none => .error .badTag
      | some spec =>
        let d := if spec.waiterHooks then ddel d "has_requirements" else d
        (decodeFields cenv xenv spec.fields d).map (fun vs => { tag := t, vals := vs })
    | _ => .error .badTag
  | _ => .error .notDict

def encodeRecs (rspecs : List RecSpec) : List Rec → Except Err (List Json)
  | [] => .ok []
  | r :: rs =>
    match findSpec rspecs r.tag with
    | none => .error .illTyped
    | some spec =>
      match encodeRec spec r, encodeRecs rspecs rs with
      | .ok j, .ok rest => .ok (j :: rest)
      | .error e, _ => .error e
      | _, .error e => .error e

def decodeRecs (cenv : CEnv) (xenv : XEnv) (rspecs : List RecSpec) : List Json → Except Err (List Rec)
  | [] => .ok []
  | j :: js =>
    match decodeRec cenv xenv rspecs j, decodeRecs cenv xenv rspecs js with
    | .ok r, .ok rest => .ok (r :: rest)
    | .ok _, .error e => .error e
    | .error e, rest => .error (combineErr e rest)

def encodeT (rspecs : List RecSpec) : FKind → TVal → Except Err Json
  | .results, .results rs => (encodeRecs rspecs rs).map .arr
  | .results, _ => .error .illTyped
  | k, .s v => encodeS k v
  | _, .results _ => .error .illTyped

def decodeT (cenv : CEnv) (xenv : XEnv) (rspecs : List RecSpec) : FKind → Json → Except Err TVal
  | .results, .arr js => (decodeRecs cenv xenv rspecs js).map .results
  | .results, _ => .error .laxOrInvalid
  | k, j => (decodeS cenv xenv k j).map .s

def encodeTFields (rspecs : List RecSpec) : List FSpec → List TVal → Except Err Dict :=
  encodeFieldsG (encodeT rspecs)

def decodeTFields (cenv : CEnv) (xenv : XEnv) (rspecs : List RecSpec) : List FSpec → Dict → Except Err (List TVal) :=
  decodeFieldsG (decodeT cenv xenv rspecs) TVal.s

/-- `WorkflowTickAdapter.dump_python(tick, mode="json")` -/
def encodeTick (rspecs : List RecSpec) (spec : RecSpec) (t : Tick) : Except Err Json :=
  (encodeTFields rspecs spec.fields t.vals).map (fun d => .obj ((tagKey, Json.str spec.tag) :: d))

/-- `WorkflowTickAdapter.validate_python(data)` -/
def decodeTick (cenv : CEnv) (xenv : XEnv) (tspecs rspecs : List RecSpec) : Json → Except Err Tick
  | .obj d =>
    match dget d tagKey with
    | some (.str t) =>
      match findSpec tspecs t with
      | none => .error .badTag
      | some spec => (decodeTFields cenv xenv rspecs spec.fields d).map (fun vs => { tag := t, vals := vs })
    | _ => .error .badTag
  | _ => .error .notDict

/-! ### the field tables of the current sources -/

/-- annotation text → slot kind (`none` = an annotation this model does not know) -/
def kindOfAnn (ann : String) : Option FKind :=
  if ann = "str" then some (.scalar .str)
  else if ann = "int" then some (.scalar .int)
  else if ann = "float" then some (.scalar .flt)
  else if ann = "bool" then some (.scalar .bool)
  else if ann = "str | None" then some (.scalar (.opt .str))
  else if ann = "int | None" then some (.scalar (.opt .int))
  else if ann = "float | None" then some (.scalar (.opt .flt))
  else if ann = "dict[str, int]" then some (.scalar (.dict .int))
  else if ann = "dict[str, Any]" then some (.scalar (.dict .any))
  else if ann = "SerializableEvent" then some .event
  else if ann = "SerializableOptionalEvent" then some .optEvent
  else if ann = "SerializableException" then some .exc
  else if ann = "SerializableOptionalException" then some .optExc
  else if ann = "SerializableEventType" then some .evType
  else if ann = "list[Annotated[StepFunctionResult, Discriminator('type')]]" then some .results
  else none

/-- default text → default value (outer `none` = unknown text; inner `none` = required) -/
def dfltOfSrc (kind : FKind) (src : String) : Option (Option SVal) :=
  if src = "" then some none
  else if src = "None" then
    match kind with
    | .scalar _ => some (some (.json .null))
    | _ => some (some .none)
  else if src = "Field(default_factory=dict)" || src = "{}" then some (some (.json (.obj [])))
  else if src = "False" then some (some (.json (.bool false)))
  else none

def fspecOf (f : String × String × String) : Option FSpec :=
  match kindOfAnn f.2.1 with
  | none => none
  | some k =>
    match dfltOfSrc k f.2.2 with
    | none => none
    | some d => some { name := f.1, kind := k, dflt := d }

def recSpecOf (c : String × String × List (String × String × String) × List (String × String × String)) :
    Option RecSpec :=
  match c.2.2.1.mapM fspecOf with
  | none => none
  | some fs => some { cls := c.1, tag := c.2.1, fields := fs, waiterHooks := !c.2.2.2.isEmpty }

/-- the members of `WorkflowTick`, from the regenerated tables -/
def tickSpecs : List RecSpec := Gen.EventSerial.tickClasses.filterMap recSpecOf
/-- the members of `StepFunctionResult` -/
def resultSpecs : List RecSpec := Gen.EventSerial.resultClasses.filterMap recSpecOf

/-! ### `event.result` of what the paths hand back -/

/-- `.result` of the object `deserialize_value` returned (`none`: not a model instance) -/
def pyPublic (a : Accessor) : PyVal → Option Json
  | .model e => some (publicResult a e)
  | _ => none

/-- `.result` of the event in a top-level tick slot (`none`: the slot holds no event) -/
def slotPublic (a : Accessor) : TVal → Option Json
  | .s (.event e) => some (publicResult a e)
  | _ => none

end EventSerial
