import WfModel.StateStore
import WfModel.GenStateStoreShape
/-!
# M5, continued — definitions for the statements of C19 over whole histories

* `Spec.stepLive`: the nested dict *edited in place* (the reading under which the in-memory store
  refines the dict for every history, raising bodies included);
* `outsAt`, `isMutSnap`, `isGet`, `isWriteBack`: erasing operations from an op list;
* `keys`, `opWf`: the field set of a typed state, well-formed `set_state` arguments;
* `noSnapTaking`, `snapAfter`: what a write-back installs;
* `walkersShape`, `mergeShape`, `sqliteShape`: the dispatch of the path helpers, of `merge_state` /
  `clear` and of the SQLite methods that the machines of `WfModel/StateStore.lean` were written
  along, as re-read from the source (`GenStateStoreShape`, regenerated on every run).
-/
namespace StateStore

/-! ## the source shapes the machines follow -/

open GenStateStoreShape in
/-- `traverse_path_step` / `assign_path_step` try, in this order: dict key, `DictLikeModel` by name,
`int(segment)` index (swallowing at least ValueError / TypeError / IndexError), attribute — `child`,
`assign`, `rootChild`, `rootAssign`.  `get_by_path`: empty path = the root, split on ".", depth test
`>`, any exception ↦ default / ValueError — `getByPath`.  `set_by_path`: empty path raises ValueError,
same split and depth test, walks `segments[:-1]`, on (at least) KeyError / AttributeError / IndexError /
TypeError creates a fresh `{}`, assigns it and continues inside it, finally assigns `segments[-1]` —
`setByPath`, `rootSet`, `setLoop`.  `DictLikeModel`: undeclared names live in `_data`, and a shallow copy
gets a `_data` of its own whatever it contains — `snapMut`. -/
def walkersShape : Bool :=
  traverseDispatch == ["is:dict:key", "is:DictLikeModel:name", "index", "attr"] &&
  assignDispatch == ["is:dict:key", "is:DictLikeModel:name", "index", "attr"] &&
  ["IndexError", "TypeError", "ValueError"].all (traverseIndexCatches.contains ·) &&
  ["IndexError", "TypeError", "ValueError"].all (assignIndexCatches.contains ·) &&
  getSplitSep == "." && getEmptyPathIsRoot && getDepthOp == "Gt" && getUsesTraverse &&
  (getCatches.contains "Exception" || getCatches.contains "BaseException" || getCatches.contains "<bare>") &&
  getMissingRaises == "ValueError" &&
  setSplitSep == "." && setEmptyPathRaises == "ValueError" && setDepthOp == "Gt" &&
  ["AttributeError", "IndexError", "KeyError", "TypeError"].all (setCatches.contains ·) &&
  setCreatesFreshDict && setLoopOverInits && setFinalAssignsLast &&
  dictLikeSetattrToData && dictLikeGetattrFromData && dictLikeCopyUnconditional

open GenStateStoreShape in
/-- `merge_state`: same type / subclass ↦ the incoming instance; parent type ↦
`{**current.model_dump(), **incoming.model_dump()}` with argument-free dumps (every parent field
overrides, set or not); otherwise ValueError — `mergeState`, `overlay`.  `create_cleared_state`
builds a fresh instance; memory clears to the class of the state it holds, SQLite to its declared
type — the `.clear` arms of `Mem.step` / `Sql.step`. -/
def mergeShape : Bool :=
  mergeBranches == ["replace", "merge", "reject:ValueError"] && mergeOrder == ["current", "incoming"] &&
  mergeDumpArgs == 0 && clearedIsFreshInstance &&
  memClearArg == "self._state.__class__" && sqlClearArg == "self.state_type"

open GenStateStoreShape in
/-- `SqliteStateStore`: `get` and `get_state` go through `_load_state` (which inserts the default
row when there is none — `Sql.load`), `set` is an `edit_state` block around `set_by_path`
(`Sql.edit`), `_save_state` is one upsert of `state_json` (`Sql.save`), a `DictState` row is its
`_data`, a typed row is the model dumped with `mode="json"` and nothing else (no field is dropped). -/
def sqliteShape : Bool :=
  sqlSetViaEdit && sqlGetLoads && sqlGetStateLoadsAndCopies && sqlLoadInsertsDefault && sqlSaveIsUpsert &&
  sqlDictRowIsData && serializerModelDumpKeywords == ["mode='json'"]

/-- the nested-dict model whose `edit_state` block hands out the dict itself: what a body did
before it raised stays (the transactional reading `Spec.step` drops it).  Every other operation,
and every body that does not raise, is `Spec.step`. -/
def Spec.stepLive (s : Spec) (op : Op) : Spec × Out :=
  match op with
  | .edit muts =>
    match runMuts s.root muts with
    | (r, none) => ({ s with root := r }, .none)
    | (r, some e) => ({ s with root := r }, .err e)
  | _ => Spec.step s op

/-! ## erasing operations

`outsAt keep ops outs`: the results at the positions of the operations satisfying `keep`. -/

def outsAt (keep : Op → Bool) : List Op → List Out → List Out
  | op :: ops, o :: os => if keep op then o :: outsAt keep ops os else outsAt keep ops os
  | _, _ => []

def isMutSnap : Op → Bool
  | .mutSnap .. => true
  | _ => false

def isWriteBack : Op → Bool
  | .writeBack => true
  | _ => false

def isGet : Op → Bool
  | .get .. => true
  | _ => false

/-! ## typed states -/

def keys (d : Obj) : List String := d.map (·.1)

/-- a `set_state` argument carries exactly the fields of its class (pydantic fills in defaults
and rejects unknown names when the instance is built) -/
def opWf (sc : Schema) (ty : Ty) : Op → Bool
  | .setState ity data =>
    match incTy ty ity with
    | .typed n => keys data == keys (fieldsOf sc n)
    | _ => true
  | _ => true

/-! ## write-back -/

/-- operations between taking a snapshot and writing it back -/
def noSnapTaking : Op → Bool
  | .getState => false
  | .writeBack => false
  | _ => true

/-- the snapshot `h` after the caller's own top-level mutations among `ops` (a mutation that raises
changes nothing); no other operation touches it -/
def snapAssign (h : Root) (k : String) (v : Json) : Root :=
  match rootAssign h k v with
  | .ok h' => h'
  | .error _ => h

def snapAfter (h : Root) : List Op → Root
  | [] => h
  | .mutSnap k v :: ops => snapAfter (snapAssign h k v) ops
  | _ :: ops => snapAfter h ops


/-! ## persistence round trips

`to_dict` → `from_dict` / `create_state_store(serialized_state = …)`: the store object is replaced by one restored
from a serialized payload; the caller keeps whatever snapshot it holds.

* `reopen`  — the backend restores itself from its own payload: `InMemoryStateStore.from_dict(store.to_dict())`
  (`create_in_memory_payload`, `serialize_dict_state_data`, `parse_in_memory_state`, `deserialize_state_from_dict`);
  SQLite: `SqliteStateStore.from_dict` of the `{"store_type": "sqlite", "run_id"}` reference — a new store object
  on the same row;
* `copyRun` — SQLite: a store of a *new* run seeded from the sqlite reference of the old one
  (`_seed_from_serialized` → `_copy_state_from_run`: `INSERT OR REPLACE … SELECT … WHERE run_id = <old>`; no row
  there, no row here).  Memory: as `reopen`;
* `migrate` — SQLite: a store of a new run seeded from an *in-memory* payload of the current state
  (`_write_in_memory_state`: `deserialize_state_from_dict`, `_save_state` — the row exists at once).  Memory: as `reopen`.
-/

inductive Persist where
  | reopen
  | copyRun
  | migrate
  deriving DecidableEq, Repr, Inhabited

/-- the payload carries the model type and the top-level mapping; restoring builds the model from them -/
def Mem.persist (m : Mem) (_ : Persist) : Mem := { m with root := ⟨m.root.ty, m.root.data⟩ }

def Sql.persist (q : Sql) : Persist → Sql
  | .reopen => q
  | .copyRun => { q with row := match q.row with | some d => some d | none => none }
  | .migrate => { q with row := some q.abs.data }

/-- operation lists with persistence round trips in them -/
inductive OpP where
  | op (o : Op)
  | persist (p : Persist)
  deriving Repr, Inhabited

def OpP.op? : OpP → Option Op
  | .op o => some o
  | .persist _ => none

def Mem.stepP (m : Mem) : OpP → Mem × Out
  | .op o => Mem.step m o
  | .persist p => (m.persist p, .none)

def Sql.stepP (q : Sql) : OpP → Sql × Out
  | .op o => Sql.step q o
  | .persist p => (q.persist p, .none)

def runOutsP {σ : Type} (step : σ → OpP → σ × Out) : σ → List OpP → List Out
  | _, [] => []
  | s, op :: ops => (step s op).2 :: runOutsP step (step s op).1 ops

def runStateP {σ : Type} (step : σ → OpP → σ × Out) : σ → List OpP → σ
  | s, [] => s
  | s, op :: ops => runStateP step (step s op).1 ops

/-- the results at the positions of the store operations -/
def outsAtOps : List OpP → List Out → List Out
  | .op _ :: ops, o :: os => o :: outsAtOps ops os
  | .persist _ :: ops, _ :: os => outsAtOps ops os
  | _, _ => []

end StateStore
