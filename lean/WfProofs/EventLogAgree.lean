import WfProofs.EventLogRun
/-!
The memory machine (list-index cursor) and the SQLite machine (sequence cursor)
move in lockstep on every in-process schedule: same log, and subscriber by subscriber
the same phase (including the snapshot batch and the notified flag) and the same
output.  Also: `query_events` agrees for non-negative limits, and the list-level
facts behind resume and `"now"`.
-/
namespace EventLog

theorem view_eq {m q : Sub} (h : m.view = q.view) : m.after = q.after ∧ m.phase = q.phase ∧ m.out = q.out := by
  simp only [Sub.view, Prod.mk.injEq] at h
  exact h

theorem view_init (log : List Ev) {m q : Sub} (hv : m.view = q.view) :
    (m.init .mem log).view = (q.init .sql log).view := by
  obtain ⟨ha, hp, ho⟩ := view_eq hv
  unfold Sub.init
  rw [hp]
  split <;> simp [Sub.view, ha, ho, hp]

theorem view_read {log : List Ev} {m q : Sub} (hc : Consec 0 log) (hm : SubInv .mem log m)
    (hq : SubInv .sql log q) (hv : m.view = q.view) :
    (m.read .mem log).view = (q.read .sql log).view := by
  obtain ⟨ha, hp, ho⟩ := view_eq hv
  have hbm := readBatch_eq (b := .mem) hc m.after m.cur
  have hbq := readBatch_eq (b := .sql) hc q.after q.cur
  rw [hm.pos] at hbm
  rw [hq.pos] at hbq
  unfold Sub.read
  rw [hp]
  split
  · simp only
    rw [hbm, hbq, ha, ho]
    split <;> simp [Sub.view, ha, ho]
  · simp [Sub.view, ha, ho, hp]

theorem view_emit {m q : Sub} (hv : m.view = q.view) : (m.emit .mem).view = (q.emit .sql).view := by
  obtain ⟨ha, hp, ho⟩ := view_eq hv
  unfold Sub.emit
  rw [hp]
  split
  · simp only
    split
    · simp [Sub.view, ha, ho]
    · split <;> simp [Sub.view, ha, ho]
  · simp [Sub.view, ha, ho]
  · simp [Sub.view, ha, ho, hp]

theorem view_wake {m q : Sub} (hv : m.view = q.view) : m.wake.view = q.wake.view := by
  obtain ⟨ha, hp, ho⟩ := view_eq hv
  unfold Sub.wake
  rw [hp]
  split <;> simp [Sub.view, ha, ho, hp]

theorem view_notify {m q : Sub} (hv : m.view = q.view) : m.notify.view = q.notify.view := by
  obtain ⟨ha, hp, ho⟩ := view_eq hv
  unfold Sub.notify
  rw [hp]
  split <;> simp [Sub.view, ha, ho, hp]

theorem view_cancel {m q : Sub} (hv : m.view = q.view) : m.cancel.view = q.cancel.view := by
  obtain ⟨ha, _, ho⟩ := view_eq hv
  simp [Sub.cancel, Sub.view, ha, ho]

theorem map_map_congr {β} {l1 l2 : List Sub} {v : Sub → β} (h : l1.map v = l2.map v) (f g : Sub → Sub)
    (hfg : ∀ a b, v a = v b → v (f a) = v (g b)) : (l1.map f).map v = (l2.map g).map v := by
  induction l1 generalizing l2 with
  | nil => cases l2 <;> simp_all
  | cons a t ih =>
    cases l2 with
    | nil => simp at h
    | cons b u =>
      simp only [List.map_cons, List.cons.injEq] at h ⊢
      exact ⟨hfg a b h.1, ih h.2⟩

theorem map_modify_congr {β} {l1 l2 : List Sub} {v : Sub → β} (h : l1.map v = l2.map v) (i : Nat)
    (f g : Sub → Sub) (hfg : ∀ a ∈ l1, ∀ b ∈ l2, v a = v b → v (f a) = v (g b)) :
    (l1.modify i f).map v = (l2.modify i g).map v := by
  induction l1 generalizing l2 i with
  | nil => cases l2 <;> simp_all
  | cons a t ih =>
    cases l2 with
    | nil => simp at h
    | cons b u =>
      simp only [List.map_cons, List.cons.injEq] at h
      cases i with
      | zero =>
        simp only [List.modify_zero_cons, List.map_cons, List.cons.injEq]
        exact ⟨hfg a (by simp) b (by simp) h.1, h.2⟩
      | succ i =>
        simp only [List.modify_succ_cons, List.map_cons, List.cons.injEq]
        exact ⟨h.1, ih h.2 i fun x hx y hy => hfg x (by simp [hx]) y (by simp [hy])⟩

structure Rel (sm sq : St) : Prop where
  log : sm.log = sq.log
  subs : sm.subs.map Sub.view = sq.subs.map Sub.view

theorem step_rel {sm sq : St} (hm : StInv .mem sm) (hq : StInv .sql sq) (hr : Rel sm sq) (a : Act)
    (ha : a.core = true) : Rel (step .mem sm a) (step .sql sq a) := by
  have hlog := hr.log
  cases a with
  | append tag ty tys =>
    constructor
    · simp only [step, mkEv]
      rw [nextSeq_consec .mem hm.consec, nextSeq_consec .sql hq.consec, hlog]
    · exact map_map_congr hr.subs _ _ fun a b h => view_notify h
  | xappend _ _ _ => simp [Act.core] at ha
  | trim _ => simp [Act.core] at ha
  | timeout _ => simp [Act.core] at ha
  | openSub after => exact ⟨hlog, by simp [step, hr.subs]⟩
  | init i =>
    refine ⟨hlog, ?_⟩
    simp only [step]
    rw [← hlog]
    exact map_modify_congr hr.subs i _ _ fun a _ b _ h => view_init _ h
  | read i =>
    refine ⟨hlog, ?_⟩
    simp only [step]
    rw [← hlog]
    exact map_modify_congr hr.subs i _ _ fun a ha b hb h =>
      view_read hm.consec (hm.subs a ha) (by rw [hlog]; exact hq.subs b hb) h
  | emit i => exact ⟨hlog, map_modify_congr hr.subs i _ _ fun a _ b _ h => view_emit h⟩
  | wake i => exact ⟨hlog, map_modify_congr hr.subs i _ _ fun a _ b _ h => view_wake h⟩
  | cancel i => exact ⟨hlog, map_modify_congr hr.subs i _ _ fun a _ b _ h => view_cancel h⟩

theorem core_ok {a : Act} (h : a.core = true) : a.ok = true := by
  cases a <;> simp_all [Act.core, Act.ok]

theorem runFrom_rel {sm sq : St} (hm : StInv .mem sm) (hq : StInv .sql sq) (hr : Rel sm sq)
    (acts : List Act) (hcore : ∀ a ∈ acts, a.core = true) :
    Rel (runFrom .mem sm acts) (runFrom .sql sq acts) := by
  induction acts generalizing sm sq with
  | nil => exact hr
  | cons a rest ih =>
    have ha := hcore a (by simp)
    simp only [runFrom, List.foldl_cons]
    exact ih (stinv_step hm a (core_ok ha)) (stinv_step hq a (core_ok ha)) (step_rel hm hq hr a ha)
      fun x hx => hcore x (by simp [hx])

/-! ## query_events on a consecutive log -/

theorem query_agree {log : List Ev} (hc : Consec 0 log) (after : Option Int) (limit : Option Int)
    (hl : ∀ n, limit = some n → 0 ≤ n) :
    queryEvents .mem log after limit = queryEvents .sql log after limit := by
  have hord : orderBySeq (afterFilter after log) = afterFilter after log := by
    cases after with
    | none => exact orderBySeq_consec hc
    | some k =>
      simp only [afterFilter]
      rw [filter_gt_consec hc]
      exact orderBySeq_consec (consec_drop _ hc)
  simp only [queryEvents, hord]
  cases limit with
  | none => rfl
  | some n =>
    have := hl n rfl
    simp [pySliceTo, sqlLimit, this]

theorem query_all {b : Backend} {log : List Ev} (hc : Consec 0 log) : queryEvents b log none none = log := by
  cases b with
  | mem => rfl
  | sql => simp [queryEvents, afterFilter, orderBySeq_consec hc]

theorem query_after {b : Backend} {log : List Ev} (hc : Consec 0 log) (k : Int) :
    queryEvents b log (some k) none = log.filter fun e => decide (e.seq > k) := by
  cases b with
  | mem => rfl
  | sql =>
    simp only [queryEvents, afterFilter]
    rw [filter_gt_consec hc]
    exact orderBySeq_consec (consec_drop _ hc)

/-! ## resume and "now", on lists -/

theorem filter_gt_gt (l : List Ev) {k0 k : Int} (h : k0 ≤ k) :
    (l.filter fun e => decide (e.seq > k0)).filter (fun e => decide (e.seq > k)) =
      l.filter fun e => decide (e.seq > k) := by
  rw [List.filter_filter]
  congr 1
  funext e
  by_cases h1 : e.seq > k
  · have : e.seq > k0 := by omega
    simp [h1, this]
  · simp [h1]

/-- what was seen up to `k`, followed by a fresh subscription after `k`, is the
uninterrupted stream -/
theorem resume_spec {log : List Ev} (hc : Consec 0 log) {k0 k : Int} (hk : k0 ≤ k)
    (hnt : ∀ e ∈ log, k0 < e.seq → e.seq ≤ k → e.terminal = false) :
    seenUpTo k (stream k0 log) ++ stream k log = stream k0 log := by
  have hF : Consec (0 + (startIdx k0 : Nat)) (log.drop (startIdx k0)) := consec_drop _ hc
  have hsplit := split_consec hF k
  rw [← filter_gt_start hc k0] at hsplit
  rw [filter_gt_gt log hk] at hsplit
  -- F0 = M ++ R with M the (k0, k] part (no terminal) and R the > k part
  have hM : ∀ e ∈ (log.filter fun e => decide (e.seq > k0)).filter (fun e => decide (e.seq ≤ k)),
      e.terminal = false := by
    intro e he
    simp only [List.mem_filter, decide_eq_true_eq] at he
    exact hnt e he.1.1 he.1.2 he.2
  have hs0 : stream k0 log =
      (log.filter fun e => decide (e.seq > k0)).filter (fun e => decide (e.seq ≤ k)) ++ stream k log := by
    conv => lhs; unfold stream; rw [← hsplit]
    rw [cut_append_noterm hM]
    rfl
  rw [hs0]
  congr 1
  unfold seenUpTo
  rw [List.filter_append, List.filter_filter]
  have h2 : (stream k log).filter (fun e => decide (e.seq ≤ k)) = [] := by
    rw [List.filter_eq_nil_iff]
    intro e he
    have := cut_mem he
    simp only [List.mem_filter, decide_eq_true_eq] at this
    simp; omega
  rw [h2]
  simp

theorem seenUpTo_filter (k : Int) (p : Ev → Bool) (l : List Ev) :
    seenUpTo k (l.filter p) = (seenUpTo k l).filter p := by
  unfold seenUpTo
  rw [List.filter_filter, List.filter_filter]
  congr 1; funext e; exact Bool.and_comm _ _

theorem consec_prefix {b : Int} {l m : List Ev} (h : Consec b (l ++ m)) : Consec b l := by
  induction l generalizing b with
  | nil => trivial
  | cons y ys ih => exact ⟨h.1, ih h.2⟩

/-- `"now"`: the cursor is the last stored sequence, so the subscription carries
exactly what is published afterwards -/
theorem now_spec {b : Backend} {log more : List Ev} (hc : Consec 0 (log ++ more)) :
    stream (resolveNow b log) (log ++ more) = cutAfterTerminal more := by
  have hcl : Consec 0 log := consec_prefix hc
  have hnow : resolveNow b log = (log.length : Int) - 1 := by
    unfold resolveNow
    rw [query_all hcl]
    cases hl : log.getLast? with
    | none =>
      have : log = [] := by simpa using hl
      subst this; simp
    | some e =>
      have := consec_getLast? hcl hl
      simp; omega
  unfold stream
  rw [filter_gt_consec hc, hnow]
  have : ((log.length : Int) - 1 + 1 - 0).toNat = log.length := by omega
  rw [this]
  simp

end EventLog
