import WfProofs.Version
import WfProofs.VersionOrder
import WfProofs.VersionRc
/-!
# C34 — release tooling converts and classifies versions consistently

Property theorems only (helper lemmas live in `WfProofs/Version*.lean`).
Quantification: every structured version `v : Ver` -- a release tuple of any
positive length with an optional `a`/`b`/`rc` pre-release number -- in its canonical
PEP 440 spelling `showPep v` and its semver spelling `showSemver v`; every string
`s` that `packaging` reads as such a version (`parsePep s = some v`: `v` prefix,
upper case, `alpha`/`beta`/`c`/`pre`/`preview`, separators, leading zeros, white
space); every `Raw` spelling with arbitrary digit runs (leading zeros); every pair
of versions for the classification.
-/
open Version

/-- The sources (regenerated from `/repo` on every run) still have the shape the
model transcribes: the label set, the semver regex, the guard/action rules of the
four functions; and the installed `packaging` still has the pattern, spellings and
ranks transcribed in `parsePep` / `preKey`. -/
theorem C34_source_shape :
    Gen.Version.labels = [['a'], ['b'], ['r', 'c']] ∧
    Gen.Version.semverPrereleaseRe = "^(\\d+(?:\\.\\d+)*)-([a-zA-Z]+)\\.(\\d+)$" ∧
    Gen.Version.semverToPepRules = [
      ("not _SEMVER_PRERELEASE_RE.match(version)", "return version"),
      ("_SEMVER_PRERELEASE_RE.match(version).groups()[1] not in _PEP440_LABELS", "raise ValueError"),
      ("otherwise", "return f'{_SEMVER_PRERELEASE_RE.match(version).groups()[0]}{_SEMVER_PRERELEASE_RE.match(version).groups()[1]}{_SEMVER_PRERELEASE_RE.match(version).groups()[2]}'")] ∧
    Gen.Version.pepToSemverRules = [
      ("Version(version).pre is None", "return '.'.join((str(x) for x in Version(version).release))"),
      ("otherwise", "return f'{'.'.join((str(x) for x in Version(version).release))}-{Version(version).pre[0]}.{Version(version).pre[1]}'")] ∧
    Gen.Version.isRcRules = [
      ("otherwise", "return bool(re.search('(-rc|-a|-b|rc\\\\d|a\\\\d|b\\\\d)', version))")] ∧
    Gen.Version.detectRules = [
      ("not previous_version", "return 'major'"),
      ("Version(current_version) <= Version(previous_version)", "return 'none'"),
      ("(Version(current_version).release + (0, 0, 0))[:3][0] > (Version(previous_version).release + (0, 0, 0))[:3][0]", "return 'major'"),
      ("(Version(current_version).release + (0, 0, 0))[:3][1] > (Version(previous_version).release + (0, 0, 0))[:3][1]", "return 'minor'"),
      ("(Version(current_version).release + (0, 0, 0))[:3][2] > (Version(previous_version).release + (0, 0, 0))[:3][2]", "return 'patch'"),
      ("otherwise", "return 'minor'")] ∧
    Gen.Version.versionImports = ["from packaging.version import Version", "from packaging.version import Version"] ∧
    Gen.Version.versionPattern = "v?+(?a:(?:(?P<epoch>[0-9]+)!)?+(?P<release>[0-9]+(?:\\.[0-9]+)*+)(?P<pre>[._-]?+(?P<pre_l>alpha|a|beta|b|preview|pre|c|rc)[._-]?+(?P<pre_n>[0-9]+)?)?+(?P<post>(?:-(?P<post_n1>[0-9]+))|(?:[._-]?(?P<post_l>post|rev|r)[._-]?(?P<post_n2>[0-9]+)?))?+(?P<dev>[._-]?+(?P<dev_l>dev)[._-]?+(?P<dev_n>[0-9]+)?)?+)(?a:\\+(?P<local>[a-z0-9]+(?:[._-][a-z0-9]+)*+))?+" ∧
    Gen.Version.versionRegexWrap = "\\s*{VERSION_PATTERN}\\s*" ∧
    Gen.Version.versionRegexFlags = "IGNORECASE|UNICODE|VERBOSE" ∧
    Gen.Version.simpleVersionChars = ".0123456789" ∧
    Gen.Version.preAlts = [(['a', 'l', 'p', 'h', 'a'], ['a']), (['a'], ['a']), (['b', 'e', 't', 'a'], ['b']), (['b'], ['b']),
      (['p', 'r', 'e', 'v', 'i', 'e', 'w'], ['r', 'c']), (['p', 'r', 'e'], ['r', 'c']), (['c'], ['r', 'c']), (['r', 'c'], ['r', 'c'])] ∧
    Gen.Version.preRank = [(Label.a.chars, Label.a.rank), (Label.b.chars, Label.b.rank), (Label.rc.chars, Label.rc.rank)] ∧
    Gen.Version.preRankStable = 3 :=
  ⟨rfl, rfl, rfl, rfl, rfl, rfl, rfl, rfl, rfl, rfl, rfl, rfl, rfl, rfl⟩

/-- Printer and parser agree: both spellings of every version are read back as that
version by the model of `packaging.version.Version`. -/
theorem C34_parse_printed (v : Ver) (h : v.release ≠ []) :
    parsePep (showPep v) = some v ∧ parsePep (showSemver v) = some v := by
  have hw := Raw.ofVer_wf v h
  have h1 := parsePep_pep _ hw
  have h2 := parsePep_semver _ hw
  rw [Raw.ofVer_val, Raw.ofVer_pep] at h1
  rw [Raw.ofVer_val, Raw.ofVer_semver] at h2
  exact ⟨h1, h2⟩

/-- the versions the theorems range over are not degenerate: four release components
and a release candidate -/
example : (⟨[1, 2, 3, 4], some (.rc, 1)⟩ : Ver).release ≠ [] := by decide
example : showPep ⟨[1, 2, 3, 4], some (.rc, 1)⟩ = ['1', '.', '2', '.', '3', '.', '4', 'r', 'c', '1'] := by decide
example : parsePep [' ', 'V', '0', '1', '.', '2', '-', 'A', 'l', 'p', 'h', 'a', '_', '0', '7', '\n'] =
    some ⟨[1, 2], some (.a, 7)⟩ := by decide

/-- **PEP 440 → semver → PEP 440**, canonical spelling: for every version,
`pep440_to_semver` prints `release-label.n`, `semver_to_pep440` turns that back into
the original, which is its own normal form. -/
theorem C34_roundtrip_pep440 (v : Ver) (h : v.release ≠ []) :
    pepToSemver (showPep v) = .ok (showSemver v) ∧
    semverToPep (showSemver v) = .ok (showPep v) ∧
    normalize (showPep v) = .ok (showPep v) := by
  have hw := Raw.ofVer_wf v h
  have hp := (C34_parse_printed v h).1
  refine ⟨by simp [pepToSemver, hp], ?_, by simp [normalize, hp]⟩
  have hm := semverMatch_semver _ hw
  rw [Raw.ofVer_semver] at hm
  unfold semverToPep
  rw [hm]
  cases v with
  | mk rel pre =>
    cases pre with
    | none => rfl
    | some p =>
      obtain ⟨l, n⟩ := p
      have hl : l.chars ∈ Gen.Version.labels := by cases l <;> decide
      simp [Raw.ofVer, hl, showPep, showRelease]

example : pepToSemver ['1', '.', '2', '.', '3', '.', '4', 'r', 'c', '1'] =
    .ok ['1', '.', '2', '.', '3', '.', '4', '-', 'r', 'c', '.', '1'] := by decide
example : semverToPep ['1', '.', '2', '.', '3', '.', '4', '-', 'r', 'c', '.', '1'] =
    .ok ['1', '.', '2', '.', '3', '.', '4', 'r', 'c', '1'] := by decide

/-- **PEP 440 → semver → PEP 440**, any spelling: whatever string `packaging` reads
as a release/pre-release version, converting it to semver and back yields the
*normalized* original `str(Version(s))`. -/
theorem C34_roundtrip_pep440_any_spelling (s : List Char) (v : Ver) (hs : parsePep s = some v) :
    ∃ t, pepToSemver s = .ok t ∧ semverToPep t = normalize s ∧ normalize s = .ok (showPep v) := by
  have h := parsePep_release_ne_nil hs
  refine ⟨showSemver v, by simp [pepToSemver, hs], ?_, by simp [normalize, hs]⟩
  rw [(C34_roundtrip_pep440 v h).2.1]; simp [normalize, hs]

example : ∃ v, parsePep ['v', '1', '.', '0', '.', 'P', 'R', 'E', 'V', 'I', 'E', 'W'] = some v :=
  ⟨⟨[1, 0], some (.rc, 0)⟩, by decide⟩
example : normalize ['v', '1', '.', '0', '.', 'P', 'R', 'E', 'V', 'I', 'E', 'W'] = .ok ['1', '.', '0', 'r', 'c', '0'] := by decide

/-- **semver → PEP 440 → semver**, canonical spelling. -/
theorem C34_roundtrip_semver (v : Ver) (h : v.release ≠ []) :
    semverToPep (showSemver v) = .ok (showPep v) ∧ pepToSemver (showPep v) = .ok (showSemver v) :=
  ⟨(C34_roundtrip_pep440 v h).2.1, (C34_roundtrip_pep440 v h).1⟩

example : pepToSemver ['0', 'b', '0'] = .ok ['0', '-', 'b', '.', '0'] := by decide

/-- **semver → PEP 440 → semver** for semver strings written with arbitrary digit
runs (leading zeros): `semver_to_pep440` keeps the digits, `pep440_to_semver`
normalizes them; also `packaging` reads the semver spelling itself as the same
version (this is how `detect_change_type` consumes tag versions). -/
theorem C34_roundtrip_semver_leading_zeros (r : Raw) (h : r.WF) :
    semverToPep r.semver = .ok r.pep ∧
    pepToSemver r.pep = .ok (showSemver r.val) ∧
    pepToSemver r.semver = .ok (showSemver r.val) := by
  refine ⟨?_, by simp [pepToSemver, parsePep_pep r h], by simp [pepToSemver, parsePep_semver r h]⟩
  unfold semverToPep
  rw [semverMatch_semver r h]
  cases hpre : r.pre with
  | none => simp [Raw.semver, Raw.pep, hpre]
  | some p =>
    obtain ⟨l, n⟩ := p
    have hl : l.chars ∈ Gen.Version.labels := by cases l <;> decide
    simp [Raw.pep, hpre, hl]

example : (⟨[['0', '1'], ['0'], ['0', '0', '7']], some (.b, ['0', '2'])⟩ : Raw).WF := by
  refine ⟨by simp, ?_, ?_⟩
  · intro x hx
    simp only [List.mem_cons, List.not_mem_nil, or_false] at hx
    rcases hx with rfl | rfl | rfl <;> exact ⟨by simp, by decide⟩
  · intro p hp
    simp only [Option.mem_def, Option.some.injEq] at hp
    subst hp
    exact ⟨by simp, by decide⟩
example : semverToPep ['0', '1', '.', '0', '.', '0', '0', '7', '-', 'b', '.', '0', '2'] =
    .ok ['0', '1', '.', '0', '.', '0', '0', '7', 'b', '0', '2'] := by decide
example : pepToSemver ['0', '1', '.', '0', '.', '0', '0', '7', 'b', '0', '2'] =
    .ok ['1', '.', '0', '.', '7', '-', 'b', '.', '2'] := by decide

/-- The comparison the tooling uses (`Version.__le__` on keys with trailing zeros
stripped, Python tuple order) is the PEP 440 order stated independently:
component-wise with missing components read as 0, then pre-release before final,
`a < b < rc`, then the number.  `verCmp` (what the `cmp` correspondence op compares
with `packaging`) decides the same relation. -/
theorem C34_order_is_pep440 (a b : Ver) :
    (verLe a b = true ↔ ¬ Ver.Lt b a) ∧ (verCmp a b = .lt ↔ Ver.Lt a b) :=
  ⟨verLe_iff_not_lt a b, verCmp_lt_iff a b⟩

example : Ver.Lt ⟨[1, 2, 3], none⟩ ⟨[1, 3], some (.a, 1)⟩ :=
  Or.inl ⟨1, fun j hj => by have : j = 0 := by omega
                            subst this; rfl, by decide⟩
example : Ver.Lt ⟨[1, 0, 0], some (.rc, 2)⟩ ⟨[1], none⟩ :=
  Or.inr ⟨fun j => by rcases j with _ | _ | _ | j <;> simp [comp], trivial⟩
example : verLe ⟨[1, 0, 0], none⟩ ⟨[1], none⟩ = true ∧ verLe ⟨[1], none⟩ ⟨[1, 0, 0], none⟩ = true := by decide

/-- **'none' exactly when the new version is not greater.** -/
theorem C34_none_iff_not_greater (c p : Ver) : classify c p = .none ↔ ¬ Ver.Lt p c := by
  rw [← verLe_iff_not_lt]
  unfold classify
  cases verLe c p with
  | true => simp
  | false =>
    simp only [Bool.false_eq_true, if_false, iff_false]
    split
    · simp
    · split
      · simp
      · split <;> simp

example : classify ⟨[1, 2, 3], none⟩ ⟨[1, 2, 3, 0], none⟩ = .none := by decide
example : classify ⟨[1, 2, 3], some (.rc, 1)⟩ ⟨[1, 2, 3], none⟩ = .none := by decide
example : classify ⟨[1, 2, 3], none⟩ ⟨[1, 2, 3], some (.rc, 1)⟩ = .minor := by decide

/-- In a greater version the most significant release component that differs has
grown (at any position, also beyond the third). -/
theorem C34_greater_never_shrinks (c p : Ver) (h : Ver.Lt p c) (i : Nat)
    (hpre : ∀ j, j < i → comp c.release j = comp p.release j)
    (hne : comp c.release i ≠ comp p.release i) : comp p.release i < comp c.release i :=
  h.first_diff i hpre hne

/-- **Otherwise it names the most significant release component that grew**: when
the new version is greater, the first position among major/minor/patch at which the
two releases differ has grown (previous theorem) and is the one named; when the
first three components are equal -- the growth is in a later component or in the
pre-release -- the answer is `minor` (the property names no component for that
case; DESIGN §7 reading). -/
theorem C34_names_grown_component (c p : Ver) (h : Ver.Lt p c) :
    (∀ i, i < 3 → (∀ j, j < i → comp c.release j = comp p.release j) →
        comp c.release i ≠ comp p.release i → classify c p = changeName i) ∧
    ((∀ j, j < 3 → comp c.release j = comp p.release j) → classify c p = .minor) := by
  have hle : verLe c p = false := by
    cases hv : verLe c p with
    | false => rfl
    | true => exact absurd h ((verLe_iff_not_lt c p).1 hv)
  have e0 := pad3_getD c.release 0 (by omega)
  have e1 := pad3_getD c.release 1 (by omega)
  have e2 := pad3_getD c.release 2 (by omega)
  have f0 := pad3_getD p.release 0 (by omega)
  have f1 := pad3_getD p.release 1 (by omega)
  have f2 := pad3_getD p.release 2 (by omega)
  constructor
  · intro i hi hpre hne
    have hgrow := h.first_diff i hpre hne
    unfold classify
    rw [hle, e0, e1, e2, f0, f1, f2]
    have : i = 0 ∨ i = 1 ∨ i = 2 := by omega
    rcases this with rfl | rfl | rfl
    · simp [changeName, hgrow]
    · have h0 := hpre 0 (by omega)
      have : ¬ comp c.release 0 > comp p.release 0 := by omega
      simp [changeName, hgrow, this]
    · have h0 := hpre 0 (by omega)
      have h1 := hpre 1 (by omega)
      have n0 : ¬ comp c.release 0 > comp p.release 0 := by omega
      have n1 : ¬ comp c.release 1 > comp p.release 1 := by omega
      simp [changeName, hgrow, n0, n1]
  · intro heq
    have h0 := heq 0 (by omega)
    have h1 := heq 1 (by omega)
    have h2 := heq 2 (by omega)
    unfold classify
    rw [hle, e0, e1, e2, f0, f1, f2]
    have n0 : ¬ comp c.release 0 > comp p.release 0 := by omega
    have n1 : ¬ comp c.release 1 > comp p.release 1 := by omega
    have n2 : ¬ comp c.release 2 > comp p.release 2 := by omega
    simp [n0, n1, n2]

example : classify ⟨[2, 1], none⟩ ⟨[1, 9, 9], some (.b, 3)⟩ = .major := by decide
example : classify ⟨[1, 10, 0], some (.a, 1)⟩ ⟨[1, 9, 5, 7], none⟩ = .minor := by decide
example : classify ⟨[1, 2, 3], none⟩ ⟨[1, 2], none⟩ = .patch := by decide
example : classify ⟨[1, 2, 3, 5], none⟩ ⟨[1, 2, 3, 4], none⟩ = .minor := by decide

/-- The string-level function: whenever both arguments are read as versions,
`detect_change_type` is the classification of those versions, so the two clauses
above hold of its return value. -/
theorem C34_detect_strings (cur prev : List Char) (c p : Ver)
    (hc : parsePep cur = some c) (hp : parsePep prev = some p) :
    detect cur (some prev) = .ok (classify c p) ∧
    (detect cur (some prev) = .ok .none ↔ ¬ Ver.Lt p c) := by
  have hne : prev ≠ [] := by
    intro he; subst he; simp [parsePep, stripSpace, dropV, scanRel] at hp
  have hd : detect cur (some prev) = .ok (classify c p) := by simp [detect, hne, hc, hp]
  refine ⟨hd, ?_⟩
  rw [hd, ← C34_none_iff_not_greater]
  simp

example : detect ['1', '.', '2', '.', '3', '-', 'r', 'c', '.', '1'] (some ['v', '1', '.', '2', '.', '2']) = .ok .patch := by decide
example : detect ['1', '.', '0'] (some ['1', '.', '0', '.', '0']) = .ok .none := by decide

/-- `is_rc_version` answers, on both spellings of every version, exactly whether it
carries a pre-release. -/
theorem C34_prerelease_detected (v : Ver) (h : v.release ≠ []) :
    isRc (showPep v) = v.pre.isSome ∧ isRc (showSemver v) = v.pre.isSome := by
  have hw := Raw.ofVer_wf v h
  have h1 := isRc_pep _ hw
  have h2 := isRc_semver _ hw
  rw [Raw.ofVer_pep] at h1
  rw [Raw.ofVer_semver] at h2
  have e : (Raw.ofVer v).pre.isSome = v.pre.isSome := by cases v with | mk r p => cases p <;> rfl
  exact ⟨h1.trans e, h2.trans e⟩

example : isRc ['1', '0', '.', '2', '0', 'b', '3'] = true ∧ isRc ['1', '0', '.', '2', '0'] = false := by decide
