import WfProofs.LifecycleInv
/-!
M7 (A), more invariants that hold for every schedule (C36):

* a run that is out of memory is marked idle in its handler row (`relIdle`), because a release decision
  taken on `idle_since = some _` still finds `idle_since` set (`decIdle`: only lock holders clear it);
* every release aborted a loop (`relCount`), so reloads and releases can be counted against each other;
* a reloading sender starts the new loop from *all* ticks persisted at the instant of the start — not only
  at the instant it read them (`snap`: nothing is persisted while the run is out of memory) — and a live loop's
  rebuilt-from list stays a prefix of the log (`startPre`), its incarnation number being the number of loops
  started before it.
-/
set_option linter.unusedVariables false
set_option linter.unusedSimpArgs false
namespace Lifecycle

structure IdleInv (s : S) : Prop where
  relIdle : s.cur = none → s.idleSince.isSome = true
  decIdle : ∀ j t, s.lock = some (.tDecide j (some t)) → s.idleSince.isSome = true
  relCount : s.aborted = s.releases.length
  snap : ∀ i sn, s.lock = some (.sStart i sn) → sn = s.log
  startPre : ∀ l, s.cur = some l → l.start <+: s.log ∧ l.inc + 1 = s.started

theorem IdleInv.init (tau : Nat) : IdleInv (init tau) := by
  constructor <;> simp [Lifecycle.init]

set_option hygiene false in
macro "idle_finish" : tactic =>
  `(tactic| (
    first
    | (simp_all [Hold.sawActive, Hold.reloading, upd_apply]; done)
    | (intros; simp_all [Hold.sawActive, Hold.reloading, upd_apply]; done)
    | (intros; simp_all [Hold.sawActive, Hold.reloading, upd_apply]; omega)
    | (trace_state; fail)))

/-- the engine's and the senders' bookkeeping actions: `cur` keeps its `start` / `inc`, nothing else that the
invariant mentions moves -/
theorem IdleInv.step (s s' : S) (a : Act) (h : step s a = some s') (hi : IdleInv s) (hinv : Inv s) : IdleInv s' := by
  obtain ⟨hrel, hdec, hcnt, hsnap, hpre⟩ := hi
  have hact := hinv.act
  have hA := hinv.hAct
  have hI := hinv.hInact
  cases a with
  | eReduce =>
    destruct_step h
    rename_i x l hcur hm y t b hbuf
    refine ⟨?_, ?_, ?_, ?_, ?_⟩
    · intro hc; simp at hc
    · intro j t' hl; exact hdec j t' hl
    · exact hcnt
    · intro i sn hl
      have h1 := hI _ hl rfl
      simp_all
    · intro l' hl'
      simp only [Option.some.injEq] at hl'
      subst hl'
      have := hpre l hcur
      exact ⟨this.1.trans (List.prefix_append _ _), this.2⟩
  | tDecide j =>
    destruct_step h
    · refine ⟨?_, ?_, ?_, ?_, ?_⟩ <;> idle_finish
    · refine ⟨?_, ?_, ?_, ?_, ?_⟩ <;> idle_finish
    · refine ⟨?_, ?_, ?_, ?_, ?_⟩ <;> idle_finish
    · rename_i x j' hj seen t0 heq hshort hna
      have hsome : s.cur.isSome = true := by
        rw [← hact]; simpa using hna
      refine ⟨?_, ?_, ?_, ?_, ?_⟩
      · intro _
        simp only [release_idleSince]
        exact hdec _ _ heq
      · intro j'' t hl; simp at hl
      · simp only [release_aborted, release_releases, List.length_append, List.length_singleton, hsome, if_true]
        omega
      · intro i sn hl; simp at hl
      · intro l hl; simp at hl
  | advance dt => destruct_step h; refine ⟨?_, ?_, ?_, ?_, ?_⟩ <;> idle_finish
  | ePut t => destruct_step h; refine ⟨?_, ?_, ?_, ?_, ?_⟩ <;> idle_finish
  | ePull => destruct_step h; refine ⟨?_, ?_, ?_, ?_, ?_⟩ <;> idle_finish
  | eDone => destruct_step h; refine ⟨?_, ?_, ?_, ?_, ?_⟩ <;> idle_finish
  | eTimerSet => destruct_step h; refine ⟨?_, ?_, ?_, ?_, ?_⟩ <;> idle_finish
  | eTimerFire => destruct_step h; refine ⟨?_, ?_, ?_, ?_, ?_⟩ <;> idle_finish
  | eMark => destruct_step h; refine ⟨?_, ?_, ?_, ?_, ?_⟩ <;> idle_finish
  | eSpawn j => destruct_step h; refine ⟨?_, ?_, ?_, ?_, ?_⟩ <;> idle_finish
  | sCall i => destruct_step h; refine ⟨?_, ?_, ?_, ?_, ?_⟩ <;> idle_finish
  | sAcq i => destruct_step h; all_goals (refine ⟨?_, ?_, ?_, ?_, ?_⟩ <;> idle_finish)
  | sClear i =>
    destruct_step h
    rename_i hcond; simp only [beq_iff_eq] at hcond
    have h1 := hA _ hcond rfl
    refine ⟨?_, ?_, ?_, ?_, ?_⟩ <;> idle_finish
  | sQuery i => destruct_step h; refine ⟨?_, ?_, ?_, ?_, ?_⟩ <;> idle_finish
  | sLog i => destruct_step h; refine ⟨?_, ?_, ?_, ?_, ?_⟩ <;> idle_finish
  | sStart i =>
    destruct_step h
    · refine ⟨?_, ?_, ?_, ?_, ?_⟩ <;> idle_finish
    · rename_i x i' snap heq hi' y hcur
      have := hsnap _ _ heq
      subst this
      refine ⟨?_, ?_, ?_, ?_, ?_⟩ <;> idle_finish
  | sRClear i =>
    destruct_step h
    rename_i hcond; simp only [beq_iff_eq] at hcond
    have h1 := hA _ hcond rfl
    refine ⟨?_, ?_, ?_, ?_, ?_⟩ <;> idle_finish
  | sDeliver i => destruct_step h; all_goals (refine ⟨?_, ?_, ?_, ?_, ?_⟩ <;> idle_finish)
  | tAcq j => destruct_step h; refine ⟨?_, ?_, ?_, ?_, ?_⟩ <;> idle_finish
  | tQuery j => destruct_step h; refine ⟨?_, ?_, ?_, ?_, ?_⟩ <;> idle_finish

theorem IdleInv.stepD (s : S) (a : Act) (hi : IdleInv s) (hinv : Inv s) : IdleInv (stepD s a) := by
  rcases stepD_eq s a with e | e
  · rw [e]; exact hi
  · exact hi.step _ _ _ e hinv

theorem IdleInv.run (acts : List Act) (s : S) (hi : IdleInv s) (hinv : Inv s) : IdleInv (run s acts) := by
  induction acts generalizing s with
  | nil => exact hi
  | cons a as ih => exact ih _ (hi.stepD s a hinv) (hinv.stepD s a)

/-- the persisted tick log only grows -/
theorem log_prefix_step (s : S) (a : Act) : s.log <+: (stepD s a).log := by
  rcases stepD_eq s a with e | e
  · rw [e]; exact List.prefix_refl _
  · generalize stepD s a = s' at e
    cases a
    all_goals destruct_step e
    all_goals (first | exact List.prefix_refl _ | exact List.prefix_append _ _ | (simp only [release_log]; exact List.prefix_refl _))

theorem log_prefix_run (acts : List Act) (s : S) : s.log <+: (run s acts).log := by
  induction acts generalizing s with
  | nil => exact List.prefix_refl _
  | cons a as ih => exact (log_prefix_step s a).trans (ih _)

end Lifecycle
