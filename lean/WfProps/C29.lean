import WfProofs.IterUtilsDspThm
import WfProofs.IterUtilsProgress
import WfProofs.IterDebounce
import WfProofs.IterUtilsMergeExt
/-!
# C29 — stream merge and sorted-prefix utilities preserve items and order

Model: `WfModel/IterUtils.lean` (transition systems of `merge_generators` and
`debounced_sorted_prefix`; one action per await-free section, so the theorems below, which
quantify over arbitrary action lists, cover every interleaving of the sources and every
timing of the items relative to the debounce window).  `Gen.*` are facts re-extracted from
`/repo`'s current `iter_utils.py` on every run.
-/
open IterUtils

/-- the sequence of source `i`: the values of its (accepted) `prod` actions, in order -/
def C29_sourceSeq (i : Nat) (acts : List (Act α)) : List α := proj i (acts.filterMap Act.prodOf)

/-- what the current source says (re-extracted on every run): pass-through starts when the
    marker is consumed; the marker compared is the marker yielded and it is a private object
    recognised by identity (no item of `inner` can be taken for it: the model's `Tok.val` /
    `Tok.marker` split); `merge_generators` defaults to
    running until all inputs are exhausted and that is how `debounced_sorted_prefix` calls it, with
    two sources; `asyncio.wait(FIRST_COMPLETED)`; the flush is a stable `sort(key=key)`. -/
theorem C29_source_shape :
    Gen.passMode = .onMarkerConsumed ∧ Gen.markerCmp = Gen.markerYield ∧ Gen.markerInBand = false
    ∧ Gen.mergeDefaultStop = false ∧ Gen.mergeDefaultStopKnown = true
    ∧ Gen.dspMergeStop = false ∧ Gen.dspMergeStopKnown = true ∧ Gen.dspSources = 2
    ∧ Gen.waitFirstCompleted = true ∧ Gen.sortStableByKey = true := by decide

/-- The model's `Dsp.consume` hands items to the caller in two places only (flush of the marker
    branch, pass-through) and its buffering branch yields nothing, whatever the size of the buffer.
    The current source has that shape: exactly two `yield` sites in `debounced_sorted_prefix`, and the
    buffering branch is nothing but `extend_window()` and `buffer.append(item)` (no yield, no await,
    no size- or time-dependent hand-over). -/
theorem C29_source_buffering_holds_back :
    Gen.dspYieldSites = 2 ∧ Gen.bufferBranchHoldsBack = true := by decide

/-- While pass-through has not started, consuming an item yields nothing and only grows the buffer,
    for a buffer of ANY length (there is no cap in the model: the burst is sorted as one piece). -/
theorem C29_dsp_buffering_yields_nothing (key : β → Nat) (s : Dsp β) (x : β) (h : s.passes = false) :
    (Dsp.consume key s (.val x)).2 = [] ∧ (Dsp.consume key s (.val x)).1.buffer = s.buffer ++ [x]
    ∧ (Dsp.consume key s (.val x)).1.dout = s.dout := by
  simp [Dsp.consume, h]

example : (Dsp.init (β := Nat) Gen.passMode).passes = false
    ∧ (Dsp.consume id { (Dsp.init (β := Nat) Gen.passMode) with buffer := List.range 2000 } (.val 1)).2 = [] := by
  constructor
  · rfl
  · simp [Dsp.consume, Dsp.passes, Dsp.init, Gen.passMode]

/-! ## merge_generators -/

/-- At every point of every execution (either `stop_on_first_completion` setting, any number of
    sources, errors or not), what has been yielded from source `i` is a prefix of source `i`'s
    sequence: nothing invented, nothing duplicated, nothing reordered within a source. -/
theorem C29_merge_source_prefix (sf : Bool) (n : Nat) (acts : List (Act α)) (m : Merge α)
    (h : (Merge.init sf n).exec acts = some m) (i : Nat) :
    proj i m.out <+: C29_sourceSeq i acts := by
  have hi := exec_inv (init_inv sf n) acts h
  have hf := (exec_fields acts h).1
  have := prefix_of_inv hi i
  rw [hf] at this
  simpa [C29_sourceSeq, Merge.init] using this

example : ∃ m : Merge Nat,
    (Merge.init false 2).exec [.prod 0 7, .prod 1 8, .batch [1, 0], .resume, .prod 1 9] = some m
    ∧ m.out = [(1, 8), (0, 7)] ∧ C29_sourceSeq 1 [.prod 0 7, .prod 1 8, .batch [1, 0], .resume, .prod 1 9] = [8, 9] :=
  ⟨_, rfl, rfl, rfl⟩

/-- With the default flag, when the merge returns normally its output is a shuffle of the
    sources: restricted to each source it is exactly that source's sequence, and as a multiset it
    is exactly the multiset of produced items (every item exactly once). -/
theorem C29_merge_is_shuffle [DecidableEq α] (n : Nat) (acts : List (Act α)) (m : Merge α)
    (h : (Merge.init Gen.mergeDefaultStop n).exec acts = some m) (hp : m.phase = .finished none) :
    (∀ i, proj i m.out = C29_sourceSeq i acts) ∧ m.out.Perm (acts.filterMap Act.prodOf) := by
  have hi := exec_inv (init_inv _ n) acts h
  obtain ⟨hf, _, _, hsf, _⟩ := exec_fields acts h
  have hsf' : m.stopFirst = false := by rw [hsf]; rfl
  have hproj := complete_of_inv hi hp hsf'
  have hh : m.hist = acts.filterMap Act.prodOf := by simpa [Merge.init] using hf
  refine ⟨fun i => by rw [hproj i, hh]; rfl, ?_⟩
  rw [← hh]
  exact perm_of_proj hproj

example : ∃ m : Merge Nat,
    (Merge.init Gen.mergeDefaultStop 2).exec
      [.prod 0 7, .prod 1 8, .batch [1, 0], .resume, .fin 1, .resume, .fin 0, .batch [0, 1]] = some m
    ∧ m.phase = .finished none ∧ m.out = [(1, 8), (0, 7)] :=
  ⟨_, rfl, rfl, rfl⟩

/-- An input's error is re-raised: (1) if the merge raises `e`, some source raised `e`;
    (2) with the default flag the merge cannot return normally once any source has raised;
    (3) once a failed task has been seen the merge never waits for the sources again (it hands
    out the results already collected in that batch and raises). -/
theorem C29_error_reraised (sf : Bool) (n : Nat) (acts : List (Act α)) (m : Merge α)
    (h : (Merge.init sf n).exec acts = some m) :
    (∀ e, m.phase = .finished (some e) → ∃ i, (i, e) ∈ acts.filterMap Act.errOf)
    ∧ (sf = false → m.phase = .finished none → acts.filterMap Act.errOf = [])
    ∧ (∀ e, m.exc = some e → m.phase ≠ .waiting ∧ ∃ i, (i, e) ∈ acts.filterMap Act.errOf) := by
  have hi := exec_inv (init_inv sf n) acts h
  obtain ⟨_, he, _, hsf, _⟩ := exec_fields acts h
  have he' : m.errs = acts.filterMap Act.errOf := by simpa [Merge.init] using he
  refine ⟨?_, ?_, ?_⟩
  · intro e hp
    have := hi.finExc _ hp
    rw [← he']; exact hi.core.excIn e this.symm
  · intro hsf0 hp
    rw [← he']
    exact no_errs_of_complete hi hp (by rw [hsf]; simpa [Merge.init] using hsf0)
  · intro e hx
    refine ⟨fun hw => ?_, by rw [← he']; exact hi.core.excIn e hx⟩
    have := (hi.waitOk hw).1
    rw [hx] at this; simp at this

example : ∃ m : Merge Nat,
    (Merge.init false 2).exec [.prod 0 7, .err 1 99, .batch [0, 1], .resume] = some m
    ∧ m.phase = .finished (some 99) ∧ m.out = [(0, 7)] :=
  ⟨_, rfl, rfl, rfl⟩

/-- Nothing is lost before an error surfaces except values of finished tasks that were not yet
    looked at: with the default flag, whenever the merge has finished (normally or by raising),
    each source's sequence is what was yielded from it plus at most one trailing item. -/
theorem C29_merge_error_loses_only_unprocessed (n : Nat) (acts : List (Act α)) (m : Merge α)
    (h : (Merge.init Gen.mergeDefaultStop n).exec acts = some m) (r : Option Nat)
    (hp : m.phase = .finished r) (i : Nat) :
    ∃ tail, tail.length ≤ 1 ∧ proj i m.out ++ tail = C29_sourceSeq i acts := by
  have hi := exec_inv (init_inv _ n) acts h
  obtain ⟨hf, _, _, hsf, _⟩ := exec_fields acts h
  have hsf' : m.stopFirst = false := by rw [hsf]; rfl
  have hst := stopped_false_of_flag hi hsf'
  have hc := hi.conserve i
  rw [hp, hi.dropNil hst] at hc
  have hh : m.hist = acts.filterMap Act.prodOf := by simpa [Merge.init] using hf
  refine ⟨slotItem m.slots[i]?, ?_, ?_⟩
  · unfold slotItem; split <;> simp
  · rw [C29_sourceSeq, ← hh, ← hc]; simp [Phase.rest]

example : ∃ m : Merge Nat,
    (Merge.init Gen.mergeDefaultStop 2).exec [.prod 0 7, .err 1 99, .batch [1, 0]] = some m
    ∧ m.phase = .finished (some 99) ∧ m.out = [] ∧ C29_sourceSeq 0 [.prod 0 7, .err 1 99, .batch [1, 0]] = [7] :=
  ⟨_, rfl, rfl, rfl, rfl⟩


/-- The merge never blocks by itself: in every reachable state it has finished, or its next own
    action is enabled (`resume` when suspended at a `yield`; a `batch` over the finished tasks when
    waiting), or it waits and *every* remaining task is still pending (only a source can move). In
    particular a finished (failed) task is always picked up. -/
theorem C29_merge_never_stuck (sf : Bool) (n : Nat) (acts : List (Act α)) (m : Merge α)
    (h : (Merge.init sf n).exec acts = some m) :
    match m.phase with
    | .finished _ => True
    | .suspended _ _ => (m.step .resume).isSome = true
    | .waiting => ((∃ i : Nat, m.slots[i]? = some Slot.pending) ∧
          ∀ (i : Nat) (s : Slot α), m.slots[i]? = some s → s.hasTask = true → s = Slot.pending)
        ∨ (m.step (.batch (doneIdx m))).isSome = true :=
  never_stuck (exec_inv (init_inv sf n) acts h)

example : ∃ m : Merge Nat, (Merge.init false 3).exec [.prod 0 7, .err 2 5] = some m
    ∧ doneIdx m = [0, 2] ∧ (m.step (.batch (doneIdx m))).isSome = true :=
  ⟨_, rfl, rfl, rfl⟩

/-- ... and once a failed task has been seen, every `resume` either hands out one more result
    collected in that same wake-up or raises that error: the error surfaces after at most
    `rest.length + 1` resumptions, with no further waiting (`C29_error_reraised`, part 3). -/
theorem C29_error_countdown (m : Merge α) (e : Nat) (i : Nat) (rest : List (Nat × α))
    (hx : m.exc = some e) (hp : m.phase = .suspended i rest) :
    ∃ m' em, m.step .resume = some (m', em) ∧ m'.exc = some e ∧
      ((rest = [] ∧ em = none ∧ m'.phase = .finished (some e)) ∨
       (∃ j v rest', rest = (j, v) :: rest' ∧ em = some (j, v) ∧ m'.phase = .suspended j rest')) :=
  error_countdown m e i rest hx hp

example : ∃ m : Merge Nat, (Merge.init false 3).exec [.prod 0 7, .prod 1 8, .err 2 5, .batch [0, 1, 2]] = some m
    ∧ m.exc = some 5 ∧ m.phase = .suspended 0 [(1, 8)] :=
  ⟨_, rfl, rfl, rfl⟩

/-! ## merge_generators: where every produced item is, at every moment -/

/-- **Accounting, for every reachable state** (either flag, any number of sources, errors or not): the
    sequence of source `i` is, in this order, what was yielded from it, then what sits in
    `completed_results` waiting for its `yield`, then what the `stop_on_first_completion` break discarded,
    then the value of its finished task that has not been looked at.  So every produced item is in exactly
    one of these four places, none is duplicated and none invented, at every point of every execution. -/
theorem C29_merge_accounting (sf : Bool) (n : Nat) (acts : List (Act α)) (m : Merge α)
    (h : (Merge.init sf n).exec acts = some m) (i : Nat) :
    proj i m.out ++ proj i m.phase.rest ++ proj i m.dropped ++ slotItem m.slots[i]? = C29_sourceSeq i acts
    ∧ (m.stopped = false → m.dropped = []) := by
  have hi := exec_inv (init_inv sf n) acts h
  have hf := (exec_fields acts h).1
  refine ⟨?_, hi.dropNil⟩
  rw [hi.conserve i, hf]
  simp [C29_sourceSeq, Merge.init]

example : ∃ m : Merge Nat,
    (Merge.init true 3).exec [.prod 0 7, .prod 1 8, .batch [1, 0], .prod 2 5] = some m
    ∧ m.out = [(1, 8)] ∧ m.phase.rest = [(0, 7)] ∧ slotItem m.slots[2]? = [5] :=
  ⟨_, rfl, rfl, rfl, rfl⟩

/-- **Back-pressure: no source ever runs more than one item ahead of the consumer.**  In every reachable
    state that has not stopped on a first completion, the items source `i` has produced are the items
    yielded from it plus at most ONE more (collected and waiting for its `yield`, or sitting in its finished
    task — never both): `merge_generators` holds one task per source and starts the next `anext` only after
    the previous value was handed over. -/
theorem C29_merge_lag_le_one (sf : Bool) (n : Nat) (acts : List (Act α)) (m : Merge α)
    (h : (Merge.init sf n).exec acts = some m) (hst : m.stopped = false) (i : Nat) :
    (C29_sourceSeq i acts).length ≤ (proj i m.out).length + 1
    ∧ (proj i m.phase.rest).length + (slotItem m.slots[i]?).length ≤ 1 := by
  have hi := exec_inv (init_inv sf n) acts h
  have hx := exec_xinv (init_inv sf n) (init_xinv sf n) acts h
  have hl := lag_of_inv hx i
  refine ⟨?_, hl⟩
  have hacc := (C29_merge_accounting sf n acts m h i).1
  rw [hi.dropNil hst] at hacc
  rw [← hacc]
  simp only [proj_nil, List.append_nil, List.length_append]
  omega

example : ∃ m : Merge Nat,
    (Merge.init false 2).exec [.prod 0 7, .prod 1 8, .batch [1, 0], .resume, .prod 1 9] = some m
    ∧ (C29_sourceSeq 1 [.prod 0 7, .prod 1 8, .batch [1, 0], .resume, .prod 1 9]).length = 2
    ∧ (proj 1 m.out).length = 1 ∧ m.stopped = false :=
  ⟨_, rfl, rfl, rfl, rfl⟩

/-- **`stop_on_first_completion=True`.**  For every execution with the flag set and at least one source:
    the merge returns normally only by stopping on a completion, and then some source really has ended;
    once it has stopped it never yields again (it is finished); results are discarded only by that stop;
    and no slot is ever retired (`gone`) — with the flag an ended source always stops the merge. -/
theorem C29_merge_stop_on_first_completion (n : Nat) (acts : List (Act α)) (m : Merge α)
    (h : (Merge.init true n).exec acts = some m) :
    (0 < n → m.phase = .finished none → m.stopped = true ∧ ∃ i, i ∈ acts.filterMap Act.finOf)
    ∧ (m.stopped = true → ∃ r, m.phase = .finished r)
    ∧ (m.dropped ≠ [] → m.stopped = true)
    ∧ (∀ i : Nat, m.slots[i]? ≠ some Slot.gone) := by
  have hi := exec_inv (init_inv true n) acts h
  have hx := exec_xinv (init_inv true n) (init_xinv true n) acts h
  obtain ⟨_, _, hends, hsf, hlen⟩ := exec_fields acts h
  have hsf' : m.stopFirst = true := by rw [hsf]; rfl
  have hgone : ∀ i : Nat, m.slots[i]? ≠ some Slot.gone := by
    intro i hg
    have := hx.goneFlag i hg
    rw [hsf'] at this; cases this
  refine ⟨?_, hi.stopFin, ?_, hgone⟩
  · intro hn hp
    have hstop : m.stopped = true := by
      cases hs : m.stopped with
      | true => rfl
      | false =>
        exfalso
        have hlen' : 0 < m.slots.length := by rw [hlen]; simpa [Merge.init] using hn
        have h0 : m.slots[0]? = some m.slots[0] := List.getElem?_eq_getElem hlen'
        have ht := hi.finClean hp hs m.slots[0] (List.getElem_mem hlen')
        cases hsl : m.slots[0] with
        | idle =>
          rw [hsl] at h0
          rcases hi.idle 0 h0 with h1 | ⟨j, r, h2, _⟩
          · rw [hs] at h1; cases h1
          · rw [hp] at h2; cases h2
        | gone => rw [hsl] at h0; exact hgone 0 h0
        | pending => rw [hsl] at ht; simp [Slot.hasTask] at ht
        | item v => rw [hsl] at ht; simp [Slot.hasTask] at ht
        | ended => rw [hsl] at ht; simp [Slot.hasTask] at ht
        | failed e => rw [hsl] at ht; simp [Slot.hasTask] at ht
    refine ⟨hstop, ?_⟩
    obtain ⟨i, hie⟩ := hx.stopEnded hstop
    have := hi.core.endSlot i (Or.inl hie)
    rw [hends] at this
    exact ⟨i, by simpa [Merge.init] using this⟩
  · intro hd
    cases hs : m.stopped with
    | true => rfl
    | false => exact absurd (hi.dropNil hs) hd

example : ∃ m : Merge Nat,
    (Merge.init true 2).exec [.prod 0 7, .fin 1, .batch [0, 1]] = some m
    ∧ m.phase = .finished none ∧ m.stopped = true ∧ m.dropped = [(0, 7)] ∧ m.out = [] :=
  ⟨_, rfl, rfl, rfl, rfl, rfl⟩

/-! ## list.sort(key=key) -/

/-- `sortByKey` is a stable sort: a permutation, non-decreasing in the key, equal keys in
    their original order. -/
theorem C29_sort_is_stable_sort (key : β → Nat) (l : List β) :
    (sortByKey key l).Perm l ∧ (sortByKey key l).Pairwise (fun a b => key a ≤ key b)
    ∧ ∀ k, (sortByKey key l).filter (fun a => key a == k) = l.filter (fun a => key a == k) :=
  ⟨sortByKey_perm key l, sortByKey_sorted key l, sortByKey_stable key l⟩

example : sortByKey (fun p : Nat × Nat => p.1) [(5, 0), (3, 1), (5, 2), (3, 3)] = [(3, 1), (3, 3), (5, 0), (5, 2)] := rfl

/-! ## debounced_sorted_prefix -/

/-- items `inner` produced, in order (its accepted `prod` actions) -/
def C29_innerSeq (acts : List (DAct β)) : List β := acts.filterMap DAct.itemOf

/-- The order clause at full strength, as a predicate on a reachable state: before the marker
    is consumed nothing at all has been yielded; afterwards the yielded sequence is the first
    `burst` arrived items sorted by key followed by the remaining arrived items in arrival
    order — so no later item is ever yielded before the sorted burst. -/
def C29_OrderOK (key : β → Nat) (s : Dsp β) : Prop :=
  (s.flushed = false → s.dout = []) ∧
  (s.flushed = true → s.burst ≤ s.arrived.length ∧
    s.dout = sortByKey key (s.arrived.take s.burst) ++ s.arrived.drop s.burst)

def C29_dsp_order_statement (mode : PassMode) : Prop :=
  ∀ (β : Type) (key : β → Nat) (acts : List (DAct β)) (s : Dsp β),
    (Dsp.init mode).exec key acts = some s →
      C29_OrderOK key s ∧ s.arrived <+: C29_innerSeq acts

theorem C29_dsp_inv (mode : PassMode) (key : β → Nat) (acts : List (DAct β)) (s : Dsp β)
    (h : (Dsp.init mode).exec key acts = some s) :
    DInv key s ∧ s.mode = mode ∧ s.produced = C29_innerSeq acts := by
  refine ⟨dexec_inv key (init_dinv key mode) acts h, dexec_mode key acts h, ?_⟩
  have := (dexec_fields key acts h).1
  simpa [Dsp.produced, Dsp.init, Merge.init, C29_innerSeq] using this

/-- Order, for every partially executed schedule, when pass-through is not decided by an
    unrecognised condition and no item has been passed through before the flush. -/
theorem C29_dsp_order_partial (mode : PassMode) (hmode : mode ≠ .unknown) (key : β → Nat)
    (acts : List (DAct β)) (s : Dsp β) (h : (Dsp.init mode).exec key acts = some s)
    (hearly : s.early = false) :
    C29_OrderOK key s ∧ s.arrived <+: C29_innerSeq acts := by
  obtain ⟨hd, hm, hpr⟩ := C29_dsp_inv mode key acts s h
  have ho := hd.cons.order (by rw [hm]; exact hmode) hearly
  refine ⟨⟨fun hf => (ho.1 hf).1, fun hf => ho.2 hf⟩, ?_⟩
  rw [← hpr]; exact arrived_prefix hd

example : ∃ s : Dsp Nat, (Dsp.init .onIsComplete).exec id
      [.prod 5, .batch [0], .resume, .prod 3, .batch [0], .resume, .fire, .mark, .batch [1], .resume, .prod 4, .batch [0]] = some s
    ∧ s.early = false ∧ s.dout = [3, 5, 4] :=
  ⟨_, rfl, rfl, rfl⟩

/-- **Full order clause on the current source** (`Gen.passMode`): for every schedule prefix,
    nothing is yielded before the marker is consumed and afterwards the output is the sorted
    burst followed by the later items in arrival order. -/
theorem C29_dsp_order : C29_dsp_order_statement Gen.passMode := by
  intro β key acts s h
  obtain ⟨hd, hm, _⟩ := C29_dsp_inv Gen.passMode key acts s h
  have hmc : s.mode = .onMarkerConsumed := by rw [hm]; rfl
  exact C29_dsp_order_partial Gen.passMode (by decide) key acts s h (hd.cons.earlyMode hmc)

example : ∃ s : Dsp Nat, (Dsp.init Gen.passMode).exec id
      [.prod 5, .batch [0], .resume, .prod 3, .batch [0], .resume, .fire, .prod 4, .batch [0], .resume,
       .mark, .batch [1], .resume, .dfin, .prod 9, .batch [0, 1]] = some s
    ∧ s.flushed = true ∧ s.burst = 3 ∧ s.dout = [3, 4, 5, 9] :=
  ⟨_, rfl, rfl, rfl, rfl⟩

/-- The code before the repair (pass-through decided by `debouncer.is_complete`) violates the
    order clause (finding F27): the timer fires, and an item processed before the marker is
    consumed is yielded although the buffered burst `[5]` has not been flushed. -/
theorem C29_dsp_order_refuted_onIsComplete : ¬ C29_dsp_order_statement .onIsComplete := by
  intro hst
  have h := hst Nat id [.prod 5, .batch [0], .resume, .fire, .prod 4, .batch [0]] _ rfl
  have := h.1.1 rfl
  revert this
  decide

/-- Every item exactly once (both recognised pass-through conditions): at any time the yielded
    and buffered items together are a permutation of the arrived items, which are a prefix of
    what `inner` produced; on normal completion the output is a permutation of `inner`'s whole
    sequence. -/
theorem C29_dsp_exactly_once (mode : PassMode) (hmode : mode ≠ .unknown) (key : β → Nat)
    (acts : List (DAct β)) (s : Dsp β) (h : (Dsp.init mode).exec key acts = some s) :
    (s.dout ++ s.buffer).Perm s.arrived ∧ s.arrived <+: C29_innerSeq acts
    ∧ (s.m.phase = .finished none → s.buffer = [] ∧ s.dout.Perm (C29_innerSeq acts)) := by
  obtain ⟨hd, hm, hpr⟩ := C29_dsp_inv mode key acts s h
  refine ⟨hd.cons.perm, by rw [← hpr]; exact arrived_prefix hd, ?_⟩
  intro hp
  obtain ⟨hfl, harr⟩ := dsp_complete hd hp rfl (by decide)
  have hb := hd.cons.flushBuf (by rw [hm]; exact hmode) hfl
  refine ⟨hb, ?_⟩
  have := hd.cons.perm
  rw [hb, List.append_nil] at this
  rw [← hpr, ← harr]
  exact this

/-- On normal completion with the current source: the output is `inner`'s first `k` items
    sorted by key (stably) followed by the rest in arrival order, for some `k`. -/
theorem C29_dsp_final (key : β → Nat) (acts : List (DAct β)) (s : Dsp β)
    (h : (Dsp.init Gen.passMode).exec key acts = some s) (hp : s.m.phase = .finished none) :
    ∃ k, k ≤ (C29_innerSeq acts).length ∧
      s.dout = sortByKey key ((C29_innerSeq acts).take k) ++ (C29_innerSeq acts).drop k := by
  obtain ⟨hd, _, hpr⟩ := C29_dsp_inv Gen.passMode key acts s h
  obtain ⟨hfl, harr⟩ := dsp_complete hd hp rfl (by decide)
  have ho := (C29_dsp_order β key acts s h).1.2 hfl
  rw [harr, hpr] at ho
  exact ⟨s.burst, ho.1, ho.2⟩

example : ∃ s : Dsp Nat, (Dsp.init Gen.passMode).exec id
      [.prod 5, .batch [0], .resume, .prod 3, .batch [0], .resume, .fire, .prod 4, .batch [0], .resume,
       .mark, .batch [1], .resume, .dfin, .prod 9, .batch [0, 1], .resume, .fin, .batch [0]] = some s
    ∧ s.m.phase = .finished none ∧ s.dout = [3, 4, 5, 9] ∧ C29_innerSeq
      ([.prod 5, .batch [0], .resume, .prod 3, .batch [0], .resume, .fire, .prod 4, .batch [0], .resume,
       .mark, .batch [1], .resume, .dfin, .prod 9, .batch [0, 1], .resume, .fin, .batch [0]] : List (DAct Nat)) = [5, 3, 4, 9] :=
  ⟨_, rfl, rfl, rfl, rfl⟩

/-- An error of `inner` is what `debounced_sorted_prefix` raises. -/
theorem C29_dsp_error (mode : PassMode) (key : β → Nat) (acts : List (DAct β)) (s : Dsp β)
    (h : (Dsp.init mode).exec key acts = some s) (e : Nat) (hp : s.m.phase = .finished (some e)) :
    e ∈ acts.filterMap DAct.errOf := by
  obtain ⟨hd, _, _⟩ := C29_dsp_inv mode key acts s h
  have he := (dexec_fields key acts h).2
  have hx := hd.env.minv.finExc _ hp
  obtain ⟨i, hi⟩ := hd.env.minv.core.excIn e hx.symm
  have : e ∈ s.m.errs.map Prod.snd := List.mem_map.mpr ⟨(i, e), hi, rfl⟩
  rw [he] at this
  simpa [Dsp.init, Merge.init] using this

example : ∃ s : Dsp Nat, (Dsp.init Gen.passMode).exec id [.prod 5, .batch [0], .resume, .err 42, .batch [0]] = some s
    ∧ s.m.phase = .finished (some 42) ∧ s.dout = [] :=
  ⟨_, rfl, rfl, rfl⟩

/-! ## Debouncer: when the debounce window closes

`WfModel/IterDebounce.lean`: explicit monotone clock; actions `extend t` (`extend_window()` at clock
value `t`) and `loop t` (one iteration of `_loop`, not before it is due).  The theorems quantify over
all action lists, i.e. over all timings of the items relative to the window and all (late) resumptions
of the `_loop` task.  In `debounced_sorted_prefix` the `extend` actions are exactly the items taken into
the buffer (`C29_source_buffering_holds_back`) and `complete_signal.set()` is the `fire` action of `Dsp`. -/

/-- clock values of the `extend_window` calls of an action list, in order -/
def C29_extTimes (acts : List DebAct) : List Int := acts.filterMap DebAct.extOf

/-- What the current source says about the timer (re-extracted on every run): `_loop` is
    `while not signal.is_set(): now = get_time(); r = min(complete_time, max_complete_time) - now;
    if r <= 0: signal.set() else: await sleep(r)`; `extend_window` is `complete_time = get_time() +
    debounce_seconds`; `__init__` sets `complete_time = start + debounce`, `max_complete_time = start +
    max_window` and starts one `_loop` task; `debounced_sorted_prefix` builds the `Debouncer` from its own two
    parameters, whose defaults are equal (so by `C29_deb_window_fixed_when_debounce_ge_max` the default
    window is a fixed `max_window_seconds` after the start, however the items are spaced). -/
theorem C29_source_debouncer_shape :
    Gen.debFireLE = true ∧ Gen.debLoopShape = true ∧ Gen.debExtendFromNow = true ∧ Gen.debInitShape = true
    ∧ Gen.dspDebouncerArgs = true ∧ Gen.dspDefaultsKnown = true
    ∧ 0 ≤ Gen.dspDefaultMaxWindowMs ∧ Gen.dspDefaultMaxWindowMs ≤ Gen.dspDefaultDebounceMs
    ∧ 0 ≤ Gen.debDefaultDebounceMs ∧ 0 ≤ Gen.debDefaultMaxWindowMs := by decide

/-- **The window never closes early.**  For every history: while the signal is not set the ghost list
    `exts` is the list of all `extend_window` calls so far; and when the signal is set at clock value `t`,
    then for the start and for EVERY `extend_window` call `u` made before, `t` is at least
    `min (u + debounce) (start + max_window)`: an item taken into the buffer keeps the window open for a
    full quiet period unless the max window ends first. -/
theorem C29_deb_not_before_quiet (d w start : Int) (acts : List DebAct) (s : Deb)
    (h : (Deb.init d w start).exec acts = some s) :
    (s.fired = none → s.exts = (C29_extTimes acts).reverse)
    ∧ ∀ t, s.fired = some t → start ≤ t ∧ ∀ u ∈ start :: s.exts, min (u + d) (start + w) ≤ t := by
  have hi := deb_exec_inv (deb_init_inv d w start) acts h
  obtain ⟨hd, hw, hs, hm⟩ := deb_exec_params acts h
  simp only [Deb.init] at hd hw hs hm
  refine ⟨fun hn => by simpa [Deb.init, C29_extTimes] using (deb_exec_exts acts h hn).2, ?_⟩
  intro t ht
  obtain ⟨hlo, hst⟩ := hi.fireLo t ht
  have h4 := hi.startTouch
  refine ⟨by omega, ?_⟩
  intro u hu
  have hu' : u ≤ s.lastTouch := by
    rcases List.mem_cons.mp hu with rfl | hu
    · omega
    · exact hi.extsLe u hu
  omega

example : ∃ s : Deb, (Deb.init 4 8 0).exec [.loop 0, .extend 1, .extend 3, .loop 4, .loop 7, .extend 9] = some s
    ∧ s.fired = some 7 ∧ s.exts = [3, 1] ∧ s.wakes = 3 :=
  ⟨_, rfl, rfl, rfl, rfl⟩

/-- **... and closes on time.**  When the signal is set at `t`: `t` is at most
    `max start (min (lastTouch + debounce) (start + max_window))` plus the largest lateness with which the
    event loop resumed the `_loop` task, hence at most `start + max_window` plus that lateness; with
    punctual resumption (`late = 0`, the virtual-time loop of the check) `t` is exactly that value.
    While the signal is not set the `_loop` task is never asleep beyond the max window. -/
theorem C29_deb_fire_time (d w start : Int) (acts : List DebAct) (s : Deb)
    (h : (Deb.init d w start).exec acts = some s) :
    0 ≤ s.late
    ∧ (s.fired = none → s.wakeAt ≤ max start (start + w))
    ∧ ∀ t, s.fired = some t →
        min (s.lastTouch + d) (start + w) ≤ t
        ∧ t ≤ max start (min (s.lastTouch + d) (start + w)) + s.late
        ∧ t ≤ max start (start + w) + s.late
        ∧ (s.late = 0 → t = max start (min (s.lastTouch + d) (start + w))) := by
  have hi := deb_exec_inv (deb_init_inv d w start) acts h
  obtain ⟨hd, hw, hs, hm⟩ := deb_exec_params acts h
  simp only [Deb.init] at hd hw hs hm
  refine ⟨hi.late0, fun hn => ?_, ?_⟩
  · have := hi.wake hn; omega
  · intro t ht
    obtain ⟨hlo, hst⟩ := hi.fireLo t ht
    have hhi := hi.fireHi t ht
    have := hi.late0
    refine ⟨by omega, by omega, by omega, fun h0 => by omega⟩

example : ∃ s : Deb, (Deb.init 4 8 0).exec [.loop 0, .extend 3, .loop 4, .extend 6, .loop 7, .loop 8] = some s
    ∧ s.fired = some 8 ∧ s.late = 0 ∧ s.lastTouch = 6 :=
  ⟨_, rfl, rfl, rfl, rfl⟩

/-- **The timer loop does not spin and is never stuck.**  Counting: in every history the number of
    iterations of `_loop` is at most the number of `extend_window` calls made before the signal was set,
    plus two (every iteration after the first that goes back to sleep is paid for by an `extend_window`
    since the previous one).  Progress: while the signal is not set, the iteration is enabled at every
    clock value from its due time on, sets the signal iff the quiet period or the max window is over at
    that clock value, and otherwise sleeps exactly until then. -/
theorem C29_deb_loop_never_spins (d w start : Int) (acts : List DebAct) (s : Deb)
    (h : (Deb.init d w start).exec acts = some s) :
    s.wakes ≤ s.exts.length + 2
    ∧ (s.fired = none → ∀ t, s.now ≤ t → s.wakeAt ≤ t →
        ∃ s', s.step (.loop t) = some s'
          ∧ (min s.complete (start + w) ≤ t → s'.fired = some t)
          ∧ (t < min s.complete (start + w) → s'.fired = none ∧ s'.wakeAt = min s.complete (start + w))) := by
  have hi := deb_exec_inv (deb_init_inv d w start) acts h
  obtain ⟨hd, hw, hs, hm⟩ := deb_exec_params acts h
  simp only [Deb.init] at hd hw hs hm
  constructor
  · cases hf : s.fired with
    | some t => exact hi.cntFired (by simp [hf])
    | none =>
      by_cases hq : s.wakeAt = min s.complete s.maxc
      · have := hi.cntStale hf hq; omega
      · have := hi.cntFresh hf hq; omega
  · intro hf t hn hwk
    have := deb_loop_enabled s hf t hn hwk
    rw [hm] at this
    exact this

example : ∃ s : Deb, (Deb.init 4 100 0).exec [.loop 0, .extend 1, .loop 4, .extend 5, .loop 5, .loop 9] = some s
    ∧ s.fired = some 9 ∧ s.wakes = 4 ∧ s.exts.length = 2 :=
  ⟨_, rfl, rfl, rfl, rfl⟩

/-- When `debounce_seconds >= max_window_seconds >= 0` (the defaults of `debounced_sorted_prefix`:
    `C29_source_debouncer_shape`) the spacing of the items is irrelevant: the window closes
    `max_window_seconds` after the start, up to the lateness of the `_loop` task. -/
theorem C29_deb_window_fixed_when_debounce_ge_max (d w start : Int) (hw0 : 0 ≤ w) (hwd : w ≤ d)
    (acts : List DebAct) (s : Deb) (h : (Deb.init d w start).exec acts = some s) (t : Int)
    (ht : s.fired = some t) : start + w ≤ t ∧ t ≤ start + w + s.late := by
  have hi := deb_exec_inv (deb_init_inv d w start) acts h
  obtain ⟨hd, hw, hs, hm⟩ := deb_exec_params acts h
  simp only [Deb.init] at hd hw hs hm
  obtain ⟨hlo, _⟩ := hi.fireLo t ht
  have hhi := hi.fireHi t ht
  have := hi.startTouch
  constructor <;> omega

example : ∃ s : Deb, (Deb.init Gen.dspDefaultDebounceMs Gen.dspDefaultMaxWindowMs 0).exec
      [.loop 0, .extend 30, .extend 90, .loop 100] = some s ∧ s.fired = some 100 :=
  ⟨_, rfl, rfl⟩
