import WfProofs.Migrate
/-! C28, whole-run facts for ARBITRARY sources and ARBITRARY databases (no well-formedness): the outcome of a
run, succeeded or failed, as a refinement of "some scripts were applied in order and exactly those were
recorded"; the primary key of `schema_migrations` is never hit; a failed run is a fixed point. -/
namespace Migrate

/-- the database a run leaves behind, whether it returned or raised -/
def Result.db : Result → Db
  | .ok d => d
  | .failed _ d => d

/-- scripts applied by a run, with the package they were recorded under -/
abbrev C28Trace := List (String × Migration)

def c28TraceRows (L : C28Trace) : List (String × Nat) := L.map fun e => (e.1, e.2.version)

theorem c28TraceRows_append (a b : C28Trace) : c28TraceRows (a ++ b) = c28TraceRows a ++ c28TraceRows b := by
  simp [c28TraceRows]

theorem c28_foldMigs_append_some {s s1 s2 : Schema} {a b : List Migration}
    (ha : foldMigs s a = some s1) (hb : foldMigs s1 b = some s2) : foldMigs s (a ++ b) = some s2 := by
  rw [foldMigs_append, ha]
  simpa using hb

/-! ### one source -/

/-- the loop's `applied` set is the set of versions recorded for the package -/
def C28AppliedOk (p : String) (applied : List Nat) (db : Db) : Prop := ∀ v, v ∈ applied ↔ (p, v) ∈ db.rows

theorem c28AppliedOk_start (p : String) (db : Db) : C28AppliedOk p (appliedOf p db.rows) db :=
  fun _ => mem_appliedOf

theorem c28AppliedOk_step {p : String} {applied : List Nat} {db : Db} (h : C28AppliedOk p applied db) (v : Nat)
    (s : Schema) : C28AppliedOk p (v :: applied) { db with schema := s, rows := db.rows ++ [(p, v)] } := by
  intro w
  have := h w
  simp only [List.mem_cons, List.mem_append, Prod.mk.injEq, true_and, List.not_mem_nil, or_false]
  rw [this]
  exact Or.comm

/-- **Refinement of the apply loop**, any list, any `applied`, any database, success or failure: the scripts
that ran are a sublist `sub` of the files, none of them had a recorded or zero version, the rows grew by exactly
`(p, version)` of `sub` in order, the schema is `sub` folded over the old schema, nothing else changed. -/
theorem c28_runFiles_trace (p : String) (ms : List Migration) (applied : List Nat) (db : Db) :
    ∃ sub : List Migration, sub.Sublist ms ∧
      (runFiles p ms applied db).db.rows = db.rows ++ rowsOf p sub ∧
      foldMigs db.schema sub = some (runFiles p ms applied db).db.schema ∧
      (runFiles p ms applied db).db.hasSM = db.hasSM ∧
      (runFiles p ms applied db).db.userVersion = db.userVersion ∧
      (∀ m ∈ sub, m.version ≠ 0 ∧ m.version ∉ applied) ∧
      (versions sub).Nodup := by
  induction ms generalizing applied db with
  | nil => exact ⟨[], List.Sublist.refl _, by simp [runFiles, Result.db, rowsOf], rfl, rfl, rfl, by simp, by simp [versions]⟩
  | cons m ms ih =>
    simp only [runFiles]
    split
    · obtain ⟨sub, h1, h2⟩ := ih applied db
      exact ⟨sub, h1.cons _, h2⟩
    · rename_i hc
      have hc' : m.version ∉ applied ∧ m.version ≠ 0 := by
        simp only [Bool.or_eq_true, List.contains_iff_mem, beq_iff_eq, not_or] at hc
        exact hc
      split
      · exact ⟨[], List.nil_sublist _, by simp [Result.db, rowsOf], rfl, rfl, rfl, by simp, by simp [versions]⟩
      · rename_i s hs
        obtain ⟨sub, h1, h2, h3, h4, h5, h6, h7⟩ :=
          ih (m.version :: applied) { db with schema := s, rows := db.rows ++ [(p, m.version)] }
        refine ⟨m :: sub, h1.cons_cons _, ?_, ?_, h4, h5, ?_, ?_⟩
        · rw [h2]; simp [rowsOf]
        · simp only [foldMigs, hs]; exact h3
        · intro m' hm'
          rcases List.mem_cons.mp hm' with rfl | hm'
          · exact ⟨hc'.2, hc'.1⟩
          · have := h6 m' hm'
            exact ⟨this.1, fun hx => this.2 (List.mem_cons_of_mem _ hx)⟩
        · simp only [versions, List.map_cons, List.nodup_cons]
          refine ⟨?_, h7⟩
          intro hx
          obtain ⟨m', hm', hv⟩ := List.mem_map.mp hx
          exact (h6 m' hm').2 (by rw [hv]; exact List.mem_cons_self ..)

theorem c28_runFiles_mono (p : String) (ms : List Migration) (applied : List Nat) (db : Db) :
    (∀ r ∈ db.rows, r ∈ (runFiles p ms applied db).db.rows) ∧ (runFiles p ms applied db).db.hasSM = db.hasSM := by
  obtain ⟨sub, _, h2, _, h4, _⟩ := c28_runFiles_trace p ms applied db
  exact ⟨fun r hr => by rw [h2]; exact List.mem_append_left _ hr, h4⟩

/-- the INSERT of the loop never meets an existing `(package, version)` key -/
theorem c28_runFiles_nodup (p : String) (ms : List Migration) (applied : List Nat) (db : Db)
    (hap : ∀ v, (p, v) ∈ db.rows → v ∈ applied) (hnd : db.rows.Nodup) :
    (runFiles p ms applied db).db.rows.Nodup := by
  obtain ⟨sub, _, h2, _, _, _, h6, h7⟩ := c28_runFiles_trace p ms applied db
  rw [h2, List.nodup_append]
  refine ⟨hnd, ?_, ?_⟩
  · have : rowsOf p sub = (versions sub).map fun v => (p, v) := by simp [rowsOf, versions]
    rw [this]
    exact List.Pairwise.map _ (fun a b h hc => h (by simpa using hc)) h7
  · intro a ha b hb hab
    subst hab
    obtain ⟨m, hm, rfl⟩ := List.mem_map.mp hb
    exact (h6 m hm).2 (hap _ ha)

/-- **A failed pass, in full**: the file named in the error is in the list, its version is neither zero nor
recorded afterwards, its script is rejected by the schema the pass leaves, every file before it is recorded
(or has version zero) afterwards. -/
theorem c28_runFiles_failed_spec (p : String) (ms : List Migration) (applied : List Nat) (db db' : Db) (f : String)
    (hap : C28AppliedOk p applied db) (h : runFiles p ms applied db = .failed f db') :
    ∃ pre m post, ms = pre ++ m :: post ∧ m.name = f ∧ m.version ≠ 0 ∧ (p, m.version) ∉ db'.rows ∧
      applyStmts db'.schema m.stmts = none ∧ (∀ m' ∈ pre, m'.version = 0 ∨ (p, m'.version) ∈ db'.rows) := by
  induction ms generalizing applied db with
  | nil => simp [runFiles] at h
  | cons m ms ih =>
    simp only [runFiles] at h
    split at h
    · rename_i hc
      obtain ⟨pre, m1, post, e1, e2, e3, e4, e5, e6⟩ := ih applied db hap h
      refine ⟨m :: pre, m1, post, by rw [e1]; rfl, e2, e3, e4, e5, ?_⟩
      intro m' hm'
      rcases List.mem_cons.mp hm' with rfl | hm'
      · simp only [Bool.or_eq_true, List.contains_iff_mem, beq_iff_eq] at hc
        rcases hc with hc | hc
        · have := (c28_runFiles_mono p ms applied db).1 _ ((hap _).mp hc)
          rw [h] at this
          exact .inr this
        · exact .inl hc
      · exact e6 m' hm'
    · rename_i hc
      simp only [Bool.or_eq_true, List.contains_iff_mem, beq_iff_eq, not_or] at hc
      split at h
      · rename_i hs
        simp only [Result.failed.injEq] at h
        obtain ⟨rfl, rfl⟩ := h
        exact ⟨[], m, ms, rfl, rfl, hc.2, fun hx => hc.1 ((hap _).mpr hx), hs, by simp⟩
      · rename_i s hs
        have hap' := c28AppliedOk_step hap m.version s
        obtain ⟨pre, m1, post, e1, e2, e3, e4, e5, e6⟩ := ih _ _ hap' h
        refine ⟨m :: pre, m1, post, by rw [e1]; rfl, e2, e3, e4, e5, ?_⟩
        intro m' hm'
        rcases List.mem_cons.mp hm' with rfl | hm'
        · have := (c28_runFiles_mono p ms (m'.version :: applied)
            { db with schema := s, rows := db.rows ++ [(p, m'.version)] }).1 (p, m'.version) (by simp)
          rw [h] at this
          exact .inr this
        · exact e6 m' hm'

/-- the same pass started again on what the failed pass left fails at the same file and changes nothing -/
theorem c28_runFiles_failed_repeat (p : String) (ms : List Migration) (db db' : Db) (f : String)
    (h : runFiles p ms (appliedOf p db.rows) db = .failed f db') :
    runFiles p ms (appliedOf p db'.rows) db' = .failed f db' := by
  obtain ⟨pre, m, post, e1, e2, e3, e4, e5, e6⟩ :=
    c28_runFiles_failed_spec p ms _ db db' f (c28AppliedOk_start p db) h
  rw [e1, runFiles_skip p pre (m :: post) _ db' (fun m' hm' => by
    rcases e6 m' hm' with h0 | hr
    · exact .inr h0
    · exact .inl (mem_appliedOf.mpr hr))]
  have hc : ((appliedOf p db'.rows).contains m.version || m.version == 0) = false := by
    simp only [Bool.or_eq_false_iff, List.contains_eq_mem, decide_eq_false_iff_not, beq_eq_false_iff_ne, ne_eq]
    exact ⟨fun hx => e4 (mem_appliedOf.mp hx), e3⟩
  simp only [runFiles, hc, e5, e2, Bool.false_eq_true, if_false]

/-! ### all sources -/

theorem c28_runSources_trace (srcs : List (String × List Migration)) (db : Db) :
    ∃ L : C28Trace, (runSources srcs db).db.rows = db.rows ++ c28TraceRows L ∧
      foldMigs db.schema (L.map (·.2)) = some (runSources srcs db).db.schema ∧
      (runSources srcs db).db.hasSM = db.hasSM ∧ (runSources srcs db).db.userVersion = db.userVersion ∧
      (∀ e ∈ L, ∃ s ∈ srcs, s.1 = e.1 ∧ e.2 ∈ s.2 ∧ e.2.version ≠ 0) := by
  induction srcs generalizing db with
  | nil => exact ⟨[], by simp [runSources, Result.db, c28TraceRows], rfl, rfl, rfl, by simp⟩
  | cons src rest ih =>
    obtain ⟨p, ms⟩ := src
    obtain ⟨sub, hs1, hs2, hs3, hs4, hs5, hs6, _⟩ := c28_runFiles_trace p ms (appliedOf p db.rows) db
    have hmem : ∀ e ∈ sub.map (fun m => (p, m)), ∃ s ∈ (p, ms) :: rest, s.1 = e.1 ∧ e.2 ∈ s.2 ∧ e.2.version ≠ 0 := by
      intro e he
      obtain ⟨m, hm, rfl⟩ := List.mem_map.mp he
      exact ⟨(p, ms), List.mem_cons_self .., rfl, hs1.subset hm, (hs6 m hm).1⟩
    have hrows : c28TraceRows (sub.map fun m => (p, m)) = rowsOf p sub := by simp [c28TraceRows, rowsOf]
    have hmap : (sub.map fun m => (p, m)).map (·.2) = sub := by simp [Function.comp_def]
    simp only [runSources]
    cases h1 : runFiles p ms (appliedOf p db.rows) db with
    | failed f d =>
      rw [h1] at hs2 hs3 hs4 hs5
      exact ⟨sub.map fun m => (p, m), by rw [hrows]; exact hs2, by rw [hmap]; exact hs3, hs4, hs5, hmem⟩
    | ok db1 =>
      rw [h1] at hs2 hs3 hs4 hs5
      simp only [Result.db] at hs2 hs3 hs4 hs5
      obtain ⟨L, g1, g2, g3, g4, g5⟩ := ih db1
      refine ⟨(sub.map fun m => (p, m)) ++ L, ?_, ?_, by rw [g3, hs4], by rw [g4, hs5], ?_⟩
      · rw [g1, hs2, c28TraceRows_append, hrows, List.append_assoc]
      · rw [List.map_append, hmap]
        exact c28_foldMigs_append_some hs3 g2
      · intro e he
        rcases List.mem_append.mp he with he | he
        · exact hmem e he
        · obtain ⟨s, hs, hh⟩ := g5 e he
          exact ⟨s, List.mem_cons_of_mem _ hs, hh⟩

theorem c28_runSources_mono (srcs : List (String × List Migration)) (db : Db) :
    (∀ r ∈ db.rows, r ∈ (runSources srcs db).db.rows) ∧ (runSources srcs db).db.hasSM = db.hasSM := by
  obtain ⟨L, h1, _, h3, _⟩ := c28_runSources_trace srcs db
  exact ⟨fun r hr => by rw [h1]; exact List.mem_append_left _ hr, h3⟩

theorem c28_runSources_nodup (srcs : List (String × List Migration)) (db : Db) (hnd : db.rows.Nodup) :
    (runSources srcs db).db.rows.Nodup := by
  induction srcs generalizing db with
  | nil => simpa [runSources, Result.db] using hnd
  | cons src rest ih =>
    obtain ⟨p, ms⟩ := src
    have h := c28_runFiles_nodup p ms (appliedOf p db.rows) db (fun v hv => mem_appliedOf.mpr hv) hnd
    simp only [runSources]
    cases h1 : runFiles p ms (appliedOf p db.rows) db with
    | failed f d => rw [h1] at h; exact h
    | ok db1 => rw [h1] at h; exact ih db1 h

/-- a successful run has recorded every non-zero version of every source -/
theorem c28_runSources_records (srcs : List (String × List Migration)) (db db' : Db)
    (h : runSources srcs db = .ok db') :
    ∀ s ∈ srcs, ∀ m ∈ s.2, m.version = 0 ∨ (s.1, m.version) ∈ db'.rows := by
  induction srcs generalizing db with
  | nil => intro s hs; cases hs
  | cons src rest ih =>
    obtain ⟨p, ms⟩ := src
    simp only [runSources] at h
    cases h1 : runFiles p ms (appliedOf p db.rows) db with
    | failed f d => simp [h1] at h
    | ok db1 =>
      simp only [h1] at h
      intro s hs m hm
      rcases List.mem_cons.mp hs with rfl | hs
      · rcases runFiles_records p ms _ db db1 (fun v hv => mem_appliedOf.mp hv) h1 m hm with h0 | hr
        · exact .inl h0
        · exact .inr ((runSources_rows_mono rest db1 db' h).1 _ hr)
      · exact ih db1 h s hs m hm

/-- a failed run is a fixed point: the next run skips what was recorded, reaches the same file with the same
schema and raises the same error, leaving the database as it is -/
theorem c28_runSources_failed_repeat (srcs : List (String × List Migration)) (db db' : Db) (f : String)
    (h : runSources srcs db = .failed f db') : runSources srcs db' = .failed f db' := by
  induction srcs generalizing db with
  | nil => simp [runSources] at h
  | cons src rest ih =>
    obtain ⟨p, ms⟩ := src
    simp only [runSources] at h ⊢
    cases h1 : runFiles p ms (appliedOf p db.rows) db with
    | failed f1 d1 =>
      simp only [h1, Result.failed.injEq] at h
      obtain ⟨rfl, rfl⟩ := h
      rw [c28_runFiles_failed_repeat p ms db d1 f1 h1]
    | ok db1 =>
      simp only [h1] at h
      have hrec := runFiles_records p ms _ db db1 (fun v hv => mem_appliedOf.mp hv) h1
      have hmono := (c28_runSources_mono rest db1).1
      rw [h] at hmono
      simp only [Result.db] at hmono
      rw [runFiles_noop p ms db' (fun m hm => by
        rcases hrec m hm with h0 | hr
        · exact .inl h0
        · exact .inr (hmono _ hr))]
      exact ih db1 h

/-- the file named by a failed run: it belongs to one of the sources, its version is not zero and not recorded in
what the run leaves, and its script is rejected by the schema the run leaves -/
theorem c28_runSources_failed_spec (srcs : List (String × List Migration)) (db db' : Db) (f : String)
    (h : runSources srcs db = .failed f db') :
    ∃ s ∈ srcs, ∃ m ∈ s.2, m.name = f ∧ m.version ≠ 0 ∧ (s.1, m.version) ∉ db'.rows ∧
      applyStmts db'.schema m.stmts = none := by
  induction srcs generalizing db with
  | nil => simp [runSources] at h
  | cons src rest ih =>
    obtain ⟨p, ms⟩ := src
    simp only [runSources] at h
    cases h1 : runFiles p ms (appliedOf p db.rows) db with
    | failed f1 d1 =>
      simp only [h1, Result.failed.injEq] at h
      obtain ⟨rfl, rfl⟩ := h
      obtain ⟨pre, m, post, e1, e2, e3, e4, e5, _⟩ :=
        c28_runFiles_failed_spec p ms _ db d1 f1 (c28AppliedOk_start p db) h1
      exact ⟨(p, ms), List.mem_cons_self .., m, by rw [e1]; simp, e2, e3, e4, e5⟩
    | ok db1 =>
      simp only [h1] at h
      obtain ⟨s, hs, hh⟩ := ih db1 h
      exact ⟨s, List.mem_cons_of_mem _ hs, hh⟩

theorem c28_appliedOf_foreign (q : String) (rows : List (String × Nat)) (h : ∀ r ∈ rows, r.1 ≠ q) :
    appliedOf q rows = [] := by
  simp only [appliedOf, List.map_eq_nil_iff, List.filter_eq_nil_iff]
  intro r hr
  simpa using h r hr

theorem c28_seedRows_nodup (k : Nat) : (seedRows k).Nodup := by
  unfold seedRows
  exact List.Pairwise.map _ (fun a b h hc => h (by simpa using hc)) (List.nodup_range' (step := 1) (by omega))

theorem c28_bootstrap_nodup (db : Db) (hnd : db.hasSM = true → db.rows.Nodup) : (bootstrap db).rows.Nodup := by
  unfold bootstrap
  split
  · rename_i h; exact hnd h
  · simp only
    split
    · exact c28_seedRows_nodup _
    · exact List.nodup_nil

end Migrate
