"""In-memory stand-in for the `dbos` package (absent from the sandbox; cannot be installed).

`install()` puts this directory on `sys.path` so that `import dbos` resolves to
`harness/dbos_standin/dbos/`.  Only the names `llama_agents.dbos.*` imports exist; their
semantics are the *documented* DBOS semantics the repo code relies on, kept minimal
(see `dbos/_dbos.py` docstring).  Everything here is TRUSTED, not verified: it is what
C27 assumes of DBOS, written down as executable code.
"""
from __future__ import annotations

import os
import sys

HERE = os.path.dirname(os.path.abspath(__file__))

STUBBED_NAMES = [
    "dbos.DBOS(config=) / DBOS.launch / DBOS.destroy / DBOS.workflow_id",
    "dbos.DBOS.workflow(name=) / DBOS.step(name=) (sync + async functions)",
    "dbos.DBOS.start_workflow_async / retrieve_workflow_async / delete_workflow_async",
    "dbos.DBOS.send / send_async / recv_async",
    "dbos.DBOS.write_stream_async / read_stream_async",
    "dbos.SetWorkflowID, dbos.WorkflowHandleAsync(.get_result/.get_status/.workflow_id)",
    "dbos._context.get_local_dbos_context (.function_id, .workflow_id)",
    "dbos._dbos._get_dbos_instance (._sys_db.engine, ._app_db, ._config)",
    "dbos._error.DBOSNonExistentWorkflowError / DBOSUnexpectedStepError",
]


def install() -> None:
    if HERE not in sys.path:
        sys.path.insert(0, HERE)
