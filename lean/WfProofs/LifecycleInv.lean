import WfModel.Lifecycle
/-!
M7 (A), invariants that hold for every schedule: the active set agrees with the runtime
registry, the lock holder's view of `active`, loop counters, error branches, clocks.
-/
set_option linter.unusedVariables false
set_option linter.unusedSimpArgs false
namespace Lifecycle

/-- the lock holder saw the run active at acquisition, or has made it active -/
def Hold.sawActive : Hold → Bool
  | .sClear _ | .sRClear _ | .sDeliver _ => true
  | _ => false

/-- the lock holder saw the run released at acquisition and has not yet restarted it -/
def Hold.reloading : Hold → Bool
  | .sQuery _ | .sLog _ | .sStart _ _ => true
  | _ => false

structure Inv (s : S) : Prop where
  act : s.active = s.cur.isSome
  hAct : ∀ h, s.lock = some h → h.sawActive = true → s.active = true
  hInact : ∀ h, s.lock = some h → h.reloading = true → s.active = false
  count : s.started = s.aborted + (if s.cur.isSome then 1 else 0)
  errs : s.errs = 0
  idleLe : ∀ t, s.idleSince = some t → t ≤ s.now ∧ s.lastMark = some t
  markLe : ∀ m, s.lastMark = some m → m ≤ s.now
  seenLe : ∀ j t, s.lock = some (.tDecide j (some t)) → t ≤ s.now
  rel : ∀ r ∈ s.releases, r.2 + s.tau ≤ r.1 ∧ r.1 ≤ s.now

theorem Inv.init (tau : Nat) : Inv (init tau) := by
  constructor <;> simp [Lifecycle.init]

macro "destruct_step" h:ident : tactic =>
  `(tactic| (simp only [Lifecycle.step] at $h:ident
             repeat' (split at $h:ident)
             all_goals (first | (cases $h:ident; done) | (simp only [Option.some.injEq] at $h:ident; subst $h:ident))))

/-! projections of `release` -/
@[simp] theorem release_active (s : S) (t : Nat) : (release s t).active = false := by unfold release; cases s.cur <;> rfl
@[simp] theorem release_cur (s : S) (t : Nat) : (release s t).cur = none := by
  unfold release; cases h : s.cur <;> simp [h]
@[simp] theorem release_tau (s : S) (t : Nat) : (release s t).tau = s.tau := by unfold release; cases s.cur <;> rfl
@[simp] theorem release_now (s : S) (t : Nat) : (release s t).now = s.now := by unfold release; cases s.cur <;> rfl
@[simp] theorem release_lock (s : S) (t : Nat) : (release s t).lock = s.lock := by unfold release; cases s.cur <;> rfl
@[simp] theorem release_idleSince (s : S) (t : Nat) : (release s t).idleSince = s.idleSince := by unfold release; cases s.cur <;> rfl
@[simp] theorem release_lastMark (s : S) (t : Nat) : (release s t).lastMark = s.lastMark := by unfold release; cases s.cur <;> rfl
@[simp] theorem release_errs (s : S) (t : Nat) : (release s t).errs = s.errs := by unfold release; cases s.cur <;> rfl
@[simp] theorem release_started (s : S) (t : Nat) : (release s t).started = s.started := by unfold release; cases s.cur <;> rfl
@[simp] theorem release_log (s : S) (t : Nat) : (release s t).log = s.log := by unfold release; cases s.cur <;> rfl
@[simp] theorem release_work (s : S) (t : Nat) : (release s t).work = s.work := by unfold release; cases s.cur <;> rfl
@[simp] theorem release_sent (s : S) (t : Nat) : (release s t).sent = s.sent := by unfold release; cases s.cur <;> rfl
@[simp] theorem release_senders (s : S) (t : Nat) : (release s t).senders = s.senders := by unfold release; cases s.cur <;> rfl
@[simp] theorem release_timers (s : S) (t : Nat) : (release s t).timers = s.timers := by unfold release; cases s.cur <;> rfl
@[simp] theorem release_releases (s : S) (t : Nat) : (release s t).releases = s.releases ++ [(s.now, t)] := by
  unfold release; cases s.cur <;> rfl
@[simp] theorem release_aborted (s : S) (t : Nat) :
    (release s t).aborted = s.aborted + (if s.cur.isSome then 1 else 0) := by
  unfold release; cases h : s.cur <;> simp [h]
theorem release_lost (s : S) (t : Nat) :
    (release s t).lost = s.lost ++ (match s.cur with | some l => l.buf ++ l.mailbox | none => []) := by
  unfold release; cases h : s.cur <;> simp [h]
theorem release_busy (s : S) (t : Nat) :
    (release s t).busyReleases = s.busyReleases + (if s.cur.isSome && !s.quiet then 1 else 0) := by
  unfold release; cases h : s.cur <;> simp [h]
  cases s.quiet <;> simp
theorem release_early (s : S) (t : Nat) :
    (release s t).earlyReleases = s.earlyReleases +
      (if (match s.lastMark with | some m => decide (s.now < m + s.tau) | none => false) then 1 else 0) := by
  unfold release; cases s.cur <;> rfl

set_option hygiene false in
macro "inv_finish" : tactic =>
  `(tactic| (
    first
    | (simp_all [Hold.sawActive, Hold.reloading, upd_apply]; done)
    | (intros; simp_all [Hold.sawActive, Hold.reloading, upd_apply]; omega)
    | (intro r hr; have hr' := hrel r hr; dsimp only at hr' ⊢; omega)
    | (intro r hr; simp only [release_releases, List.mem_append, List.mem_singleton, release_tau, release_now] at hr ⊢
       rcases hr with hr | hr
       · have hr' := hrel r hr; omega
       · subst hr
         have h2 := hseen _ _ (by assumption)
         simp only [GenLifecycle.elapsedTooShort, decide_eq_true_eq] at *
         dsimp only
         omega)
    | (trace_state; fail)))

theorem Inv.step_advance (s s' : S) (dt : Nat) (h : step s (.advance dt) = some s') (hi : Inv s) : Inv s' := by
  obtain ⟨hact, hA, hI, hcnt, herr, hidle, hmark, hseen, hrel⟩ := hi
  destruct_step h
  all_goals (refine ⟨?_, ?_, ?_, ?_, ?_, ?_, ?_, ?_, ?_⟩)
  all_goals inv_finish

theorem Inv.step_ePut (s s' : S) (t : Nat) (h : step s (.ePut t) = some s') (hi : Inv s) : Inv s' := by
  obtain ⟨hact, hA, hI, hcnt, herr, hidle, hmark, hseen, hrel⟩ := hi
  destruct_step h
  all_goals (refine ⟨?_, ?_, ?_, ?_, ?_, ?_, ?_, ?_, ?_⟩)
  all_goals inv_finish

theorem Inv.step_ePull (s s' : S) (h : step s (.ePull) = some s') (hi : Inv s) : Inv s' := by
  obtain ⟨hact, hA, hI, hcnt, herr, hidle, hmark, hseen, hrel⟩ := hi
  destruct_step h
  all_goals (refine ⟨?_, ?_, ?_, ?_, ?_, ?_, ?_, ?_, ?_⟩)
  all_goals inv_finish

theorem Inv.step_eReduce (s s' : S) (h : step s (.eReduce) = some s') (hi : Inv s) : Inv s' := by
  obtain ⟨hact, hA, hI, hcnt, herr, hidle, hmark, hseen, hrel⟩ := hi
  destruct_step h
  all_goals (refine ⟨?_, ?_, ?_, ?_, ?_, ?_, ?_, ?_, ?_⟩)
  all_goals inv_finish

theorem Inv.step_eDone (s s' : S) (h : step s (.eDone) = some s') (hi : Inv s) : Inv s' := by
  obtain ⟨hact, hA, hI, hcnt, herr, hidle, hmark, hseen, hrel⟩ := hi
  destruct_step h
  all_goals (refine ⟨?_, ?_, ?_, ?_, ?_, ?_, ?_, ?_, ?_⟩)
  all_goals inv_finish

theorem Inv.step_eTimerSet (s s' : S) (h : step s (.eTimerSet) = some s') (hi : Inv s) : Inv s' := by
  obtain ⟨hact, hA, hI, hcnt, herr, hidle, hmark, hseen, hrel⟩ := hi
  destruct_step h
  all_goals (refine ⟨?_, ?_, ?_, ?_, ?_, ?_, ?_, ?_, ?_⟩)
  all_goals inv_finish

theorem Inv.step_eTimerFire (s s' : S) (h : step s (.eTimerFire) = some s') (hi : Inv s) : Inv s' := by
  obtain ⟨hact, hA, hI, hcnt, herr, hidle, hmark, hseen, hrel⟩ := hi
  destruct_step h
  all_goals (refine ⟨?_, ?_, ?_, ?_, ?_, ?_, ?_, ?_, ?_⟩)
  all_goals inv_finish

theorem Inv.step_eMark (s s' : S) (h : step s (.eMark) = some s') (hi : Inv s) : Inv s' := by
  obtain ⟨hact, hA, hI, hcnt, herr, hidle, hmark, hseen, hrel⟩ := hi
  destruct_step h
  all_goals (refine ⟨?_, ?_, ?_, ?_, ?_, ?_, ?_, ?_, ?_⟩)
  all_goals inv_finish

theorem Inv.step_eSpawn (s s' : S) (j : Nat) (h : step s (.eSpawn j) = some s') (hi : Inv s) : Inv s' := by
  obtain ⟨hact, hA, hI, hcnt, herr, hidle, hmark, hseen, hrel⟩ := hi
  destruct_step h
  all_goals (refine ⟨?_, ?_, ?_, ?_, ?_, ?_, ?_, ?_, ?_⟩)
  all_goals inv_finish

theorem Inv.step_sCall (s s' : S) (i : Nat) (h : step s (.sCall i) = some s') (hi : Inv s) : Inv s' := by
  obtain ⟨hact, hA, hI, hcnt, herr, hidle, hmark, hseen, hrel⟩ := hi
  destruct_step h
  all_goals (refine ⟨?_, ?_, ?_, ?_, ?_, ?_, ?_, ?_, ?_⟩)
  all_goals inv_finish

theorem Inv.step_sAcq (s s' : S) (i : Nat) (h : step s (.sAcq i) = some s') (hi : Inv s) : Inv s' := by
  obtain ⟨hact, hA, hI, hcnt, herr, hidle, hmark, hseen, hrel⟩ := hi
  destruct_step h
  all_goals (refine ⟨?_, ?_, ?_, ?_, ?_, ?_, ?_, ?_, ?_⟩)
  all_goals inv_finish

theorem Inv.step_sClear (s s' : S) (i : Nat) (h : step s (.sClear i) = some s') (hi : Inv s) : Inv s' := by
  obtain ⟨hact, hA, hI, hcnt, herr, hidle, hmark, hseen, hrel⟩ := hi
  destruct_step h
  all_goals (refine ⟨?_, ?_, ?_, ?_, ?_, ?_, ?_, ?_, ?_⟩)
  all_goals inv_finish

theorem Inv.step_sQuery (s s' : S) (i : Nat) (h : step s (.sQuery i) = some s') (hi : Inv s) : Inv s' := by
  obtain ⟨hact, hA, hI, hcnt, herr, hidle, hmark, hseen, hrel⟩ := hi
  destruct_step h
  all_goals (refine ⟨?_, ?_, ?_, ?_, ?_, ?_, ?_, ?_, ?_⟩)
  all_goals inv_finish

theorem Inv.step_sLog (s s' : S) (i : Nat) (h : step s (.sLog i) = some s') (hi : Inv s) : Inv s' := by
  obtain ⟨hact, hA, hI, hcnt, herr, hidle, hmark, hseen, hrel⟩ := hi
  destruct_step h
  all_goals (refine ⟨?_, ?_, ?_, ?_, ?_, ?_, ?_, ?_, ?_⟩)
  all_goals inv_finish

theorem Inv.step_sStart (s s' : S) (i : Nat) (h : step s (.sStart i) = some s') (hi : Inv s) : Inv s' := by
  obtain ⟨hact, hA, hI, hcnt, herr, hidle, hmark, hseen, hrel⟩ := hi
  destruct_step h
  all_goals (refine ⟨?_, ?_, ?_, ?_, ?_, ?_, ?_, ?_, ?_⟩)
  all_goals inv_finish

theorem Inv.step_sRClear (s s' : S) (i : Nat) (h : step s (.sRClear i) = some s') (hi : Inv s) : Inv s' := by
  obtain ⟨hact, hA, hI, hcnt, herr, hidle, hmark, hseen, hrel⟩ := hi
  destruct_step h
  all_goals (refine ⟨?_, ?_, ?_, ?_, ?_, ?_, ?_, ?_, ?_⟩)
  all_goals inv_finish

theorem Inv.step_sDeliver (s s' : S) (i : Nat) (h : step s (.sDeliver i) = some s') (hi : Inv s) : Inv s' := by
  obtain ⟨hact, hA, hI, hcnt, herr, hidle, hmark, hseen, hrel⟩ := hi
  destruct_step h
  all_goals (refine ⟨?_, ?_, ?_, ?_, ?_, ?_, ?_, ?_, ?_⟩)
  all_goals inv_finish

theorem Inv.step_tAcq (s s' : S) (j : Nat) (h : step s (.tAcq j) = some s') (hi : Inv s) : Inv s' := by
  obtain ⟨hact, hA, hI, hcnt, herr, hidle, hmark, hseen, hrel⟩ := hi
  destruct_step h
  all_goals (refine ⟨?_, ?_, ?_, ?_, ?_, ?_, ?_, ?_, ?_⟩)
  all_goals inv_finish

theorem Inv.step_tQuery (s s' : S) (j : Nat) (h : step s (.tQuery j) = some s') (hi : Inv s) : Inv s' := by
  obtain ⟨hact, hA, hI, hcnt, herr, hidle, hmark, hseen, hrel⟩ := hi
  destruct_step h
  all_goals (refine ⟨?_, ?_, ?_, ?_, ?_, ?_, ?_, ?_, ?_⟩)
  all_goals inv_finish

theorem Inv.step_tDecide (s s' : S) (j : Nat) (h : step s (.tDecide j) = some s') (hi : Inv s) : Inv s' := by
  obtain ⟨hact, hA, hI, hcnt, herr, hidle, hmark, hseen, hrel⟩ := hi
  destruct_step h
  all_goals (refine ⟨?_, ?_, ?_, ?_, ?_, ?_, ?_, ?_, ?_⟩)
  case h_2.isFalse.isFalse.refine_9 =>
    rename_i x j' hj seen t0 heq h1 h2
    intro r hr
    simp only [release_releases, List.mem_append, List.mem_singleton, release_tau, release_now] at hr ⊢
    rcases hr with hr | hr
    · have hr' := hrel r hr; omega
    · subst hr
      have h3 := hseen _ _ heq
      simp only [GenLifecycle.elapsedTooShort, decide_eq_true_eq] at h1
      dsimp only
      omega
  all_goals inv_finish

theorem Inv.step (s s' : S) (a : Act) (h : step s a = some s') (hi : Inv s) : Inv s' := by
  cases a with
  | advance dt => exact Inv.step_advance s s' dt h hi
  | ePut t => exact Inv.step_ePut s s' t h hi
  | ePull => exact Inv.step_ePull s s' h hi
  | eReduce => exact Inv.step_eReduce s s' h hi
  | eDone => exact Inv.step_eDone s s' h hi
  | eTimerSet => exact Inv.step_eTimerSet s s' h hi
  | eTimerFire => exact Inv.step_eTimerFire s s' h hi
  | eMark => exact Inv.step_eMark s s' h hi
  | eSpawn j => exact Inv.step_eSpawn s s' j h hi
  | sCall i => exact Inv.step_sCall s s' i h hi
  | sAcq i => exact Inv.step_sAcq s s' i h hi
  | sClear i => exact Inv.step_sClear s s' i h hi
  | sQuery i => exact Inv.step_sQuery s s' i h hi
  | sLog i => exact Inv.step_sLog s s' i h hi
  | sStart i => exact Inv.step_sStart s s' i h hi
  | sRClear i => exact Inv.step_sRClear s s' i h hi
  | sDeliver i => exact Inv.step_sDeliver s s' i h hi
  | tAcq j => exact Inv.step_tAcq s s' j h hi
  | tQuery j => exact Inv.step_tQuery s s' j h hi
  | tDecide j => exact Inv.step_tDecide s s' j h hi

theorem stepD_eq (s : S) (a : Act) : stepD s a = s ∨ step s a = some (stepD s a) := by
  unfold stepD
  cases h : step s a <;> simp

theorem Inv.stepD (s : S) (a : Act) (hi : Inv s) : Inv (stepD s a) := by
  rcases stepD_eq s a with h | h
  · rw [h]; exact hi
  · exact hi.step _ _ _ h

theorem Inv.run (s : S) (acts : List Act) (hi : Inv s) : Inv (run s acts) := by
  induction acts generalizing s with
  | nil => exact hi
  | cons a as ih => exact ih _ (hi.stepD s a)

end Lifecycle
