import WfModel.Policy
/-!
M2 (continued) — **nested** combinator trees and `Context.retry_info()`.

`stop_any` / `stop_all` (and `|` / `&`, which the module defines as exactly these: `Gen.RP.sugar_*`)
take arbitrary stop conditions, so a policy's stop condition is a tree of any depth
(`stop_any(stop_all(a, b), c)`, `(a | b) & c`); likewise `retry_any` / `retry_all`.  `Policy.SSpec` /
`Policy.CSpec` describe the two-level shapes only; here are the trees, evaluated with the SAME
regenerated bodies `Gen.RP.stopAny` / `stopAll` / `retryAny` / `retryAll`.

`retryInfo` is `InternalContext.retry_info()` over the `RetryAttempt` that `run_worker` hands to a
step invocation (its condition and arithmetic are pinned to the source by `GenRetryAcct`).
-/
namespace Policy
open Gen.RP

inductive STree
  | leaf (l : SLeaf)
  | any (ts : List STree)
  | all (ts : List STree)
deriving Repr

mutual
def STree.eval : STree → Stop
  | .leaf l => l.eval
  | .any ts => stopAny (STree.evalList ts)
  | .all ts => stopAll (STree.evalList ts)
def STree.evalList : List STree → List Stop
  | [] => []
  | t :: ts => t.eval :: STree.evalList ts
end

/-- the two-level shapes are trees -/
def SSpec.toTree : SSpec → STree
  | .leaf l => .leaf l
  | .any ls => .any (ls.map .leaf)
  | .all ls => .all (ls.map .leaf)

inductive CTree
  | leaf (l : CLeaf)
  | any (ts : List CTree)
  | all (ts : List CTree)
deriving Repr

mutual
def CTree.eval : CTree → Cond
  | .leaf l => l.eval
  | .any ts => retryAny (CTree.evalList ts)
  | .all ts => retryAll (CTree.evalList ts)
def CTree.evalList : List CTree → List Cond
  | [] => []
  | t :: ts => t.eval :: CTree.evalList ts
end

/-- a policy whose retry and stop components are trees -/
structure TSpec where
  retry : Option CTree
  wait : WSpec
  stop : STree
deriving Repr

def TSpec.eval (p : TSpec) : Composed :=
  { retry := p.retry.map CTree.eval, wait := p.wait.eval, stop := p.stop.eval }

/-! ### `Context.retry_info()` -/

/-- `RetryAttempt` (the part `retry_info` reads): `first_attempt_at` is a float defaulting to `0.0` -/
structure RetryAttempt where
  retryNumber : Int := 0
  firstAt : Rat := 0
  lastExc : Option Nat := none
  lastFailedAt : Option Rat := none
deriving Repr, DecidableEq

/-- `RetryInfo` -/
structure RetryInfo where
  retryNumber : Int
  elapsed : Rat
  lastExc : Option Nat
  lastFailedAt : Option Rat
deriving Repr, DecidableEq

/-- `InternalContext.retry_info()` at wall-clock `now`:
`if retry.retry_number <= 0 or not retry.first_attempt_at: elapsed = 0.0 else: elapsed = max(0.0, time.time() - retry.first_attempt_at)` -/
def retryInfo (ra : RetryAttempt) (now : Rat) : RetryInfo :=
  { retryNumber := ra.retryNumber,
    elapsed := if ra.retryNumber ≤ 0 ∨ ra.firstAt = 0 then 0 else max 0 (now - ra.firstAt),
    lastExc := ra.lastExc,
    lastFailedAt := ra.lastFailedAt }

end Policy
