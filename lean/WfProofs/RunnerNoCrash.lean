import WfProofs.RunnerWorkers
import WfProofs.EngineNoCrash
/-!
`crashed` is unreachable on the runner LTS: the runner invariant `RunInv` (worker-slot invariant of
the state; every started worker holds a slot in progress; a `stepResult` tick exists only in the
buffer, alone, for a slot that is in progress) makes every tick the loop hands to the reducer
satisfy `SlotOk`, so `reduce_no_crash` applies to every `drain` of every schedule, for every retry
policy oracle (also one that raises).
-/
set_option linter.unusedSimpArgs false
set_option linter.unusedVariables false

namespace Engine

theorem execCmd_not_crashed (r : Runner) (c : Cmd) (hc : c ≠ .crash) (h : r.outcome ≠ some .crashed) :
    (execCmd r c).outcome ≠ some .crashed := by
  cases c with
  | queueEvent att step delay =>
    simp only [execCmd]
    cases delay with
    | none => exact h
    | some d => simp only; split <;> exact h
  | runWorker s ev w => exact h
  | halt k => simp [execCmd, Runner.finish]
  | completeRun p => simp [execCmd, Runner.finish]
  | failWorkflow s x => simp [execCmd, Runner.finish]
  | publish p => exact h
  | scheduleIdleCheck => simp only [execCmd]; split <;> exact h
  | scheduleWaiterTimeout s w t => exact h
  | crash => exact absurd rfl hc

theorem execCmds_not_crashed : ∀ (cmds : List Cmd) (r : Runner), Cmd.crash ∉ cmds →
    r.outcome ≠ some .crashed → (execCmds r cmds).outcome ≠ some .crashed
  | [], r, _, h => by simpa [execCmds] using h
  | c :: cs, r, hc, h => by
    have h1 := execCmd_not_crashed r c (fun e => hc (by simp [e])) h
    simp only [execCmds]
    split
    · exact h1
    · exact execCmds_not_crashed cs _ (fun e => hc (by simp [e])) h1

/-- the tick at the head of the buffer reports — if it is a step result — on a slot in progress -/
theorem RunInv.slotOk {cfg : Cfg} {P : Prop} {r : Runner} (h : RunInv cfg P r) {t : Tick} {rest : List Tick}
    (hb : r.buf = t :: rest) : SlotOk cfg r.st t := by
  rcases h.buf with hn | ⟨s, w, ev, res, hbuf, _, _, hslot⟩
  · have ht := hn t (by rw [hb]; simp)
    cases t <;> first
      | trivial
      | (simp [Tick.isStepResult] at ht)
  · rw [hb] at hbuf
    simp only [List.cons.injEq] at hbuf
    rw [hbuf.1]
    exact hslot

/-- one action never crashes a run that satisfies the runner invariant -/
theorem step_not_crashed (cfg : Cfg) (hwf : cfg.WF) (pol : Policy) (P : Prop) (r : Runner) (a : Act)
    (h : RunInv cfg P r) (ho : r.outcome ≠ some .crashed) : (r.step cfg pol a).outcome ≠ some .crashed := by
  unfold Runner.step
  split
  · exact ho
  cases a with
  | drain =>
    simp only
    cases hbuf : r.buf with
    | nil => simp only; exact ho
    | cons t rest =>
      simp only
      have hnc := reduce_no_crash cfg hwf pol t r.st r.now h.ids (h.slotOk hbuf)
      rw [if_neg (by simpa using hnc)]
      exact execCmds_not_crashed _ _ hnc ho
  | workerDone s w res =>
    simp only
    split
    · exact ho
    · split <;> exact ho
  | pull =>
    simp only
    split
    · exact ho
    · split <;> exact ho
  | timer => simp only; split <;> exact ho
  | advance dt => exact ho
  | external t => simp only; split <;> exact ho
  | stepWrite p => exact ho

/-- **no schedule crashes a run**: from any runner state satisfying the runner invariant, for every
policy oracle and every action list -/
theorem run_not_crashed (cfg : Cfg) (hwf : cfg.WF) (pol : Policy) :
    ∀ (acts : List Act) (r : Runner), RunInv cfg False r → r.outcome ≠ some .crashed →
      (Runner.run cfg pol r acts).outcome ≠ some .crashed
  | [], r, _, h => h
  | a :: as, r, hi, h => by
    simp only [Runner.run, List.foldl_cons]
    exact run_not_crashed cfg hwf pol as _ (step_runInv cfg hwf pol False r a (fun hf => hf.elim) hi)
      (step_not_crashed cfg hwf pol False r a hi h)

end Engine
