"""STAND-IN (see cryptography/__init__.py)."""
