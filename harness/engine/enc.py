"""Encode real engine objects (BrokerState, ticks, commands, events) into the
token format of lean/Driver/Engine.lean.  Dict-like things are sorted by key."""
from __future__ import annotations

from typing import Any

from workflows.events import (
    Event,
    IdleReleasedEvent,
    StepFailedEvent,
    StepState,
    StepStateChanged,
    StopEvent,
    UnhandledEvent,
    WorkflowCancelledEvent,
    WorkflowFailedEvent,
    WorkflowIdleEvent,
    WorkflowTimedOutEvent,
)
from workflows.runtime.types import commands as C
from workflows.runtime.types import results as R
from workflows.runtime.types import ticks as T

from . import evtypes as ET


class EncError(Exception):
    pass


def step_id(name: str | None) -> str:
    if name is None:
        return "_"
    if len(name) == 3 and name[0] == "s" and name[1:].isdigit():
        return str(int(name[1:]))
    raise EncError(f"unexpected step name {name!r}")


_interned: dict[str, int] = {}
_auto_rank: dict[str, int] = {}


def _auto_ids() -> dict[str, int]:
    """auto-generated waiter ids (`waiter_<module>.<type>_<str(requirements)>`) of the harness's event types: numbered in
    STRING order (the implementation sorts waiters by waiter_id when it re-pings them), after every explicit `wNN`"""
    if not _auto_rank:
        reqs = [{}] + [{"k": v} for v in (None, 0, 1, 2, 3, 4, 5)]
        names = sorted(f"waiter_{t.__module__}.{t.__name__}_{r}" for t in ET.TYPES.values() for r in reqs) if isinstance(ET.TYPES, dict) \
            else sorted(f"waiter_{t.__module__}.{t.__name__}_{r}" for t in ET.TYPES for r in reqs)
        for i, n in enumerate(names):
            _auto_rank[n] = 100 + i
    return _auto_rank


def auto_name(ty: int, req: dict | None) -> str:
    """the default waiter name of a request, from the documented format (awaited class, text of the whole requirements dict)"""
    t = ET.TYPES[ty]
    return f"waiter_{t.__module__}.{t.__name__}_{req or {}}"


def auto_table() -> list[tuple[int, int | None, int]]:
    """(awaited type, requirement value on `k` or None for no requirement, number) for every default waiter name the harness can
    meet -- the `autoids` table of the engine driver (`{"k": None}` is left out: the token format cannot tell it from {})"""
    ids = _auto_ids()
    out = []
    for ty in range(len(ET.TYPES)):
        for k in (None, 0, 1, 2, 3, 4, 5):
            out.append((ty, k, ids[auto_name(ty, None if k is None else {"k": k})]))
    return out


def autoids_line() -> str:
    return "autoids " + lst([f"{ty} {num(k)} {n}" for ty, k, n in auto_table()])


def waiter_id(w: str) -> str:
    if len(w) == 3 and w[0] == "w" and w[1:].isdigit():
        return str(int(w[1:]))
    auto = _auto_ids()
    if w in auto:
        return str(auto[w])
    if w not in _interned:
        _interned[w] = 5000 + len(_interned)
    return str(_interned[w])


def buf_id(b: str) -> str:
    if b == "default":
        return "0"
    if len(b) == 3 and b[0] == "b" and b[1:].isdigit():
        return str(int(b[1:]))
    raise EncError(f"unexpected buffer id {b!r}")


def num(x: Any) -> str:
    if x is None:
        return "_"
    if isinstance(x, bool):
        raise EncError("bool where number expected")
    if isinstance(x, float):
        if x != int(x):
            raise EncError(f"non-integral time {x!r}")
        return str(int(x))
    return str(int(x))


def exc(e: BaseException | None) -> str:
    return "_" if e is None else str(ET.exc_id(e))


def ev(e: Event) -> str:
    cls = type(e)
    if cls is StepFailedEvent:
        f = e
        fail = "F %s %d %s %d %s %s" % (
            step_id(f.step_name), getattr(f.input_event, "uid", 0), exc(f.exception), f.attempts,
            num(f.elapsed_seconds), num(f.failed_at.timestamp()))
        return f"E 4 p 0 _ {fail}"
    if cls not in ET.TY_ID:
        raise EncError(f"unexpected event class {cls.__name__}")
    return f"E {ET.TY_ID[cls]} {ET.kind_of(cls)} {e.uid} {num(e.k)} _"


def opt_ev(e: Event | None) -> str:
    return "_" if e is None else ev(e)


def lst(items: list[str]) -> str:
    return " ".join([str(len(items))] + items)


def rc(d: dict[str, int]) -> str:
    return lst([f"{step_id(k)} {v}" for k, v in sorted(d.items(), key=lambda kv: int(step_id(kv[0])))])


def attempt(a: Any) -> str:
    """EventAttempt / TickAddEvent / CommandQueueEvent share the retry fields."""
    return "A %s %s %s %s %s %s" % (ev(a.event), num(a.attempts), num(a.first_attempt_at), exc(a.last_exception),
                                    num(a.last_failed_at), rc(a.recovery_counts))


def req(d: dict[str, Any]) -> str:
    if not d:
        return "_"
    if list(d.keys()) != ["k"]:
        raise EncError(f"unexpected requirements {d!r}")
    return num(d["k"])


def waiter(w: R.StepWorkerWaiter) -> str:
    """the waiter and the attempt record of the invocation suspended in it (repair of C08/…:lineage_suspended_in_wait;
    a tree without those fields encodes as an empty record, which the model of the repaired code contradicts)"""
    return "W %s %s %d %s %d %s %d %s %s %s %s %s" % (
        waiter_id(w.waiter_id), ev(w.event), ET.TY_ID[w.waiting_for_event], req(w.requirements),
        1 if w.has_requirements else 0, opt_ev(w.resolved_event), 1 if w.timed_out else 0,
        num(getattr(w, "attempts", 0)), num(getattr(w, "first_attempt_at", None)), exc(getattr(w, "last_exception", None)),
        num(getattr(w, "last_failed_at", None)), rc(getattr(w, "recovery_counts", {})))


def collected(c: dict[str, list[Event]]) -> str:
    items = sorted(c.items(), key=lambda kv: int(buf_id(kv[0])))
    return lst([f"{buf_id(k)} {lst([ev(e) for e in v])}" for k, v in items])


def inprog(i: Any) -> str:
    return "I %s %d %s %s %d %s %s %s %s" % (
        ev(i.event), i.worker_id, collected(i.shared_state.collected_events),
        lst([waiter(w) for w in i.shared_state.collected_waiters]), i.attempts, num(i.first_attempt_at),
        exc(i.last_exception), num(i.last_failed_at), rc(i.recovery_counts))


def step_state(s: Any) -> str:
    return "S %s %s %s %s" % (lst([attempt(a) for a in s.queue]), lst([inprog(i) for i in s.in_progress]),
                              collected(s.collected_events), lst([waiter(w) for w in s.collected_waiters]))


def state(st: Any) -> str:
    """BrokerState, steps in config (dict) order."""
    parts = ["1" if st.is_running else "0"]
    for name in st.config.steps.keys():
        parts.append(step_state(st.workers[name]))
    return " ".join(parts)


def cfg(st: Any) -> str:
    steps = []
    for name, sc in st.config.steps.items():
        acc = [str(ET.TY_ID[c]) for c in sc.accepted_events]
        steps.append("%s %s %d %d" % (step_id(name), lst(acc), sc.num_workers, 1 if sc.retry_policy is not None else 0))
    hf = [f"{step_id(k)} {step_id(v)}" for k, v in st.config.handler_for_step.items()]
    hs = [f"{step_id(k)} {h.max_recoveries}" for k, h in st.config.catch_error_handlers.items()]
    for k, h in st.config.catch_error_handlers.items():
        if h.step_name != k:
            raise EncError("catch_error_handlers key differs from handler.step_name")
    return "C %s %s %s" % (lst(steps), lst(hf), lst(hs))


def res(r: Any) -> str:
    if isinstance(r, R.StepWorkerResult):
        return "RR " + opt_ev(r.result)
    if isinstance(r, R.StepWorkerFailed):
        return f"RF {exc(r.exception)} {num(r.failed_at)}"
    if isinstance(r, R.AddCollectedEvent):
        return f"RA {buf_id(r.event_id)} {ev(r.event)}"
    if isinstance(r, R.DeleteCollectedEvent):
        return f"RD {buf_id(r.event_id)}"
    if isinstance(r, R.AddWaiter):
        return "RW %s %s %s %s %d" % (waiter_id(r.waiter_id), opt_ev(r.waiter_event), req(r.requirements), num(r.timeout),
                                      ET.TY_ID[r.event_type])
    if isinstance(r, R.DeleteWaiter):
        return f"RX {waiter_id(r.waiter_id)}"
    raise EncError(f"unexpected result {r!r}")


def tick(t: Any) -> str:
    if isinstance(t, T.TickStepResult):
        return "TS %s %d %s %s" % (step_id(t.step_name), t.worker_id, ev(t.event), lst([res(r) for r in t.result]))
    if isinstance(t, T.TickAddEvent):
        return f"TA {attempt(t)} {step_id(t.step_name)}"
    if isinstance(t, T.TickCancelRun):
        return "TC"
    if isinstance(t, T.TickIdleRelease):
        return "TR"
    if isinstance(t, T.TickPublishEvent):
        return "TP " + ev(t.event)
    if isinstance(t, T.TickTimeout):
        return "TT " + num(t.timeout)
    if isinstance(t, T.TickWaiterTimeout):
        return f"TW {step_id(t.step_name)} {waiter_id(t.waiter_id)}"
    if isinstance(t, T.TickIdleCheck):
        return "TI"
    raise EncError(f"unexpected tick {t!r}")


_SS = {StepState.PREPARING: "prep", StepState.RUNNING: "run", StepState.NOT_RUNNING: "nrun"}


def _type_name_to_id(s: str | None) -> str:
    """input/output_event_name is either `T5` or `<class 'harness.engine.evtypes.T5'>`."""
    if s is None:
        return "_"
    if s.startswith("<class '"):
        s = s[len("<class '"):-2].rsplit(".", 1)[-1]
    if s == "NoneType":
        return "None"
    if s == "StepFailedEvent":
        return "4"
    if s[0] == "T" and s[1:].isdigit():
        return s[1:]
    raise EncError(f"unexpected event name {s!r}")


def pub(e: Event) -> str:
    if isinstance(e, StepStateChanged):
        wid = "_" if e.worker_id == "<enqueued>" else e.worker_id
        return "ss %s %s %s %s %s" % (_SS[e.step_state], step_id(e.name), _type_name_to_id(e.input_event_name),
                                      _type_name_to_id(e.output_event_name), wid)
    if isinstance(e, WorkflowIdleEvent):
        return "idle"
    if isinstance(e, UnhandledEvent):
        return "unhandled %s %s %d" % (_type_name_to_id(e.event_type), step_id(e.step_name), 1 if e.idle else 0)
    if isinstance(e, WorkflowCancelledEvent):
        return "cancelled"
    if isinstance(e, WorkflowFailedEvent):
        return "failed %s %s %d %s" % (step_id(e.step_name), exc(e.exception), e.attempts, num(e.elapsed_seconds))
    if isinstance(e, WorkflowTimedOutEvent):
        return "timedout %s %s" % (num(e.timeout), lst([step_id(s) for s in e.active_steps]))
    if isinstance(e, IdleReleasedEvent):
        return "idlereleased"
    return "ev " + ev(e)


def cmd(c: Any) -> str:
    from workflows.errors import WorkflowCancelledByUser, WorkflowTimeoutError

    if isinstance(c, C.CommandRunWorker):
        return f"[run {step_id(c.step_name)} {ev(c.event)} {c.id}]"
    if isinstance(c, C.CommandQueueEvent):
        return f"[queue {attempt(c)} {step_id(c.step_name)} {num(c.delay)}]"
    if isinstance(c, C.CommandHalt):
        if isinstance(c.exception, WorkflowCancelledByUser):
            return "[halt cancelled]"
        if isinstance(c.exception, WorkflowTimeoutError):
            return "[halt timeout]"
        raise EncError(f"unexpected halt {c!r}")
    if isinstance(c, C.CommandCompleteRun):
        return f"[complete {pub(c.result)}]"
    if isinstance(c, C.CommandFailWorkflow):
        return f"[fail {step_id(c.step_name)} {exc(c.exception)}]"
    if isinstance(c, C.CommandPublishEvent):
        return f"[pub {pub(c.event)}]"
    if isinstance(c, C.CommandScheduleIdleCheck):
        return "[idlecheck]"
    if isinstance(c, C.CommandScheduleWaiterTimeout):
        return f"[wtimeout {step_id(c.step_name)} {waiter_id(c.waiter_id)} {num(c.timeout)}]"
    raise EncError(f"unexpected command {c!r}")


def result_line(st: Any, cmds: list[Any]) -> str:
    return " ".join(cmd(c) for c in cmds) + " ;; " + state(st)
