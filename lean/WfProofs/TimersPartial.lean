import WfProofs.TimersErase
import WfProofs.TimersReload
/-!
Helper lemmas for C14 (4): the first incarnation of a run against its reload.

While a run has only ever lived in memory (no release / restart yet) the server state is the runner
LTS plus bookkeeping, and — for policies that do not look at elapsed time and ticks whose persisted
form is the tick itself (no waiter requirements) — reloading its persisted log at *any* clock gives
`Runner.init (roundtrip b)` for a state `b` that agrees with the live reducer state up to
`first_attempt_at` values (`Sim b live.st`): the live reducer state, written by `to_serialized`, read
back and restarted.  (Since the repair of C08/lineage_suspended_in_wait a waiter keeps the
`first_attempt_at` of the invocation suspended in it; for an invocation that was started by the
replay that value is the clock of the replay.)
-/
set_option linter.unusedVariables false
namespace Engine

theorem trackIdle_live (a b : Runner) (s : Srv) :
    (trackIdle a b s).live = s.live ∧ (trackIdle a b s).store = s.store := by
  unfold trackIdle
  split <;> exact ⟨rfl, rfl⟩

theorem trackOutcome_live (b : Runner) (s : Srv) :
    (trackOutcome b s).live = s.live ∧ (trackOutcome b s).store = s.store := by
  unfold trackOutcome
  split <;> exact ⟨rfl, rfl⟩

theorem step_of_ended (cfg : Cfg) (pol : Policy) (r : Runner) (a : Act) (h : r.outcome.isSome = true) :
    r.step cfg pol a = r := by
  unfold Runner.step
  rw [if_pos h]

/-- a server that only ever ran its first control loop: the runner LTS, nothing persisted apart -/
theorem srv_run_first (c : SrvCfg) (pol : Policy) : ∀ (racts : List Act) (s : Srv) (r : Runner),
    s.live = some r → s.store = [] →
      (Srv.run c pol s (racts.map SAct.run)).live = some (Runner.run c.cfg pol r racts) ∧
        (Srv.run c pol s (racts.map SAct.run)).store = []
  | [], s, r, hl, hs => ⟨hl, hs⟩
  | a :: as, s, r, hl, hs => by
    simp only [List.map_cons, Srv.run, List.foldl_cons, Runner.run]
    have hstep : (s.step c pol (.run a)).live = some (r.step c.cfg pol a) ∧ (s.step c pol (.run a)).store = [] := by
      simp only [Srv.step, hl]
      split
      · rename_i ho
        rw [step_of_ended c.cfg pol r a ho]
        exact ⟨rfl, hs⟩
      · obtain ⟨o1, o2⟩ := trackOutcome_live (r.step c.cfg pol a)
          (trackIdle r (r.step c.cfg pol a) { s with now := s.now + a.dt, live := some (r.step c.cfg pol a) })
        obtain ⟨i1, i2⟩ := trackIdle_live r (r.step c.cfg pol a)
          { s with now := s.now + a.dt, live := some (r.step c.cfg pol a) }
        exact ⟨o1.trans i1, (o2.trans i2).trans hs⟩
    exact srv_run_first c pol as _ _ hstep.1 hstep.2

/-- **reload = serialise and restart the live state**, at every clock -/
theorem reload_of_live (c : SrvCfg) {pol : Policy} (hp : TimeIndep pol) (start : Ev) (t0 : Int) (racts : List Act)
    (now : Int) :
    let r := Runner.run c.cfg pol (Runner.init c.cfg initState t0 (some start) c.timeout) racts
    r.outcome = none → r.st.isRunning = true → r.log ≠ [] → (∀ p ∈ r.log, p.1.stored = p.1) →
      ∃ b, Sim b r.st ∧ reload c pol (r.log.map (fun p => p.1.stored)) now =
        .ok (Runner.init c.cfg (roundtrip c.cfg b) now none c.timeout) none := by
  intro r hout hrun hne hper
  have hinv : LogInv c.cfg pol (rewind c.cfg initState t0).1 r :=
    run_logInv c.cfg pol _ racts _ (init_logInv c.cfg pol initState t0 (some start) c.timeout)
  have hrec := hinv hout
  have hticks : r.log.map (fun p => p.1.stored) = r.log.map (·.1) :=
    List.map_congr_left (fun p hp' => hper p hp')
  rw [hticks]
  have hsim := replayRec_sim c.cfg hp r.log ((r.log.map (·.1)).map (fun t => (t, now))) (none : Option Cmd)
    (by simp [List.map_map, Function.comp_def]) (rewind_init_sim c.cfg t0 now)
  rw [hrec, ← tmReplayFrom_eq_replayRec] at hsim
  have hat : tmReplayAt c.cfg pol (r.log.map (·.1)) now =
      tmReplayFrom c.cfg pol now (r.log.map (·.1)) ((rewind c.cfg initState now).1, none) := rfl
  unfold reload
  cases hl : r.log.map (·.1) with
  | nil => simp at hl; exact absurd hl hne
  | cons x xs =>
    simp only
    rw [← hl, hat]
    cases hq : tmReplayFrom c.cfg pol now (r.log.map (·.1)) ((rewind c.cfg initState now).1, none) with
    | none => rw [hq] at hsim; exact absurd hsim (by simp)
    | some be =>
      obtain ⟨b, e⟩ := be
      rw [hq] at hsim
      simp only at hsim
      obtain ⟨hs, he⟩ := hsim
      simp only
      have hb : (roundtrip c.cfg b).isRunning = true := by
        rw [← (roundtrip_sim c.cfg hs).running]; exact hrun
      refine ⟨b, hs.symm, ?_⟩
      rw [if_pos hb, ← he]

end Engine
