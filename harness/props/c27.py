"""C27 — DBOS recovery replays a run to the same execution (PARTIAL: DBOS itself is a stand-in)."""
from __future__ import annotations

import asyncio
import json
import os
import random
import shutil
import sqlite3
import tempfile
from typing import Any

from ..boot import VERIF
from ..runner import Driver, Env, Outcome, Violation, diff_streams

THEOREMS = [
    "C27_source_shape",
    "C27_write_order",
    "C27_journal_replay",
    "C27_recovered_continues",
    "C27_record_roundtrip",
    "C27_wait_replay_exact",
    "C27_wait_fresh_records",
    "C27_replaying_source_shape",
    "C27_last_replayed_tick_live",
    "C27_replay_over_stays_over",
    "C27_replay_flags",
    "C27_refuted_timer",
    "C27_replay_partial",
    "C27_refuted_purge",
    "C27_continuation_partial",
    "C27_write_order_any_stops",
    "C27_replay_after_any_stops",
    "C27_recovery_succeeds_after_any_stops",
    "C27_keys_cfg_implies_keys",
    "C27_recovered_world_replays_to_itself",
    "C27_journal_table_all_lives",
    "C27_mirror_every_call",
    "C27_observed_order_is_journal_prefix",
    "C27_observed_order_guard_needed",
    "C27_table_source_shape",
    "C27_recovered_continues_any_stops",
    "C27_orphan_purge_once_per_life",
]
EXPLANATION = (
    "PARTIAL. Lean model WfModel/Journal.lean: (A) the workflow_journal table with the five SqliteJournalCrud statements, "
    "TaskJournal (_entries/_replay_index) and the decision structure of InternalDBOSAdapter.wait_for_next_task (load, "
    "next_expected_key, orphan purge at the replay->fresh transition, replay branch, fallback, fresh branch with record-then-"
    "return); (B) an abstract deterministic control loop `step : state -> completion|timeout -> state x spawned tasks x outputs`, "
    "a fresh process as a transition system over (configuration, durable journal, durable memo by function id, durable mailbox) "
    "with atomic actions finish / recv / send / record / actOn / timeout, and recovery as the function replay-then-purge. "
    "Theorems (all loops, all executions, all stop points): the journal always equals the acted completions plus at most one "
    "recorded-unacted entry (C27_write_order); replaying the durable journal observes exactly the recorded tasks in order and "
    "reaches the same configuration and outputs, if no wait timeout was acted upon (C27_journal_replay); the recovered process "
    "simulates every continuation of the uninterrupted one if the purge deletes no received message (C27_recovered_continues); "
    "both guards are necessary (C27_refuted_timer, C27_refuted_purge, concrete witnesses). Tie: call-site order, the write-ordering "
    "fact, SQL and key formats are re-extracted by AST into GenJournal.lean (C27_source_shape); the real TaskJournal + "
    "SqliteJournalCrud are diffed op by op against the model driver; the real wait_for_next_task is driven with scripted tasks "
    "and diffed; the real DBOSRuntime + control loop + InternalDBOSAdapter run generated workflows against a stand-in `dbos` "
    "module under the virtual-time loop, a snapshot of the durable state is taken after every durable write and around every "
    "journal INSERT, each snapshot is recovered in a new process, every wait_for_next_task call of fresh and recovered runs is "
    "diffed against the model, and monitors compare completion order, ticks, published events, journal and result. The same "
    "workflows also run behind the server's adapter chain (real ServerRuntimeDecorator / _ServerInternalRunAdapter, optionally the "
    "EventInterceptorDecorator, real SqliteWorkflowStore on the system database file): every committed store row is one more stop "
    "point (so every instant between a journal INSERT and the end of the publication of that completion's tick is tried), and a "
    "monitor compares the STORED published events and the handler row after stop + recovery with the uninterrupted run and with what "
    "the recovered control loop published, without consulting is_replaying(). is_replaying() itself is modelled (Adapter.isReplaying = "
    "journal cursor; C27_last_replayed_tick_live, C27_replay_over_stays_over, C27_replay_flags) and queried after every wait call in "
    "all three correspondence streams."
)
LEVEL_TEXT = ("partial: proof (Lean 4) of the journal/replay model + correspondence with the real TaskJournal, SqliteJournalCrud, "
              "wait_for_next_task and DBOSRuntime glue running against a STAND-IN dbos module; DBOS, PostgreSQL and SQLAlchemy are absent "
              "from the sandbox and are trusted, not verified")
ASSUMPTIONS = [
    "PARTIAL: the packages dbos, asyncpg and sqlalchemy are absent and cannot be installed. `dbos` is replaced by "
    "harness/dbos_standin (in-memory; semantics documented in dbos/_dbos.py); asyncpg/sqlalchemy by name-only shims. DBOS's "
    "durability, step memoisation by function id, recv (atomic consume+record), write_stream idempotence under replay, workflow "
    "recovery from recorded inputs and workflow handles are TRUSTED as written down in the stand-in, not verified",
    "what executes for real: all of task_journal.py; SqliteJournalCrud of crud.py; of runtime.py: DBOSRuntime.__init__/"
    "track_workflow/register/launch/_prepare_launch/_finalize_launch/_post_launch/run_migrations(sqlite)/run_workflow/"
    "get_internal_adapter/get_external_adapter/_get_sql_engine, InternalDBOSAdapter (all methods), ExternalDBOSAdapter.get_result/"
    "send_event/_ensure_workflow_started, _durable_time, create_workflow_store + the DBOSWorkflowStore proxy (SQLite branch); of the "
    "server package: ServerRuntimeDecorator (launch, run_workflow, run_workflow_handler, get_internal_adapter, _handle_status_update), "
    "_ServerInternalRunAdapter, EventInterceptorDecorator, SqliteWorkflowStore (append_event, update, query, create_state_store); the real "
    "control loop, reducer and step wrappers. NOT executed (modelled or out of scope): PostgresJournalCrud and every asyncpg path (SQL "
    "text only, extracted), executor leases, TickPersistenceDecorator / DBOSIdleReleaseDecorator of build_server_runtime (C26, C36), destroy",
    "stored events: an event may legitimately be stored twice (at-least-once) when the crashed process had stored it and its tick cannot be "
    "known to be complete at the stop: the tick of the last journaled completion, and - as the code is - the ticks reduced before the "
    "journal is first read (is_replaying() is False until the first wait_for_next_task call); these are counted (store_duplicates:*), not "
    "reported; any other duplicate and any loss is a violation",
    "memoisation is a hypothesis of the theorems: a task's value is whatever the durable memo holds under its function id",
    "determinism of the control loop (`step` is a function of the observed completions) is the engine correspondence of C11",
    "step bodies are at-least-once: a step interrupted after ctx.send_event and before its output is recorded runs again on recovery "
    "and sends again; such stop points ('dirty' snapshots) are compared for the replayed part only, not for the final result",
    "the final-result clause is checked on schedule-independent generated workflows (gen_det_spec); for others only the replayed part "
    "is comparable",
    "a crash is modelled by its durable effect (copy of the SQLite file + the stand-in system database at an instant between two "
    "durable writes); torn writes inside one SQLite transaction are excluded by SQLite's atomic commit (trusted)",
    "timing: a memoised step returns after one event-loop yield (a database round trip in DBOS), i.e. before any positive timeout",
]
TRUSTED_EXTRA = [
    "harness/dbos_standin/dbos/{__init__,_dbos,_store,_context,_error}.py: stand-in for DBOS(config=)/launch/destroy/workflow_id, "
    "DBOS.workflow, DBOS.step (sync+async), start_workflow_async, retrieve_workflow_async, delete_workflow_async, send, send_async, "
    "recv_async, write_stream_async, read_stream_async, SetWorkflowID, WorkflowHandleAsync, _context.get_local_dbos_context, "
    "_dbos._get_dbos_instance (._sys_db.engine, ._app_db, ._config), _error.DBOSNonExistentWorkflowError/DBOSUnexpectedStepError",
    "harness/dbos_standin/runs.py: processes, crash snapshots and recovery on the stand-in (inline executor, observers; server mode: "
    "build_stack, observers on SqliteWorkflowStore.append_event/update and on _ServerInternalRunAdapter.write_to_event_stream)",
    "pyshims/asyncpg, pyshims/sqlalchemy: name-only import shims (Pool, Connection, Record, UniqueViolationError, create_pool, "
    "connect, pool.PoolConnectionProxy; engine.URL, engine.Engine)",
    "harness/gen/journal.py: AST extraction of journal call sites, write order, SQL and key formats",
    "harness/gen/journal_table.py: text/AST extraction of the workflow_journal DDL (both dialects), constructor defaults of TaskJournal / "
    "InternalDBOSAdapter, _get_or_create_journal, execute-then-commit shape of the SqliteJournalCrud writers, identifier quoting",
    "SQLite: atomic commit, AUTOINCREMENT ids, ORDER BY",
]

MODEL = "journal"
SIG_RECV = "C27/message_lost[recv_output_purged_at_replay_to_fresh_transition]"
SIG_TIMER = "C27/replay_diverges[wait_timeout_acted_but_not_journaled]"


def _tmpdir() -> str:
    return tempfile.mkdtemp(prefix="c27k_", dir="/dev/shm" if os.path.isdir("/dev/shm") else None)


def _sync(coro: Any) -> Any:
    """run a coroutine that never really suspends (the SQLite CRUD is synchronous inside `async def`)"""
    try:
        coro.send(None)
    except StopIteration as e:
        return e.value
    coro.close()
    raise RuntimeError("coroutine suspended")


def _ks(keys: list[str]) -> str:
    return ",".join(keys) if keys else "-"


# --------------------------------------------------------------------------
# K1: TaskJournal + SqliteJournalCrud, op by op


class JournalImpl:
    """interprets the driver's line protocol on the real classes"""

    _instances = 0

    def __init__(self, workdir: str):
        from llama_agents.dbos._store import SQLITE_MIGRATION_SOURCE
        from llama_agents.dbos.journal.crud import SqliteJournalCrud
        from llama_agents.dbos.journal.task_journal import TaskJournal
        from llama_agents.server._store import SQLITE_MIGRATION_SOURCE as SERVER_SRC
        from llama_agents.server._store.sqlite.migrate import run_migrations

        from ..dbos_standin import install

        install()
        from dbos._store import OPS_DDL

        self.workdir = workdir
        self.n = 0
        JournalImpl._instances += 1
        self.tag = JournalImpl._instances
        self.Crud = SqliteJournalCrud
        self.TJ = TaskJournal
        self._migrate = lambda conn: (run_migrations(conn, sources=[SERVER_SRC, SQLITE_MIGRATION_SOURCE]), conn.execute(OPS_DDL), conn.commit())
        self.new()

    def new(self) -> None:
        self.n += 1
        self.path = os.path.join(self.workdir, f"j{self.tag}_{self.n}.db")
        conn = sqlite3.connect(self.path)
        try:
            self._migrate(conn)
        finally:
            conn.close()
        self.crud = self.Crud(db_path=self.path)
        self.run = ""
        self.tj = self.TJ("", self.crud)
        self.adapter = self._new_adapter("")

    def _new_adapter(self, run: str) -> Any:
        """the real InternalDBOSAdapter of a new process (SQLite configured), holding this process's TaskJournal"""
        import llama_agents.dbos.runtime as RT

        a = RT.InternalDBOSAdapter(run, None, None, db_path=self.path)
        a._journal = self.tj  # what _get_or_create_journal() would create lazily
        return a

    def show_tj(self) -> str:
        es = self.tj._entries
        return f"entries={'unloaded' if es is None else _ks(list(es))} idx={self.tj._replay_index}"

    def dump(self) -> str:
        conn = sqlite3.connect(self.path)
        try:
            rows = [f"{r[0]}:{r[1]}:{r[2]}:{r[3]}" for r in conn.execute("SELECT id, run_id, seq_num, task_key FROM workflow_journal ORDER BY id")]
            ops = [f"{r[0]}:{r[1]}:{r[2]}" for r in conn.execute("SELECT workflow_uuid, function_id, function_name FROM operation_outputs ORDER BY rowid")]
        finally:
            conn.close()
        return f"rows={';'.join(rows) if rows else '-'} ops={';'.join(ops) if ops else '-'}"

    @staticmethod
    def good_key(k: str) -> bool:
        return bool(k) and "," not in k and "|" not in k and k != "-"

    @staticmethod
    def nat(s: str) -> int | None:
        return int(s) if s.isascii() and s.isdigit() else None

    def step(self, line: str) -> str:
        f = line.split("|")
        op = f[0]
        if f == ["new"]:
            self.new()
            return "ok"
        if op == "boot" and len(f) == 2:
            if not f[1]:
                return "bad-op"
            self.run = f[1]
            self.tj = self.TJ(self.run, self.crud)
            self.adapter = self._new_adapter(self.run)
            return "ok"
        if f == ["load"]:
            _sync(self.tj.load())
            return self.show_tj()
        if f == ["next"]:
            k = self.tj.next_expected_key()
            return "none" if k is None else f"some {k}"
        if f == ["replaying"]:
            return "1" if self.tj.is_replaying() else "0"
        if f == ["has"]:
            return "1" if self.tj.has_entries else "0"
        if f == ["areplaying"]:
            return "1" if self.adapter.is_replaying() else "0"
        if f == ["advance"]:
            self.tj.advance()
            return self.show_tj()
        if op == "record" and len(f) == 2:
            if not self.good_key(f[1]):
                return "bad-op"
            seq = len(self.tj._entries or [])
            _sync(self.tj.record(f[1]))
            return f"seq={seq} {self.show_tj()}"
        if op == "purge" and len(f) == 2:
            n = self.nat(f[1])
            if n is None:
                return "bad-op"
            _sync(self.tj.purge_stale(n))
            return self.dump()
        if op == "insert" and len(f) == 4:
            n = self.nat(f[2])
            if n is None or not self.good_key(f[3]) or not f[1]:
                return "bad-op"
            _sync(self.crud.insert(f[1], n, f[3]))
            return "ok"
        if op == "rawload" and len(f) == 2:
            return _ks(_sync(self.crud.load(f[1])))
        if op == "delete" and len(f) == 2:
            _sync(self.crud.delete(f[1]))
            return "ok"
        if op == "truncate" and len(f) == 3:
            n = self.nat(f[2])
            if n is None:
                return "bad-op"
            _sync(self.crud.truncate_from(f[1], n))
            return "ok"
        if op == "purgeops" and len(f) == 3:
            n = self.nat(f[2])
            if n is None:
                return "bad-op"
            _sync(self.crud.purge_operations_from(f[1], n))
            return "ok"
        if op == "addop" and len(f) == 4:
            n = self.nat(f[2])
            if n is None:
                return "bad-op"
            conn = sqlite3.connect(self.path)
            try:
                conn.execute("INSERT INTO operation_outputs (workflow_uuid, function_id, function_name) VALUES (?, ?, ?)", (f[1], n, f[3]))
                conn.commit()
            finally:
                conn.close()
            return "ok"
        if f == ["dump"]:
            return self.dump()
        if f == ["c27xhist"]:
            # K1 makes no wait calls: the life's history is empty; what is compared is the row-numbering flag (raw, out-of-order
            # inserts make it 0), the cursor and the journal as loaded
            conn = sqlite3.connect(self.path)
            try:
                seqs = [r[0] for r in conn.execute("SELECT seq_num FROM workflow_journal WHERE run_id=? ORDER BY id", (self.run,))]
            finally:
                conn.close()
            jr = _sync(self.crud.load(self.run))
            idx = self.tj._replay_index
            return (f"returned=- fresh=- wf={int(seqs == list(range(len(seqs))))} nofallback=1 prefix={int([] == jr[:idx])} "
                    f"idx={idx} journal={_ks(jr)}")
        return "bad-op"


KEYS = ["a:0", "a:1", "b:0", "b:1", "c:0", "__pull__:0", "__pull__:1", "__pull__:2"]
RUNS = ["r1", "r2"]


def gen_k1_stream(rng: random.Random, n: int) -> list[str]:
    ops = ["new", f"boot|{rng.choice(RUNS)}"]
    used: dict[str, set[int]] = {r: set() for r in RUNS}
    cur = ops[-1].split("|")[1]
    recorded = {r: 0 for r in RUNS}
    fid = 1
    for _ in range(n):
        r = rng.random()
        if r < 0.22:
            # `record` uses seq = len(entries); keep raw inserts of that run out of its way
            ops.append(f"record|{rng.choice(KEYS)}")
        elif r < 0.32:
            ops.append("load")
        elif r < 0.42:
            ops.append(rng.choice(["next", "replaying", "has", "areplaying", "areplaying", "c27xhist"]))
        elif r < 0.50:
            ops.append("advance")
        elif r < 0.58:
            cur = rng.choice(RUNS)
            ops.append(f"boot|{cur}")
        elif r < 0.70:
            run = rng.choice(RUNS + ["r3"])
            used.setdefault(run, set())
            free = [i for i in range(40, 60) if i not in used[run]]
            if free:
                s = rng.choice(free)  # out of order on purpose: ORDER BY seq_num must sort them
                used[run].add(s)
                ops.append(f"insert|{run}|{s}|{rng.choice(KEYS)}")
        elif r < 0.76:
            ops.append(f"rawload|{rng.choice(RUNS + ['r3', 'nope'])}")
        elif r < 0.80:
            run = rng.choice(RUNS + ["r3"])
            ops.append(f"truncate|{run}|{rng.choice([0, 1, 2, 3, 41, 45, 50, 99])}")
        elif r < 0.83:
            run = rng.choice(RUNS + ["r3"])
            used[run] = set()
            ops.append(f"delete|{run}")
        elif r < 0.90:
            fid += rng.randint(1, 3)
            ops.append(f"addop|{rng.choice(RUNS)}|{fid}|{rng.choice(['_durable_time', 'DBOS.recv', 'wf.step'])}")
        elif r < 0.94:
            ops.append(f"purge|{rng.randint(0, fid + 1)}")
        elif r < 0.97:
            ops.append(f"purgeops|{rng.choice(RUNS)}|{rng.randint(0, fid + 1)}")
        else:
            ops.append("dump")
    ops.append("dump")
    for r_ in RUNS:
        ops.append(f"rawload|{r_}")
    return ops


MALFORMED = ["", "record", "record|", "record|a,b", "record|-", "insert|r1|x|a:0", "insert|r1|1", "insert||1|a:0", "boot|", "boot",
             "truncate|r1|-1", "purge|x", "purge", "wait|1|a:0|a:0|2|-", "wait|x|a:0|a:0|0|-", "wait|1|a:0", "frobnicate", "load|r1",
             "addop|r1|x|n", "purgeops|r1", "c27xhist|r1", "c27xhist|"]


def k1(env: Env, out: Outcome, workdir: str) -> None:
    impl = JournalImpl(workdir)
    streams: list[list[str]] = []
    # hand-picked: out-of-order raw inserts then load; record after reload; purge with and without entries
    streams.append(["new", "boot|r1", "insert|r1|2|c:0", "insert|r1|0|a:0", "insert|r2|0|b:1", "insert|r1|1|b:0", "rawload|r1", "load",
                    "areplaying", "next", "advance", "areplaying", "next", "advance", "areplaying", "advance", "areplaying", "next", "replaying",
                    "record|a:1", "areplaying", "c27xhist", "rawload|r1", "dump",
                    "boot|r1", "load", "has", "addop|r1|5|x", "addop|r1|9|y", "addop|r2|9|z", "purge|5", "boot|r2", "purge|0", "dump",
                    "boot|r3", "has", "purge|0", "record|a:0", "record|a:0", "boot|r3", "load", "truncate|r3|1", "rawload|r3", "dump"])
    streams.append(["new", "boot|r1"] + MALFORMED + ["dump"])
    for _ in range(env.budget(15, 150)):
        streams.append(gen_k1_stream(env.rng, env.rng.randint(10, 60)))
    drv = Driver(MODEL)
    flat = [l for s in streams for l in s]
    model_out = drv.run(flat)
    impl_out = [impl.step(l) for l in flat]
    out.evaluations += len(flat)
    out.traces_validated += len(streams)
    for l in flat:
        out.count("k1_op:" + l.split("|")[0] if l.split("|")[0] in ("new", "boot", "load", "next", "replaying", "areplaying", "has", "advance", "record", "purge", "insert", "rawload", "delete", "truncate", "purgeops", "addop", "dump", "c27xhist") else "k1_op:malformed")
    d = diff_streams(MODEL, flat, model_out, impl_out, context="K1 TaskJournal/SqliteJournalCrud")
    if d is not None:
        out.divergences.append(d)
        out.violations.append(Violation("C27/journal_object_diverges_from_model", f"op {d.op!r}: model {d.model_out!r} vs real {d.impl_out!r}",
                                        {"kind": "k1", "ops": flat[max(0, d.index - 40): d.index + 1]}))
    out.sample({"k1_stream": streams[0][:12], "model": model_out[:12]})


# --------------------------------------------------------------------------
# wait_for_next_task calls (scripted: K2, from real runs: K3) -> model lines and canonical outputs


def wait_line(wc: Any) -> str:
    timed_out = "1" if (wc.returned is None and wc.inflight) else "0"
    replay_branch = wc.expected is not None and wc.expected in wc.inflight
    choice = "-" if (replay_branch or wc.returned is None) else wc.returned
    return f"wait|{max(wc.fid_at_entry, 0)}|{_ks(wc.inflight)}|{_ks(wc.done_at_return)}|{timed_out}|{choice}"


def wait_out(wc: Any) -> str:
    replay_branch = wc.expected is not None and wc.expected in wc.inflight
    if not wc.inflight:
        head = "nothing"
    elif replay_branch:
        if wc.returned is None:
            head = f"replay-timeout {wc.expected}"
        elif wc.returned == wc.expected and not wc.recorded:
            head = f"replayed {wc.expected}"
        else:
            head = f"replayed-wrong {wc.returned} recorded={int(wc.recorded)}"
    else:
        if wc.returned is None:
            head = "timeout"
        elif wc.recorded:
            head = f"fresh {wc.returned} seq={wc.insert_seq}"
        else:
            head = f"fresh-unrecorded {wc.returned}"
    es = "unloaded" if wc.entries_after is None else _ks(list(wc.entries_after))
    journal = _ks([k for (_s, k) in sorted(wc.journal_after, key=lambda r: r[0])])
    return f"{head} fallback={int(wc.fallback)} purged={int(wc.purged)} entries={es} idx={wc.idx_after} journal={journal}"


# --------------------------------------------------------------------------
# history observables (vocabulary of C27_journal_table_all_lives / C27_observed_order_is_journal_prefix)


def _table(wc: Any) -> list:
    """rows of the run after the call, in id order: read back from the table when the observer could, else the shadow list"""
    return list(wc.table_after) if getattr(wc, "table_after", None) is not None else list(wc.journal_after)


def hist_out(life: list, rows_at_boot: list) -> str:
    """what driver op `c27xhist` prints, computed from the real adapter's calls of the current life"""
    rows = _table(life[-1]) if life else list(rows_at_boot)
    rets = [w.returned for w in life if w.returned is not None]
    fresh = [w.returned for w in life if w.returned is not None and w.recorded]
    jr = [k for (_s, k) in sorted(rows, key=lambda r: r[0])]
    idx = life[-1].idx_after if life else 0
    wf = [s for (s, _k) in rows] == list(range(len(rows)))
    return (f"returned={_ks(rets)} fresh={_ks(fresh)} wf={int(wf)} nofallback={int(not any(w.fallback for w in life))} "
            f"prefix={int(rets == jr[:idx])} idx={idx} journal={_ks(jr)}")


def check_history(life: list, rows_at_boot: list, label: str, case: dict, out: Outcome) -> None:
    """S, on the real adapter and the real table, after EVERY call of a process life (independent of the model):
    rows numbered 0,1,2,.. in insertion order; table = table before the call + the completion the fresh branch handed
    out (no row lost to the orphan purge, none duplicated); `_entries` mirrors the table; and - fallback-free lives -
    the completions handed to the control loop so far are the first `_replay_index` entries of the journal, all of it
    once the replay is over."""
    prev = [k for (_s, k) in rows_at_boot]
    rets: list[str] = []
    fallback = False
    purges = 0
    for i, w in enumerate(life):
        rows = _table(w)
        keys = [k for (_s, k) in rows]
        fallback = fallback or bool(w.fallback)
        if w.returned is not None:
            rets.append(w.returned)
        bad = None
        if [s for (s, _k) in rows] != list(range(len(rows))):
            bad = ("row_numbering_broken", f"rows (seq_num, key) in id order: {rows}")
        elif keys != prev + ([w.returned] if (w.recorded and w.returned is not None) else []):
            bad = ("journal_not_old_plus_fresh", f"before {prev}, call returned {w.returned} recorded={w.recorded}, after {keys}")
        elif w.entries_after is None or list(w.entries_after) != keys:
            bad = ("entries_differ_from_table", f"_entries {w.entries_after} vs table {keys}")
        elif not fallback and (w.idx_after > len(keys) or rets != keys[: w.idx_after]):
            bad = ("observed_not_journal_prefix", f"handed to the loop {rets}, journal {keys}, _replay_index {w.idx_after}")
        elif not fallback and w.idx_after >= len(keys) and rets != keys:
            bad = ("observed_not_whole_journal_after_replay", f"handed to the loop {rets}, journal {keys}")
        # the orphan purge (C27_orphan_purge_once_per_life): at most once per life, never in a call that hands out a replayed completion
        purges += 1 if w.purged else 0
        if bad is None and purges > 1:
            bad = ("orphan_purge_twice_in_one_life", f"purge_operations_from ran again (function id at entry {w.fid_at_entry})")
        elif bad is None and w.purged and w.expected is not None and w.expected in w.inflight and w.returned is not None:
            bad = ("orphan_purge_in_replaying_call", f"the call replayed {w.returned} and purged operation outputs beyond {w.fid_at_entry}")
        if bad is not None:
            out.violations.append(Violation(f"C27/history_invariant[{bad[0]}]", f"{label}: wait call {i}: {bad[1]}", case))
            return
        prev = keys
    out.count("hist_lives_checked")
    out.count("hist_calls_checked", len(life))
    if fallback:
        out.count("hist_lives_with_fallback")
    if purges:
        out.count("hist_lives_with_orphan_purge")


def k2(env: Env, out: Outcome, workdir: str) -> None:
    """the real InternalDBOSAdapter.wait_for_next_task driven with scripted asyncio tasks"""
    from ..dbos_standin import runs as R
    from ..vloop import run_virtual
    from dbos._context import DBOSContext, _ctx
    from workflows.runtime.types.named_task import PendingPull, PendingWorker, PullTask, WorkerTask

    R.install_observers()
    impl0 = JournalImpl(workdir)  # only for a migrated database file
    scripts: list[list[dict]] = []
    rng = env.rng

    def gen_script() -> list[dict]:
        sc: list[dict] = []
        journal: list[str] = []
        if rng.random() < 0.4:
            # rows of ANOTHER run in the same table (out of order, gaps): no call of r1 may touch them (frame clause)
            for s_ in rng.sample(range(0, 9), rng.randint(1, 3)):
                sc.append({"op": "foreign", "seq": s_, "key": rng.choice(KEYS)})
        for _proc in range(rng.randint(1, 4)):
            sc.append({"op": "boot"})
            idx = 0
            for _ in range(rng.randint(2, 9)):
                pool = rng.sample(KEYS, rng.randint(0, 4)) if rng.random() < 0.95 else []
                expected = journal[idx] if idx < len(journal) else None
                if expected is not None and rng.random() < 0.85 and expected not in pool:
                    pool.insert(rng.randrange(len(pool) + 1), expected)
                n_pending = rng.randint(0, len(pool))
                if expected is not None and expected in pool:
                    # replay branch: the recorded task, maybe others, finish; or nothing relevant does (timeout)
                    if rng.random() < 0.8:
                        done = [k for k in pool if k == expected or rng.random() < 0.5]
                        idx += 1
                    else:
                        done = [k for k in pool if k != expected and rng.random() < 0.5]
                else:
                    # fresh branch (or fallback): exactly one task finishes, or none (timeout)
                    done = [rng.choice(pool)] if pool and rng.random() < 0.8 else []
                    if done:
                        journal.append(done[0])
                        idx = len(journal) if expected is None else idx + 1
                if not pool:
                    done = []
                sc.append({"op": "wait", "keys": pool, "pending": n_pending, "done": done, "fid": rng.randint(0, 9)})
                if rng.random() < 0.15:
                    sc.append({"op": "addop", "fid": rng.randint(0, 12)})
        return sc

    scripts.append([{"op": "boot"}, {"op": "wait", "keys": ["a:0", "b:0"], "pending": 2, "done": ["b:0"], "fid": 1},
                    {"op": "wait", "keys": ["a:0", "__pull__:0"], "pending": 1, "done": ["a:0"], "fid": 2},
                    {"op": "addop", "fid": 1}, {"op": "addop", "fid": 7},
                    {"op": "boot"}, {"op": "wait", "keys": ["a:0", "b:0"], "pending": 2, "done": ["a:0", "b:0"], "fid": 1},
                    {"op": "wait", "keys": ["__pull__:0"], "pending": 0, "done": [], "fid": 2},   # expected a:0 not there: fallback, timeout
                    {"op": "wait", "keys": ["a:0", "__pull__:0"], "pending": 0, "done": ["__pull__:0", "a:0"], "fid": 2},
                    {"op": "wait", "keys": ["c:0"], "pending": 1, "done": ["c:0"], "fid": 4},        # transition: purge fid > 4
                    {"op": "wait", "keys": [], "pending": 0, "done": [], "fid": 5}])
    for _ in range(env.budget(12, 120)):
        scripts.append(gen_script())

    def named(key: str, task: Any) -> Any:
        name, num = key.rsplit(":", 1)
        return PullTask(int(num), task) if name == "__pull__" else WorkerTask(name, int(num), task)

    def pend(key: str, coro: Any) -> Any:
        name, num = key.rsplit(":", 1)
        return PendingPull(int(num), coro) if name == "__pull__" else PendingWorker(name, int(num), coro)

    all_lines: list[str] = []
    all_impl: list[str] = []
    for si, sc in enumerate(scripts):
        impl0.new()
        path = impl0.path
        lines: list[str] = ["new"]
        impl_out: list[str] = ["ok"]
        tr = R.Trace()
        lives: list[list] = []  # [index of the life's first wait in tr.waits, rows of r1 read from the table at boot]

        async def main(loop: Any, sc: list[dict] = sc, path: str = path, tr: Any = tr, lines: list[str] = lines, impl_out: list[str] = impl_out,
                       lives: list[list] = lives) -> None:
            adapter = None
            ctx = DBOSContext(workflow_id="r1", function_id=0)
            _ctx.set(ctx)
            for step in sc:
                if step["op"] == "boot":
                    adapter = R.RT.InternalDBOSAdapter("r1", None, None, db_path=path)
                    tr.journal_now = R._journal_rows(path, "r1")
                    lines.append("boot|r1")
                    impl_out.append("ok")
                    lines.append("areplaying")
                    impl_out.append("1" if adapter.is_replaying() else "0")
                    lives.append([len(tr.waits), R._journal_rows(path, "r1")])
                    lines.append("c27xhist")
                    impl_out.append(hist_out([], lives[-1][1]))
                    continue
                if step["op"] == "foreign":
                    line = f"insert|r2|{step['seq']}|{step['key']}"
                    lines.append(line)
                    impl_out.append(impl0.step(line))
                    continue
                if step["op"] == "addop":
                    conn = sqlite3.connect(path)
                    try:
                        have = conn.execute("SELECT 1 FROM operation_outputs WHERE workflow_uuid='r1' AND function_id=?", (step["fid"],)).fetchone()
                        if have is None:
                            conn.execute("INSERT INTO operation_outputs (workflow_uuid, function_id, function_name) VALUES ('r1', ?, 'x')", (step["fid"],))
                            conn.commit()
                            lines.append(f"addop|r1|{step['fid']}|x")
                            impl_out.append("ok")
                    finally:
                        conn.close()
                    continue
                keys, npend, done = step["keys"], step["pending"], step["done"]
                ctx.function_id = step["fid"]
                futs = {k: loop.create_future() for k in keys}

                async def body(k: str) -> str:
                    await futs[k]
                    return k

                run_keys, pend_keys = keys[: len(keys) - npend], keys[len(keys) - npend:]
                running = [named(k, asyncio.ensure_future(body(k))) for k in run_keys]
                pending = [pend(k, body(k)) for k in pend_keys]
                for k in done:
                    futs[k].set_result(None)
                for _ in range(3):
                    await asyncio.sleep(0)
                n0 = len(tr.waits)
                res = await adapter.wait_for_next_task(running, pending, timeout=1.0)
                for nt in running + list(res.started):
                    nt.task.cancel()
                await asyncio.sleep(0)
                wc = tr.waits[n0]
                lines.append(wait_line(wc))
                impl_out.append(wait_out(wc))
                lines.append("areplaying")
                impl_out.append("1" if adapter.is_replaying() else "0")
                lines.append("dump")
                impl_out.append(impl0.dump())
                lines.append("c27xhist")
                impl_out.append(hist_out(tr.waits[lives[-1][0]:], lives[-1][1]))

        R._Obs.trace = tr
        R._Obs.db = None
        try:
            run_virtual(main, max_time=1e6)
        finally:
            R._Obs.trace = None
        all_lines += lines
        all_impl += impl_out
        for li, (w0, rows0) in enumerate(lives):
            w1 = lives[li + 1][0] if li + 1 < len(lives) else len(tr.waits)
            check_history(tr.waits[w0:w1], rows0, f"scripted life {li + 1} of {len(lives)}",
                          {"kind": "k2", "lines": list(lines), "impl": list(impl_out)}, out)
        out.count(f"k2_lives_per_script:{len(lives)}")
        if any(st["op"] == "foreign" for st in sc):
            out.count("k2_scripts_with_foreign_run_rows")
        for wc in tr.waits:
            out.count("k2_wait:" + wait_out(wc).split(" ")[0])
            out.nontrivial(("k2", wc.mode, wc.fallback, wc.returned is None, wc.purged, len(wc.done_at_return) > 1))
    model_out = Driver(MODEL).run(all_lines)
    out.evaluations += len(all_lines)
    out.traces_validated += len(scripts)
    d = diff_streams(MODEL, all_lines, model_out, all_impl, context="K2 wait_for_next_task with scripted tasks")
    if d is not None:
        out.divergences.append(d)
        start = max((i for i in range(d.index + 1) if all_lines[i] == "new"), default=0)
        out.violations.append(Violation("C27/wait_for_next_task_diverges_from_model[scripted]",
                                        f"call {d.op!r}: model {d.model_out!r} vs real {d.impl_out!r}",
                                        {"kind": "k2", "lines": all_lines[start: d.index + 1], "impl": all_impl[start: d.index + 1]}))
    out.sample({"k2_lines": all_lines[:8], "model": model_out[:8]})


# --------------------------------------------------------------------------
# K3 + S: real DBOSRuntime runs on the stand-in, crash snapshots, recovery


def k3_lines(tr: Any, initial_rows: list) -> tuple[list[str], list[str]]:
    """one process (fresh or recovered) as a model op stream + what the real adapter did"""
    from ..dbos_standin.runs import RUN_ID

    lines, impl = ["new"], ["ok"]
    for (seq, key) in initial_rows:
        lines.append(f"insert|{RUN_ID}|{seq}|{key}")
        impl.append("ok")
    lines.append(f"boot|{RUN_ID}")
    impl.append("ok")
    for i, wc in enumerate(tr.waits):
        lines.append(wait_line(wc))
        impl.append(wait_out(wc))
        lines.append("areplaying")
        impl.append("1" if wc.replaying_after else "0")
        lines.append("c27xhist")
        impl.append(hist_out(tr.waits[: i + 1], initial_rows))
    return lines, impl


def completions(tr: Any) -> list[str]:
    return [w.returned for w in tr.waits if w.returned is not None]


def point_after(tr: Any, k: int) -> tuple[int, int]:
    """(ticks, stream) processed when the process enters the wait call that follows its k-th completion"""
    seen = 0
    if k == 0:
        return (tr.waits[0].ticks_before, tr.waits[0].stream_before) if tr.waits else (len(tr.ticks), len(tr.final_wf_stream))
    for i, w in enumerate(tr.waits):
        if w.returned is not None:
            seen += 1
            if seen == k:
                if i + 1 < len(tr.waits):
                    return tr.waits[i + 1].ticks_before, tr.waits[i + 1].stream_before
                return len(tr.ticks), len(tr.final_wf_stream)
    return len(tr.ticks), len(tr.final_wf_stream)


def timeout_in_prefix(tr: Any, k: int) -> bool:
    """did the process act on a wait timeout before its k-th completion (the guard of C27_journal_replay)"""
    seen = 0
    for w in tr.waits:
        if seen >= k:
            return False
        if w.returned is None and w.inflight:
            return True
        if w.returned is not None:
            seen += 1
    return False


def check_process(tr: Any, label: str, case: dict, out: Outcome) -> None:
    """monitors on any single process: write order, key distinctness (hypotheses of the theorems)"""
    for i, w in enumerate(tr.waits):
        if len(set(w.inflight)) != len(w.inflight):
            out.violations.append(Violation("C27/inflight_keys_not_distinct", f"{label}: wait call {i} has tasks {w.inflight}", case))
            return
        replay_branch = w.expected is not None and w.expected in w.inflight
        if w.returned is not None and not replay_branch and not w.recorded:
            out.violations.append(Violation("C27/completion_returned_before_journal_insert",
                                            f"{label}: wait call {i} returned {w.returned} in fresh mode without a committed INSERT", case))
            return
        if w.returned is not None and replay_branch and (w.returned != w.expected or w.recorded):
            out.violations.append(Violation("C27/replay_returned_other_than_recorded",
                                            f"{label}: wait call {i}: journal says {w.expected}, returned {w.returned} (done: {w.done_at_return})", case))
            return
    # the journal is exactly the completions acted upon (C27_write_order), seq_nums contiguous
    comp = completions(tr)
    rows = tr.journal_rows
    if tr.outcome[0] in ("result", "error") and [k for (_s, k) in rows] != comp:
        out.violations.append(Violation("C27/journal_differs_from_acted_completions",
                                        f"{label}: journal {[k for (_s, k) in rows]} vs acted {comp}", case))
    elif [s for (s, _k) in rows] != list(range(len(rows))):
        out.violations.append(Violation("C27/journal_seq_nums_not_contiguous", f"{label}: {rows}", case))


def check_recovery(ref: Any, snap: dict, rec: Any, case: dict, out: Outcome, det: bool) -> str:
    """monitors on one recovery; returns a classification tag for the distribution"""
    from ..dbos_standin import runs as R

    k = len(snap["journal"])
    recorded = [key for (_s, key) in snap["journal"]]
    probs: list[tuple[str, str]] = []
    obs = completions(rec)
    if obs[:k] != recorded:
        probs.append(("completion_order", f"recorded {recorded} / observed {obs[:k + 1]}"))
    if rec.journal_rows[:k] != [tuple(r) for r in snap["journal"]]:
        probs.append(("journal_prefix", f"recorded {snap['journal']} / after recovery {rec.journal_rows[:k + 1]}"))
    if any(w.fallback for w in rec.waits):
        probs.append(("nondeterminism_fallback", "expected key not among the tasks during replay"))
    # replayed part: ticks and published events up to the first fresh wait
    nt_ref, ns_ref = point_after(ref, k)
    nt_rec, ns_rec = point_after(rec, k)
    if len(obs) >= k:
        if rec.ticks[:nt_rec] != ref.ticks[:nt_ref]:
            i = next((j for j in range(min(nt_rec, nt_ref)) if rec.ticks[j] != ref.ticks[j]), min(nt_rec, nt_ref))
            probs.append(("ticks", f"first difference at tick {i} of {nt_ref}/{nt_rec}"))
        if rec.final_wf_stream[:ns_ref] != ref.final_wf_stream[:ns_ref]:
            probs.append(("published_events", f"replayed part: the first {ns_ref} events published by the control loop differ "
                                              f"({len(rec.final_wf_stream)} after recovery)"))
    dirty = bool(snap.get("dirty"))
    if det and not dirty:
        if R.canon_result(rec.outcome) != R.canon_result(ref.outcome):
            probs.append(("result", f"uninterrupted {R.canon_result(ref.outcome)} / recovered {R.canon_result(rec.outcome)}"))
        elif rec.store != ref.store:
            probs.append(("store", f"uninterrupted {ref.store} / recovered {rec.store}"))
    if not probs:
        return "ok-dirty" if dirty else "ok"
    # classification of the cause (known findings are attributed only on their exact facts)
    purged_recv = [f for (_fid0, gone) in rec.purges for f in gone
                   if f[1] == "DBOS.recv" and snap["state"]["values"].get((R.RUN_ID, f[0]), ("ok", None))[1] is not None]
    rules = sorted({p[0] for p in probs})
    what = "; ".join(f"{a}: {b}" for a, b in probs)
    where = f"stop point {snap['kind']} after {snap['writes']} durable writes, journal length {k}"
    if any(w.returned is None and w.inflight for w in ref.waits[: snap.get("waits", 0)]):
        # the crashed process had acted on a wait timeout before it stopped: outside the guard of C27_journal_replay
        out.violations.append(Violation(SIG_TIMER, f"{where}: {what}", case))
        return "timer"
    if purged_recv and set(rules) <= {"result", "store"}:
        out.violations.append(Violation(SIG_RECV, f"{where}: purge deleted {purged_recv}: {what}", case))
        return "recv_purged"
    out.violations.append(Violation(f"C27/recovery_differs[{','.join(rules)}]", f"{where}: {what}", case))
    return "bad"


def _multiset(xs: list) -> dict:
    d: dict = {}
    for x in xs:
        d[x] = d.get(x, 0) + 1
    return d


def _is_subsequence(small: list, big: list) -> bool:
    it = iter(big)
    return all(any(x == y for y in it) for x in small)


def tick_windows(ref: Any, k: int) -> tuple[int, tuple[int, int]]:
    """from the uninterrupted run alone: (number of ticks reduced before its first wait_for_next_task call,
    (lo, hi]) = the ticks reduced between the return of the call that delivered the k-th journaled completion and
    the next call (the "boundary" tick(s) of a stop with k journal rows).  Counted as `len(ticks)` at publication."""
    first = ref.waits[0].ticks_before if ref.waits else len(ref.ticks)
    if k == 0:
        return first, (0, 0)
    seen = 0
    for i, w in enumerate(ref.waits):
        if w.returned is not None:
            seen += 1
            if seen == k:
                hi = ref.waits[i + 1].ticks_before if i + 1 < len(ref.waits) else len(ref.ticks)
                return first, (w.ticks_before, hi)
    return first, (len(ref.ticks), len(ref.ticks))


def check_store(ref: Any, snap: dict, rec: Any, case: dict, out: Outcome, *, det: bool = True, bound_duplicates: bool = True,
                uninterrupted: Any = None) -> None:
    """server mode, clean stop point, replay verified equal (tag ok): the published events as STORED in the workflow
    store (both process lives together).  Nothing here consults `is_replaying()`; what is expected is recomputed from the
    uninterrupted run `ref`, the stop point, and what the recovered control loop itself handed to the adapter.
      (1) every event the uninterrupted run published up to and including the tick of the last journaled completion
          (that part of the execution is fixed by the journal) is in the store, in order;
      (2) from that tick on, the recovered process stores exactly what its control loop publishes (the crashed process
          cannot be known to have published any of it);
      (3) the stored handler status/result is that of the run (and of the uninterrupted run, for deterministic workflows);
      (4) an event of an earlier tick is not stored again - except the ticks reduced before the journal is first read.
    `ref` is the process that was stopped (the uninterrupted run itself, or - second level - a recovered process whose own
    schedule made the journal being replayed); `uninterrupted` is the uninterrupted run (default: `ref`)."""
    uninterrupted = uninterrupted if uninterrupted is not None else ref
    k = len(snap["journal"])
    where = f"stop point {snap['kind']} after {snap['writes']} durable writes, journal length {k}, {snap.get('stored', '?')} events stored"
    first, (lo, hi) = tick_windows(ref, k)
    if k == 0:
        lo, hi = 0, first  # nothing journaled: the ticks before the first wait call are the fixed part, and all of it is "boundary"
    if len(uninterrupted.store_appends) != len(uninterrupted.store_events) or \
            [e for (_s, e) in uninterrupted.published] != [e for (_s, e) in uninterrupted.store_appends]:
        out.violations.append(Violation("C27/uninterrupted_run_did_not_store_what_it_published",
                                        f"{where}: {len(uninterrupted.published)} published, {len(uninterrupted.store_appends)} appends seen, "
                                        f"{len(uninterrupted.store_events)} rows", case))
        return

    def window(stamp: int) -> str:
        if lo < stamp <= hi:
            return "last_journaled_tick" if k >= 1 else "before_first_wait"
        if stamp <= first:
            return "before_first_wait"
        return "replayed_part" if stamp <= lo else "fresh_part"

    def short(ev: str) -> str:
        t, _, v = ev.partition(":")
        if t == "StepStateChanged":
            try:
                d = json.loads(v)
                return f"StepStateChanged({d.get('name')},{d.get('step_state')})"
            except Exception:  # noqa: BLE001
                pass
        return t

    got = rec.store_events
    terminal_ev = ref.published[-1][1] if ref.published and ref.outcome[0] == "result" else None
    # ---- (1) the fixed part: what the stopped process's control loop published up to the end of the last journaled tick
    fixed = [(st, ev) for (st, ev) in ref.published if st <= hi]
    gm = _multiset(got)
    lost: list[tuple] = []
    for ev, n in _multiset([ev for (_st, ev) in fixed]).items():
        miss = n - gm.get(ev, 0)
        if miss > 0:
            lost += [(st, e) for (st, e) in fixed if e == ev][-miss:]
    rule1 = bool(lost)
    # ---- (2) from the boundary tick on: stored by the recovered process == published by its control loop
    pub = [(st, ev) for (st, ev) in rec.published if st > lo]
    app = [(st, ev) for (st, ev) in rec.store_appends if st > lo]
    if not lost and [e for (_s, e) in pub] != [e for (_s, e) in app]:
        am = _multiset([e for (_s, e) in app])
        for ev, n in _multiset([e for (_s, e) in pub]).items():
            miss = n - am.get(ev, 0)
            if miss > 0:
                lost += [(st, e) for (st, e) in pub if e == ev][-miss:]
    if lost:
        lost.sort(key=lambda p: p[0])
        wins = sorted({window(st) for (st, _e) in lost})
        # the terminal event of the run (the StopEvent that completes it) is among the lost ones
        term = int(any(ev == terminal_ev for (_st, ev) in lost) or
                   (rec.outcome[0] == "result" and bool(rec.published) and rec.published[-1] in lost))
        out.violations.append(Violation(
            f"C27/published_event_never_stored_after_recovery[tick={'+'.join(wins)},terminal_event={term}]",
            f"{where}: after the stop and the recovery the workflow store holds {len(got)} events of the run and lacks "
            f"{[short(e) + '@tick' + str(st) for (st, e) in lost]}"
            + (f" which the stopped process published before the stop or would have published for its last journaled completion "
               f"(uninterrupted run: {len(uninterrupted.store_events)} stored)" if rule1 else " which the recovered control loop published")
            + f"; recovered process stored {[short(e) for (_s, e) in rec.store_appends]}", case))
    elif not _is_subsequence([ev for (_st, ev) in fixed], got):
        out.violations.append(Violation("C27/stored_events_reordered_after_recovery",
                                        f"{where}: the store does not hold the {len(fixed)} events of the journaled part in the uninterrupted run's order", case))
    # ---- (3) handler status / result
    if rec.outcome[0] == "result":
        want_h = uninterrupted.handler if det else ("completed", rec.handler[1] if rec.handler else None)
        if rec.handler is None or rec.handler[0] != "completed" or (det and rec.handler != want_h):
            u, r = (want_h or ("<no row>", None)), (rec.handler or ("<no row>", None))
            out.violations.append(Violation(
                f"C27/handler_status_differs_after_recovery[uninterrupted={u[0]},recovered={r[0]}]",
                f"{where}: the recovered run finished ({R_canon(rec.outcome)}) but the stored handler is {r}, uninterrupted run: {u}", case))
    # ---- (4) stored again
    again = [(st, ev) for (st, ev) in rec.store_appends if st <= lo]
    for st, ev in again:
        out.count("store_duplicates:" + window(st))
    fm = _multiset([e for (_s, e) in fixed])
    for ev, n in fm.items():
        if gm.get(ev, 0) > n:
            for w_ in sorted({window(st) for (st, e) in fixed if e == ev}):
                out.count("store_duplicates_events:" + w_)
    bad = [(st, ev) for (st, ev) in again if window(st) != "before_first_wait"]
    if bound_duplicates and bad and not lost:
        out.violations.append(Violation(
            f"C27/published_event_stored_again_after_recovery[tick={'+'.join(sorted({window(st) for (st, _e) in bad}))}]",
            f"{where}: the recovered process stored {[short(e) + '@tick' + str(st) for (st, e) in bad]} again although the crashed process had "
            f"journaled a later completion (so it had published them)", case))
    out.count("store_checked")


def R_canon(outcome: tuple) -> str:
    from ..dbos_standin import runs as R

    return R.canon_result(outcome)


def run_case(spec: dict, seed: int, out: Outcome, env: Env, *, server: dict | None = None, actions: list[int] | None = None, select: Any = None,
             max_recover: int = 1000, other_p: float = 0.0, det: bool = True, second_level: int = 0, name: str = "") -> None:
    from ..dbos_standin import runs as R

    frng = random.Random(seed * 7919 + 13)

    def snap_filter(kind: str, meta: dict) -> bool:
        if kind in ("wf_end",):
            return False
        if kind.startswith("journal_") or kind.startswith("store_"):
            return True
        return frng.random() < other_p

    ref = R.fresh_run(spec, seed, snap_filter=snap_filter, replay_actions=actions, server=server)
    base_case = {"kind": "recover", "spec": spec, "seed": seed, "actions": list(ref.actions), "other_p": other_p, "det": det, "name": name,
                 "server": server}
    if server:
        out.count("fresh_runs:server" + ("+interceptor" if server.get("intercept") else ""))
        out.count("stored_events", len(ref.store_events))
        if det and ref.outcome[0] == "result" and (ref.handler is None or ref.handler[0] != "completed" or not ref.store_events):
            out.violations.append(Violation("C27/uninterrupted_run_not_stored_as_completed",
                                            f"{name}: handler {ref.handler}, {len(ref.store_events)} stored events", dict(base_case, snapshot=None)))
    out.evaluations += 1
    out.count("fresh_runs")
    out.count("fresh_outcome:" + ref.outcome[0])
    out.count("journal_entries", len(ref.journal_rows))
    out.count("wait_calls", len(ref.waits))
    out.count("wait_timeouts", sum(1 for w in ref.waits if w.returned is None and w.inflight))
    out.count("multi_done_waits", sum(1 for w in ref.waits if len(w.done_at_return) > 1))
    check_process(ref, "fresh run", dict(base_case, snapshot=None), out)
    check_history(ref.waits, [], "fresh run", dict(base_case, snapshot=None), out)
    lines, impl = k3_lines(ref, [])
    streams = [(lines, impl, dict(base_case, snapshot=None))]
    if det and ref.outcome[0] != "result":
        out.violations.append(Violation("C27/uninterrupted_run_did_not_finish", f"{name}: outcome {R.canon_result(ref.outcome)}", dict(base_case, snapshot=None)))
    snaps = [s for s in ref.snapshots if s["state"]["workflows"].get(R.RUN_ID, {}).get("status") == "PENDING"]
    if select is not None:
        snaps = [s for s in snaps if select(s)]
    if len(snaps) > max_recover:
        # every journal length first (pre and post INSERT), the rest sampled; in server mode the stops between a journal
        # INSERT and the end of the publication of that completion's tick come first
        prio = ("journal_post_insert", "store_") if server else ("journal_",)
        jr = [s for s in snaps if s["kind"].startswith(prio)]
        rest = [s for s in snaps if not s["kind"].startswith(prio)]
        env.rng.shuffle(rest)
        if len(jr) > max_recover:
            keep = sorted(env.rng.sample(range(len(jr)), max_recover))
            jr = [jr[i] for i in keep]
        snaps = jr + rest[: max(0, max_recover - len(jr))]
    for s in snaps:
        rseed = seed * 31 + s["index"]
        sub_filter = None
        if second_level and s["index"] % 4 == 0:
            srng = random.Random(rseed)
            sub_filter = lambda kind, meta: kind.startswith("journal_") and srng.random() < 0.5  # noqa: E731
        rec = R.recover_run(spec, s, rseed, snap_filter=sub_filter, server=server)
        case = dict(base_case, snapshot={"kind": s["kind"], "writes": s["writes"], "stored": s.get("stored", 0)}, rec_seed=rseed)
        out.evaluations += 1
        out.count("recoveries")
        out.count("stop_point:" + s["kind"])
        out.nontrivial(("rec", name, seed, s["kind"], s["writes"]))
        tag = check_recovery(ref, s, rec, case, out, det)
        if tag != "timer":  # after a replay that is known to diverge (timer finding) the process is not a valid execution
            check_process(rec, "recovered run", case, out)
        # the table / mirror / observed-prefix invariants hold for ANY call sequence (C27_journal_table_all_lives): checked even then
        check_history(rec.waits, [tuple(r) for r in s["journal"]], "recovered run", case, out)
        if server and tag == "ok" and ref.outcome[0] == "result":
            check_store(ref, s, rec, case, out, det=det)
        out.count("recovery:" + tag)
        out.count("replayed_entries", len(s["journal"]))
        l2, i2 = k3_lines(rec, [tuple(r) for r in s["journal"]])
        streams.append((l2, i2, case))
        if second_level and tag in ("ok", "ok-dirty") and s["index"] % 4 == 0:
            subs = [x for x in rec.snapshots if x["state"]["workflows"].get(R.RUN_ID, {}).get("status") == "PENDING"][:second_level]
            for x in subs:
                rec2 = R.recover_run(spec, x, rseed * 17 + x["index"], server=server)
                case2 = dict(case, second={"kind": x["kind"], "writes": x["writes"]})
                out.evaluations += 1
                out.count("recoveries_second_level")
                x = dict(x, dirty=bool(x.get("dirty")) or bool(s.get("dirty")))
                tag2 = check_recovery(rec, x, rec2, case2, out, det and tag == "ok")
                if tag2 != "timer":
                    check_process(rec2, "twice recovered run", case2, out)
                check_history(rec2.waits, [tuple(r) for r in x["journal"]], "twice recovered run", case2, out)
                if server and tag == "ok" and tag2 == "ok" and ref.outcome[0] == "result":
                    check_store(rec, x, rec2, case2, out, det=det, uninterrupted=ref)
                out.count("recovery2:" + tag2)
    # K3: every wait_for_next_task call of every process against the model
    flat = [l for (ls, _i, _c) in streams for l in ls]
    flat_impl = [l for (_l, im, _c) in streams for l in im]
    model_out = Driver(MODEL).run(flat)
    out.evaluations += len(flat)
    out.traces_validated += len(streams)
    d = diff_streams(MODEL, flat, model_out, flat_impl, context=f"K3 wait_for_next_task calls of real runs ({name})")
    if d is not None:
        out.divergences.append(d)
        pos = 0
        for (ls, _im, c) in streams:
            if pos <= d.index < pos + len(ls):
                out.violations.append(Violation("C27/wait_for_next_task_diverges_from_model[live]",
                                                f"call {d.op!r}: model {d.model_out!r} vs real {d.impl_out!r}", c))
                break
            pos += len(ls)
    if len(out.samples) < 5:
        out.sample({"case": name, "journal": [k for (_s, k) in ref.journal_rows], "result": R.canon_result(ref.outcome),
                    "stop_points_recovered": len(snaps)})


# --------------------------------------------------------------------------


def _selector(desc: dict | None) -> Any:
    if not desc:
        return None
    state = {"taken": 0}

    def sel(s: dict) -> bool:
        if "kind" in desc and s["kind"] != desc["kind"]:
            return False
        if "name" in desc and s.get("name") != desc["name"]:
            return False
        if "seq" in desc and s.get("seq") != desc["seq"]:
            return False
        if "writes" in desc and s["writes"] != desc["writes"]:
            return False
        if "stored" in desc and s.get("stored", 0) != desc["stored"]:
            return False
        if len(s["journal"]) < desc.get("min_journal", 0):
            return False
        if desc.get("first") and state["taken"] >= 1:
            return False
        state["taken"] += 1
        return True

    return sel


CORPUS_FILES = ["c27_recv_purged.json", "c27_timer_order.json"]
CORPUS_FIRST = ["c27_stop_between_journal_and_publication.json"]  # hand-picked stop points, run before everything else

# a three-step chain and a two-way fan-out: every journal length, before and after the INSERT
CORPUS_INLINE = [
    {"name": "chain", "seed": 3, "spec": {"steps": [
        {"name": "s00", "accepts": [0], "nw": 1, "retry": None, "script": [["ret", "5"]]},
        {"name": "s02", "accepts": [5], "nw": 1, "retry": None, "script": [["store_mark"], ["ret", "6"]]},
        {"name": "s04", "accepts": [6], "nw": 1, "retry": None, "script": [["ret", "stop", "uid"]]}],
        "externals": [], "det_uids": True}},
    {"name": "fanout2", "seed": 5, "spec": {"steps": [
        {"name": "s00", "accepts": [0], "nw": 1, "retry": None, "script": [["send", 5, None, 0], ["send", 5, None, 1], ["ret", "none"]]},
        {"name": "s02", "accepts": [5], "nw": 2, "retry": None, "script": [["gate"], ["store_mark"], ["ret", "6"]]},
        {"name": "s04", "accepts": [6], "nw": 1, "retry": None, "script": [["collect", [6, 6]], ["ret", "stop", "collected"]]}],
        "externals": [], "det_uids": True}},
]


def run(env: Env) -> Outcome:
    from ..boot import boot

    boot()
    from ..engine import specgen

    out = Outcome()
    out.rule = ("evaluation = one op of the journal object / one wait_for_next_task call diffed against the model, one fresh "
                "DBOSRuntime run (bare or behind the server adapter chain), or one recovery from a crash snapshot; non-trivial = a recovery from a distinct stop point "
                "(spec, schedule, kind of durable write, number of durable writes) or a scripted wait call with a distinct "
                "(mode, fallback, timeout, purge, several-done) signature")
    workdir = _tmpdir()
    try:
        # ---- replay of a stored case first
        if env.replay is not None:
            case = (env.replay.get("payload") or {}).get("case") or {}
            if case.get("kind") == "recover":
                snap = case.get("snapshot")
                run_case(case["spec"], case["seed"], out, env, actions=case.get("actions"), other_p=case.get("other_p", 0.0),
                         det=case.get("det", True), server=case.get("server"), select=_selector(dict(snap, first=True)) if snap else (lambda s: False),
                         name="replay:" + str(case.get("name", "")))
            elif case.get("kind") == "k1":
                impl = JournalImpl(workdir)
                ops = case.get("ops", [])
                start = max((i for i, l in enumerate(ops) if l == "new"), default=None)
                ops = ops[start:] if start is not None else ["new"] + ops
                mo = Driver(MODEL).run(ops)
                io = [impl.step(l) for l in ops]
                d = diff_streams(MODEL, ops, mo, io, context="replay k1")
                if d is not None:
                    out.divergences.append(d)
                    out.violations.append(Violation("C27/journal_object_diverges_from_model", f"op {d.op!r}: model {d.model_out!r} vs real {d.impl_out!r}", case))
        # ---- hand-picked stop points first
        for fn in CORPUS_FIRST:
            c = json.load(open(os.path.join(VERIF, "harness", "corpus", fn)))
            run_case(c["spec"], c["seed"], out, env, actions=c.get("actions"), other_p=c.get("other_p", 0.0),
                     select=_selector(c.get("select")), server=c.get("server"), name="corpus:" + fn)
        # ---- K1, K2
        k1(env, out, workdir)
        k2(env, out, workdir)
        # ---- corpus: hand-picked workflows, every journal length; then the two known-finding witnesses
        for c in CORPUS_INLINE:
            run_case(c["spec"], c["seed"], out, env, other_p=0.5, max_recover=env.budget(12, 60), name="corpus:" + c["name"],
                     second_level=1 if env.tier != "quick" else 0)
        # the same workflows behind the server's adapter chain (published events go to the workflow store): every stop between
        # a journal INSERT and the end of the publication of that completion's tick, every journal length
        for c in CORPUS_INLINE:
            for intercept in (True, False):
                run_case(c["spec"], c["seed"], out, env, other_p=0.1, max_recover=env.budget(40, 120), server={"intercept": intercept},
                         name=f"corpus:{c['name']}:server{'+interceptor' if intercept else ''}", second_level=1 if env.tier != "quick" else 0)
        for fn in CORPUS_FILES:
            path = os.path.join(VERIF, "harness", "corpus", fn)
            if not os.path.exists(path):
                out.notes.append(f"corpus file missing: {fn}")
                continue
            c = json.load(open(path))
            run_case(c["spec"], c["seed"], out, env, actions=c.get("actions"), other_p=c.get("other_p", 0.0),
                     select=_selector(c.get("select")), server=c.get("server"), name="witness:" + fn)
        # ---- generated: deterministic family, timer-free (the guards of the theorems hold: monitors must be silent)
        n_specs = env.budget(3, 20)
        for i in range(n_specs):
            spec = specgen.gen_det_spec(env.rng)
            out.count("spec:det")
            sd = env.rng.randrange(1 << 30)
            run_case(spec, sd, out, env, other_p=0.15 if env.tier == "quick" else 0.4,
                     max_recover=env.budget(9, 45), name=f"det{i}", second_level=0 if env.tier == "quick" else 1)
            # ... and behind the server's adapter chain (alternating with / without the event interceptor)
            run_case(spec, sd, out, env, other_p=0.05, max_recover=env.budget(24, 60), server={"intercept": i % 2 == 0},
                     name=f"det{i}:server", second_level=0 if env.tier == "quick" else 1)
        # ---- generated: general timer-free workflows (failures, handlers, collects): replayed part only
        for i in range(env.budget(1, 12)):
            spec = specgen.gen_spec(env.rng, family="general", allow_wait=False, allow_retry=False, allow_external=False,
                                    allow_timeout=False)
            spec["externals"] = []
            out.count("spec:general")
            run_case(spec, env.rng.randrange(1 << 30), out, env, other_p=0.2, max_recover=env.budget(5, 20), det=False, name=f"gen{i}")
        # ---- generated: retry delays (scheduled wakeups): anything that differs here is classified by its exact cause
        for i in range(env.budget(1, 8)):
            spec = specgen.gen_det_spec(env.rng, delays=True)
            out.count("spec:det+delays")
            run_case(spec, env.rng.randrange(1 << 30), out, env, other_p=0.1, max_recover=env.budget(4, 20), name=f"delay{i}")
    finally:
        shutil.rmtree(workdir, ignore_errors=True)
    return out
