import WfProofs.EngineReduce
/-!
One failed execution, one successor (C05).  A result list may leave its execution *in progress* (a stale
`collect_events` snapshot: the invocation is run again at once, same retry number) and it may *queue a retry* (a
`StepWorkerFailed` the policy grants: the invocation is run again later, retry number + 1).  Since the repair
"a failure in the same step result as a stale snapshot no longer both re-runs and retries" the `StepWorkerFailed` branch
is skipped once the re-run is scheduled (`if not step_no_longer_in_progress: continue`), so a list in which nothing is
collected after the failure — the step wrapper appends the failure last — never does both
(`foldl_applyRes_noFork`).  The reducer before the repair is kept in `WfProofs/EngineForkUnrepaired.lean`.
-/
set_option linter.unusedSimpArgs false
set_option linter.unusedVariables false

namespace Engine

def isAddCollected : Res → Bool | .addCollected _ _ => true | _ => false
def isFailed : Res → Bool | .failed _ _ => true | _ => false

/-- a re-queued retry: the only `queueEvent` with a delay -/
def Cmd.isRetry : Cmd → Bool
  | .queueEvent _ _ (some _) => true
  | _ => false

/-- only an `AddCollectedEvent` leaves the execution in progress -/
theorem applyRes_still (cfg : Cfg) (pol : Policy) (step : Nat) (tickEv : Ev) (dc : Bool) (acc : ResAcc) (r : Res)
    (hr : isAddCollected r = false) :
    (applyRes cfg pol step tickEv dc acc r).stillInProgress = acc.stillInProgress := by
  cases r with
  | result r =>
    cases r with
    | none => rfl
    | some ev => simp only [applyRes]; split <;> rfl
  | failed exc t =>
    simp only [applyRes]
    split
    · rfl
    split
    · rfl
    all_goals
      split
      · split <;> rfl
      · rfl
  | addCollected buf ev => simp [isAddCollected] at hr
  | deleteCollected buf => simp only [applyRes]; split <;> rfl
  | addWaiter wid waiterEv req timeout ty => simp only [applyRes]; split <;> rfl
  | deleteWaiter wid => simp only [applyRes]; split <;> rfl

theorem foldl_applyRes_still (cfg : Cfg) (pol : Policy) (step : Nat) (tickEv : Ev) (dc : Bool) :
    ∀ (res : List Res) (acc : ResAcc), res.all (fun r => !isAddCollected r) = true →
      (res.foldl (applyRes cfg pol step tickEv dc) acc).stillInProgress = acc.stillInProgress
  | [], acc, _ => rfl
  | r :: rs, acc, h => by
    simp only [List.all_cons, Bool.and_eq_true, Bool.not_eq_eq_eq_not, Bool.not_true] at h
    simp only [List.foldl_cons]
    rw [foldl_applyRes_still cfg pol step tickEv dc rs _ (by simpa using h.2), applyRes_still _ _ _ _ _ _ _ h.1]

/-- only a `StepWorkerFailed` queues a retry -/
theorem applyRes_noRetry (cfg : Cfg) (pol : Policy) (step : Nat) (tickEv : Ev) (dc : Bool) (acc : ResAcc) (r : Res)
    (hr : isFailed r = false) (h : acc.cmds.any Cmd.isRetry = false) :
    (applyRes cfg pol step tickEv dc acc r).cmds.any Cmd.isRetry = false := by
  cases r with
  | result r =>
    cases r with
    | none => exact h
    | some ev =>
      simp only [applyRes]
      split
      · simp [List.any_append, h, Cmd.isRetry]
      · simp only [List.any_append, h, Bool.false_or]
        split <;> simp [Cmd.isRetry]
  | failed exc t => simp [isFailed] at hr
  | addCollected buf ev =>
    simp only [applyRes]
    split
    · exact h
    split
    · simp [List.any_append, h, Cmd.isRetry]
    · exact h
  | deleteCollected buf => simp only [applyRes]; split <;> exact h
  | addWaiter wid waiterEv req timeout ty =>
    simp only [applyRes]
    split
    · exact h
    · simp only [List.any_append, h, Bool.false_or]
      cases waiterEv <;> cases timeout <;> simp [Cmd.isRetry]
  | deleteWaiter wid => simp only [applyRes]; split <;> exact h

theorem foldl_applyRes_noRetry (cfg : Cfg) (pol : Policy) (step : Nat) (tickEv : Ev) (dc : Bool) :
    ∀ (res : List Res) (acc : ResAcc), res.all (fun r => !isFailed r) = true → acc.cmds.any Cmd.isRetry = false →
      (res.foldl (applyRes cfg pol step tickEv dc) acc).cmds.any Cmd.isRetry = false
  | [], acc, _, h => h
  | r :: rs, acc, hr, h => by
    simp only [List.all_cons, Bool.and_eq_true, Bool.not_eq_eq_eq_not, Bool.not_true] at hr
    simp only [List.foldl_cons]
    exact foldl_applyRes_noRetry cfg pol step tickEv dc rs _ (by simpa using hr.2)
      (applyRes_noRetry cfg pol step tickEv dc acc r hr.1 h)

/-- no result but a `StepWorkerFailed` queues or removes a retry -/
theorem applyRes_retry_eq (cfg : Cfg) (pol : Policy) (step : Nat) (tickEv : Ev) (dc : Bool) (acc : ResAcc) (r : Res)
    (hr : isFailed r = false) :
    (applyRes cfg pol step tickEv dc acc r).cmds.any Cmd.isRetry = acc.cmds.any Cmd.isRetry := by
  cases r with
  | result r =>
    cases r with
    | none => rfl
    | some ev =>
      simp only [applyRes]
      split
      · simp [List.any_append, Cmd.isRetry]
      · simp only [List.any_append]
        split <;> simp [Cmd.isRetry]
  | failed exc t => simp [isFailed] at hr
  | addCollected buf ev =>
    simp only [applyRes]
    split
    · rfl
    split
    · simp [List.any_append, Cmd.isRetry]
    · rfl
  | deleteCollected buf => simp only [applyRes]; split <;> rfl
  | addWaiter wid waiterEv req timeout ty =>
    simp only [applyRes]
    split
    · rfl
    · simp only [List.any_append]
      cases waiterEv <;> cases timeout <;> simp [Cmd.isRetry]
  | deleteWaiter wid => simp only [applyRes]; split <;> rfl

/-- a failure is followed, later in the same list, by an `AddCollectedEvent` (what the step wrapper never builds: it
appends the `StepWorkerFailed` last) -/
def collectAfterFailure : List Res → Bool
  | [] => false
  | r :: rs => (isFailed r && rs.any isAddCollected) || collectAfterFailure rs

/-- the failure branch leaves a scheduled re-run alone -/
theorem applyRes_failed_still (cfg : Cfg) (pol : Policy) (step : Nat) (tickEv : Ev) (dc : Bool) (acc : ResAcc)
    (exc : Nat) (t : Int) (h : acc.stillInProgress = true) :
    applyRes cfg pol step tickEv dc acc (.failed exc t) = acc := by
  simp [applyRes, h]

/-- **no fork**: on a list in which nothing is collected after a failure, starting from an accumulator that is not both
"still in progress" and "retry queued" (and, if a retry is queued, with no collect results ahead), the fold never ends
with both -/
theorem foldl_applyRes_noFork (cfg : Cfg) (pol : Policy) (step : Nat) (tickEv : Ev) (dc : Bool) :
    ∀ (res : List Res) (acc : ResAcc), collectAfterFailure res = false →
      (acc.cmds.any Cmd.isRetry = true → acc.stillInProgress = false ∧ res.any isAddCollected = false) →
      ¬ ((res.foldl (applyRes cfg pol step tickEv dc) acc).stillInProgress = true ∧
         (res.foldl (applyRes cfg pol step tickEv dc) acc).cmds.any Cmd.isRetry = true)
  | [], acc, _, hinv => by
    intro ⟨h1, h2⟩
    have := (hinv h2).1
    simp only [List.foldl_nil] at h1
    rw [this] at h1; cases h1
  | r :: rs, acc, hg, hinv => by
    simp only [collectAfterFailure, Bool.or_eq_false_iff, Bool.and_eq_false_iff] at hg
    simp only [List.foldl_cons]
    apply foldl_applyRes_noFork cfg pol step tickEv dc rs _ hg.2
    intro hretry
    by_cases hf : isFailed r = true
    · -- a failure: nothing is collected after it
      have hrs : rs.any isAddCollected = false := by
        rcases hg.1 with h | h
        · rw [h] at hf; cases hf
        · exact h
      refine ⟨?_, hrs⟩
      cases r with
      | failed exc t =>
        by_cases hs : acc.stillInProgress = true
        · -- skipped: the accumulator is unchanged, so the retry was queued before, with the run not in progress
          rw [applyRes_failed_still _ _ _ _ _ _ _ _ hs] at hretry ⊢
          exact (hinv hretry).1
        · have hs' : acc.stillInProgress = false := by simpa using hs
          rw [applyRes_still _ _ _ _ _ _ _ rfl]; exact hs'
      | _ => simp [isFailed] at hf
    · have hf' : isFailed r = false := by simpa using hf
      rw [applyRes_retry_eq _ _ _ _ _ _ _ hf'] at hretry
      obtain ⟨h1, h2⟩ := hinv hretry
      simp only [List.any_cons, Bool.or_eq_false_iff] at h2
      refine ⟨?_, h2.2⟩
      rw [applyRes_still _ _ _ _ _ _ _ h2.1]; exact h1

end Engine
