import WfProofs.SseClientReader

/-! Connections and the reconnect loop: every connection extends the queued events by a prefix of
what is still pending after `last`; with a fault-free last connection everything is delivered. -/

namespace SseClient
open Gen.SseClient

/-! ## the log -/

/-- sequences strictly increase and only the last event may be terminal -/
def LogOk (log : List Ev) : Prop := log.Pairwise fun a b => a.seq < b.seq ∧ a.terminal = false

def aft (c : Int) (l : List Ev) : List Ev := l.filter fun e => c < (e.seq : Int)

theorem later_eq (srv : Server) (c : Int) : srv.later c = aft c srv.log := rfl

theorem LogOk.aft {l : List Ev} (h : LogOk l) (c : Int) : LogOk (aft c l) := List.Pairwise.filter _ h

theorem LogOk.drop {l : List Ev} (h : LogOk l) (j : Nat) : LogOk (l.drop j) := List.Pairwise.drop h

theorem takeThrough_logOk : ∀ l : List Ev, LogOk l → takeThrough (·.terminal) l = l := by
  intro l
  induction l with
  | nil => intro _; rfl
  | cons x xs ih =>
    intro h
    have hx := (List.pairwise_cons.mp h)
    unfold takeThrough
    by_cases ht : x.terminal = true
    · cases xs with
      | nil => simp [ht]
      | cons y ys =>
        have := (hx.1 y (by simp)).2
        rw [this] at ht
        exact absurd ht (by simp)
    · simp [ht, ih hx.2]

theorem lastOf_ge {c : Int} : ∀ t : List Ev, (∀ e ∈ t, c < (e.seq : Int)) → c ≤ lastOf c t := by
  intro t h
  unfold lastOf
  cases hl : t.getLast? with
  | none => exact Int.le_refl c
  | some y => exact Int.le_of_lt (h y (List.mem_of_getLast? hl))

theorem lastOf_append (c : Int) (a b : List Ev) : lastOf c (a ++ b) = lastOf (lastOf c a) b := by
  unfold lastOf
  rw [List.getLast?_append]
  cases b.getLast? <;> simp

/-- asking again after the last event received returns exactly the rest -/
theorem aft_lastOf_take : ∀ (l : List Ev), LogOk l → ∀ (c : Int) (j : Nat), (∀ e ∈ l, c < (e.seq : Int)) →
    aft (lastOf c (l.take j)) l = l.drop j := by
  intro l
  induction l with
  | nil => intro _ c j _; simp [aft]
  | cons x xs ih =>
    intro h c j hall
    have hx := List.pairwise_cons.mp h
    cases j with
    | zero =>
      simp only [List.take_zero, lastOf_nil, List.drop_zero]
      exact List.filter_eq_self.mpr (fun e he => by simpa using hall e he)
    | succ j =>
      simp only [List.take_succ_cons, lastOf_cons, List.drop_succ_cons]
      have hgt : ∀ e ∈ xs, (x.seq : Int) < (e.seq : Int) := fun e he => by
        have := (hx.1 e he).1
        omega
      have hge : (x.seq : Int) ≤ lastOf x.seq (xs.take j) :=
        lastOf_ge _ (fun e he => hgt e (List.mem_of_mem_take he))
      have hnot : ¬ (lastOf (x.seq : Int) (xs.take j) < (x.seq : Int)) := by omega
      have : aft (lastOf (x.seq : Int) (xs.take j)) (x :: xs) = aft (lastOf (x.seq : Int) (xs.take j)) xs := by
        simp [aft, hnot]
      rw [this]
      exact ih hx.2 x.seq j hgt

theorem aft_aft {l : List Ev} {c a : Int} (h : c ≤ a) : aft a l = aft a (aft c l) := by
  simp only [aft, List.filter_filter]
  apply List.filter_congr
  intro e _
  by_cases h1 : a < (e.seq : Int)
  · have : c < (e.seq : Int) := by omega
    simp [h1, this]
  · simp [h1]

/-- the cursor after `j` delivered events selects the remaining ones -/
theorem later_after_prefix (srv : Server) (hlog : LogOk srv.log) (c0 : Int) (j : Nat) :
    srv.later (lastOf c0 ((srv.later c0).take j)) = (srv.later c0).drop j := by
  have hmem : ∀ e ∈ srv.later c0, c0 < (e.seq : Int) := by
    intro e he
    simpa using (List.mem_filter.mp he).2
  have hge : c0 ≤ lastOf c0 ((srv.later c0).take j) :=
    lastOf_ge _ (fun e he => hmem e (List.mem_of_mem_take he))
  rw [later_eq, aft_aft hge, ← later_eq]
  exact aft_lastOf_take _ (hlog.aft c0) c0 j hmem

/-- with a terminal event in the log, it has the greatest sequence -/
theorem terminal_is_max : ∀ l : List Ev, LogOk l → ∀ t ∈ l, t.terminal = true → ∀ e ∈ l, e.seq ≤ t.seq := by
  intro l
  induction l with
  | nil => intro _ t ht; simp at ht
  | cons x xs ih =>
    intro h t ht htt e he
    have hx := List.pairwise_cons.mp h
    rcases List.mem_cons.mp ht with rfl | ht'
    · cases xs with
      | nil => simp at he; subst he; exact Nat.le_refl _
      | cons y ys =>
        have := (hx.1 y (by simp)).2
        rw [this] at htt
        exact absurd htt (by simp)
    · rcases List.mem_cons.mp he with rfl | he'
      · exact Nat.le_of_lt (hx.1 t ht').1
      · exact ih hx.2 t ht' htt e he'

theorem terminal_is_last : ∀ l : List Ev, LogOk l → ∀ t ∈ l, t.terminal = true → l.getLast? = some t := by
  intro l
  induction l with
  | nil => intro _ t ht; simp at ht
  | cons x xs ih =>
    intro h t ht htt
    have hx := List.pairwise_cons.mp h
    cases xs with
    | nil => simp at ht; subst ht; rfl
    | cons y ys =>
      rcases List.mem_cons.mp ht with rfl | ht'
      · have := (hx.1 y (by simp)).2
        rw [this] at htt
        exact absurd htt (by simp)
      · rw [List.getLast?_cons_cons]
        exact ih hx.2 t ht' htt

/-! ## one connection -/

variable {P : Params}

/-- the events that are about to be served are all acceptable -/
def EvsOk (P : Params) (evs : List Ev) : Prop := ∀ e ∈ evs, EvOk P.valid P.brk e

theorem emit_append (a b : List Ev) : emit (a ++ b) = emit a ++ emit b := by simp [emit]

/-- reading the first `k` characters of a rendered body -/
theorem read_prefix (hb : BrkOk P.brk) (evs : List Ev) (hbs : List Nat) (hok : EvsOk P evs) (k : Nat)
    (last : Int) (out : List (Int × List Char)) :
    ∃ j, j ≤ evs.length ∧
      (procLines P.valid { last := last, out := out } (splitLines P.brk ((render evs hbs).take k)).1).err = false ∧
      (procLines P.valid { last := last, out := out } (splitLines P.brk ((render evs hbs).take k)).1).out
        = out ++ emit (evs.take j) ∧
      (procLines P.valid { last := last, out := out } (splitLines P.brk ((render evs hbs).take k)).1).last
        = lastOf last (evs.take j) := by
  rw [render_eq]
  obtain ⟨n, hn⟩ := splitLines_take_joinNL hb.1 (bodyLines evs hbs) (bodyLines_nobreaks hb evs hbs hok) k
  rw [hn]
  obtain ⟨j, hj, h1, h2, h3, _⟩ := procLines_body (valid := P.valid) evs hbs n { last := last, out := out } rfl rfl hok
  exact ⟨j, hj, h1, h2, h3⟩

/-- reading a whole rendered body -/
theorem read_all (hb : BrkOk P.brk) (evs : List Ev) (hbs : List Nat) (hok : EvsOk P evs)
    (last : Int) (out : List (Int × List Char)) :
    splitLines P.brk (render evs hbs) = (bodyLines evs hbs, []) ∧
    (procLines P.valid { last := last, out := out } (bodyLines evs hbs)).err = false ∧
    (procLines P.valid { last := last, out := out } (bodyLines evs hbs)).out = out ++ emit evs ∧
    (procLines P.valid { last := last, out := out } (bodyLines evs hbs)).last = lastOf last evs := by
  refine ⟨?_, ?_⟩
  · rw [render_eq]
    exact splitLines_joinNL hb.1 _ (bodyLines_nobreaks hb evs hbs hok)
  · obtain ⟨j, _, h1, h2, h3, h4⟩ := procLines_body (valid := P.valid) evs hbs (bodyLines evs hbs).length
      { last := last, out := out } rfl rfl hok
    have hj := h4 (Nat.le_refl _)
    subst hj
    simp only [List.take_length] at h1 h2 h3
    exact ⟨h1, h2, h3⟩

theorem onStatus_spec (st : CState) (code : Nat) :
    (onStatus st code).1.out = st.out ∧ (onStatus st code).1.last = st.last ∧
    (onStatus st code).2 ≠ some .errParse := by
  unfold onStatus
  split
  · simp
  · split
    · simp
    · split <;> simp

/-- What one connection does when the peer streams `render evs hbs`. -/
theorem connect_stream (hb : BrkOk P.brk) (st : CState) (evs : List Ev) (hbs : List Nat) (closes : Bool)
    (hok : EvsOk P evs) (f : Fault) :
    ∃ j, j ≤ evs.length ∧
      (connect P st (.stream (render evs hbs) closes) f).1.out = st.out ++ emit (evs.take j) ∧
      (connect P st (.stream (render evs hbs) closes) f).1.last = lastOf st.last (evs.take j) ∧
      (connect P st (.stream (render evs hbs) closes) f).2 ≠ some .errParse ∧
      (f = .none → j = evs.length ∧
        (connect P st (.stream (render evs hbs) closes) f).2 = some (if closes then .done else .pending)) ∧
      (∀ n, f = .dropAt n → (connect P st (.stream (render evs hbs) closes) f).1.attempts = 1 ∧
        (connect P st (.stream (render evs hbs) closes) f).2 = if 1 > P.maxR then some .errConn else none) ∧
      (f = .refuse → (connect P st (.stream (render evs hbs) closes) f).1.attempts = st.attempts + 1 ∧
        (connect P st (.stream (render evs hbs) closes) f).2 = if st.attempts + 1 > P.maxR then some .errConn else none) := by
  cases f with
  | refuse =>
    refine ⟨0, by simp, ?_⟩
    simp only [connect, fail]
    refine ⟨by simp [emit], by simp [lastOf], ?_, by simp, by simp, by simp⟩
    split <;> simp
  | timeoutConn =>
    refine ⟨0, by simp, ?_⟩
    simp [connect, emit, lastOf]
  | status code =>
    refine ⟨0, by simp, ?_⟩
    obtain ⟨g1, g2, g3⟩ := onStatus_spec { st with reqs := st.reqs ++ [st.last] } code
    simp only [connect]
    exact ⟨by simpa [emit] using g1, by simpa [lastOf] using g2, g3, by simp, by simp, by simp⟩
  | none =>
    obtain ⟨hsp, h1, h2, h3⟩ := read_all hb evs hbs hok st.last st.out
    refine ⟨evs.length, Nat.le_refl _, ?_⟩
    simp only [connect, hsp, List.isEmpty_nil, Bool.not_true, Bool.and_false, Bool.false_eq_true, if_false, h1]
    simp [h2, h3]
    cases closes <;> simp
  | dropAt n =>
    obtain ⟨k, hk⟩ := takeBytes_prefix (render evs hbs) n
    obtain ⟨j, hj, h1, h2, h3⟩ := read_prefix hb evs hbs hok k st.last st.out
    refine ⟨j, hj, ?_⟩
    have hf : (Fault.dropAt n == Fault.none) = false := by simp
    simp only [connect, hk, hf, Bool.false_and, Bool.false_eq_true, if_false, h1, fail]
    refine ⟨h2, h3, ?_, by simp, by simp, by simp⟩
    split <;> simp
  | timeoutAt n =>
    obtain ⟨k, hk⟩ := takeBytes_prefix (render evs hbs) n
    obtain ⟨j, hj, h1, h2, h3⟩ := read_prefix hb evs hbs hok k st.last st.out
    refine ⟨j, hj, ?_⟩
    have hf : (Fault.timeoutAt n == Fault.none) = false := by simp
    simp only [connect, hk, hf, Bool.false_and, Bool.false_eq_true, if_false, h1]
    exact ⟨h2, h3, by simp, by simp, by simp, by simp⟩

/-- What one connection does when the peer answers 204. -/
theorem connect_204 (st : CState) (f : Fault) :
    (connect P st (.status 204) f).1.out = st.out ∧ (connect P st (.status 204) f).1.last = st.last ∧
    (connect P st (.status 204) f).2 ≠ some .errParse ∧
    ((f = .none ∨ ∃ n, f = .dropAt n) → (connect P st (.status 204) f).2 = some .done) ∧
    (f = .refuse → (connect P st (.status 204) f).1.attempts = st.attempts + 1 ∧
        (connect P st (.status 204) f).2 = if st.attempts + 1 > P.maxR then some .errConn else none) := by
  cases f with
  | refuse =>
    simp only [connect, fail]
    refine ⟨trivial, trivial, ?_, by simp, by simp⟩
    split <;> simp
  | timeoutConn => simp [connect]
  | status code =>
    obtain ⟨g1, g2, g3⟩ := onStatus_spec { st with reqs := st.reqs ++ [st.last] } code
    simp only [connect]
    exact ⟨by simpa using g1, by simpa using g2, g3, by simp, by simp⟩
  | none => simp [connect, onStatus]
  | dropAt n => simp [connect, onStatus]
  | timeoutAt n => simp [connect, onStatus]

/-! ## the loop -/

/-- the log as the stream's `include_internal` flag lets it through -/
def Server.seen (s : Server) : Server := { s with log := s.log.filter s.shows }

/-- the events after `c` that the stream shows -/
def vis (srv : Server) (c : Int) : List Ev := (srv.later c).filter srv.shows

theorem vis_eq (srv : Server) (c : Int) : vis srv c = srv.seen.later c := by
  simp only [vis, Server.later, Server.seen, List.filter_filter]
  apply List.filter_congr
  intro e _
  exact Bool.and_comm _ _

theorem seen_logOk {srv : Server} (h : LogOk srv.log) : LogOk srv.seen.log := List.Pairwise.filter _ h

theorem vis_logOk {srv : Server} (h : LogOk srv.log) (c : Int) : LogOk (vis srv c) :=
  List.Pairwise.filter _ (later_eq srv c ▸ h.aft c)

theorem vis_gt {srv : Server} {c : Int} {e : Ev} (he : e ∈ vis srv c) : c < (e.seq : Int) := by
  have := (List.mem_filter.mp (List.mem_filter.mp he).1).2
  simpa using this

/-- the cursor after `j` delivered events selects the remaining visible ones -/
theorem vis_after_prefix (srv : Server) (hlog : LogOk srv.log) (c0 : Int) (j : Nat) :
    vis srv (lastOf c0 ((vis srv c0).take j)) = (vis srv c0).drop j := by
  rw [vis_eq, vis_eq]
  exact later_after_prefix srv.seen (seen_logOk hlog) c0 j

/-- what has been queued so far is the first `j` pending events, and `last` is the last of them -/
def Inv (srv : Server) (c0 : Int) (st : CState) : Prop :=
  ∃ j, st.out = emit ((vis srv c0).take j) ∧ st.last = lastOf c0 ((vis srv c0).take j)

structure Ctx (P : Params) (srv : Server) : Prop where
  brk : BrkOk P.brk
  log : LogOk srv.log
  evs : EvsOk P srv.log

theorem Ctx.later_ok {srv : Server} (h : Ctx P srv) (c : Int) : EvsOk P (vis srv c) :=
  fun e he => h.evs e (List.mem_filter.mp (List.mem_filter.mp he).1).1

/-- the answer of the server model to a client in state `st` -/
theorem serve_cases {srv : Server} (h : Ctx P srv) (c0 : Int) (st : CState) (j : Nat)
    (hl : st.last = lastOf c0 ((vis srv c0).take j)) (hbs : List Nat) :
    (srv.serve st.last hbs = .status 204 ∧ (vis srv c0).drop j = [] ∧ srv.complete = true) ∨
    (srv.serve st.last hbs = .stream (render ((vis srv c0).drop j) hbs) ((srv.later st.last).any (·.terminal)) ∧
      ¬ (srv.later st.last = [] ∧ srv.complete = true)) := by
  have hvis : (srv.later st.last).filter srv.shows = (vis srv c0).drop j := by
    rw [hl]; exact vis_after_prefix srv h.log c0 j
  have hok : LogOk (srv.later st.last) := later_eq srv st.last ▸ h.log.aft st.last
  unfold Server.serve
  simp only [takeThrough_logOk _ hok, hvis]
  by_cases hc : ((srv.later st.last).isEmpty && srv.complete) = true
  · left
    rw [if_pos hc]
    simp only [Bool.and_eq_true, List.isEmpty_iff] at hc
    refine ⟨rfl, ?_, hc.2⟩
    rw [← hvis, hc.1]
    rfl
  · right
    rw [if_neg hc]
    simp only [Bool.and_eq_true, List.isEmpty_iff] at hc
    exact ⟨rfl, hc⟩

theorem inv_extend {srv : Server} {c0 : Int} {st st' : CState} {j j' : Nat}
    (ho : st.out = emit ((vis srv c0).take j)) (hl : st.last = lastOf c0 ((vis srv c0).take j))
    (ho' : st'.out = st.out ++ emit (((vis srv c0).drop j).take j'))
    (hl' : st'.last = lastOf st.last (((vis srv c0).drop j).take j')) :
    st'.out = emit ((vis srv c0).take (j + j')) ∧ st'.last = lastOf c0 ((vis srv c0).take (j + j')) := by
  rw [List.take_add, emit_append, lastOf_append, ← ho, ← hl]
  exact ⟨ho', hl'⟩

/-- one connection keeps the invariant, whatever the fault -/
theorem connect_inv {srv : Server} (h : Ctx P srv) (c0 : Int) (st : CState) (hinv : Inv srv c0 st)
    (hbs : List Nat) (f : Fault) :
    Inv srv c0 (connect P st (srv.serve st.last hbs) f).1 ∧ (connect P st (srv.serve st.last hbs) f).2 ≠ some .errParse := by
  obtain ⟨j, ho, hl⟩ := hinv
  rcases serve_cases h c0 st j hl hbs with ⟨hs, _, _⟩ | ⟨hs, _⟩
  · rw [hs]
    obtain ⟨h1, h2, h3, _⟩ := connect_204 (P := P) st f
    exact ⟨⟨j, by rw [h1, ho], by rw [h2, hl]⟩, h3⟩
  · rw [hs]
    have hok : EvsOk P ((vis srv c0).drop j) := fun e he => h.later_ok c0 e (List.mem_of_mem_drop he)
    obtain ⟨j', _, h1, h2, h3, _⟩ := connect_stream h.brk st _ hbs ((srv.later st.last).any (·.terminal)) hok f
    obtain ⟨g1, g2⟩ := inv_extend ho hl h1 h2
    exact ⟨⟨j + j', g1, g2⟩, h3⟩

/-- **Safety for every script**: whatever the faults and however the run ends, what has been
queued is a prefix of the pending events and `last` is the sequence of the last one queued. -/
theorem run_inv {srv : Server} (h : Ctx P srv) (c0 : Int) : ∀ (conns : List Conn) (st : CState),
    (∀ c ∈ conns, c.raw = none) → Inv srv c0 st →
    Inv srv c0 (run P srv st conns).1 ∧ (run P srv st conns).2 ≠ .errParse := by
  intro conns
  induction conns with
  | nil => intro st _ hinv; exact ⟨hinv, by simp [run]⟩
  | cons c cs ih =>
    intro st hraw hinv
    have hc : c.raw = none := hraw c (by simp)
    have hstep := connect_inv h c0 st hinv c.hb c.fault
    unfold run
    simp only [respFor, hc, Option.getD_none]
    cases hr : connect P st (srv.serve st.last c.hb) c.fault with
    | mk st' r =>
      rw [hr] at hstep
      cases r with
      | some r =>
        refine ⟨hstep.1, ?_⟩
        intro he
        simp only at he
        exact hstep.2 (by simp [he])
      | none => exact ih st' (fun x hx => hraw x (by simp [hx])) hstep.1

/-! ## the failure budget -/

theorem peak_ge_start : ∀ (fs : List Fault) (a : Nat), a ≤ peakFailures a fs := by
  intro fs
  cases fs with
  | nil => intro a; exact Nat.le_refl a
  | cons f fs => intro a; exact Nat.le_max_left _ _

theorem peak_cons {a m : Nat} {f : Fault} {fs : List Fault} (h : peakFailures a (f :: fs) ≤ m) :
    f.counter a ≤ m ∧ peakFailures (f.counter a) fs ≤ m := by
  have h2 : peakFailures (f.counter a) fs ≤ m := Nat.le_trans (Nat.le_max_right _ _) h
  exact ⟨Nat.le_trans (peak_ge_start fs _) h2, h2⟩

/-- a script of refusals and drops only -/
def DropsOnly (conns : List Conn) : Prop :=
  ∀ c ∈ conns, c.raw = none ∧ (c.fault = .refuse ∨ ∃ n, c.fault = .dropAt n)

theorem inv_full {srv : Server} {c0 : Int} {st : CState} {j : Nat}
    (ho : st.out = emit ((vis srv c0).take j)) (hl : st.last = lastOf c0 ((vis srv c0).take j))
    (hd : (vis srv c0).drop j = []) :
    st.out = emit (vis srv c0) ∧ st.last = lastOf c0 (vis srv c0) := by
  have : (vis srv c0).take j = vis srv c0 := by
    have := List.take_append_drop j (vis srv c0)
    rw [hd, List.append_nil] at this
    exact this
  rw [this] at ho hl
  exact ⟨ho, hl⟩

/-- the stream ends normally when the log holds a terminal event -/
theorem closes_of_terminal {srv : Server} (h : Ctx P srv) (a : Int)
    (hne : ¬ (srv.later a = [] ∧ srv.complete = true)) (hterm : srv.log.any (·.terminal) = true) :
    (srv.later a).any (·.terminal) = true := by
  obtain ⟨t, ht, htt⟩ := List.any_eq_true.mp hterm
  have hlast := terminal_is_last _ h.log t ht htt
  have hcomp : srv.complete = true := by simp [Server.complete, hlast, htt]
  have hne' : srv.later a ≠ [] := fun he => hne ⟨he, hcomp⟩
  obtain ⟨e, he⟩ := List.exists_mem_of_ne_nil _ hne'
  -- `e` is pending, so its sequence is above the cursor; the terminal event's is at least that
  have he' := List.mem_filter.mp he
  have hle := terminal_is_max _ h.log t ht htt e he'.1
  apply List.any_eq_true.mpr
  refine ⟨t, List.mem_filter.mpr ⟨ht, ?_⟩, htt⟩
  have := he'.2
  simp only [decide_eq_true_eq] at this ⊢
  omega

/-- **Exactly once**: refusals and drops within the budget, then an undisturbed connection. -/
theorem run_exact {srv : Server} (h : Ctx P srv) (c0 : Int) (fin : List Nat) : ∀ (conns : List Conn) (st : CState),
    DropsOnly conns → Inv srv c0 st → peakFailures st.attempts (conns.map (·.fault)) ≤ P.maxR →
    (run P srv st (conns ++ [{ fault := .none, hb := fin }])).1.out = emit (vis srv c0) ∧
    (run P srv st (conns ++ [{ fault := .none, hb := fin }])).1.last = lastOf c0 (vis srv c0) ∧
    ((run P srv st (conns ++ [{ fault := .none, hb := fin }])).2 = .done ∨
      (run P srv st (conns ++ [{ fault := .none, hb := fin }])).2 = .pending) ∧
    (srv.log.any (·.terminal) = true → (run P srv st (conns ++ [{ fault := .none, hb := fin }])).2 = .done) := by
  intro conns
  induction conns with
  | nil =>
    intro st _ hinv _
    obtain ⟨j, ho, hl⟩ := hinv
    simp only [List.nil_append, run, respFor, Option.getD_none]
    rcases serve_cases h c0 st j hl fin with ⟨hs, hd, _⟩ | ⟨hs, hne⟩
    · rw [hs]
      obtain ⟨h1, h2, _, h4, _⟩ := connect_204 (P := P) st .none
      have h4' := h4 (Or.inl rfl)
      cases hr : connect P st (.status 204) .none with
      | mk st' r =>
        rw [hr] at h1 h2 h4'
        simp only at h1 h2 h4'
        subst h4'
        obtain ⟨g1, g2⟩ := inv_full ho hl hd
        simp only
        exact ⟨by rw [h1, g1], by rw [h2, g2], by simp, by simp⟩
    · rw [hs]
      have hok : EvsOk P ((vis srv c0).drop j) := fun e he => h.later_ok c0 e (List.mem_of_mem_drop he)
      obtain ⟨j', _, h1, h2, _, h4, _⟩ :=
        connect_stream h.brk st _ fin ((srv.later st.last).any (·.terminal)) hok .none
      obtain ⟨hj', hres⟩ := h4 rfl
      subst hj'
      cases hr : connect P st (.stream (render ((vis srv c0).drop j) fin) ((srv.later st.last).any (·.terminal))) .none with
      | mk st' r =>
        rw [hr] at h1 h2 hres
        simp only at h1 h2 hres
        subst hres
        simp only [List.take_length] at h1 h2
        have g1 : st'.out = emit (vis srv c0) := by
          rw [h1, ho, ← emit_append, List.take_append_drop]
        have g2 : st'.last = lastOf c0 (vis srv c0) := by
          rw [h2, hl, ← lastOf_append, List.take_append_drop]
        simp only
        refine ⟨g1, g2, ?_, ?_⟩
        · cases (srv.later st.last).any (·.terminal) <;> simp
        · intro hterm
          rw [closes_of_terminal h st.last hne hterm]
          rfl
  | cons c cs ih =>
    intro st hdrops hinv hbud
    obtain ⟨hraw, hfault⟩ := hdrops c (by simp)
    have hrest : DropsOnly cs := fun x hx => hdrops x (by simp [hx])
    simp only [List.map_cons] at hbud
    obtain ⟨hb1, hb2⟩ := peak_cons hbud
    obtain ⟨j, ho, hl⟩ := hinv
    simp only [List.cons_append, run, respFor, hraw, Option.getD_none]
    rcases serve_cases h c0 st j hl c.hb with ⟨hs, hd, _⟩ | ⟨hs, _⟩
    · rw [hs]
      obtain ⟨h1, h2, _, h4, h5⟩ := connect_204 (P := P) st c.fault
      rcases hfault with hf | ⟨n, hf⟩
      · obtain ⟨ha, hr2⟩ := h5 hf
        have hle : st.attempts + 1 ≤ P.maxR := by simpa [hf, Fault.counter] using hb1
        have hnot : ¬ (st.attempts + 1 > P.maxR) := by omega
        rw [if_neg hnot] at hr2
        cases hr : connect P st (.status 204) c.fault with
        | mk st' r =>
          rw [hr] at h1 h2 ha hr2
          simp only at h1 h2 ha hr2
          subst hr2
          simp only
          apply ih st' hrest ⟨j, by rw [h1, ho], by rw [h2, hl]⟩
          rw [ha]
          simpa [hf, Fault.counter] using hb2
      · have h4' := h4 (Or.inr ⟨n, hf⟩)
        cases hr : connect P st (.status 204) c.fault with
        | mk st' r =>
          rw [hr] at h1 h2 h4'
          simp only at h1 h2 h4'
          subst h4'
          obtain ⟨g1, g2⟩ := inv_full ho hl hd
          simp only
          exact ⟨by rw [h1, g1], by rw [h2, g2], by simp, by simp⟩
    · rw [hs]
      have hok : EvsOk P ((vis srv c0).drop j) := fun e he => h.later_ok c0 e (List.mem_of_mem_drop he)
      obtain ⟨j', _, h1, h2, _, _, h5, h6⟩ :=
        connect_stream h.brk st _ c.hb ((srv.later st.last).any (·.terminal)) hok c.fault
      cases hr : connect P st (.stream (render ((vis srv c0).drop j) c.hb) ((srv.later st.last).any (·.terminal))) c.fault with
      | mk st' r =>
        rw [hr] at h1 h2 h5 h6
        simp only at h1 h2 h5 h6
        obtain ⟨g1, g2⟩ := inv_extend ho hl h1 h2
        rcases hfault with hf | ⟨n, hf⟩
        · obtain ⟨ha, hr2⟩ := h6 hf
          have hle : st.attempts + 1 ≤ P.maxR := by simpa [hf, Fault.counter] using hb1
          have hnot : ¬ (st.attempts + 1 > P.maxR) := by omega
          rw [if_neg hnot] at hr2
          subst hr2
          simp only
          apply ih st' hrest ⟨j + j', g1, g2⟩
          rw [ha]
          simpa [hf, Fault.counter] using hb2
        · obtain ⟨ha, hr2⟩ := h5 n hf
          have hle : 1 ≤ P.maxR := by simpa [hf, Fault.counter] using hb1
          have hnot : ¬ (1 > P.maxR) := by omega
          rw [if_neg hnot] at hr2
          subst hr2
          simp only
          apply ih st' hrest ⟨j + j', g1, g2⟩
          rw [ha]
          simpa [hf, Fault.counter] using hb2

end SseClient
