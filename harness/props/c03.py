"""C03 — queued work never stalls and idleness is reported only when truly idle."""
from __future__ import annotations

from ..engine import monitors, suite
from ..runner import Env, Outcome

THEOREMS = ["C03_work_conserving", "C03_idle_reducer_sound", "C03_refuted_timer", "C03_refuted_mailbox", "C03_refuted"]
LEAN_TARGETS = ["WfProps.C03"]
EXPLANATION = (
    "Work conservation is proved for every tick history (queue non-empty => all num_workers slots busy, until a tick "
    "ends the run). Idle soundness: proved as far as the reducer state goes (idle/UnhandledEvent(idle) only when all "
    "queues and in-progress tables are empty and the run is marked running); the full statement (no scheduled retry, "
    "no delivered-but-unprocessed event) is REFUTED on the faithful runner model by two decide-checked witnesses "
    "(C03_refuted_timer, C03_refuted_mailbox) which the check replays on the real engine: both reproduce and are "
    "listed as known findings. Any other way of announcing idleness unsoundly, or a stalled queue, is a VIOLATION."
)
ASSUMPTIONS = suite.ENGINE_ASSUMPTIONS + [
    "reading: a pending wait_for_event timeout is not counted as pending work (the statement lists queued, running and scheduled-retry work)",
]


def _resume_runs(env: Env, out: Outcome, n: int) -> None:
    """snapshot a run at a scheduler-chosen quiet point (several invocations of a multi-worker step in flight / queued), stop it,
    resume from the JSON snapshot: the resumed run is work-conserving from its first tick on"""
    import copy
    import random

    from ..engine import live, specgen
    rng = random.Random(env.rng.randrange(1 << 30))
    jobs = []
    if env.replay is not None and isinstance(env.replay.get("payload", {}).get("case"), dict) and "resume" in env.replay["payload"]["case"]:
        c = env.replay["payload"]["case"]["resume"]
        jobs.append((c["spec"], c["seed"], c.get("actions1"), c.get("actions2")))
    for _ in range(n):
        spec = specgen.gen_spec(rng, family=rng.choice(["fanin", "retry", "general"]), allow_timeout=False) if rng.random() < 0.6 else specgen.gen_det_spec(rng)
        spec["externals"] = [e for e in spec.get("externals", []) if e["op"] == "send"]
        spec["externals"].append({"op": "snapshot_stop", "after_quiet": rng.choice([0, 1, 1, 2, 3, 4])})
        spec.pop("timeout", None)
        jobs.append((spec, rng.randrange(1 << 30), None, None))
    resumed = []
    for spec, seed, a1, a2 in jobs:
        tr1 = live.run_spec(spec, seed=seed, replay_actions=a1)
        out.evaluations += 1
        snaps = [s for s in tr1.snapshots if s.get("stopped")]
        if not snaps:
            out.count("resume:no_snapshot")
            continue
        spec2 = copy.deepcopy(spec)
        spec2["externals"] = copy.deepcopy([e for e in getattr(tr1, "remaining_externals", []) if e["op"] == "send"])
        spec2["_resumed"] = True
        tr2 = live.run_spec(spec2, seed=seed + 1, replay_actions=a2, resume_from=snaps[0]["dict"])
        resumed.append(tr2)
        pend = sum(len(w.get("queue", [])) + len(w.get("in_progress", [])) for w in snaps[0]["dict"].get("workers", {}).values()) if isinstance(snaps[0]["dict"], dict) else 0
        out.count(f"resume:pending_at_snapshot:{min(pend, 4)}")
        out.count("resume:outcome:" + tr2.outcome[0])
        if pend:
            out.nontrivial(("resume", repr(spec), tuple(tr1.actions)))
        for v in monitors.mon_c03(tr2):
            v.replay = {"resume": {"spec": spec, "seed": seed, "actions1": tr1.actions, "actions2": tr2.actions}}
            out.violations.append(v)
    suite.runner_corr(out, resumed, "engine-runner-resumed")


def run(env: Env) -> Outcome:
    out = Outcome()
    out.rule = ("direct (state,tick) pairs + live scripted workflows (retry delays, waiters, fan-out) under random gate schedules; runs snapshotted at a quiet point and resumed from JSON; "
                "non-trivial = more than 2 ticks; distinct by (spec, schedule)")
    suite.direct_corr(env, out, env.budget(3000, 60000))
    suite.live_runs(env, out, env.budget(400, 8000), [monitors.mon_c03], extra_specs=suite.load_corpus("C03"))
    _resume_runs(env, out, env.budget(150, 3000))
    return out
