import WfProofs.DeployIdExt
/-! The label predicate `isDns1035` is the language of the pattern in `schema/deployments.py`.

`Gen.DeployId.dnsRx` is Python's own parse (`re._parser`) of `_DNS_1035_RE`, regenerated on every
run.  `Lang` is the textbook meaning of that syntax (whole-string match; the pattern is anchored at
both ends).  One Python peculiarity is outside it: `$` also matches before a final newline. -/
set_option linter.unusedSimpArgs false

namespace DeployId
open Gen.DeployId

def inRanges (rs : List (Nat × Nat)) (c : Char) : Bool :=
  rs.any fun r => decide (r.1 ≤ c.toNat) && decide (c.toNat ≤ r.2)

/-- `w` is `n` pieces, each in `L` -/
def powL (L : List Char → Prop) : Nat → List Char → Prop
  | 0, w => w = []
  | n + 1, w => ∃ u v, w = u ++ v ∧ L u ∧ powL L n v

/-- the strings a pattern matches in full -/
def Lang : Rx → List Char → Prop
  | .cls rs, w => ∃ c, w = [c] ∧ inRanges rs c = true
  | .eps, w => w = []
  | .seq a b, w => ∃ u v, w = u ++ v ∧ Lang a u ∧ Lang b v
  | .rep lo hi a, w => ∃ n, lo ≤ n ∧ n ≤ hi ∧ powL (Lang a) n w
  | .unsupported, _ => False

theorem inRanges_lower (c : Char) : inRanges [(97, 122)] c = isLower c := by
  simp [inRanges, isLower]

theorem inRanges_alnum (c : Char) : inRanges [(97, 122), (48, 57)] c = isAlnum c := by
  simp [inRanges, isAlnum, isLower, isDigit]

theorem toNat_45 (c : Char) : (decide (45 ≤ c.toNat) && decide (c.toNat ≤ 45)) = isHyphen c := by
  by_cases h : c = '-'
  · subst h; decide
  · have hn : c.toNat ≠ 45 := by
      intro h45
      apply h
      have := Char.ofNat_toNat c
      rw [h45] at this
      exact this.symm
    have : isHyphen c = false := by simp [isHyphen, h]
    rw [this]
    simp only [Bool.and_eq_false_iff, decide_eq_false_iff_not]
    omega

theorem inRanges_label (c : Char) :
    inRanges [(97, 122), (48, 57), (45, 45)] c = isLabelChar c := by
  have h45 := toNat_45 c
  simp only [inRanges, List.any_cons, List.any_nil, Bool.or_false, isLabelChar, isAlnum, isLower,
    isDigit, h45, Bool.or_assoc]

theorem powL_cls (rs : List (Nat × Nat)) :
    ∀ (n : Nat) (w : List Char),
      powL (Lang (.cls rs)) n w ↔ w.length = n ∧ ∀ c ∈ w, inRanges rs c = true
  | 0, w => by
    simp only [powL]
    constructor
    · intro h; subst h; simp
    · intro h; exact List.eq_nil_of_length_eq_zero h.1
  | n + 1, w => by
    simp only [powL, Lang]
    constructor
    · rintro ⟨u, v, hw, ⟨c, hu, hc⟩, hv⟩
      obtain ⟨hl, hall⟩ := (powL_cls rs n v).mp hv
      subst hw hu
      refine ⟨by simp [hl], ?_⟩
      intro x hx
      simp only [List.singleton_append, List.mem_cons] at hx
      rcases hx with hx | hx
      · rw [hx]; exact hc
      · exact hall x hx
    · rintro ⟨hl, hall⟩
      cases w with
      | nil => simp at hl
      | cons c v =>
        refine ⟨[c], v, rfl, ⟨c, rfl, hall c (by simp)⟩, ?_⟩
        exact (powL_cls rs n v).mpr ⟨by simpa using hl, fun x hx => hall x (by simp [hx])⟩

/-- the shape every match has -/
def LabelShape (r : List Char) : Prop :=
  ∃ c v, r = c :: v ∧ isLower c = true ∧
    (v = [] ∨ ∃ mid l, v = mid ++ [l] ∧ mid.length ≤ 61 ∧ mid.all isLabelChar = true ∧
      isAlnum l = true)

theorem lang_dnsRx (r : List Char) : Lang dnsRx r ↔ LabelShape r := by
  have hrx : dnsRx = .seq (.cls [(97, 122)])
      (.rep 0 1 (.seq (.rep 0 61 (.cls [(97, 122), (48, 57), (45, 45)])) (.cls [(97, 122), (48, 57)]))) := rfl
  rw [hrx]
  simp only [Lang, LabelShape]
  constructor
  · rintro ⟨u, v, hr, ⟨c, hu, hc⟩, n, _, hn1, hp⟩
    rw [inRanges_lower] at hc
    subst hr hu
    refine ⟨c, v, rfl, hc, ?_⟩
    cases n with
    | zero => left; exact hp
    | succ n' =>
      have hn0 : n' = 0 := by omega
      subst hn0
      right
      obtain ⟨x, y, hv, ⟨m, l', hx, ⟨k, _, hk, hpm⟩, ⟨l, hl', hl⟩⟩, hy⟩ := hp
      have hy' : y = [] := hy
      obtain ⟨hlen, hall⟩ := (powL_cls _ k m).mp hpm
      rw [inRanges_alnum] at hl
      subst hv hx hl' hy'
      refine ⟨m, l, by simp, by omega, ?_, hl⟩
      rw [List.all_eq_true]
      intro z hz
      rw [← inRanges_label]; exact hall z hz
  · rintro ⟨c, v, hr, hc, hv⟩
    refine ⟨[c], v, by simp [hr], ⟨c, rfl, by rw [inRanges_lower]; exact hc⟩, ?_⟩
    rcases hv with hv | ⟨mid, l, hv, hlen, hall, hl⟩
    · exact ⟨0, by omega, by omega, hv⟩
    · refine ⟨1, by omega, by omega, mid ++ [l], [], by simp [hv], ?_, rfl⟩
      refine ⟨mid, [l], rfl, ⟨mid.length, by omega, hlen, ?_⟩, ⟨l, rfl, by rw [inRanges_alnum]; exact hl⟩⟩
      refine (powL_cls _ _ mid).mpr ⟨rfl, ?_⟩
      intro z hz
      rw [inRanges_label]; exact (List.all_eq_true.mp hall) z hz

theorem labelShape_iff (r : List Char) : LabelShape r ↔ isDns1035 r = true := by
  constructor
  · rintro ⟨c, v, hr, hc, hv⟩
    subst hr
    rcases hv with hv | ⟨mid, l, hv, hlen, hall, hl⟩
    · subst hv
      simp [isDns1035, hc, isLower_isAlnum hc]
    · subst hv
      simp only [isDns1035, Bool.and_eq_true, decide_eq_true_eq, List.all_append, List.all_cons,
        List.all_nil, Bool.and_true]
      refine ⟨⟨⟨hc, hall, isAlnum_isLabelChar hl⟩, ?_⟩, by simp; omega⟩
      have : (c :: (mid ++ [l])).getLast? = some l := by
        rw [show c :: (mid ++ [l]) = (c :: mid) ++ [l] by simp]
        exact List.getLast?_concat ..
      rw [this]; exact hl
  · intro h
    cases r with
    | nil => simp [isDns1035] at h
    | cons c v =>
      simp only [isDns1035, Bool.and_eq_true, decide_eq_true_eq] at h
      obtain ⟨⟨⟨hc, hall⟩, hlast⟩, hlen⟩ := h
      refine ⟨c, v, rfl, hc, ?_⟩
      rcases eq_nil_or_snoc v with hv | ⟨mid, l, hv⟩
      · exact Or.inl hv
      · right
        subst hv
        have hl : (c :: (mid ++ [l])).getLast? = some l := by
          rw [show c :: (mid ++ [l]) = (c :: mid) ++ [l] by simp]
          exact List.getLast?_concat ..
        rw [hl] at hlast
        simp only [List.all_append, Bool.and_eq_true] at hall
        refine ⟨mid, l, rfl, ?_, hall.1, hlast⟩
        simp only [List.length_cons, List.length_append, List.length_nil] at hlen
        omega

end DeployId
