"""Generator for lean/WfModel/GenEventSerial.lean (property C18).

Re-extracted from /repo's *current* sources on every run:

* ``workflows/events.py``: private attributes of ``DictLikeModel`` / ``StopEvent``; the
  rule lists of the two ``custom_model_dump`` wrap serializers (``(guard, key, value)`` of
  each conditional ``data[key] = value``; a set, so source order of independent rules is
  irrelevant); ``StopEvent.__init__``'s result parameter and the private name it is
  forwarded as; the keys and the type-name expression of ``_serialize_exception``; the
  exception classes ``_deserialize_exception`` falls back on.
* ``workflows/context/serializers.py``: the keys of the ``__is_pydantic`` wrapper, the
  ``model_dump`` mode, the object the component probe looks at, the guard keys of
  ``deserialize_value``; ``get_qualified_name``'s expression.
* ``workflows/runtime/types/ticks.py`` / ``results.py``: the members of the two
  discriminated unions and, per member class, tag and field table
  ``(name, annotation, default)``; the extra serializer / validator of ``AddWaiter``.
* ``llama_agents/client/protocol/serializable_events.py``: the fields each envelope
  constructor sets and the lookup order of ``EventEnvelope.parse``.

Local variable names never appear in the emitted summaries (only attribute names, string
keys and annotations), so renaming a local or reordering independent statements leaves
the output unchanged.
"""
from __future__ import annotations

import ast
import re
from typing import Any

from ..boot import repo_path

LEAN_MODULE = "GenEventSerial"

EVENTS = "packages/llama-index-workflows/src/workflows/events.py"
SERIALIZERS = "packages/llama-index-workflows/src/workflows/context/serializers.py"
UTILS = "packages/llama-index-workflows/src/workflows/context/utils.py"
TICKS = "packages/llama-index-workflows/src/workflows/runtime/types/ticks.py"
RESULTS = "packages/llama-index-workflows/src/workflows/runtime/types/results.py"
ENVELOPE = "packages/llama-agents-client/src/llama_agents/client/protocol/serializable_events.py"

MISSING = "<missing>"


def lean_str(s: str) -> str:
    out = ['"']
    for ch in s:
        if ch == '"':
            out.append('\\"')
        elif ch == "\\":
            out.append("\\\\")
        elif ch == "\n":
            out.append("\\n")
        elif ch == "\t":
            out.append("\\t")
        elif 32 <= ord(ch) < 127:
            out.append(ch)
        else:
            out.append("\\u{%x}" % ord(ch))
    out.append('"')
    return "".join(out)


def lean_list(xs: list[str]) -> str:
    return "[" + ", ".join(xs) + "]"


def lean_strs(xs: list[str]) -> str:
    return lean_list([lean_str(x) for x in xs])


def lean_triples(xs: list[tuple[str, str, str]]) -> str:
    return lean_list([f"({lean_str(a)}, {lean_str(b)}, {lean_str(c)})" for a, b, c in xs])


def _src(node: ast.AST | None) -> str:
    if node is None:
        return ""
    return re.sub(r"\s+", " ", ast.unparse(node))


def _parse(rel: str) -> ast.Module | None:
    try:
        return ast.parse(open(repo_path(rel)).read())
    except (OSError, SyntaxError):
        return None


def _class(tree: ast.AST | None, name: str) -> ast.ClassDef | None:
    if tree is None:
        return None
    for n in ast.walk(tree):
        if isinstance(n, ast.ClassDef) and n.name == name:
            return n
    return None


def _func(scope: ast.AST | None, name: str) -> ast.FunctionDef | None:
    if scope is None:
        return None
    body = getattr(scope, "body", [])
    for n in body:
        if isinstance(n, (ast.FunctionDef, ast.AsyncFunctionDef)) and n.name == name:
            return n  # type: ignore[return-value]
    return None


def _private_attrs(cls: ast.ClassDef | None) -> list[str]:
    res = []
    if cls is None:
        return res
    for n in cls.body:
        if isinstance(n, ast.AnnAssign) and isinstance(n.target, ast.Name) and isinstance(n.value, ast.Call) \
                and _src(n.value.func) == "PrivateAttr":
            res.append(n.target.id)
    return res


def _dump_rules(fn: ast.FunctionDef | None, notes: list[str], what: str) -> list[tuple[str, str, str]]:
    """`if G: data[K] = V` statements of a wrap serializer -> sorted (G, K, V); an unconditional
    `data[K] = V` gets the guard "always"."""
    if fn is None:
        notes.append(f"translate: gen/eventserial: {what} not found")
        return [(MISSING, MISSING, MISSING)]
    rules: list[tuple[str, str, str]] = []

    def assign(st: ast.stmt, guard: str) -> bool:
        if isinstance(st, ast.Assign) and len(st.targets) == 1 and isinstance(st.targets[0], ast.Subscript) \
                and isinstance(st.targets[0].slice, ast.Constant):
            rules.append((guard, str(st.targets[0].slice.value), _src(st.value)))
            return True
        return False

    for st in fn.body:
        if isinstance(st, ast.Expr) and isinstance(st.value, ast.Constant):
            continue
        if isinstance(st, ast.If) and not st.orelse and all(assign(b, _src(st.test)) for b in st.body):
            continue
        if assign(st, "always"):
            continue
        if isinstance(st, ast.Assign) and len(st.targets) == 1 and isinstance(st.targets[0], ast.Name) \
                and isinstance(st.value, ast.Call) and len(st.value.args) == 1 and _src(st.value.args[0]) == "self":
            continue  # data = handler(self)
        if isinstance(st, ast.Return) and isinstance(st.value, ast.Name):
            continue
        rules.append(("<unsupported>", _src(st)[:100], ""))
        notes.append(f"translate: gen/eventserial: unsupported statement in {what}: {_src(st)[:80]}")
    return sorted(rules)


def _dict_literal_keys(node: ast.AST | None) -> list[tuple[str, str]]:
    if not isinstance(node, ast.Dict):
        return []
    return [(str(k.value), _src(v)) for k, v in zip(node.keys, node.values) if isinstance(k, ast.Constant)]


def _rename_names(expr: ast.AST, mapping: dict[str, str]) -> ast.AST:
    class R(ast.NodeTransformer):
        def visit_Name(self, n: ast.Name) -> Any:
            return ast.copy_location(ast.Name(id=mapping.get(n.id, n.id), ctx=n.ctx), n)

    import copy

    return R().visit(copy.deepcopy(expr))


def _resolve_local(fn: ast.FunctionDef, name: str) -> ast.expr | None:
    for st in fn.body:
        if isinstance(st, ast.Assign) and len(st.targets) == 1 and isinstance(st.targets[0], ast.Name) \
                and st.targets[0].id == name:
            return st.value
    return None


def _inline_locals(fn: ast.FunctionDef, expr: ast.expr, depth: int = 4) -> ast.expr:
    """substitute single-assignment locals by their definitions (so local names vanish)"""
    import copy

    class S(ast.NodeTransformer):
        def visit_Name(self, n: ast.Name) -> Any:
            v = _resolve_local(fn, n.id)
            return copy.deepcopy(v) if v is not None else n

    e = copy.deepcopy(expr)
    for _ in range(depth):
        e = S().visit(e)
    return e


def gen_events(notes: list[str]) -> list[str]:
    tree = _parse(EVENTS)
    dlm = _class(tree, "DictLikeModel")
    stop = _class(tree, "StopEvent")
    out: list[str] = []
    out.append(f"def dictPrivate : List String := {lean_strs(_private_attrs(dlm))}")
    out.append(f"def stopPrivate : List String := {lean_strs(_private_attrs(stop))}")
    out.append("def dictDumpRules : List (String × String × String) := "
               + lean_triples(_dump_rules(_func(dlm, "custom_model_dump"), notes, "DictLikeModel.custom_model_dump")))
    out.append("def stopDumpRules : List (String × String × String) := "
               + lean_triples(_dump_rules(_func(stop, "custom_model_dump"), notes, "StopEvent.custom_model_dump")))
    # StopEvent.__init__(self, result=None, **kwargs): super().__init__(_result=result, **kwargs)
    init = _func(stop, "__init__")
    param, forwarded = MISSING, MISSING
    if init is not None and len(init.args.args) == 2 and init.args.kwarg is not None:
        param = init.args.args[1].arg
        for n in ast.walk(init):
            if isinstance(n, ast.Call) and _src(n.func) == "super().__init__":
                for kw in n.keywords:
                    if kw.arg is not None and isinstance(kw.value, ast.Name) and kw.value.id == param:
                        forwarded = kw.arg
    else:
        notes.append("translate: gen/eventserial: StopEvent.__init__ has an unexpected signature")
    out.append(f"def stopInitParam : String := {lean_str(param)}")
    out.append(f"def stopInitForward : String := {lean_str(forwarded)}")
    # DictLikeModel.__init__: the three-way partition tests, in order
    dinit = _func(dlm, "__init__")
    tests: list[str] = []
    if dinit is not None:
        for n in ast.walk(dinit):
            if isinstance(n, ast.For):
                for st in n.body:
                    cur: ast.stmt | None = st
                    while isinstance(cur, ast.If):
                        if isinstance(cur.test, ast.Compare) and len(cur.test.comparators) == 1:
                            tests.append(type(cur.test.ops[0]).__name__ + " " + _src(cur.test.comparators[0]))
                        cur = cur.orelse[0] if len(cur.orelse) == 1 else None
                break
    out.append(f"def dictInitTests : List String := {lean_strs(tests)}")
    # exceptions
    ser = _func(tree, "_serialize_exception")
    tkey, mkey, qexpr = MISSING, MISSING, MISSING
    if ser is not None:
        for n in ast.walk(ser):
            if isinstance(n, ast.Return) and isinstance(n.value, ast.Dict):
                for k, v in zip(n.value.keys, n.value.values):
                    if not isinstance(k, ast.Constant):
                        continue
                    full = _inline_locals(ser, v)
                    arg = ser.args.args[0].arg if ser.args.args else "exc"
                    s = _src(_rename_names(full, {arg: "E"}))
                    if s == "str(E)":
                        mkey = str(k.value)
                    else:
                        tkey = str(k.value)
                        qexpr = s
    if MISSING in (tkey, mkey):
        notes.append("translate: gen/eventserial: _serialize_exception has an unexpected shape")
    out.append(f"def excTypeKey : String := {lean_str(tkey)}")
    out.append(f"def excMessageKey : String := {lean_str(mkey)}")
    out.append(f"def excTypeExpr : String := {lean_str(qexpr)}")
    de = _func(tree, "_deserialize_exception")
    caught: list[str] = []
    fallback = MISSING
    in_try: list[str] = []
    if de is not None:
        for n in ast.walk(de):
            if isinstance(n, ast.Try):
                for h in n.handlers:
                    if h.type is None:
                        caught.append("BaseException")
                    elif isinstance(h.type, ast.Tuple):
                        caught += [_src(e) for e in h.type.elts]
                    else:
                        caught.append(_src(h.type))
                    for st in h.body:
                        if isinstance(st, ast.Return) and isinstance(st.value, ast.Call):
                            fallback = _src(st.value.func)
                for st in ast.walk(ast.Module(body=n.body, type_ignores=[])):
                    if isinstance(st, ast.Subscript) and isinstance(st.slice, ast.Constant):
                        in_try.append(str(st.slice.value))
    out.append(f"def excCaught : List String := {lean_strs(sorted(set(caught)))}")
    out.append(f"def excFallback : String := {lean_str(fallback)}")
    out.append(f"def excKeysReadInTry : List String := {lean_strs(sorted(set(in_try)))}")
    return out


def gen_serializers(notes: list[str]) -> list[str]:
    tree = _parse(SERIALIZERS)
    js = _class(tree, "JsonSerializer")
    sv = _func(js, "serialize_value")
    out: list[str] = []
    flag, val, name, mode, probe = MISSING, MISSING, MISSING, MISSING, MISSING
    branch_order: list[str] = []
    if sv is not None:
        arg = sv.args.args[1].arg if len(sv.args.args) > 1 else "value"
        for st in sv.body:
            if not isinstance(st, ast.If):
                continue
            test = _src(_rename_names(st.test, {arg: "V"}))
            branch_order.append(test)
            if test.startswith("hasattr("):
                probe = test
            if test == "isinstance(V, BaseModel)":
                for n in ast.walk(st):
                    if isinstance(n, ast.Return) and isinstance(n.value, ast.Dict):
                        for k, v in zip(n.value.keys, n.value.values):
                            if not isinstance(k, ast.Constant):
                                continue
                            s = _src(_rename_names(v, {arg: "V"}))
                            if s == "True":
                                flag = str(k.value)
                            elif s.startswith("V.model_dump("):
                                val = str(k.value)
                                m = re.search(r"mode='([a-z]+)'", s)
                                mode = m.group(1) if m else "python"
                            elif s == "get_qualified_name(V)":
                                name = str(k.value)
    if MISSING in (flag, val, name, probe):
        notes.append("translate: gen/eventserial: JsonSerializer.serialize_value has an unexpected shape")
    out.append(f"def pydFlagKey : String := {lean_str(flag)}")
    out.append(f"def pydValueKey : String := {lean_str(val)}")
    out.append(f"def pydNameKey : String := {lean_str(name)}")
    out.append(f"def pydDumpMode : String := {lean_str(mode)}")
    out.append(f"def componentProbe : String := {lean_str(probe)}")
    out.append(f"def serializeBranches : List String := {lean_strs(branch_order)}")
    # deserialize_value: guards of the dict branch, in order, with what each returns
    dv = _func(js, "deserialize_value")
    guards: list[tuple[str, str, str]] = []
    if dv is not None:
        arg = dv.args.args[1].arg if len(dv.args.args) > 1 else "data"
        for st in dv.body:
            if isinstance(st, ast.If) and _src(st.test).startswith("isinstance(") and "dict" in _src(st.test):
                for inner in st.body:
                    cur: ast.stmt | None = inner
                    while isinstance(cur, ast.If):
                        ret = ""
                        for n in ast.walk(ast.Module(body=cur.body, type_ignores=[])):
                            if isinstance(n, ast.Return):
                                r = _inline_locals_body(cur.body, n.value, arg)
                                ret = r
                        guards.append((_src(_rename_names(cur.test, {arg: "D"})), ret, ""))
                        cur = cur.orelse[0] if len(cur.orelse) == 1 else None
    out.append(f"def deserializeGuards : List (String × String × String) := {lean_triples(guards)}")
    ut = _parse(UTILS)
    gq = _func(ut, "get_qualified_name")
    qexpr = MISSING
    if gq is not None:
        arg = gq.args.args[0].arg
        for n in ast.walk(gq):
            if isinstance(n, ast.Return) and n.value is not None:
                qexpr = _src(_rename_names(n.value, {arg: "V"}))
                break
    out.append(f"def qualifiedNameExpr : String := {lean_str(qexpr)}")
    return out


def _inline_locals_body(body: list[ast.stmt], expr: ast.expr | None, arg: str) -> str:
    import copy

    if expr is None:
        return ""
    env: dict[str, ast.expr] = {}
    for st in body:
        if isinstance(st, ast.Assign) and len(st.targets) == 1 and isinstance(st.targets[0], ast.Name):
            env[st.targets[0].id] = st.value

    class S(ast.NodeTransformer):
        def visit_Name(self, n: ast.Name) -> Any:
            if n.id in env:
                return copy.deepcopy(env[n.id])
            if n.id == arg:
                return ast.Name(id="D", ctx=n.ctx)
            return n

    e = copy.deepcopy(expr)
    for _ in range(3):
        e = S().visit(e)
    return _src(e)


def _union_members(tree: ast.Module | None, name: str) -> list[str]:
    if tree is None:
        return []
    for n in tree.body:
        if isinstance(n, ast.Assign) and len(n.targets) == 1 and isinstance(n.targets[0], ast.Name) and n.targets[0].id == name:
            v: ast.expr = n.value
            if isinstance(v, ast.Subscript) and _src(v.value) == "Annotated":
                elts = v.slice.elts if isinstance(v.slice, ast.Tuple) else [v.slice]
                v = elts[0]
            members: list[str] = []

            def walk(e: ast.expr) -> None:
                if isinstance(e, ast.BinOp) and isinstance(e.op, ast.BitOr):
                    walk(e.left)
                    walk(e.right)
                elif isinstance(e, ast.Subscript):
                    members.append(_src(e.value))  # AddWaiter[Event]
                else:
                    members.append(_src(e))

            walk(v)
            return members
    return []


def _union_discriminator(tree: ast.Module | None, name: str) -> str:
    if tree is None:
        return MISSING
    for n in tree.body:
        if isinstance(n, ast.Assign) and len(n.targets) == 1 and isinstance(n.targets[0], ast.Name) and n.targets[0].id == name:
            for m in ast.walk(n.value):
                if isinstance(m, ast.Call) and _src(m.func) == "Discriminator" and m.args and isinstance(m.args[0], ast.Constant):
                    return str(m.args[0].value)
    return MISSING


def _rec_spec(cls: ast.ClassDef | None, cname: str, notes: list[str]) -> tuple[str, str, list[tuple[str, str, str]], list[tuple[str, str, str]]]:
    """(class, tag, fields, hooks)"""
    if cls is None:
        notes.append(f"translate: gen/eventserial: class {cname} not found")
        return cname, MISSING, [], []
    tag = MISSING
    fields: list[tuple[str, str, str]] = []
    hooks: list[tuple[str, str, str]] = []
    for n in cls.body:
        if isinstance(n, ast.AnnAssign) and isinstance(n.target, ast.Name):
            ann = _src(n.annotation)
            m = re.fullmatch(r"Literal\['([^']*)'\]", ann)
            if m and n.target.id == "type":
                tag = m.group(1)
                if n.value is None or not isinstance(n.value, ast.Constant) or n.value.value != tag:
                    notes.append(f"translate: gen/eventserial: {cname}.type default differs from its Literal")
                    tag = MISSING
                continue
            fields.append((n.target.id, ann, _src(n.value)))
        elif isinstance(n, ast.FunctionDef):
            decos = [_src(d) for d in n.decorator_list]
            if any(d.startswith("model_serializer") for d in decos):
                for st in n.body:
                    if isinstance(st, ast.Assign) and len(st.targets) == 1 and isinstance(st.targets[0], ast.Subscript) \
                            and isinstance(st.targets[0].slice, ast.Constant):
                        hooks.append(("serialize", str(st.targets[0].slice.value), _src(st.value)))
            if any(d.startswith("model_validator") for d in decos):
                for m2 in ast.walk(n):
                    if isinstance(m2, ast.Call) and isinstance(m2.func, ast.Attribute) and m2.func.attr == "pop" \
                            and m2.args and isinstance(m2.args[0], ast.Constant):
                        hooks.append(("validate", "pop", str(m2.args[0].value)))
    return cname, tag, fields, sorted(hooks)


def gen_ticks(notes: list[str]) -> list[str]:
    tt = _parse(TICKS)
    rt = _parse(RESULTS)
    out: list[str] = []
    tick_members = _union_members(tt, "WorkflowTick")
    res_members = _union_members(rt, "StepFunctionResult")
    if not tick_members or not res_members:
        notes.append("translate: gen/eventserial: tick / result union not found")
    out.append(f"def tickDiscriminator : String := {lean_str(_union_discriminator(tt, 'WorkflowTick'))}")
    specs_t = [_rec_spec(_class(tt, m), m, notes) for m in tick_members]
    specs_r = [_rec_spec(_class(rt, m), m, notes) for m in res_members]

    def emit(name: str, specs: list) -> None:
        items = []
        for cname, tag, fields, hooks in specs:
            items.append(f"  ({lean_str(cname)}, {lean_str(tag)}, {lean_triples(fields)}, {lean_triples(hooks)})")
        out.append(f"def {name} : List (String × String × List (String × String × String) × List (String × String × String)) := [")
        out.append(",\n".join(items))
        out.append("]")

    emit("tickClasses", specs_t)
    emit("resultClasses", specs_r)
    return out


def gen_envelope(notes: list[str]) -> list[str]:
    tree = _parse(ENVELOPE)
    out: list[str] = []
    meta = _class(tree, "EventEnvelopeWithMetadata")
    env = _class(tree, "EventEnvelope")

    def ctor_kwargs(fn: ast.FunctionDef | None, what: str) -> list[tuple[str, str, str]]:
        if fn is None:
            notes.append(f"translate: gen/eventserial: {what} not found")
            return [(MISSING, MISSING, "")]
        arg = fn.args.args[1].arg if len(fn.args.args) > 1 else "event"
        for n in ast.walk(fn):
            if isinstance(n, ast.Call) and _src(n.func) in ("EventEnvelopeWithMetadata", "EventEnvelope", "cls") and n.keywords:
                res = []
                for kw in n.keywords:
                    e = _inline_locals(fn, kw.value)
                    res.append((kw.arg or "**", _src(_rename_names(e, {arg: "E"})), ""))
                return sorted(res)
        notes.append(f"translate: gen/eventserial: {what}: constructor call not found")
        return [(MISSING, MISSING, "")]

    out.append("def metaFromEvent : List (String × String × String) := "
               + lean_triples(ctor_kwargs(_func(meta, "from_event"), "EventEnvelopeWithMetadata.from_event")))
    out.append("def envelopeFromEvent : List (String × String × String) := "
               + lean_triples(ctor_kwargs(_func(env, "from_event"), "EventEnvelope.from_event")))
    out.append("def loadEventForwards : List (String × String × String) := "
               + lean_triples(ctor_kwargs(_func(meta, "load_event"), "EventEnvelopeWithMetadata.load_event")))

    def fields(cls: ast.ClassDef | None) -> list[tuple[str, str, str]]:
        res = []
        if cls is not None:
            for n in cls.body:
                if isinstance(n, ast.AnnAssign) and isinstance(n.target, ast.Name):
                    res.append((n.target.id, _src(n.annotation), _src(n.value)))
        return res

    out.append(f"def metaFields : List (String × String × String) := {lean_triples(fields(meta))}")
    out.append(f"def envelopeFields : List (String × String × String) := {lean_triples(fields(env))}")
    # parse: order of the two lookups (tests of the top-level ifs inside the try)
    parse = _func(env, "parse")
    order: list[str] = []
    caught: list[str] = []
    if parse is not None:
        for n in ast.walk(parse):
            if isinstance(n, ast.Try) and any(isinstance(s, ast.If) for s in n.body):
                for st in n.body:
                    if isinstance(st, ast.If):
                        order.append(_src(st.test))
                        for inner in st.body:
                            if isinstance(inner, ast.If):
                                order.append("  " + _src(inner.test))
                for h in n.handlers:
                    caught.append(_src(h.type))
    out.append(f"def parseLookupOrder : List String := {lean_strs(order)}")
    out.append(f"def parseCaught : List String := {lean_strs(caught)}")
    return out


def generate(notes: list[str]) -> list[str]:
    lines = ["namespace Gen.EventSerial", ""]
    for g in (gen_events, gen_serializers, gen_ticks, gen_envelope):
        try:
            lines += g(notes)
        except Exception as e:  # drift: dependent theorems fail to compile
            notes.append(f"translate: gen/eventserial: {g.__name__} crashed: {e!r}")
            lines.append(f"-- {g.__name__} crashed: {e!r}".replace("\n", " "))
        lines.append("")
    lines.append("end Gen.EventSerial")
    return lines
