import WfModel.Timers
/-!
Helper lemmas for C14 (1): what a freshly (re)started control loop holds.

`Runner.init` = `_ControlLoopRunner.__init__` + the head of `run()`: the only thing ever pushed on
the timer heap there is the workflow timeout; `rewind_in_progress` emits worker starts and
telemetry only.  Hence **no** delayed `TickAddEvent` and **no** `TickWaiterTimeout` is in the heap
of a reloaded run, whatever the persisted state is.
-/
namespace Engine

/-- commands whose execution pushes a retry / waiter-timeout timer -/
def Cmd.pushesTimer : Cmd → Bool
  | .queueEvent _ _ (some d) => decide (d > 0)
  | .scheduleWaiterTimeout _ _ _ => true
  | _ => false

theorem addOrEnqueue_noTimer (att : Attempt) (step : Nat) (ss : StepState) (nw : Nat) (now : Int) :
    ∀ c ∈ (addOrEnqueue att step ss nw now).2, c.pushesTimer = false := by
  unfold addOrEnqueue
  split
  · split <;> simp [Cmd.pushesTimer]
  · simp [Cmd.pushesTimer]

theorem drain_noTimer (step nw : Nat) (now : Int) :
    ∀ (fuel : Nat) (ss : StepState), ∀ c ∈ (drain step nw now fuel ss).2, c.pushesTimer = false
  | 0, ss => by simp [drain]
  | fuel + 1, ss => by
    unfold drain
    split
    · simp
    · split
      · intro c hc
        rcases List.mem_append.mp hc with hc | hc
        · exact addOrEnqueue_noTimer _ _ _ _ _ c hc
        · exact drain_noTimer step nw now fuel _ c hc
      · simp

theorem rewindLoop_noTimer (now : Int) :
    ∀ (cs : List StepCfg) (st : State) (cmds : List Cmd), (∀ c ∈ cmds, c.pushesTimer = false) →
      ∀ c ∈ (rewindLoop now cs st cmds).2, c.pushesTimer = false
  | [], st, cmds, h => by simpa [rewindLoop] using h
  | c :: cs, st, cmds, h => by
    unfold rewindLoop
    apply rewindLoop_noTimer now cs
    intro x hx
    rcases List.mem_append.mp hx with hx | hx
    · exact h x hx
    · exact drain_noTimer _ _ _ _ _ x hx

theorem rewind_noTimer (cfg : Cfg) (st : State) (now : Int) :
    ∀ c ∈ (rewind cfg st now).2, c.pushesTimer = false :=
  rewindLoop_noTimer now _ st [] (by simp)

theorem execCmd_heap_of_noTimer (r : Runner) (c : Cmd) (h : c.pushesTimer = false) :
    (execCmd r c).heap = r.heap := by
  cases c with
  | queueEvent att step delay =>
    cases delay with
    | none => rfl
    | some d =>
      simp only [Cmd.pushesTimer, decide_eq_false_iff_not] at h
      simp [execCmd, h]
  | scheduleIdleCheck => simp only [execCmd]; split <;> rfl
  | scheduleWaiterTimeout s w t => simp [Cmd.pushesTimer] at h
  | _ => rfl

theorem execCmds_heap_of_noTimer : ∀ (cmds : List Cmd) (r : Runner), (∀ c ∈ cmds, c.pushesTimer = false) →
    (execCmds r cmds).heap = r.heap
  | [], r, _ => by simp [execCmds]
  | c :: cs, r, h => by
    simp only [execCmds]
    have h1 := execCmd_heap_of_noTimer r c (h c (by simp))
    split
    · exact h1
    · rw [execCmds_heap_of_noTimer cs _ (fun d hd => h d (by simp [hd])), h1]

/-- the heap of a freshly started control loop: exactly the workflow timeout, armed from scratch -/
theorem init_heap (cfg : Cfg) (st0 : State) (now : Int) (start : Option Ev) (timeout : Option Nat) :
    (Runner.init cfg st0 now start timeout).heap =
      match timeout with
      | some t => [{ at_ := now + t, seq := 0, tick := .timeout t }]
      | none => [] := by
  unfold Runner.init
  rw [execCmds_heap_of_noTimer _ _ (rewind_noTimer cfg st0 now)]
  cases timeout <;> rfl

theorem init_heap_no_retry_or_waiter (cfg : Cfg) (st0 : State) (now : Int) (start : Option Ev)
    (timeout : Option Nat) :
    ∀ tm ∈ (Runner.init cfg st0 now start timeout).heap, tm.tick.isRetryOrWaiterTimer = false := by
  rw [init_heap]
  cases timeout with
  | none => simp
  | some t => simp [Tick.isRetryOrWaiterTimer]

/-- the mailbox, the tick log and the outcome of a fresh control loop are empty -/
theorem execCmd_mailbox (r : Runner) (c : Cmd) : (execCmd r c).mailbox = r.mailbox := by
  cases c with
  | queueEvent att step delay =>
    cases delay with
    | none => rfl
    | some d => simp only [execCmd]; split <;> rfl
  | scheduleIdleCheck => simp only [execCmd]; split <;> rfl
  | _ => rfl

theorem execCmds_mailbox : ∀ (cmds : List Cmd) (r : Runner), (execCmds r cmds).mailbox = r.mailbox
  | [], r => by simp [execCmds]
  | c :: cs, r => by
    simp only [execCmds]
    split
    · exact execCmd_mailbox r c
    · rw [execCmds_mailbox cs, execCmd_mailbox]

theorem init_mailbox (cfg : Cfg) (st0 : State) (now : Int) (start : Option Ev) (timeout : Option Nat) :
    (Runner.init cfg st0 now start timeout).mailbox = [] := by
  unfold Runner.init
  rw [execCmds_mailbox]
  cases timeout <;> rfl

end Engine
