"""Real `ResourceManager` / `partial` / `Workflow` runs for C22, scripted.

A *graph* is a list of `{"c": cached, "a": async, "f": fails, "d": [dep ids], "v": value kind}`
(`v` optional: 0 an ordinary object `Obj(rid, serial)`, 1 `None`, 2 `0`, 3 `""`, 4 a fresh `[]`,
5 `False` -- any value is a legal resource; the falsy ones have no attribute to carry a
serial, so an injected value is *rendered* as its serial when every call returns a new
object (kinds 0 and 4, the list through an id registry) and as the value itself
(`N`/`Z`/`E`/`F`) when the value is an interned singleton).
`World` turns it into real `Resource(...)` descriptors over real factory functions
(`r0`, `r1`, ...; the `__qualname__` is the resource name) whose signatures declare
their dependencies as `Annotated[Obj, <descriptor>]` parameters (cycles and
self-cycles included).  Every factory call takes the next *serial* (object identity),
logs `call`, and -- for an async factory -- awaits a gate `asyncio.Event` the
scheduler opens later; then it logs `made` and returns `Obj(rid, serial)`, or logs
`raised` and raises.

Two ways to run:

* `DirectRun`: harness tasks call the real `partial()` (or a bare
  `ResourceManager.get`) and the scheduler performs ops (`spawn`, `open`) only when
  the loop is quiescent; after each op the observable line (events since the last
  op + the manager's bookkeeping) is emitted in the model driver's format.
* `WorkflowRun`: a real `Workflow` whose worker steps declare the resources as
  `Annotated[...]` parameters and run concurrently (`num_workers` > 1); `partial` is
  observed (wrapped, not replaced) to number the invocations; the scheduler opens
  gates at quiescent points; the same op/line stream is recorded as it happens.
"""
from __future__ import annotations

import asyncio
import contextvars
import random
import re
from types import SimpleNamespace
from typing import Annotated, Any, Callable

from .vloop import VLoop

CUR: contextvars.ContextVar[int] = contextvars.ContextVar("c22_task", default=-1)


class FactoryError(Exception):
    def __init__(self, rid: int):
        super().__init__(f"factory r{rid} failed")
        self.rid = rid


class Obj:
    __slots__ = ("rid", "serial")

    def __init__(self, rid: int, serial: int):
        self.rid = rid
        self.serial = serial

    def __repr__(self) -> str:
        return f"Obj(r{self.rid}#{self.serial})"


def dots(xs) -> str:
    return ".".join(str(x) for x in xs)


#: value kinds of a factory (graph key "v"); the token an observer sees for the interned ones
VAL_NAMES = {0: "object", 1: "None", 2: "0", 3: "''", 4: "[]", 5: "False"}
VAL_TOKEN = {1: "N", 2: "Z", 3: "E", 5: "F"}
FRESH_KINDS = (0, 4)  # every factory call returns a new object: identity tells creations apart
MISSING = object()  # "no such keyword argument" (a None argument is a value, not an absence)


def vkind(r: dict) -> int:
    return int(r.get("v", 0))


def graph_line(g: list[dict]) -> str:
    return "graph|" + ";".join(
        f"{int(r['c'])}{int(r['a'])}{int(r['f'])}{vkind(r) or ''}:{','.join(map(str, r['d']))}" for r in g)


class World:
    """Real descriptors + instrumented factories for one graph."""

    def __init__(self, g: list[dict]):
        from workflows.resource import Resource, ResourceManager

        self.g = g
        self.events: list[str] = []
        self.next_serial = 0
        self.gates: dict[int, asyncio.Event] = {}
        self.lists: dict[int, tuple[list, int]] = {}  # id -> (the list a factory returned, kept alive; serial)
        self.manager = ResourceManager()
        self.factories: list[Callable] = []
        self.desc: list[Any] = []
        ns: dict[str, Any] = {"_sync": self._sync_body, "_async": self._async_body}
        for i, r in enumerate(g):
            params = ", ".join(f"d{j}" for j in range(len(r["d"])))
            if r["a"]:
                src = f"async def r{i}({params}):\n    return await _async({i}, [{params}])\n"
            else:
                src = f"def r{i}({params}):\n    return _sync({i}, [{params}])\n"
            exec(src, ns)
            f = ns[f"r{i}"]
            self.factories.append(f)
            self.desc.append(Resource(f, cache=bool(r["c"])))
        for i, r in enumerate(g):
            self.factories[i].__annotations__ = {f"d{j}": Annotated[Obj, self.desc[d]] for j, d in enumerate(r["d"])}
        self.name_to_rid = {d.name: i for i, d in enumerate(self.desc)}

    # -- factory bodies ------------------------------------------------------
    def _call(self, rid: int, args: list) -> int:
        serial = self.next_serial
        self.next_serial += 1
        self.events.append(f"call:{CUR.get()}:{rid}:{serial}:{dots(self.tok(a) for a in args)}")
        return serial

    def _ret(self, rid: int, serial: int) -> Any:
        if self.g[rid]["f"]:
            self.events.append(f"raised:{CUR.get()}:{rid}:{serial}")
            raise FactoryError(rid)
        self.events.append(f"made:{CUR.get()}:{rid}:{serial}")
        kind = vkind(self.g[rid])
        if kind == 0:
            return Obj(rid, serial)
        if kind == 4:
            v: list = []
            self.lists[id(v)] = (v, serial)
            return v
        return {1: None, 2: 0, 3: "", 5: False}[kind]

    def tok(self, v: Any) -> Any:
        """What the holder of an injected value can tell about it: the serial of the creation
        (an `Obj`, or one of our lists), else the interned value itself, else `?`."""
        if isinstance(v, Obj):
            return v.serial
        if type(v) is list and id(v) in self.lists and self.lists[id(v)][0] is v and not v:
            return self.lists[id(v)][1]
        if v is None:
            return "N"
        if v is False:
            return "F"
        if type(v) is int and v == 0:
            return "Z"
        if type(v) is str and v == "":
            return "E"
        return "?"

    def _sync_body(self, rid: int, args: list) -> Obj:
        return self._ret(rid, self._call(rid, args))

    async def _async_body(self, rid: int, args: list) -> Obj:
        serial = self._call(rid, args)
        gate = asyncio.Event()
        tid = CUR.get()
        self.gates[tid] = gate
        try:
            await gate.wait()
        finally:
            if self.gates.get(tid) is gate:
                del self.gates[tid]
        return self._ret(rid, serial)

    # -- observation ---------------------------------------------------------
    def outcome(self, exc: BaseException | None, objs: list | None) -> str:
        if exc is None:
            return "ok:" + dots(self.tok(o) for o in (objs or []))
        if isinstance(exc, FactoryError):
            return f"failed:{exc.rid}"
        m = re.fullmatch(r"Circular resource dependency detected: (.*)", str(exc)) if isinstance(exc, ValueError) else None
        if m:
            names = m.group(1).split(" -> ")
            if all(n in self.name_to_rid for n in names):
                return "cycle:" + dots(self.name_to_rid[n] for n in names)
        if isinstance(exc, asyncio.CancelledError):
            return "cancelled"
        return f"exc:{type(exc).__name__}:{str(exc)[:60]}"

    def state(self, phases: str) -> str:
        m = self.manager
        rid = self.name_to_rid

        def dct(d: dict) -> str:
            items = sorted((rid.get(k, 10 ** 6), self.tok(v)) for k, v in d.items())
            return ",".join(f"{k}:{v}" for k, v in items)

        lock = getattr(m, "_scope_lock", None)
        lk = 1 if (lock is not None and lock.locked()) else 0
        return (f"rs={dots(rid.get(n, '?') for n in m._resolving)} d={m._resolution_depth} "
                f"sc={dct(m._resolution_cache)} res={dct(m.resources)} lk={lk} ph={phases}")

    def take_events(self) -> str:
        ev, self.events = self.events, []
        return " ".join(ev)


class Quiesce:
    """`await q.idle()` returns when nothing else on the loop is runnable."""

    def __init__(self, loop: VLoop):
        self.loop = loop
        self.fut: asyncio.Future | None = None
        loop.quiescence_hook = self._hook

    def _hook(self) -> bool:
        if self.fut is not None and not self.fut.done():
            self.fut.set_result(None)
            return True
        return False

    async def idle(self) -> None:
        self.fut = self.loop.create_future()
        await self.fut
        self.fut = None


def _run_on_vloop(main: Callable[[VLoop], Any]) -> Any:
    loop = VLoop()
    loop.max_time = 1e9
    asyncio.set_event_loop(loop)
    try:
        try:
            return loop.run_until_complete(main(loop))
        except RuntimeError:
            if not loop.deadlock:  # VLoop stops itself when nothing can ever run again
                raise
            return None
    finally:
        try:
            pending = [t for t in asyncio.all_tasks(loop) if not t.done()]
            for t in pending:
                t.cancel()
            if pending:
                loop.quiescence_hook = None
                loop.run_until_complete(asyncio.gather(*pending, return_exceptions=True))
        except Exception:
            pass
        asyncio.set_event_loop(None)
        loop.close()


# --------------------------------------------------------------------------
# direct runs: real partial() / ResourceManager.get in harness tasks


def _direct(g: list[dict], ops: list[list] | None, chooser: Callable | None) -> tuple[list[str], dict, list[list]]:
    """An op ["loop"] (only when every invocation has finished) continues on a fresh event loop with
    the same manager: a manager outlives event loops (Workflow objects are reused across asyncio.run)."""
    from workflows.resource import ResourceDefinition
    from workflows.runtime.types import step_function as SF

    info: dict[str, Any] = {"tasks": [], "events": [], "loops": 1}
    done_ops: list[list] = []
    ctxs: dict[int, contextvars.Context] = {}  # finished invocation -> the context it ended with
    cancelled_by_op: set[int] = set()  # invocations the schedule cancelled (op "cancel"), as opposed to the teardown
    w = World(g)
    wf = SimpleNamespace(_resource_manager=w.manager)
    lines: list[str] = []
    st = {"i": 0, "more": True}

    async def invocation(tid: int, mode: str, reqs: list[int]) -> None:
        CUR.set(tid)
        rec = info["tasks"][tid]
        outcome = "?"
        try:
            if mode == "b":
                objs = [await w.manager.get(w.desc[reqs[0]])]
            else:
                cfg = SimpleNamespace(
                    event_name="ev", context_parameter=None,
                    resources=[ResourceDefinition(name=f"p{j}", resource=w.desc[r], type_annotation=Obj)
                               for j, r in enumerate(reqs)])
                fn = await SF.partial(func=lambda **kw: kw, step_config=cfg, event=None, context=None, workflow=wf)
                objs = [fn.keywords.get(f"p{j}", MISSING) for j in range(len(reqs))]
            outcome = w.outcome(None, objs)
            rec["objs"] = [w.tok(o) for o in objs]
            rec["obj_rids"] = [getattr(o, "rid", None) for o in objs]
        except BaseException as e:  # noqa: BLE001 - classified; cancellation re-raised
            outcome = w.outcome(e, None)
            if isinstance(e, asyncio.CancelledError):
                raise
        finally:
            if outcome != "cancelled" or tid in cancelled_by_op:  # otherwise: the teardown's cancellation
                rec["outcome"] = outcome
                w.events.append(f"fin:{tid}:{outcome}")
                # what a task created by this one from now on would start with (asyncio.create_task copies the
                # creating task's current context: every ContextVar binding, mutable objects by reference)
                ctxs[tid] = contextvars.copy_context()

    async def main(loop: VLoop) -> None:
        q = Quiesce(loop)
        offset = len(info["tasks"])  # invocations of earlier loops: all finished
        tasks: list[asyncio.Task] = []

        def phases() -> str:
            return "D" * offset + "".join(
                "D" if t.done() else ("S" if offset + i in w.gates else "W") for i, t in enumerate(tasks))

        while True:
            if ops is not None:
                if st["i"] >= len(ops):
                    st["more"] = False
                    break
                op = ops[st["i"]]
                st["i"] += 1
            else:
                live = [offset + i for i, t in enumerate(tasks) if not t.done()]
                op = chooser(sorted(w.gates), offset + len(tasks), sorted(ctxs), live)  # type: ignore[misc]
                if op is None or len(done_ops) > 200:
                    st["more"] = False
                    break
            done_ops.append(op)
            if op[0] == "loop":
                if w.gates or any(not t.done() for t in tasks):
                    lines.append("bad-op")
                    continue
                info["loops"] += 1
                return  # next segment on a fresh loop
            if op[0] == "spawn" and len(op) in (3, 4) and op[1] in ("p", "b") and (op[1] == "p" or len(op[2]) == 1) \
                    and all(isinstance(r, int) and 0 <= r < len(g) for r in op[2]) \
                    and (len(op) == 3 or (isinstance(op[3], int) and op[3] >= 0)):
                tid = offset + len(tasks)
                parent = op[3] if len(op) == 4 else None
                if parent is not None and parent not in ctxs:
                    lines.append("disabled")  # only a finished invocation spawns (its scope is closed)
                    continue
                info["tasks"].append({"mode": op[1], "reqs": list(op[2]), "outcome": None, "objs": None,
                                      "parent": parent})
                if parent is None:
                    tasks.append(loop.create_task(invocation(tid, op[1], list(op[2]))))
                else:
                    # the task tree: invocation `parent` resolved its resources and then created this task
                    # (a step body running a child workflow, user code warming a resource before a fan-out)
                    tasks.append(loop.create_task(invocation(tid, op[1], list(op[2])), context=ctxs[parent].copy()))
            elif op[0] == "open" and len(op) == 2 and isinstance(op[1], int):
                gate = w.gates.get(op[1])
                if gate is None:
                    lines.append("disabled")
                    continue
                gate.set()
            elif op[0] == "cancel" and len(op) == 2 and isinstance(op[1], int):
                # the invocation's task is cancelled where it is suspended: at the await inside an async factory
                # (a step worker cancelled by cancel_run / the workflow timeout / cleanup_tasks) or in the queue
                # of the scope lock
                i = op[1] - offset
                if not 0 <= i < len(tasks) or tasks[i].done():
                    lines.append("disabled")
                    continue
                cancelled_by_op.add(op[1])
                tasks[i].cancel()
            else:
                lines.append("bad-op")
                continue
            await q.idle()
            ev = w.take_events()
            info["events"] += ev.split(" ") if ev else []
            lines.append(ev + " | " + w.state(phases()))
        info["gates"] = sorted(w.gates)

    while st["more"]:
        _run_on_vloop(main)
    return lines, info, done_ops


def run_direct(g: list[dict], ops: list[list]) -> tuple[list[str], dict]:
    """ops: ["spawn", "p"|"b", [rids]] | ["spawn", "p"|"b", [rids], parent] (created by the finished
    invocation `parent`, i.e. in a copy of its context) | ["open", tid] | ["cancel", tid] (the unfinished
    invocation is cancelled where it is suspended) | ["loop"].  Returns (lines, info); info has
    per-task outcomes, injected objects and the full event list (for the monitors)."""
    lines, info, _ = _direct(g, ops, None)
    return lines, info


def explore_direct(g: list[dict], chooser: Callable) -> list[list]:
    """Let `chooser(gates, ntasks, finished, live)` pick each op from what the real execution offers."""
    return _direct(g, None, chooser)[2]


def op_line(op: list) -> str:
    """The model driver's op line ("" for ops the model does not see)."""
    if op[0] == "loop":
        return ""
    if op[0] == "spawn":
        return f"spawn|{op[1]}|{','.join(map(str, op[2]))}" + (f"|{op[3]}" if len(op) == 4 else "")
    if op[0] in ("open", "cancel") and len(op) == 2:
        return f"{op[0]}|{op[1]}"
    return str(op[1] if len(op) > 1 else op[0])


# --------------------------------------------------------------------------
# workflow runs: real Workflow, worker steps with Annotated[..., Resource(...)] parameters


def run_workflow(case: dict) -> tuple[list[str], list[list], dict]:
    """case: {"g", "workers": [{"reqs", "num_workers", "count"}], "order": [worker index per event], "seed"}
    and optionally "outer": n (the workflow is run from the body of a step, with an injected resource, of n nested
    enclosing workflows), "pre": [rids] (bare `manager.get`s made by the running task before `run()`) and
    "runs": [{"end": "cancel", "after": k}, ...] -- earlier runs of the SAME workflow instance (same
    ResourceManager), each ended by `handler.cancel_run()` (the workflow timeout and a failing step end a run
    through the same `cleanup_tasks`) at the (k+1)-th quiescent point
    at which an invocation is suspended inside a resource factory (it completes normally if that never happens),
    before the run that goes to completion.
    Returns (lines, ops, info) in the same format as the direct runs; ops are recorded as
    they happen (spawn = an invocation enters partial(); open = the scheduler opens a gate)."""
    from workflows import Context, Workflow
    from workflows.decorators import step
    from workflows.events import Event, StartEvent, StopEvent
    from workflows.runtime.types import step_function as SF

    g = case["g"]
    rng = random.Random(case["seed"])
    info: dict[str, Any] = {"tasks": [], "events": [], "result": "pending", "all_opened": True, "run_results": [],
                            "run_end_states": [], "run_cancelled": False}
    ops: list[list] = []
    lines: list[str] = []
    endings: list[dict] = [dict(e) for e in case.get("runs", [])] if not case.get("outer") else []

    async def main(loop: VLoop) -> None:
        w = World(g)
        state = {"open_line": False, "done": 0}

        def phases() -> str:
            return "".join("D" if r["outcome"] is not None else ("S" if i in w.gates else "W")
                           for i, r in enumerate(info["tasks"]))

        def flush() -> None:
            if state["open_line"]:
                ev = w.take_events()
                info["events"] += ev.split(" ") if ev else []
                lines.append(ev + " | " + w.state(phases()))
                state["open_line"] = False

        def record(op: list) -> None:
            flush()
            ops.append(op)
            state["open_line"] = True

        body_gates: dict[int, asyncio.Event] = {}

        async def body() -> None:
            # a worker's body suspends until the scheduler lets it finish: one worker completes per quiescent
            # point (the engine keeps finished worker tasks in a set, so simultaneous completions are processed
            # in an address-dependent order)
            gate = asyncio.Event()
            key = state["bodies"] = state.get("bodies", 0) + 1
            body_gates[key] = gate
            try:
                await gate.wait()
            finally:
                body_gates.pop(key, None)

        ns: dict[str, Any] = {"BODY": body, "Workflow": Workflow, "Context": Context, "step": step, "Event": Event,
                              "StartEvent": StartEvent, "StopEvent": StopEvent, "Annotated": Annotated, "Obj": Obj,
                              "ORDER": case["order"], "STATE": state, "TOTAL": len(case["order"])}
        for i, d in enumerate(w.desc):
            ns[f"D{i}"] = d
        src = ["class Done(Event):\n    pass\n"]
        for k, wk in enumerate(case["workers"]):
            src.append(f"class Work{k}(Event):\n    pass\n")
        ret = " | ".join([f"Work{k}" for k in range(len(case["workers"]))] + ["None"])
        src.append("WORK = [" + ", ".join(f"Work{k}" for k in range(len(case["workers"]))) + "]\n")
        src.append("class WF(Workflow):\n"
                   "    @step\n"
                   f"    async def start(self, ctx: Context, ev: StartEvent) -> {ret}:\n"
                   "        for i in ORDER:\n"
                   "            ctx.send_event(WORK[i]())\n"
                   "        return None\n")
        for k, wk in enumerate(case["workers"]):
            params = "".join(f", p{j}: Annotated[Obj, D{r}]" for j, r in enumerate(wk["reqs"]))
            src.append(f"    @step(num_workers={wk['num_workers']})\n"
                       f"    async def work{k}(self, ev: Work{k}{params}) -> Done:\n"
                       "        await BODY()\n"
                       "        return Done()\n")
        src.append("    @step\n"
                   "    async def join(self, ctx: Context, ev: Done) -> StopEvent | None:\n"
                   "        STATE['done'] += 1\n"
                   "        if STATE['done'] == TOTAL:\n"
                   "            return StopEvent(result='ok')\n"
                   "        return None\n")
        exec("".join(src), ns)
        wf = ns["WF"](timeout=None, verbose=False)
        wf._resource_manager = w.manager
        orig = SF.partial
        # enclosing workflows ("outer": n): a step with an injected resource of its own (own manager, own
        # factory) runs the next workflow from its body, so the inner control loop and every inner step task
        # descend from the context in which that step's resources were resolved
        top = wf
        for lvl in range(int(case.get("outer", 0))):
            ons: dict[str, Any] = {"Workflow": Workflow, "step": step, "StartEvent": StartEvent, "StopEvent": StopEvent,
                                   "Annotated": Annotated, "INNER": top}
            exec(f"def outer_cfg{lvl}():\n    return {{'level': {lvl}}}\n"
                 "from workflows.resource import Resource\n"
                 f"class Outer{lvl}(Workflow):\n"
                 "    @step\n"
                 f"    async def only(self, ev: StartEvent, cfg: Annotated[dict, Resource(outer_cfg{lvl})]) -> StopEvent:\n"
                 "        return StopEvent(result=await INNER.run())\n", ons)
            top = ons[f"Outer{lvl}"](timeout=None, verbose=False)
        info["ancestor_resolved"] = bool(case.get("outer")) or bool(case.get("pre"))

        async def warm(r: int) -> None:
            # "pre": the task that later runs the workflow first resolves a resource through the manager itself
            tid = len(info["tasks"])
            CUR.set(tid)
            rec = {"mode": "b", "reqs": [r], "outcome": None, "objs": None}
            record(["spawn", "b", [r]])
            info["tasks"].append(rec)
            outcome = "?"
            try:
                obj = await w.manager.get(w.desc[r])
                outcome = w.outcome(None, [obj])
                rec["objs"] = [w.tok(obj)]
            except Exception as e:  # noqa: BLE001 - classified; the caller goes on to run the workflow
                outcome = w.outcome(e, None)
            finally:
                rec["outcome"] = outcome
                w.events.append(f"fin:{tid}:{outcome}")

        async def observed(func, step_config, event, context, workflow):  # type: ignore[no-untyped-def]
            if workflow is not wf:
                return await orig(func=func, step_config=step_config, event=event, context=context, workflow=workflow)
            tid = len(info["tasks"])
            CUR.set(tid)
            reqs = [w.desc.index(rd.resource) for rd in step_config.resources]
            rec = {"mode": "p", "reqs": reqs, "outcome": None, "objs": None}
            record(["spawn", "p", reqs])
            info["tasks"].append(rec)
            outcome = "?"
            try:
                fn = await orig(func=func, step_config=step_config, event=event, context=context, workflow=workflow)
                objs = [fn.keywords.get(rd.name, MISSING) for rd in step_config.resources]
                outcome = w.outcome(None, objs)
                rec["objs"] = [w.tok(o) for o in objs]
                return fn
            except BaseException as e:  # noqa: BLE001
                outcome = w.outcome(e, None)
                raise
            finally:
                rec["outcome"] = outcome
                w.events.append(f"fin:{tid}:{outcome}")

        cur: dict[str, Any] = {"ending": None, "handler": None, "frozen": False}

        def hook() -> bool:
            if cur["frozen"]:
                return False  # nobody acts any more: virtual time runs on to the workflow timeout
            end = cur["ending"]
            if end is not None and w.gates:
                if end["after"] <= 0:
                    cur["ending"] = None
                    info["run_cancelled"] = True
                    loop.create_task(cur["handler"].cancel_run())
                    return True
                end["after"] -= 1
            cands = [("r", t) for t in sorted(w.gates)] + [("b", i) for i in sorted(body_gates)]
            if not cands:
                return False
            kind, i = rng.choice(cands)
            if kind == "r":
                record(["open", i])
                w.gates[i].set()
            else:
                body_gates[i].set()
            return True

        loop.quiescence_hook = hook
        SF.partial = observed
        try:
            try:
                for r0 in case.get("pre", []):
                    await warm(r0)
                for end in endings:
                    # an earlier run of the same instance, ended from outside while (if ever) a step worker is
                    # suspended inside a resource factory: the engine cancels the workers (cleanup_tasks)
                    first = len(info["tasks"])
                    state["done"] = 0
                    cur.update(ending=end, frozen=False)
                    cur["handler"] = wf.run()
                    try:
                        r = await cur["handler"]
                        info["run_results"].append(f"ok:{r}")
                    except asyncio.CancelledError:
                        raise
                    except BaseException as e:  # noqa: BLE001
                        info["run_results"].append(f"error:{type(e).__name__}:{str(e)[:80]}")
                    cur.update(ending=None, frozen=False)
                    for g_ in list(body_gates.values()):
                        g_.set()
                    # the model's view of the engine's cleanup: the invocations still resolving are cancelled,
                    # those queued on the scope lock first (no order among them is observable: every worker
                    # task is cancelled before any of them runs again), then the one inside the scope
                    gone = [t for t in range(first, len(info["tasks"])) if info["tasks"][t]["outcome"] == "cancelled"]
                    inside = [t for t in gone if any(e.startswith(f"call:{t}:") for e in info["events"] + w.events)]
                    for t in [t for t in gone if t not in inside] + inside:
                        record(["cancel", t])
                    flush()
                    info["run_end_states"].append(w.state(phases()))
                state["done"] = 0
                r = await top.run()
                info["result"] = f"ok:{r}"
            except BaseException as e:  # noqa: BLE001
                info["result"] = f"error:{type(e).__name__}:{str(e)[:80]}"
                if isinstance(e, asyncio.CancelledError):
                    info["result"] = "error:cancelled"
        finally:
            SF.partial = orig
            loop.quiescence_hook = None
            flush()
            info["all_opened"] = not w.gates
            info["run_end_states"].append(w.state(phases()))

    _run_on_vloop(main)
    if info["result"] == "pending" or info["result"] == "error:cancelled":
        info["result"] = "stuck"  # the loop found nothing runnable and no gate to open
    return lines, ops, info
