import WfModel.Handlers
import WfModel.GenValidate
/-!
M10 — workflow validation (`representation/validate.py`, `Workflow.__init__` / `validate`).

* Event classes are `Nat`s.  `Hier.bases` is the class table: entry `i` lists the direct base
  classes of class `i` (Python allows several).  The first seven entries are fixed:
  `Event 0`, `StartEvent 1`, `StopEvent 2`, `InputRequiredEvent 3`, `HumanResponseEvent 4`,
  `StepFailedEvent 5` (all deriving from `Event`) and `NoneType 6` (not an event).
  `isSub` is `issubclass`.
* A step has a name (`Nat`; dict keys, hence distinct), accepted event types, return types
  (which may contain `NoneType`), per-step `skip_graph_checks`, and the `@catch_error`
  configuration.  Check names are numbered `reachability 0`, `terminal_event 1`, `dead_end 2`;
  any other number is an unknown name.
* `validateWorkflow` is `_validate_workflow`: every check in the order the code performs it, the
  first failing one decides the error.  `constructAndValidate` is `Workflow(...)` followed by
  `validate()` (the constructor infers start/stop first and rejects unknown check names).
* Which root classes count as boundary / output / seed events and how the returned
  human-in-the-loop flag is computed is read from `Gen.C23` (regenerated from the source).
* The `@catch_error` table is `Handlers` (shared with C08).
-/
namespace Validate

abbrev Cls := Nat

def cEvent : Cls := 0
def cStart : Cls := 1
def cStop : Cls := 2
def cInputRequired : Cls := 3
def cHumanResponse : Cls := 4
def cStepFailed : Cls := 5
def cNone : Cls := 6

/-- direct bases of the seven built-in classes -/
def builtinBases : List (List Cls) := [[], [0], [0], [0], [0], [0], []]

structure Hier where
  bases : List (List Cls)
deriving Repr

def Hier.basesOf (H : Hier) (c : Cls) : List Cls := H.bases.getD c []

/-- the table starts with the built-in classes and every base was defined before its subclass -/
def Hier.wf (H : Hier) : Bool :=
  H.bases.take 7 == builtinBases &&
  (List.range H.bases.length).all fun i => (H.basesOf i).all fun b => decide (b < i)

/-- `issubclass(c, d)` with explicit fuel: `c` is `d`, or one of `c`'s bases is a subclass of `d` -/
def isSubF (H : Hier) : Nat → Cls → Cls → Bool
  | 0, c, d => c == d
  | f + 1, c, d => c == d || (H.basesOf c).any fun b => isSubF H f b d

/-- `issubclass(c, d)`; the number of classes is enough fuel for a well-formed table -/
def isSub (H : Hier) (c d : Cls) : Bool := isSubF H H.bases.length c d

/-- `issubclass(c, (r1, r2, …))` -/
def subAny (H : Hier) (roots : List Cls) (c : Cls) : Bool := roots.any fun r => isSub H c r

structure Step where
  name : Nat
  accepted : List Cls
  returns : List Cls
  skip : List Nat := []
  handler : Bool := false
  forSteps : Option (List Nat) := none
  maxRec : Nat := 1
deriving Repr, DecidableEq

def ckReach : Nat := 0
def ckTerminal : Nat := 1
def ckDeadEnd : Nat := 2

inductive Node where
  | step (n : Nat)
  | ev (c : Cls)
deriving DecidableEq, Repr

def Node.isEv : Node → Bool
  | .ev _ => true
  | .step _ => false

/-- `t in graph.step_names` for a graph node -/
def Node.isStepIn (ns : List Nat) : Node → Bool
  | .step n => ns.contains n
  | .ev _ => false

/-- what `validate_graph` accumulated: `none` = the check passed or was skipped -/
structure GraphErrs where
  unreach : List Nat
  dangling : List Cls
  deadEnd : List Nat
deriving Repr, DecidableEq

inductive Err where
  | noSteps
  | noStart
  | multiStart
  | noStop
  | multiStop
  | unknownCheck
  | acceptsStop (steps : List Nat)
  | consumedNotProduced (evs : List Cls)
  | producedNotConsumed (evs : List Cls)
  | handlerMaxRec
  | handlerStructure
  | graph (g : GraphErrs)
deriving Repr, DecidableEq

deriving instance DecidableEq for Except

/-- a Python `set` built from a list: first occurrences, in order -/
def dedup : List Nat → List Nat
  | [] => []
  | a :: l => a :: (dedup l).filter (· != a)

def names (W : List Step) : List Nat := W.map (·.name)
def allAccepted (W : List Step) : List Cls := W.flatMap (·.accepted)
def allReturns (W : List Step) : List Cls := W.flatMap (·.returns)

/-! ### `_ensure_start_event_class`, `_ensure_stop_event_class` -/

def startsFound (H : Hier) (W : List Step) : List Cls :=
  dedup ((allAccepted W).filter (subAny H Gen.C23.startRoots))

def stopsFound (H : Hier) (W : List Step) : List Cls :=
  dedup ((allReturns W).filter (subAny H Gen.C23.stopRoots))

def ensureStart (H : Hier) (W : List Step) : Except Err Cls :=
  match startsFound H W with
  | [] => .error .noStart
  | [c] => .ok c
  | _ :: _ :: _ => .error .multiStart

def ensureStop (H : Hier) (W : List Step) : Except Err Cls :=
  match stopsFound H W with
  | [] => .error .noStop
  | [c] => .ok c
  | _ :: _ :: _ => .error .multiStop

/-! ### `_validate_event_connectivity` -/

def produced (W : List Step) (start : Cls) : List Cls := start :: (allReturns W).filter (· != cNone)
def consumed (W : List Step) : List Cls := allAccepted W

def acceptingStop (H : Hier) (W : List Step) : List Nat :=
  (W.filter fun s => s.accepted.any (subAny H Gen.C23.acceptStopRoots)).map (·.name)

def unconsumed (H : Hier) (W : List Step) (start : Cls) : List Cls :=
  dedup ((consumed W).filter fun x => !(produced W start).contains x && !subAny H Gen.C23.consumedBoundary x)

def unused (H : Hier) (W : List Step) (start : Cls) : List Cls :=
  dedup ((produced W start).filter fun x => !(consumed W).contains x && !subAny H Gen.C23.producedBoundary x)

/-- the returned flag, as the source computes it: a disjunction of tests, each either
`Root in <set>` or `any(issubclass(x, Root) for x in <set>)` -/
def usesHitl (H : Hier) (W : List Step) (start : Cls) : Bool :=
  Gen.C23.hitlTerms.any fun (bySub, root, overProduced) =>
    let l := if overProduced then produced W start else consumed W
    if bySub then l.any (fun x => isSub H x root) else l.contains root

/-! ### handlers (table model shared with C08) -/

def handlerDecls (W : List Step) : List Handlers.Decl :=
  (W.filter (·.handler)).map fun s => { name := s.name, forSteps := s.forSteps, maxRec := s.maxRec }

/-! ### `build_step_graph`, `_dfs` -/

def stepEdges (s : Step) : List (Node × Node) :=
  s.accepted.map (fun c => (Node.ev c, Node.step s.name)) ++
  (s.returns.filter (· != cNone)).map (fun c => (Node.step s.name, Node.ev c))

/-- all `outgoing` entries, in insertion order -/
def edges (W : List Step) : List (Node × Node) := W.flatMap stepEdges

def eventTypes (W : List Step) : List Cls :=
  dedup (W.flatMap fun s => s.accepted ++ s.returns.filter (· != cNone))

/-- `adjacency.get(node, [])` -/
def succs (E : List (Node × Node)) (n : Node) : List Node := (E.filter (·.1 == n)).map (·.2)

/-- `incoming` -/
def flipEdges (E : List (Node × Node)) : List (Node × Node) := E.map fun e => (e.2, e.1)

/-- the `while stack:` loop of `_dfs`; the head of `stack` is the end of the Python list -/
def dfsLoop (E : List (Node × Node)) : Nat → List Node → List Node → List Node
  | 0, _, vis => vis
  | _ + 1, [], vis => vis
  | f + 1, n :: stack, vis =>
    if vis.contains n then dfsLoop E f stack vis
    else dfsLoop E f (((succs E n).filter fun t => !(n :: vis).contains t).reverse ++ stack) (n :: vis)

/-- `_dfs(seeds, adjacency)`; the loop body runs at most `len(seeds) + #edges` times -/
def dfs (E : List (Node × Node)) (seeds : List Node) : List Node :=
  dfsLoop E (seeds.length + E.length + 1) seeds.reverse []

def fwdSeeds (H : Hier) (W : List Step) (start : Cls) : List Node :=
  Node.ev start ::
    (((eventTypes W).filter fun t => subAny H Gen.C23.seedRoots t && t != start).map Node.ev ++
     (handlerDecls W).map fun h => Node.step h.name)

def outSeeds (H : Hier) (W : List Step) : List Node :=
  ((eventTypes W).filter (subAny H Gen.C23.outputRoots)).map Node.ev

def fwdReach (H : Hier) (W : List Step) (start : Cls) : List Node := dfs (edges W) (fwdSeeds H W start)
def revReach (H : Hier) (W : List Step) : List Node := dfs (flipEdges (edges W)) (outSeeds H W)

/-! ### `validate_graph` -/

/-- names of the steps whose own `skip_graph_checks` contains `code` -/
def skipNames (W : List Step) (code : Nat) : List Nat := (W.filter fun s => s.skip.contains code).map (·.name)

def unreachable (H : Hier) (W : List Step) (start : Cls) : List Nat :=
  (names W).filter fun n => !(skipNames W ckReach).contains n && !(fwdReach H W start).contains (Node.step n)

def dangling (H : Hier) (W : List Step) : List Cls :=
  (eventTypes W).filter fun t =>
    !((succs (edges W) (Node.ev t)).any (Node.isStepIn (names W))) &&
    !subAny H Gen.C23.terminalRoots t

def producing (W : List Step) : List Nat :=
  (names W).filter fun n => (succs (edges W) (Node.step n)).any Node.isEv

def deadEnds (H : Hier) (W : List Step) : List Nat :=
  (producing W).filter fun n => !(skipNames W ckDeadEnd).contains n && !(revReach H W).contains (Node.step n)

def validateGraph (H : Hier) (W : List Step) (start : Cls) (skip : List Nat) : GraphErrs :=
  { unreach := if skip.contains ckReach then [] else unreachable H W start
    dangling := if skip.contains ckTerminal then [] else dangling H W
    deadEnd := if skip.contains ckDeadEnd then [] else deadEnds H W }

def GraphErrs.none (g : GraphErrs) : Bool := g.unreach.isEmpty && g.dangling.isEmpty && g.deadEnd.isEmpty

/-! ### `_validate_workflow`, `Workflow(...).validate()` -/

def validateWorkflow (H : Hier) (W : List Step) (skip : List Nat) : Except Err Bool :=
  if W.isEmpty then .error .noSteps else
  match ensureStart H W with
  | .error e => .error e
  | .ok start =>
    match ensureStop H W with
    | .error e => .error e
    | .ok _ =>
      if !(acceptingStop H W).isEmpty then .error (.acceptsStop (acceptingStop H W)) else
      if !(unconsumed H W start).isEmpty then .error (.consumedNotProduced (unconsumed H W start)) else
      if !(unused H W start).isEmpty then .error (.producedNotConsumed (unused H W start)) else
      if !Handlers.valid (names W) (handlerDecls W) then
        .error (if (handlerDecls W).all (fun h => decide (1 ≤ h.maxRec)) then .handlerStructure else .handlerMaxRec)
      else
        let g := validateGraph H W start skip
        if g.none then .ok (usesHitl H W start) else .error (.graph g)

/-- `Workflow(skip_graph_checks=skip)` then `.validate()` -/
def constructAndValidate (H : Hier) (W : List Step) (skip : List Nat) : Except Err Bool :=
  match ensureStart H W with
  | .error e => .error e
  | .ok _ =>
    match ensureStop H W with
    | .error e => .error e
    | .ok _ =>
      if skip.any (fun c => decide (2 < c)) then .error .unknownCheck else validateWorkflow H W skip

end Validate
