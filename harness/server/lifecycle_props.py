"""Shared body of the C26 and C36 checks (one model, one harness; the two property modules differ in the
theorems they audit, the monitor rules they own, and their known-finding witnesses)."""
from __future__ import annotations

import json
import os
import random
from typing import Any

from ..boot import VERIF
from ..runner import Divergence, Driver, Env, Outcome, Violation, diff_streams
from . import dbos_gated as DG
from . import idle_check as IC
from . import lifecycle_db as LDB

COMMON_ASSUMPTIONS = [
    "one run is modelled: all IdleReleaseDecorator state is keyed by run_id and the reload lock is per key (independence of keys: C25_independent_keys)",
    "the reload lock is an atomic mutex granted to any waiter (mutual exclusion of the real KeyedLock: C25_mutex; FIFO order is not relied upon); "
    "that send_event and _release_idle_handler are single `async with` sections is re-extracted from the source on every run (C26_source_shape / C36_source_shape)",
    "each store call is one atomic action; update_handler_status is modelled as an atomic write of idle_since (its query+update pair never suspends in the "
    "Memory and SQLite stores; a store whose read-modify-write can interleave with another writer of the same handler row is outside the model, see C15/C20)",
    "the engine is abstracted to: internal mailbox puts while a step runs, pull, reduce-and-persist, end of reducer-visible work, delayed retries, idle announcement "
    "whenever the reducer sees no work (C03_idle_reducer_sound); the model's reducer-visible work flag is a function of the persisted ticks (C11)",
    "task cancellation by abort() is immediate (the aborted control loop executes nothing but its cleanup); observed, not proved: the monitor counts live loops "
    "(a step worker started inside wait_for_next_task when the loop is aborted is NOT cancelled and keeps running — seen in the F14 witness, attributed to that finding)",
    "one clock: asyncio's loop time (sleep) and datetime.now (idle_since, elapsed) advance together (virtual loop); a wall clock stepping backwards between the announcement "
    "and the timer would make `elapsed < idle_timeout` true and the run would never be released (no re-arm) — outside the model",
    "handler row exists and the workflow is registered (the ValueError branches of _ensure_active_run_locked are not modelled); run completion, cancel, server stop are outside the model",
    "DBOS half — executed: journal/lifecycle.py's SqliteRunLifecycleLock (random CAS streams by concurrent tasks vs the row model) and DBOSIdleReleaseDecorator's release/resume code over a "
    "STAND-IN inner runtime (BasicRuntime + TickPersistenceDecorator; DBOS.retrieve_workflow_async / delete_workflow_async emulated by hooks); extracted (AST, every run): SQL statements and "
    "bound states of both lock classes, FOR UPDATE / transaction shape of the PostgreSQL lock, CRASH_TIMEOUT_SECONDS, poll interval, control shape of send_event / _release_idle_handler / "
    "_await_and_mark_released / _do_resume, production call sites of RunLifecycleLock.create; trusted, not run: PostgresRunLifecycleLock (row lock = atomicity), everything DBOS does "
    "(durable send/recv, workflow handles, purge, recovery), EventInterceptorDecorator, that `_do_resume` really waits for the old workflow (assumption OldWorkflowFinished)",
]

TRUSTED_EXTRA = [
    "pyshims/asyncpg (name-only: lets journal/lifecycle.py and journal/crud.py import; no PostgreSQL code is run)",
    "pyshims/dbos (name-only `DBOS` with hookable retrieve_workflow_async/delete_workflow_async: lets dbos/idle_release.py import)",
    "harness/server/{stack,idle,idle_check,lifecycle_db}.py: observation wrappers (store subclass, lock/spawn proxies, BasicRuntime adapter wrappers), the virtual datetime, the "
    "scheduler-controlled suspension of lock holders after store calls (`yielding` cases: what a store with real I/O does)",
    "harness/gen/lifecycle.py (AST/SQL extraction into WfModel/GenLifecycle.lean)",
]

MALFORMED = [
    ("init|x", "bad-op"), ("", "bad-op"), ("mark|1|2", "bad-op"), ("scall|-1", "bad-op"), ("db|0|begin", "bad-op"),
    ("db|0|resume|5|zz", "bad-op"), ("sync|2|0", "bad-op"), ("init|200", None), ("sclear|1", "disabled"), ("tdecide|0", "disabled"),
    ("sdeliver|3", "disabled"), ("tacq|9", "disabled"), ("spawn|0", "disabled"), ("pull", "disabled"), ("reduce", "disabled"),
    ("binit", None), ("rbegin|0", "disabled"), ("ufinish|1", "disabled"), ("rcomplete|0", "disabled"), ("wfstep", "disabled"),
]


def load_corpus_case(name: str) -> dict:
    return json.load(open(os.path.join(VERIF, "harness", "corpus", name)))


def _account(out: Outcome, case: dict, res: dict, tag: str) -> None:
    r = res["run"]
    out.evaluations += len(r["ops"])
    out.traces_validated += 1
    out.disagreements_checked += len(r["ops"])
    out.count(f"{tag}:cases")
    out.count(f"store:{case.get('store', 'memory')}")
    out.count("yielding" if case.get("yielding") else "atomic-store")
    for o in r["ops"]:
        out.count("op:" + o.split("|")[0])
    n_abort = sum(1 for e in r["events"] if e["ev"] == "abort")
    n_reload = sum(1 for e in r["events"] if e["ev"] == "loop_start" and e["by"][0] == "s")
    out.count("releases", n_abort)
    out.count("reloads", n_reload)
    out.count("status:" + str(r.get("status")))
    if n_abort and n_reload:
        out.nontrivial(json.dumps(res["replay_case"], sort_keys=True))
    out.sample({"case": res["replay_case"], "ops": r["ops"][:40], "status": r.get("status"), "result": r.get("result")}, cap=3)


def run_inprocess(env: Env, out: Outcome, prop: str, n_cases: int, witnesses: list[tuple[str, dict, str]]) -> None:
    """corpus, known-finding witnesses, generated cases; K (model vs real, action by action) and the monitors of `prop`"""
    prefix = prop + "/"
    rng = random.Random(env.rng.randrange(1 << 30))

    def take(results: list[dict], cases: list[dict], tag: str, expect: str | None = None) -> None:
        for case, res in zip(cases, results):
            _account(out, case, res, tag)
            if res["divergence"] is not None and not out.divergences:
                out.divergences.append(res["divergence"])
            if res["run"].get("deadlock"):
                out.notes.append(f"{tag}: virtual loop deadlock in case {json.dumps(res['replay_case'])[:300]}")
            seen = set()
            for sig, what in res["findings"]:
                if not sig.startswith(prefix) or sig in seen:
                    continue
                seen.add(sig)
                out.violations.append(Violation(sig, what, {"kind": "inprocess", "case": res["replay_case"]}))
            if expect is not None and expect not in {s for s, _ in res["findings"]}:
                out.notes.append(f"{tag}: expected signature {expect} did not reproduce")

    if env.replay is not None:
        payload = env.replay.get("payload", {})
        c = payload.get("case") or {}
        if c.get("kind") == "inprocess":
            take(IC.check_cases([c["case"]]), [c["case"]], "replay")
        for d in payload.get("divergence") or []:
            ctx = d.get("context") or {}
            if isinstance(ctx, dict) and "case" in ctx and ctx["case"].get("wf"):
                take(IC.check_cases([ctx["case"]]), [ctx["case"]], "replay")
    corpus = [c for _n, c in IC.CORPUS]
    take(IC.check_cases(corpus), corpus, "corpus")
    for tag, case, expect in witnesses:
        take(IC.check_cases([case]), [case], "witness:" + tag, expect)
    cases = []
    for k in range(n_cases):
        cases.append(IC.gen_case(rng, yielding=(k % 3 == 0), long_work=(k % 4 == 3),
                                 store=("sqlite" if k % 9 == 4 else "memory")))
    B = 40
    for i in range(0, len(cases), B):
        take(IC.check_cases(cases[i:i + B]), cases[i:i + B], "generated")


def run_malformed(out: Outcome) -> None:
    ops = [o for o, _ in MALFORMED]
    got = Driver("lifecycle").run(ops)
    out.evaluations += len(ops)
    for k, ((op, exp), g) in enumerate(zip(MALFORMED, got)):
        if exp is None:
            continue
        if g.split(" ")[0] != exp and not out.divergences:
            out.divergences.append(Divergence("lifecycle", k, op, g, exp, {"stream": "malformed"}))
    out.count("malformed ops", len(ops))


def run_row_corr(env: Env, out: Outcome, n_ops: int, prop: str = "C26") -> None:
    seed = env.rng.randrange(1 << 30)
    r = LDB.row_stream(seed, n_ops)
    for ops in (r["ops"], r["ops2"]):
        m = Driver("lifecycle").run(ops)
        d = diff_streams("lifecycle-row", ops, m, r["impl"], context={"row_stream_seed": seed, "n_ops": n_ops})
        if d is not None and not out.divergences:
            out.divergences.append(d)
    out.evaluations += 2 * len(r["ops"])
    out.disagreements_checked += 2 * len(r["ops"])
    out.traces_validated += 1
    for k, v in r["dist"].items():
        out.count("row:" + k, v)
    out.nontrivial(("row", seed))
    seen = set()
    for sig, what in LDB.row_monitors(r["records"], prop):
        if sig not in seen:
            seen.add(sig)
            out.violations.append(Violation(sig, what, {"kind": "row_stream", "seed": seed, "n_ops": n_ops}))


def run_dbos_standin(out: Outcome, create_row: bool) -> dict:
    o = LDB.dbos_standin(create_row)
    m = Driver("lifecycle").run(o["ops"]) if o["ops"] else []
    d = diff_streams("lifecycle-row", o["ops"], m, o["impl"], context={"dbos_standin": {"create_row": create_row}})
    if d is not None and not out.divergences:
        out.divergences.append(d)
    out.evaluations += len(o["ops"])
    out.traces_validated += 1
    out.count(f"dbos-standin(create_row={create_row})")
    return o


SECOND_RELOAD_SIG = "/dbos_second_reload_fails"


def _known_trigger(sig: str) -> str | None:
    """classes of signatures that the UNCHANGED tree produces on the gated DBOS stack: classified apart by the monitors, reproduced by
    their witnesses on every run, counted where a generated case runs into them, and turned into a violation only through the
    known-findings list (so that they neither alarm on the clean tree nor hide any other signature of the same execution)"""
    if sig.endswith(SECOND_RELOAD_SIG):
        return "second reload died"
    if sig.endswith(":" + DG.WINDOW):
        return "tick in flight while the run is released"
    if sig.endswith(":" + DG.RESUME_WINDOW):
        return "tick sent to the exited workflow while the run is resumed"
    return None


def run_dbos_gated(env: Env, out: Outcome, prop: str, n_cases: int) -> None:
    """DBOS half under latency (harness/server/dbos_gated.py): corpus, replay, generated cases; K against the protocol machine
    of M7 (B) and the monitors of `prop` (C36: `monitors`; C26: `monitors_c26`, with C26's case distribution `gen_case_c26`).
    Signatures of a known-trigger class (`_known_trigger`) are facts about the unchanged tree: reproduced by their witnesses on
    every run, reported as a violation only through the known-findings list, counted where a generated case runs into them."""
    from ..runner import load_known

    listed = {k["signature"] for k in load_known() if k["property"] == prop}
    rng = random.Random(env.rng.randrange(1 << 30))

    def take(results: list[dict], tag: str) -> None:
        for r in results:
            o = r["run"]
            out.evaluations += len(o["ops"])
            out.disagreements_checked += len(o["ops"])
            out.traces_validated += 1
            out.count(f"dbos-gated:{tag}")
            for op in o["ops"]:
                out.count("bop:" + op.split("|")[0])
            kinds = {e["ev"] for e in o["events"]}
            windows = [e for e in o["events"] if e["ev"] == "consume"
                       and any(b["ev"] == "begin" and b["ok"] and b["t"] <= e["t"] for b in o["events"])
                       and not any(c["ev"] == "consume_ir" and c["t"] < e["t"] and c["inc"] == e["inc"] for c in o["events"])]
            if windows:
                out.count("dbos-gated: tick consumed by the run while its release was in flight")
            if any(e["ev"] == "delivered" and not e["live"] for e in o["events"]):
                out.count("dbos-gated: tick delivered to a workflow that had exited (C26's check-then-send window)")
            if prop == "C26":
                if r["case"].get("work"):
                    out.count("dbos-gated: steps that take time")
                if sum(1 for e in o["events"] if e["ev"] == "try_resume" and e["res"] in ("released", "releasing")) >= 2:
                    out.count("dbos-gated: several try_begin_resume calls found the run released / releasing")
                if "late" in o["facts"]:
                    out.count("dbos-gated: an open send was followed past the crash timeout")
            if "reload" in kinds and "ir_sent" in kinds:
                out.nontrivial(json.dumps(r["case"], sort_keys=True))
            out.sample({"dbos_gated": r["case"], "ops": o["ops"][:30], "quiet": o["facts"].get("quiet")}, cap=2)
            if r["divergence"] is not None and not out.divergences:
                out.divergences.append(r["divergence"])
            if o["errors"]:
                out.notes.append(f"dbos-gated {tag}: {o['errors']} in {json.dumps(r['case'])}")
            seen = set()
            for sig, what in r["findings"]:
                if sig in seen:
                    continue
                seen.add(sig)
                cls = _known_trigger(sig)
                if cls is not None:
                    out.count(f"dbos-gated: known trigger ({cls})")
                    if not tag.startswith("witness") or sig not in listed:
                        continue
                out.violations.append(Violation(sig, what, {"kind": "dbos_gated", "case": r["case"]}))

    if env.replay is not None:
        payload = env.replay.get("payload", {})
        c = payload.get("case") or {}
        if c.get("kind") == "dbos_gated":
            take(DG.check_cases([c["case"]], prop), "replay")
        for d in payload.get("divergence") or []:
            ctx = d.get("context") or {}
            if isinstance(ctx, dict) and ctx.get("kind") == "dbos_gated":
                take(DG.check_cases([ctx["case"]], prop), "replay")
    corpus = DG.C26_CORPUS if prop == "C26" else DG.CORPUS
    take(DG.check_cases([c for _n, c in corpus], prop), "corpus")
    w = DG.check_cases([DG.WITNESS_SECOND_RELOAD], prop)
    take(w, "witness")
    if not any(sig.endswith(SECOND_RELOAD_SIG) for sig, _ in w[0]["findings"]):
        out.notes.append("dbos-gated: the second-reload witness did not reproduce (the reloading tick is now persisted?)")
    if prop == "C26":
        for name, case, expect in DG.C26_WITNESSES:
            w = DG.check_cases([case], prop)
            take(w, "witness:" + name)
            got = {sig for sig, _ in w[0]["findings"]}
            missing = [s for s in expect if s not in got]
            if missing:
                out.notes.append(f"dbos-gated: witness {name} did not reproduce {missing} (got {sorted(got)}): the unchanged-tree window it records has changed")
    gen = DG.gen_case_c26 if prop == "C26" else DG.gen_case
    cases = [gen(rng) for _ in range(n_cases)]
    B = 50
    for i in range(0, len(cases), B):
        take(DG.check_cases(cases[i:i + B], prop), "generated")
