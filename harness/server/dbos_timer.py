"""C36, DBOS stack: *when* a release is attempted — the deferred-release timer of the real `DBOSIdleReleaseDecorator`
against M7 (C) (`lean/WfModel/DbosTimer.lean`, driver model `dbostimer`), action by action.

What is executed for real (virtual-time loop): `_DBOSIdleReleaseInternalRunAdapter.write_to_event_stream` /
`wait_receive` (over a stub inner adapter that returns what the case says: a tick or a timeout),
`DBOSIdleReleaseDecorator._schedule_deferred_release` / `_cancel_deferred_release` / `_spawn_task` / `_deferred_release` /
`_release_idle_handler` / `_await_and_mark_released`, for several runs on one decorator.  Stubs: the lifecycle lock (its
`begin_release` *is* the observation point "a release attempt begins"; it answers after a case-chosen virtual latency with a
case-chosen True/False), the inner runtime's external adapter (records TickIdleRelease, `get_result` returns after a
latency), the handler store (records `update_handler_status`).  `_do_resume` is not run here (it needs the whole stack:
harness/server/dbos_gated.py); its effect on the timer is its first statement, `_cancel_deferred_release(run_id)`
(`C36_dbos_timer_source_shape`), which the `resume` op calls directly.

A case: {"taus": [ms per run], "lat": [begin_release latencies, cycled], "win": [begin_release answers, cycled],
"ops": [["idle"|"event"|"tick"|"timeout"|"resume", run] | ["adv", ms]], "tail": ms}.

K — every observed action is a line for the driver (`init adv idle tick resume fire finish`); after each the observable
state of the real decorator (which task is registered under the run id, the state of every timer task ever created for
the run and — read from the loop's timer heap — when its sleep ends, release attempts so far with the run's history at that
instant, registrations popped by a foreign task, running releases hit by a cancel) is compared with the model's.
S — monitors on the observation log only (`monitors`).
"""
from __future__ import annotations

import asyncio
import json
import random
from typing import Any

from ..vloop import VLoop, run_virtual

T0 = 1000.0
RUN_ID = "run-{}"


def ms(t: float) -> int:
    return int(round((t - T0) * 1000))


def _cyc(xs: Any, k: int, default: Any) -> Any:
    if isinstance(xs, list):
        return xs[k % len(xs)] if xs else default
    return default if xs is None else xs


def run_case(case: dict) -> dict:
    import llama_agents.dbos.idle_release as DIR
    from workflows.events import Event, WorkflowIdleEvent
    from workflows.runtime.types.plugin import WaitResultTick, WaitResultTimeout
    from workflows.runtime.types.ticks import TickIdleRelease

    taus = [int(t) for t in case["taus"]]
    n_runs = len(taus)
    tail = int(case.get("tail", max(taus) + 300))
    out: dict[str, Any] = {"ops": [], "impl": [], "events": [], "errors": [], "snaps": []}

    class OtherEvent(Event):
        pass

    async def main(loop: VLoop) -> None:
        last_t = [0]
        spawned: list[list[asyncio.Task]] = [[] for _ in range(n_runs)]
        armed: list[list[int]] = [[] for _ in range(n_runs)]
        dues: dict[int, int] = {}          # id(task) -> last observed end of its sleep
        fired: dict[int, int] = {}         # id(task) -> attempt index
        attempts: list[list[tuple[int, Any, int, int]]] = [[] for _ in range(n_runs)]
        last_idle: list[Any] = [None] * n_runs
        ticks_since = [0] * n_runs
        pending = [False] * n_runs
        stray = [0] * n_runs
        abandoned = [0] * n_runs
        reg_prev: list[Any] = [None] * n_runs   # index registered after the previous recorded action of the run
        n_begin = [0]
        finished: set[tuple[int, int]] = set()
        reg_forced: dict[int, Any] = {}

        def now() -> int:
            return ms(loop.time())

        # ---- stubs
        class Lock:
            async def begin_release(self, run_id: str) -> bool:
                r = int(run_id.split("-")[1])
                t = asyncio.current_task()
                j = next((k for k, x in enumerate(spawned[r]) if x is t), None)
                k = n_begin[0]
                n_begin[0] += 1
                lat, win = int(_cyc(case.get("lat"), k, 0)), bool(_cyc(case.get("win"), k, False))
                if j is None:
                    out["errors"].append(f"begin_release({run_id}) called by a task that is not a timer task of the run")
                    out["events"].append({"ev": "begin_foreign", "run": r, "t": now()})
                    return False
                # releases of this run that returned at this very instant come first, seen with the registration as it was before this
                # task popped it (the pop and this call are one await-free section)
                reg_forced[r] = reg_prev[r]
                advance_line()
                flush_finishes()
                del reg_forced[r]
                fired[id(t)] = len(attempts[r])
                if reg_prev[r] is not None and reg_prev[r] != j:
                    stray[r] += 1
                attempts[r].append((now(), last_idle[r], ticks_since[r], j))
                pending[r] = False
                out["events"].append({"ev": "attempt", "run": r, "task": j, "t": now(), "idle": last_idle[r], "ticks": ticks_since[r],
                                      "win": win, "lat": lat})
                record(f"fire|{r}|{j}", r)
                if lat > 0:
                    await asyncio.sleep(lat / 1000.0)
                out["events"].append({"ev": "begin_returned", "run": r, "task": j, "t": now(), "win": win})
                return win

            async def complete_release(self, run_id: str) -> None:
                out["events"].append({"ev": "complete", "run": int(run_id.split("-")[1]), "t": now()})

            async def try_begin_resume(self, run_id: str, crash_timeout_seconds: float | None = None) -> Any:
                return None

            async def create(self, run_id: str) -> None:
                return None

        class External:
            def __init__(self, run_id: str) -> None:
                self.run_id = run_id

            async def send_event(self, tick: Any) -> None:
                r = int(self.run_id.split("-")[1])
                if int(case.get("ir_lat", 0)) > 0:
                    await asyncio.sleep(int(case["ir_lat"]) / 1000.0)
                out["events"].append({"ev": "ir_sent" if isinstance(tick, TickIdleRelease) else "sent_other", "run": r, "t": now()})

            async def get_result(self) -> Any:
                if int(case.get("result_lat", 0)) > 0:
                    await asyncio.sleep(int(case["result_lat"]) / 1000.0)
                return None

        class InnerRuntime:
            def get_external_adapter(self, run_id: str) -> Any:
                return External(run_id)

            def get_internal_adapter(self, workflow: Any) -> Any:
                raise NotImplementedError

        class Store:
            async def update_handler_status(self, run_id: str, **kw: Any) -> None:
                out["events"].append({"ev": "status", "run": int(run_id.split("-")[1]), "t": now(),
                                      "idle_since_set": kw.get("idle_since") is not None, "status": kw.get("status")})

        class InnerAdapter:
            def __init__(self, run_id: str) -> None:
                self._run_id = run_id
                self.next_result: Any = None
                self.written: list[str] = []

            @property
            def run_id(self) -> str:
                return self._run_id

            async def write_to_event_stream(self, event: Any) -> None:
                self.written.append(type(event).__name__)

            async def wait_receive(self, timeout_seconds: float | None = None) -> Any:
                return self.next_result

        class Rt(DIR.DBOSIdleReleaseDecorator):
            def _spawn_task(self, coro: Any) -> Any:  # observation only
                task = super()._spawn_task(coro)
                if getattr(coro, "__name__", "") == "_deferred_release":
                    fr = getattr(coro, "cr_frame", None)
                    rid = fr.f_locals.get("run_id") if fr is not None else None
                    if isinstance(rid, str) and rid.startswith("run-"):
                        r = int(rid.split("-")[1])
                        spawned[r].append(task)
                        armed[r].append(now())
                        j = len(spawned[r]) - 1
                        task.add_done_callback(lambda t, r=r, j=j: on_done(r, j, t))
                        loop.call_soon(sleep_end, task)  # runs after the task's first step: it is in its sleep, the heap has the handle
                return task

        # ---- observation
        def sleep_end(task: asyncio.Task) -> int | None:
            w = getattr(task, "_fut_waiter", None)
            if w is None:
                return dues.get(id(task))
            for h in loop._scheduled:  # type: ignore[attr-defined]
                if not h._cancelled and h._args and h._args[0] is w:
                    dues[id(task)] = ms(h._when)
                    return dues[id(task)]
            return dues.get(id(task))

        def t_state(r: int, j: int) -> str:
            t = spawned[r][j]
            if t.cancelled() or t.cancelling() > 0:
                return "cancelled"
            if id(t) in fired:
                # a task that has returned is shown as done once its `finish` line has been emitted (see flush_finishes)
                return "done" if (r, j) in finished else f"rel@{armed[r][j]}"
            if t.done():
                return "done"
            d = sleep_end(t)
            return f"sleep@{armed[r][j]}/{f'?{r}.{j}?' if d is None else d}"

        def patch_dues() -> None:
            """a state line written between the creation of a timer task and its first step cannot know when its sleep will end: filled in
            from the later observation; a task cancelled before it ever slept has no sleep to observe (shown with the configured timeout)"""
            import re

            def sub(m: Any) -> str:
                r, j = int(m.group(1)), int(m.group(2))
                d = dues.get(id(spawned[r][j]))
                if d is None:
                    out["unobserved_sleeps"] = out.get("unobserved_sleeps", 0) + 1
                    d = armed[r][j] + taus[r]
                return str(d)

            out["impl"] = [re.sub(r"\?(\d+)\.(\d+)\?", sub, l) for l in out["impl"]]

        def flush_finishes() -> None:
            """timer tasks whose _release_idle_handler has returned since the last recorded action: one `finish` line each"""
            for q in range(n_runs):
                for j, t in enumerate(spawned[q]):
                    if id(t) in fired and t.done() and not t.cancelled() and (q, j) not in finished:
                        if t.exception() is not None:
                            out["errors"].append(f"timer task {q}/{j} raised {t.exception()!r}")
                        finished.add((q, j))
                        out["events"].append({"ev": "finish", "run": q, "task": j, "t": now()})
                        record(f"finish|{q}|{j}", q, flush=False)

        def snap(r: int) -> str:
            reg = reg_forced[r] if r in reg_forced else reg_index(r)
            ts = ",".join(f"{j}:{t_state(r, j)}" for j in range(len(spawned[r])))
            at = ";".join(f"{a}/{'-' if i is None else i}/{k}/{j}" for a, i, k, j in attempts[r])
            return (f"now={now()} reg={'-' if reg is None else reg} T={ts} pending={1 if pending[r] else 0} ticks={ticks_since[r]} "
                    f"att={at} stray={stray[r]} abandoned={abandoned[r]}")

        def advance_line() -> None:
            t = now()
            if t > last_t[0]:
                out["ops"].append(f"adv|{t - last_t[0]}")
                out["impl"].append(f"ok now={t}")
                last_t[0] = t

        def record(op: str, r: int, flush: bool = True) -> None:
            advance_line()
            if flush:
                flush_finishes()
            s = snap(r)
            out["ops"].append(op)
            out["impl"].append("ok " + s)
            reg_prev[r] = reg_forced[r] if r in reg_forced else reg_index(r)
            # for the monitors: the state of every run at this instant
            out["snaps"].append({"t": now(), "op": op, "run": r, "all": [snap_facts(q) for q in range(n_runs)]})

        def snap_facts(r: int) -> dict:
            states = [t_state(r, j) for j in range(len(spawned[r]))]
            return {"reg": reg_index(r), "sleepers": [j for j, s in enumerate(states) if s.startswith("sleep@")],
                    "states": states, "n_attempts": len(attempts[r])}

        def on_done(r: int, j: int, t: asyncio.Task) -> None:
            if id(t) in fired:
                if t.cancelled():
                    abandoned[r] += 1
                    out["events"].append({"ev": "release_cancelled", "run": r, "task": j, "t": now()})
                    # the model has no such action: the next compared state shows `abandoned` / the task as cancelled
                else:
                    advance_line()
                    flush_finishes()

        # ---- the real decorator
        rt = Rt(InnerRuntime(), Store(), idle_timeout=taus[0] / 1000.0, lifecycle_lock=lambda: Lock())  # type: ignore[arg-type]
        # one decorator has one idle_timeout; runs with another timeout live on their own decorator instance
        rts = [rt] + [Rt(InnerRuntime(), Store(), idle_timeout=taus[r] / 1000.0, lifecycle_lock=lambda: Lock())  # type: ignore[arg-type]
                      if taus[r] != taus[0] else rt for r in range(1, n_runs)]

        def reg_index(r: int) -> Any:
            t = rts[r]._deferred_release_tasks.get(RUN_ID.format(r))
            if t is None:
                return None
            return next((k for k, x in enumerate(spawned[r]) if x is t), "?")

        inner = [InnerAdapter(RUN_ID.format(r)) for r in range(n_runs)]
        internal = [DIR._DBOSIdleReleaseInternalRunAdapter(inner[r], rts[r], rts[r]._store) for r in range(n_runs)]
        out["ops"].append("reset")
        out["impl"].append("ok")
        for r in range(n_runs):
            out["ops"].append(f"init|{r}|{taus[r]}")
            out["impl"].append("ok " + snap(r))

        def others(r: int) -> list[dict]:
            return [snap_facts(q) for q in range(n_runs) if q != r]

        for op in case["ops"]:
            kind = op[0]
            if kind == "adv":
                await asyncio.sleep(int(op[1]) / 1000.0)
                continue
            r = int(op[1])
            advance_line()
            flush_finishes()  # releases that returned at this very instant, before the op: their lines come first
            before_others = others(r)
            before_self = snap_facts(r)
            if kind == "idle":
                await internal[r].write_to_event_stream(WorkflowIdleEvent())
                last_idle[r] = now()
                ticks_since[r] = 0
                pending[r] = True
                out["events"].append({"ev": "idle", "run": r, "t": now()})
                record(f"idle|{r}", r)  # the end of the new task's sleep is filled in once the task has reached it (`patch_dues`)
            elif kind == "tick":
                inner[r].next_result = WaitResultTick(tick=TickIdleRelease())  # any tick: the adapter only looks at the result type
                res = await internal[r].wait_receive(None)
                if not isinstance(res, WaitResultTick):
                    out["errors"].append(f"wait_receive returned {res!r}")
                ticks_since[r] += 1
                pending[r] = False
                out["events"].append({"ev": "tick", "run": r, "t": now()})
                record(f"tick|{r}", r)
            elif kind == "resume":
                rts[r]._cancel_deferred_release(RUN_ID.format(r))
                ticks_since[r] += 1
                pending[r] = False
                out["events"].append({"ev": "resume", "run": r, "t": now()})
                record(f"resume|{r}", r)
            elif kind == "event":
                await internal[r].write_to_event_stream(OtherEvent())
                out["events"].append({"ev": "other_event", "run": r, "t": now(), "changed": snap_facts(r) != before_self})
            elif kind == "timeout":
                inner[r].next_result = WaitResultTimeout()
                await internal[r].wait_receive(0.0)
                out["events"].append({"ev": "wait_timeout", "run": r, "t": now(), "changed": snap_facts(r) != before_self})
            else:
                out["errors"].append(f"unknown op {op!r}")
            if others(r) != before_others:
                out["events"].append({"ev": "cross_run", "run": r, "t": now(), "op": kind})
        await asyncio.sleep(tail / 1000.0)
        await asyncio.sleep(0)
        advance_line()
        flush_finishes()
        patch_dues()
        out["final"] = {"t": now(), "runs": [{"last_idle": last_idle[r], "ticks_since": ticks_since[r], "pending": pending[r],
                                              "attempts": attempts[r], "tau": taus[r], "facts": snap_facts(r),
                                              "written": inner[r].written} for r in range(n_runs)]}

    try:
        run_virtual(main, start=T0, max_time=T0 + 3600.0)
    except Exception as e:  # noqa: BLE001
        out["errors"].append(f"case crashed: {e!r}")
    return out


# --------------------------------------------------------------------------
# S: the property on the observation log


def monitors(o: dict, case: dict) -> list[tuple[str, str]]:
    F: list[tuple[str, str]] = []
    ev = o["events"]
    taus = [int(t) for t in case["taus"]]
    for e in ev:
        if e["ev"] == "attempt":
            tau = taus[e["run"]]
            if e["idle"] is None:
                F.append(("C36/dbos_release_attempt_not_after_idle_timeout:no_announcement",
                          f"run {e['run']}: begin_release called at {e['t']} ms although the run never announced idleness"))
            elif e["ticks"] > 0:
                F.append(("C36/dbos_release_attempt_not_after_idle_timeout:tick_since_announcement",
                          f"run {e['run']}: begin_release called at {e['t']} ms; the run announced idleness at {e['idle']} ms and has received "
                          f"{e['ticks']} tick(s) / resume(s) since — it is not idle (idle_timeout {tau} ms)"))
            elif e["t"] < e["idle"] + tau:
                F.append(("C36/dbos_release_attempt_not_after_idle_timeout:early",
                          f"run {e['run']}: begin_release called at {e['t']} ms, {e['t'] - e['idle']} ms after the last idle announcement ({e['idle']} ms); idle_timeout is {tau} ms"))
            elif e["t"] > e["idle"] + tau:
                F.append(("C36/dbos_release_attempt_late",
                          f"run {e['run']}: begin_release called at {e['t']} ms, idle since {e['idle']} ms, idle_timeout {tau} ms: expected at {e['idle'] + tau} ms (virtual time: no scheduling delay)"))
        elif e["ev"] == "begin_foreign":
            F.append(("C36/dbos_release_attempt_outside_timer", f"run {e['run']}: begin_release at {e['t']} ms was not called by a deferred-release task of the run"))
        elif e["ev"] == "release_cancelled":
            F.append(("C36/dbos_timer_cancelled_running_release",
                      f"run {e['run']}: timer task {e['task']} was cancelled at {e['t']} ms after it had entered _release_idle_handler (begin_release already called): the release is abandoned half-way"))
        elif e["ev"] in ("other_event", "wait_timeout") and e["changed"]:
            F.append((f"C36/dbos_timer_touched_without_cause:{e['ev']}",
                      f"run {e['run']}: a {'non-idle stream event' if e['ev'] == 'other_event' else 'wait_receive timeout'} at {e['t']} ms changed the run's release timer"))
        elif e["ev"] == "cross_run":
            F.append(("C36/dbos_timer_cross_run", f"an `{e['op']}` of run {e['run']} at {e['t']} ms changed the timer state of another run"))
    for s in o["snaps"]:
        for r, f in enumerate(s["all"]):
            if len(f["sleepers"]) > 1:
                F.append(("C36/dbos_two_release_timers", f"run {r}: timer tasks {f['sleepers']} are asleep at the same time at {s['t']} ms (after `{s['op']}`)"))
            if f["reg"] == "?" or (f["reg"] is not None and f["reg"] not in f["sleepers"]):
                F.append(("C36/dbos_registered_timer_not_asleep", f"run {r}: at {s['t']} ms (after `{s['op']}`) the registered task is {f['reg']}, states {f['states']}"))
    fin = o.get("final")
    if fin is not None:
        for r, f in enumerate(fin["runs"]):
            if f["last_idle"] is not None and f["ticks_since"] == 0 and fin["t"] >= f["last_idle"] + f["tau"]:
                if not any(a[1] == f["last_idle"] and a[0] >= f["last_idle"] for a in f["attempts"]):
                    F.append(("C36/dbos_idle_run_no_release_attempt",
                              f"run {r}: idle since {f['last_idle']} ms, nothing received since, idle_timeout {f['tau']} ms, now {fin['t']} ms: begin_release was never called "
                              f"(attempts {f['attempts']}, timer states {f['facts']['states']})"))
        # a won CAS is carried through: TickIdleRelease, complete_release, handler marked idle — each exactly once per win
        for r in range(len(fin["runs"])):
            wins = [e for e in ev if e["ev"] == "begin_returned" and e["run"] == r and e["win"]]
            n_ir = sum(1 for e in ev if e["ev"] == "ir_sent" and e["run"] == r)
            n_c = sum(1 for e in ev if e["ev"] == "complete" and e["run"] == r)
            n_s = sum(1 for e in ev if e["ev"] == "status" and e["run"] == r and e["idle_since_set"] and e["status"] == "running")
            n_attempt_win = sum(1 for e in ev if e["ev"] == "attempt" and e["run"] == r and e["win"])
            if not (n_ir == n_c == n_s == n_attempt_win) or len(wins) != n_attempt_win:
                F.append(("C36/dbos_won_release_not_carried_through",
                          f"run {r}: {n_attempt_win} release attempt(s) whose begin_release answers True, {len(wins)} answered, {n_ir} TickIdleRelease sent, "
                          f"{n_c} complete_release, {n_s} handler rows marked idle"))
            losses = sum(1 for e in ev if e["ev"] == "attempt" and e["run"] == r and not e["win"])
            if n_ir > n_attempt_win:
                F.append(("C36/dbos_release_without_cas_win", f"run {r}: {n_ir} TickIdleRelease for {n_attempt_win} won CAS ({losses} lost)"))
    return F


# --------------------------------------------------------------------------
# cases

CORPUS: list[tuple[str, dict]] = [
    ("plain", {"taus": [200], "ops": [["idle", 0]], "lat": [0], "win": [True]}),
    ("tick_before_timeout", {"taus": [200], "ops": [["idle", 0], ["adv", 150], ["tick", 0], ["adv", 300]], "lat": [0], "win": [True]}),
    ("two_idle_periods_inside_one_timeout",
     {"taus": [200], "ops": [["idle", 0], ["adv", 50], ["tick", 0], ["adv", 70], ["idle", 0], ["adv", 400]], "lat": [30], "win": [True]}),
    ("reannounce_without_tick", {"taus": [200], "ops": [["idle", 0], ["adv", 120], ["idle", 0], ["adv", 10], ["idle", 0]], "lat": [0], "win": [False]}),
    ("tick_at_the_instant_the_timer_expires", {"taus": [200], "ops": [["idle", 0], ["adv", 200], ["tick", 0], ["adv", 100]], "lat": [0], "win": [True]}),
    ("tick_one_ms_before_and_after",
     {"taus": [200, 200], "ops": [["idle", 0], ["idle", 1], ["adv", 199], ["tick", 0], ["adv", 2], ["tick", 1], ["adv", 100]], "lat": [0], "win": [True]}),
    ("tick_idle_resume_inside_a_running_release",
     {"taus": [100], "ops": [["idle", 0], ["adv", 110], ["tick", 0], ["adv", 10], ["idle", 0], ["adv", 10], ["resume", 0], ["adv", 300]],
      "lat": [80], "win": [True], "ir_lat": 40, "result_lat": 30}),
    ("other_events_and_timeouts", {"taus": [150], "ops": [["idle", 0], ["event", 0], ["timeout", 0], ["adv", 100], ["event", 0], ["timeout", 0]], "lat": [0], "win": [False]}),
    ("two_runs_two_timeouts", {"taus": [100, 250], "ops": [["idle", 0], ["idle", 1], ["adv", 100], ["tick", 1], ["idle", 1], ["adv", 120], ["idle", 0]],
                               "lat": [20, 0], "win": [True, False]}),
    ("resume_of_a_released_run_then_idle", {"taus": [100], "ops": [["idle", 0], ["adv", 150], ["resume", 0], ["adv", 5], ["idle", 0]], "lat": [10], "win": [True]}),
]


def gen_case(rng: random.Random) -> dict:
    n_runs = rng.choice([1, 1, 2, 2, 3])
    base = rng.choice([100, 200, 250])
    taus = [base if rng.random() < 0.6 else rng.choice([100, 200, 250]) for _ in range(n_runs)]
    ops: list[list[Any]] = []
    n = rng.randrange(5, 15)
    for _ in range(n):
        x = rng.random()
        r = rng.randrange(n_runs)
        if x < 0.32:
            ops.append(["idle", r])
        elif x < 0.50:
            ops.append(["tick", r])
        elif x < 0.57:
            ops.append(["resume", r])
        elif x < 0.63:
            ops.append(["event", r])
        elif x < 0.68:
            ops.append(["timeout", r])
        else:
            t = taus[rng.randrange(n_runs)]
            ops.append(["adv", rng.choice([1, 7, 30, t // 2, t - 1, t, t + 1, t, t + 40])])
    return {"taus": taus, "ops": ops,
            "lat": [rng.choice([0, 0, 15, 60, 130]) for _ in range(3)],
            "win": [rng.random() < 0.6 for _ in range(3)],
            "ir_lat": rng.choice([0, 0, 25]), "result_lat": rng.choice([0, 0, 40])}


def check_cases(cases: list[dict]) -> list[dict]:
    from ..runner import Driver, diff_streams

    runs = [run_case(c) for c in cases]
    all_ops = [op for o in runs for op in o["ops"]]
    model = Driver("dbostimer").run(all_ops) if all_ops else []
    res, pos = [], 0
    for case, o in zip(cases, runs):
        n = len(o["ops"])
        d = diff_streams("dbostimer", o["ops"], model[pos:pos + n], o["impl"], context={"kind": "dbos_timer", "case": case})
        pos += n
        res.append({"case": case, "run": o, "divergence": d, "findings": monitors(o, case)})
    return res


def describe(case: dict) -> str:
    return json.dumps(case, sort_keys=True)
