import WfProofs.Version
import WfProofs.VersionOrder
import WfProofs.VersionRc
import WfProofs.VersionChain
import WfProofs.VersionIdem
import WfProofs.VersionTag
import WfProofs.VersionNewline
import WfProofs.VersionPreserve
/-!
# C34 — release tooling converts and classifies versions consistently

Property theorems only (helper lemmas live in `WfProofs/Version*.lean`).
Quantification: every structured version `v : Ver` -- a release tuple of any
positive length with an optional `a`/`b`/`rc` pre-release number -- in its canonical
PEP 440 spelling `showPep v` and its semver spelling `showSemver v`; every string
`s` that `packaging` reads as such a version (`parsePep s = some v`: `v` prefix,
upper case, `alpha`/`beta`/`c`/`pre`/`preview`, separators, leading zeros, white
space); every `Raw` spelling with arbitrary digit runs (leading zeros); every pair
of versions for the classification.
-/
open Version

/-- The sources (regenerated from `/repo` on every run) still have the shape the
model transcribes: the label set, the semver regex, the guard/action rules of the
four functions; and the installed `packaging` still has the pattern, spellings and
ranks transcribed in `parsePep` / `preKey`. -/
theorem C34_source_shape :
    Gen.Version.labels = [['a'], ['b'], ['r', 'c']] ∧
    Gen.Version.semverPrereleaseRe = "^(\\d+(?:\\.\\d+)*)-([a-zA-Z]+)\\.(\\d+)$" ∧
    Gen.Version.semverToPepRules = [
      ("not _SEMVER_PRERELEASE_RE.match(version)", "return version"),
      ("_SEMVER_PRERELEASE_RE.match(version).groups()[1] not in _PEP440_LABELS", "raise ValueError"),
      ("otherwise", "return f'{_SEMVER_PRERELEASE_RE.match(version).groups()[0]}{_SEMVER_PRERELEASE_RE.match(version).groups()[1]}{_SEMVER_PRERELEASE_RE.match(version).groups()[2]}'")] ∧
    Gen.Version.pepToSemverRules = [
      ("Version(version).pre is None", "return '.'.join((str(x) for x in Version(version).release))"),
      ("otherwise", "return f'{'.'.join((str(x) for x in Version(version).release))}-{Version(version).pre[0]}.{Version(version).pre[1]}'")] ∧
    Gen.Version.isRcRules = [
      ("otherwise", "return bool(re.search('(-rc|-a|-b|rc\\\\d|a\\\\d|b\\\\d)', version))")] ∧
    Gen.Version.detectRules = [
      ("not previous_version", "return 'major'"),
      ("Version(current_version) <= Version(previous_version)", "return 'none'"),
      ("(Version(current_version).release + (0, 0, 0))[:3][0] > (Version(previous_version).release + (0, 0, 0))[:3][0]", "return 'major'"),
      ("(Version(current_version).release + (0, 0, 0))[:3][1] > (Version(previous_version).release + (0, 0, 0))[:3][1]", "return 'minor'"),
      ("(Version(current_version).release + (0, 0, 0))[:3][2] > (Version(previous_version).release + (0, 0, 0))[:3][2]", "return 'patch'"),
      ("otherwise", "return 'minor'")] ∧
    Gen.Version.versionImports = ["from packaging.version import Version", "from packaging.version import Version"] ∧
    Gen.Version.versionPattern = "v?+(?a:(?:(?P<epoch>[0-9]+)!)?+(?P<release>[0-9]+(?:\\.[0-9]+)*+)(?P<pre>[._-]?+(?P<pre_l>alpha|a|beta|b|preview|pre|c|rc)[._-]?+(?P<pre_n>[0-9]+)?)?+(?P<post>(?:-(?P<post_n1>[0-9]+))|(?:[._-]?(?P<post_l>post|rev|r)[._-]?(?P<post_n2>[0-9]+)?))?+(?P<dev>[._-]?+(?P<dev_l>dev)[._-]?+(?P<dev_n>[0-9]+)?)?+)(?a:\\+(?P<local>[a-z0-9]+(?:[._-][a-z0-9]+)*+))?+" ∧
    Gen.Version.versionRegexWrap = "\\s*{VERSION_PATTERN}\\s*" ∧
    Gen.Version.versionRegexFlags = "IGNORECASE|UNICODE|VERBOSE" ∧
    Gen.Version.simpleVersionChars = ".0123456789" ∧
    Gen.Version.preAlts = [(['a', 'l', 'p', 'h', 'a'], ['a']), (['a'], ['a']), (['b', 'e', 't', 'a'], ['b']), (['b'], ['b']),
      (['p', 'r', 'e', 'v', 'i', 'e', 'w'], ['r', 'c']), (['p', 'r', 'e'], ['r', 'c']), (['c'], ['r', 'c']), (['r', 'c'], ['r', 'c'])] ∧
    Gen.Version.preRank = [(Label.a.chars, Label.a.rank), (Label.b.chars, Label.b.rank), (Label.rc.chars, Label.rc.rank)] ∧
    Gen.Version.preRankStable = 3 :=
  ⟨rfl, rfl, rfl, rfl, rfl, rfl, rfl, rfl, rfl, rfl, rfl, rfl, rfl, rfl⟩

/-- Printer and parser agree: both spellings of every version are read back as that
version by the model of `packaging.version.Version`. -/
theorem C34_parse_printed (v : Ver) (h : v.release ≠ []) :
    parsePep (showPep v) = some v ∧ parsePep (showSemver v) = some v := by
  have hw := Raw.ofVer_wf v h
  have h1 := parsePep_pep _ hw
  have h2 := parsePep_semver _ hw
  rw [Raw.ofVer_val, Raw.ofVer_pep] at h1
  rw [Raw.ofVer_val, Raw.ofVer_semver] at h2
  exact ⟨h1, h2⟩

/-- the versions the theorems range over are not degenerate: four release components
and a release candidate -/
example : (⟨[1, 2, 3, 4], some (.rc, 1)⟩ : Ver).release ≠ [] := by decide
example : showPep ⟨[1, 2, 3, 4], some (.rc, 1)⟩ = ['1', '.', '2', '.', '3', '.', '4', 'r', 'c', '1'] := by decide
example : parsePep [' ', 'V', '0', '1', '.', '2', '-', 'A', 'l', 'p', 'h', 'a', '_', '0', '7', '\n'] =
    some ⟨[1, 2], some (.a, 7)⟩ := by decide

/-- **PEP 440 → semver → PEP 440**, canonical spelling: for every version,
`pep440_to_semver` prints `release-label.n`, `semver_to_pep440` turns that back into
the original, which is its own normal form. -/
theorem C34_roundtrip_pep440 (v : Ver) (h : v.release ≠ []) :
    pepToSemver (showPep v) = .ok (showSemver v) ∧
    semverToPep (showSemver v) = .ok (showPep v) ∧
    normalize (showPep v) = .ok (showPep v) := by
  have hw := Raw.ofVer_wf v h
  have hp := (C34_parse_printed v h).1
  refine ⟨by simp [pepToSemver, hp], ?_, by simp [normalize, hp]⟩
  have hm := semverMatch_semver _ hw
  rw [Raw.ofVer_semver] at hm
  unfold semverToPep
  rw [hm]
  cases v with
  | mk rel pre =>
    cases pre with
    | none => rfl
    | some p =>
      obtain ⟨l, n⟩ := p
      have hl : l.chars ∈ Gen.Version.labels := by cases l <;> decide
      simp [Raw.ofVer, hl, showPep, showRelease]

example : pepToSemver ['1', '.', '2', '.', '3', '.', '4', 'r', 'c', '1'] =
    .ok ['1', '.', '2', '.', '3', '.', '4', '-', 'r', 'c', '.', '1'] := by decide
example : semverToPep ['1', '.', '2', '.', '3', '.', '4', '-', 'r', 'c', '.', '1'] =
    .ok ['1', '.', '2', '.', '3', '.', '4', 'r', 'c', '1'] := by decide

/-- **PEP 440 → semver → PEP 440**, any spelling: whatever string `packaging` reads
as a release/pre-release version, converting it to semver and back yields the
*normalized* original `str(Version(s))`. -/
theorem C34_roundtrip_pep440_any_spelling (s : List Char) (v : Ver) (hs : parsePep s = some v) :
    ∃ t, pepToSemver s = .ok t ∧ semverToPep t = normalize s ∧ normalize s = .ok (showPep v) := by
  have h := parsePep_release_ne_nil hs
  refine ⟨showSemver v, by simp [pepToSemver, hs], ?_, by simp [normalize, hs]⟩
  rw [(C34_roundtrip_pep440 v h).2.1]; simp [normalize, hs]

example : ∃ v, parsePep ['v', '1', '.', '0', '.', 'P', 'R', 'E', 'V', 'I', 'E', 'W'] = some v :=
  ⟨⟨[1, 0], some (.rc, 0)⟩, by decide⟩
example : normalize ['v', '1', '.', '0', '.', 'P', 'R', 'E', 'V', 'I', 'E', 'W'] = .ok ['1', '.', '0', 'r', 'c', '0'] := by decide

/-- **semver → PEP 440 → semver**, canonical spelling. -/
theorem C34_roundtrip_semver (v : Ver) (h : v.release ≠ []) :
    semverToPep (showSemver v) = .ok (showPep v) ∧ pepToSemver (showPep v) = .ok (showSemver v) :=
  ⟨(C34_roundtrip_pep440 v h).2.1, (C34_roundtrip_pep440 v h).1⟩

example : pepToSemver ['0', 'b', '0'] = .ok ['0', '-', 'b', '.', '0'] := by decide

/-- **semver → PEP 440 → semver** for semver strings written with arbitrary digit
runs (leading zeros): `semver_to_pep440` keeps the digits, `pep440_to_semver`
normalizes them; also `packaging` reads the semver spelling itself as the same
version (this is how `detect_change_type` consumes tag versions). -/
theorem C34_roundtrip_semver_leading_zeros (r : Raw) (h : r.WF) :
    semverToPep r.semver = .ok r.pep ∧
    pepToSemver r.pep = .ok (showSemver r.val) ∧
    pepToSemver r.semver = .ok (showSemver r.val) := by
  refine ⟨?_, by simp [pepToSemver, parsePep_pep r h], by simp [pepToSemver, parsePep_semver r h]⟩
  unfold semverToPep
  rw [semverMatch_semver r h]
  cases hpre : r.pre with
  | none => simp [Raw.semver, Raw.pep, hpre]
  | some p =>
    obtain ⟨l, n⟩ := p
    have hl : l.chars ∈ Gen.Version.labels := by cases l <;> decide
    simp [Raw.pep, hpre, hl]

example : (⟨[['0', '1'], ['0'], ['0', '0', '7']], some (.b, ['0', '2'])⟩ : Raw).WF := by
  refine ⟨by simp, ?_, ?_⟩
  · intro x hx
    simp only [List.mem_cons, List.not_mem_nil, or_false] at hx
    rcases hx with rfl | rfl | rfl <;> exact ⟨by simp, by decide⟩
  · intro p hp
    simp only [Option.mem_def, Option.some.injEq] at hp
    subst hp
    exact ⟨by simp, by decide⟩
example : semverToPep ['0', '1', '.', '0', '.', '0', '0', '7', '-', 'b', '.', '0', '2'] =
    .ok ['0', '1', '.', '0', '.', '0', '0', '7', 'b', '0', '2'] := by decide
example : pepToSemver ['0', '1', '.', '0', '.', '0', '0', '7', 'b', '0', '2'] =
    .ok ['1', '.', '0', '.', '7', '-', 'b', '.', '2'] := by decide

/-- The comparison the tooling uses (`Version.__le__` on keys with trailing zeros
stripped, Python tuple order) is the PEP 440 order stated independently:
component-wise with missing components read as 0, then pre-release before final,
`a < b < rc`, then the number.  `verCmp` (what the `cmp` correspondence op compares
with `packaging`) decides the same relation. -/
theorem C34_order_is_pep440 (a b : Ver) :
    (verLe a b = true ↔ ¬ Ver.Lt b a) ∧ (verCmp a b = .lt ↔ Ver.Lt a b) :=
  ⟨verLe_iff_not_lt a b, verCmp_lt_iff a b⟩

example : Ver.Lt ⟨[1, 2, 3], none⟩ ⟨[1, 3], some (.a, 1)⟩ :=
  Or.inl ⟨1, fun j hj => by have : j = 0 := by omega
                            subst this; rfl, by decide⟩
example : Ver.Lt ⟨[1, 0, 0], some (.rc, 2)⟩ ⟨[1], none⟩ :=
  Or.inr ⟨fun j => by rcases j with _ | _ | _ | j <;> simp [comp], trivial⟩
example : verLe ⟨[1, 0, 0], none⟩ ⟨[1], none⟩ = true ∧ verLe ⟨[1], none⟩ ⟨[1, 0, 0], none⟩ = true := by decide

/-- **'none' exactly when the new version is not greater.** -/
theorem C34_none_iff_not_greater (c p : Ver) : classify c p = .none ↔ ¬ Ver.Lt p c := by
  rw [← verLe_iff_not_lt]
  unfold classify
  cases verLe c p with
  | true => simp
  | false =>
    simp only [Bool.false_eq_true, if_false, iff_false]
    split
    · simp
    · split
      · simp
      · split <;> simp

example : classify ⟨[1, 2, 3], none⟩ ⟨[1, 2, 3, 0], none⟩ = .none := by decide
example : classify ⟨[1, 2, 3], some (.rc, 1)⟩ ⟨[1, 2, 3], none⟩ = .none := by decide
example : classify ⟨[1, 2, 3], none⟩ ⟨[1, 2, 3], some (.rc, 1)⟩ = .minor := by decide

/-- In a greater version the most significant release component that differs has
grown (at any position, also beyond the third). -/
theorem C34_greater_never_shrinks (c p : Ver) (h : Ver.Lt p c) (i : Nat)
    (hpre : ∀ j, j < i → comp c.release j = comp p.release j)
    (hne : comp c.release i ≠ comp p.release i) : comp p.release i < comp c.release i :=
  h.first_diff i hpre hne

/-- **Otherwise it names the most significant release component that grew**: when
the new version is greater, the first position among major/minor/patch at which the
two releases differ has grown (previous theorem) and is the one named; when the
first three components are equal -- the growth is in a later component or in the
pre-release -- the answer is `minor` (the property names no component for that
case; DESIGN §7 reading). -/
theorem C34_names_grown_component (c p : Ver) (h : Ver.Lt p c) :
    (∀ i, i < 3 → (∀ j, j < i → comp c.release j = comp p.release j) →
        comp c.release i ≠ comp p.release i → classify c p = changeName i) ∧
    ((∀ j, j < 3 → comp c.release j = comp p.release j) → classify c p = .minor) := by
  have hle : verLe c p = false := by
    cases hv : verLe c p with
    | false => rfl
    | true => exact absurd h ((verLe_iff_not_lt c p).1 hv)
  have e0 := pad3_getD c.release 0 (by omega)
  have e1 := pad3_getD c.release 1 (by omega)
  have e2 := pad3_getD c.release 2 (by omega)
  have f0 := pad3_getD p.release 0 (by omega)
  have f1 := pad3_getD p.release 1 (by omega)
  have f2 := pad3_getD p.release 2 (by omega)
  constructor
  · intro i hi hpre hne
    have hgrow := h.first_diff i hpre hne
    unfold classify
    rw [hle, e0, e1, e2, f0, f1, f2]
    have : i = 0 ∨ i = 1 ∨ i = 2 := by omega
    rcases this with rfl | rfl | rfl
    · simp [changeName, hgrow]
    · have h0 := hpre 0 (by omega)
      have : ¬ comp c.release 0 > comp p.release 0 := by omega
      simp [changeName, hgrow, this]
    · have h0 := hpre 0 (by omega)
      have h1 := hpre 1 (by omega)
      have n0 : ¬ comp c.release 0 > comp p.release 0 := by omega
      have n1 : ¬ comp c.release 1 > comp p.release 1 := by omega
      simp [changeName, hgrow, n0, n1]
  · intro heq
    have h0 := heq 0 (by omega)
    have h1 := heq 1 (by omega)
    have h2 := heq 2 (by omega)
    unfold classify
    rw [hle, e0, e1, e2, f0, f1, f2]
    have n0 : ¬ comp c.release 0 > comp p.release 0 := by omega
    have n1 : ¬ comp c.release 1 > comp p.release 1 := by omega
    have n2 : ¬ comp c.release 2 > comp p.release 2 := by omega
    simp [n0, n1, n2]

example : classify ⟨[2, 1], none⟩ ⟨[1, 9, 9], some (.b, 3)⟩ = .major := by decide
example : classify ⟨[1, 10, 0], some (.a, 1)⟩ ⟨[1, 9, 5, 7], none⟩ = .minor := by decide
example : classify ⟨[1, 2, 3], none⟩ ⟨[1, 2], none⟩ = .patch := by decide
example : classify ⟨[1, 2, 3, 5], none⟩ ⟨[1, 2, 3, 4], none⟩ = .minor := by decide

/-- The string-level function: whenever both arguments are read as versions,
`detect_change_type` is the classification of those versions, so the two clauses
above hold of its return value. -/
theorem C34_detect_strings (cur prev : List Char) (c p : Ver)
    (hc : parsePep cur = some c) (hp : parsePep prev = some p) :
    detect cur (some prev) = .ok (classify c p) ∧
    (detect cur (some prev) = .ok .none ↔ ¬ Ver.Lt p c) := by
  have hne : prev ≠ [] := by
    intro he; subst he; simp [parsePep, stripSpace, dropV, scanRel] at hp
  have hd : detect cur (some prev) = .ok (classify c p) := by simp [detect, hne, hc, hp]
  refine ⟨hd, ?_⟩
  rw [hd, ← C34_none_iff_not_greater]
  simp

example : detect ['1', '.', '2', '.', '3', '-', 'r', 'c', '.', '1'] (some ['v', '1', '.', '2', '.', '2']) = .ok .patch := by decide
example : detect ['1', '.', '0'] (some ['1', '.', '0', '.', '0']) = .ok .none := by decide

/-- `is_rc_version` answers, on both spellings of every version, exactly whether it
carries a pre-release. -/
theorem C34_prerelease_detected (v : Ver) (h : v.release ≠ []) :
    isRc (showPep v) = v.pre.isSome ∧ isRc (showSemver v) = v.pre.isSome := by
  have hw := Raw.ofVer_wf v h
  have h1 := isRc_pep _ hw
  have h2 := isRc_semver _ hw
  rw [Raw.ofVer_pep] at h1
  rw [Raw.ofVer_semver] at h2
  have e : (Raw.ofVer v).pre.isSome = v.pre.isSome := by cases v with | mk r p => cases p <;> rfl
  exact ⟨h1.trans e, h2.trans e⟩

example : isRc ['1', '0', '.', '2', '0', 'b', '3'] = true ∧ isRc ['1', '0', '.', '2', '0'] = false := by decide

/-! # Extension: order laws, chains of releases, idempotence, the tag pipeline -/

/-- The PEP 440 order the tooling compares with is a strict total order on versions up
to the equivalence `VerEq` (same zero-padded release, same pre-release -- `1.0` and
`1.0.0`): irreflexive, transitive, exactly one of less / equivalent / greater; `verCmp`
answers `eq` exactly on equivalent versions and `<=` (`verLe`) is total and transitive. -/
theorem C34_order_strict_total :
    (∀ a : Ver, ¬ Ver.Lt a a) ∧
    (∀ a b c : Ver, Ver.Lt a b → Ver.Lt b c → Ver.Lt a c) ∧
    (∀ a b : Ver, Ver.Lt a b ∨ VerEq a b ∨ Ver.Lt b a) ∧
    (∀ a b : Ver, ¬ (Ver.Lt a b ∧ Ver.Lt b a) ∧ ¬ (Ver.Lt a b ∧ VerEq a b) ∧ ¬ (Ver.Lt b a ∧ VerEq a b)) ∧
    (∀ a b : Ver, verCmp a b = .eq ↔ VerEq a b) ∧
    (∀ a b : Ver, verLe a b = true ∨ verLe b a = true) ∧
    (∀ a b c : Ver, verLe a b = true → verLe b c = true → verLe a c = true) := by
  refine ⟨Ver.Lt.irrefl, fun _ _ _ h g => h.trans g, Ver.Lt.trichotomy, ?_, verCmp_eq_iff, ?_, ?_⟩
  · intro a b
    exact ⟨fun h => h.1.asymm h.2, fun h => h.2.not_lt h.1, fun h => h.2.symm.not_lt h.1⟩
  · intro a b
    rw [verLe_iff_not_lt, verLe_iff_not_lt]
    rcases Ver.Lt.trichotomy a b with h | h | h
    · exact Or.inl h.asymm
    · exact Or.inl h.symm.not_lt
    · exact Or.inr h.asymm
  · intro a b c
    rw [verLe_iff_not_lt, verLe_iff_not_lt, verLe_iff_not_lt]
    intro h1 h2 h3
    -- c < a; from ¬ b < a: a < b or a ~ b; either way c < b, contradicting ¬ c < b
    rcases Ver.Lt.trichotomy a b with h | h | h
    · exact h2 (h3.trans h)
    · exact h2 ((Ver.Lt.congr (VerEq.refl c) h).1 h3)
    · exact h1 h

example : VerEq ⟨[1, 0], some (.rc, 1)⟩ ⟨[1, 0, 0], some (.rc, 1)⟩ ∧
    (⟨[1, 0], some (.rc, 1)⟩ : Ver) ≠ ⟨[1, 0, 0], some (.rc, 1)⟩ := by
  refine ⟨⟨fun j => ?_, rfl⟩, by decide⟩
  rcases j with _ | _ | _ | j <;> simp [comp]
example : verCmp ⟨[1, 0], some (.rc, 1)⟩ ⟨[1, 0, 0], some (.rc, 1)⟩ = .eq := by decide

/-- The classification only depends on the versions, not on how many trailing zeros
their release tuples are written with: equivalent versions classify alike, as the new
and as the previous version. -/
theorem C34_classify_respects_equality (c c' p p' : Ver) (hc : VerEq c c') (hp : VerEq p p') :
    classify c p = classify c' p' := by
  have e0 := pad3_getD c.release 0 (by omega)
  have e1 := pad3_getD c.release 1 (by omega)
  have e2 := pad3_getD c.release 2 (by omega)
  have f0 := pad3_getD p.release 0 (by omega)
  have f1 := pad3_getD p.release 1 (by omega)
  have f2 := pad3_getD p.release 2 (by omega)
  have e0' := pad3_getD c'.release 0 (by omega)
  have e1' := pad3_getD c'.release 1 (by omega)
  have e2' := pad3_getD c'.release 2 (by omega)
  have f0' := pad3_getD p'.release 0 (by omega)
  have f1' := pad3_getD p'.release 1 (by omega)
  have f2' := pad3_getD p'.release 2 (by omega)
  unfold classify
  rw [verLe_congr hc hp, e0, e1, e2, f0, f1, f2, e0', e1', e2', f0', f1', f2',
    hc.1 0, hc.1 1, hc.1 2, hp.1 0, hp.1 1, hp.1 2]

example : classify ⟨[1, 3], none⟩ ⟨[1, 2, 0, 0], none⟩ = classify ⟨[1, 3, 0, 0], none⟩ ⟨[1, 2], none⟩ := by decide

/-- **Every answer characterised** (both directions, all pairs of versions): `major` iff
the new version is greater and its first component grew; `minor` iff it is greater, the
first components agree and either the second grew or the first three all agree (growth
beyond the third component or in the pre-release only -- the documented reading);
`patch` iff it is greater, the first two agree and the third grew; `none` otherwise. -/
theorem C34_classify_characterisation (c p : Ver) :
    (classify c p = .none ↔ ¬ Ver.Lt p c) ∧
    (classify c p = .major ↔ Ver.Lt p c ∧ comp p.release 0 < comp c.release 0) ∧
    (classify c p = .minor ↔ Ver.Lt p c ∧ comp c.release 0 = comp p.release 0 ∧
        (comp p.release 1 < comp c.release 1 ∨
         (comp c.release 1 = comp p.release 1 ∧ comp c.release 2 = comp p.release 2))) ∧
    (classify c p = .patch ↔ Ver.Lt p c ∧ comp c.release 0 = comp p.release 0 ∧
        comp c.release 1 = comp p.release 1 ∧ comp p.release 2 < comp c.release 2) := by
  refine ⟨C34_none_iff_not_greater c p, ?_, ?_, ?_⟩ <;>
  · by_cases h : Ver.Lt p c
    · have hs := fd3_spec p.release c.release
      have hg := h.fd3_grows
      have hle3 := fd3_le p.release c.release
      rw [classify_of_lt h]
      have hcase : fd3 p.release c.release = 0 ∨ fd3 p.release c.release = 1 ∨ fd3 p.release c.release = 2 ∨
          fd3 p.release c.release = 3 := by omega
      rcases hcase with h0 | h0 | h0 | h0
      · rw [h0] at hg hs ⊢
        have := hg (by omega)
        simp only [changeName3, changeName, h, true_and]
        simp <;> omega
      · rw [h0] at hg hs ⊢
        have := hg (by omega)
        have := hs.1 0 (by omega)
        simp only [changeName3, changeName, h, true_and]
        simp <;> omega
      · rw [h0] at hg hs ⊢
        have := hg (by omega)
        have := hs.1 0 (by omega)
        have := hs.1 1 (by omega)
        simp only [changeName3, changeName, h, true_and]
        simp <;> omega
      · rw [h0] at hs ⊢
        have := hs.1 0 (by omega)
        have := hs.1 1 (by omega)
        have := hs.1 2 (by omega)
        simp only [changeName3, h, true_and]
        simp <;> omega
    · rw [classify_of_not_lt h]
      simp [h]

example : classify ⟨[1, 2, 3], some (.rc, 2)⟩ ⟨[1, 2, 3], some (.rc, 1)⟩ = .minor := by decide
example : Ver.Lt ⟨[1, 2, 3], some (.rc, 1)⟩ ⟨[1, 2, 3], some (.rc, 2)⟩ :=
  Or.inr ⟨fun _ => rfl, Or.inr ⟨rfl, by omega⟩⟩

/-- **Release histories.**  For every ascending chain of versions `v₀ < v₁ < … < vₙ`
(any length, any release lengths, pre-releases included): the classification of the
newest against the oldest is never `none` and is determined by the most significant
position any single step touched (`minFd`; the final `minor` when no step touched one of
the first three components).  Hence it is `major` exactly when some step is classified
`major`; and when every step touches one of the first three components, its severity
(`patch < minor < major`) is the maximum of the steps' severities. -/
theorem C34_chain_classification (v0 : Ver) (vs : List Ver) (h : Ascending (v0 :: vs)) (hne : vs ≠ []) :
    classify ((v0 :: vs).getLast (by simp)) v0 = changeName3 (minFd (v0 :: vs)) ∧
    classify ((v0 :: vs).getLast (by simp)) v0 ≠ .none ∧
    (classify ((v0 :: vs).getLast (by simp)) v0 = .major ↔ Change.major ∈ stepChanges (v0 :: vs)) ∧
    (Steps3 (v0 :: vs) →
      (classify ((v0 :: vs).getLast (by simp)) v0).sev = maxSev (stepChanges (v0 :: vs))) := by
  have hlt := h.lt_last hne
  have hfd := h.fd3_last
  simp only [hne, if_false] at hfd
  have hcl : classify ((v0 :: vs).getLast (by simp)) v0 = changeName3 (minFd (v0 :: vs)) := by
    rw [classify_of_lt hlt, hfd]
  have hle := minFd_le (v0 :: vs)
  refine ⟨hcl, ?_, ?_, ?_⟩
  · exact fun hn => (C34_none_iff_not_greater _ _).1 hn hlt
  · rw [hcl, mem_stepChanges_major h]
    have hcase : minFd (v0 :: vs) = 0 ∨ minFd (v0 :: vs) = 1 ∨ minFd (v0 :: vs) = 2 ∨ minFd (v0 :: vs) = 3 := by omega
    rcases hcase with h0 | h0 | h0 | h0 <;> rw [h0] <;> simp [changeName3, changeName]
  · intro h3
    have hlen : 2 ≤ (v0 :: vs).length := by
      cases vs with
      | nil => exact absurd rfl hne
      | cons _ _ => simp
    rw [maxSev_steps h h3 hlen, hcl]
    -- Steps3 forces minFd < 3
    have hm : minFd (v0 :: vs) < 3 := by
      cases vs with
      | nil => exact absurd rfl hne
      | cons b rest =>
        have := h3.1
        have := minFd_le (b :: rest)
        simp only [minFd]; omega
    exact changeName3_sev _ hm

/-- a history with a patch step, a release candidate, a minor step and a four-component step -/
example : Ascending [⟨[1, 2, 3], none⟩, ⟨[1, 2, 4], some (.rc, 1)⟩, ⟨[1, 2, 4], none⟩, ⟨[1, 3], none⟩, ⟨[1, 3, 0, 1], none⟩] :=
  ⟨(verCmp_lt_iff _ _).1 (by decide), (verCmp_lt_iff _ _).1 (by decide), (verCmp_lt_iff _ _).1 (by decide),
    (verCmp_lt_iff _ _).1 (by decide), trivial⟩
example : stepChanges [⟨[1, 2, 3], none⟩, ⟨[1, 2, 4], some (.rc, 1)⟩, ⟨[1, 2, 4], none⟩, ⟨[1, 3], none⟩, ⟨[1, 3, 0, 1], none⟩] =
    [.patch, .minor, .minor, .minor] ∧ classify ⟨[1, 3, 0, 1], none⟩ ⟨[1, 2, 3], none⟩ = .minor := by decide
example : Steps3 [⟨[1, 2, 3], none⟩, ⟨[1, 2, 4], none⟩, ⟨[2], none⟩] := ⟨by decide, by decide, trivial⟩

/-- The hypothesis `Steps3` of the last clause cannot be dropped: a step that only
touches the fourth component is classified `minor` (the function's final `return`), so
`1.2.3.4 → 1.2.3.5 → 1.2.4` has steps `minor, patch` but ends `patch`. -/
theorem C34_chain_guard_needed :
    ∃ v0 vs, Ascending (v0 :: vs) ∧ vs ≠ [] ∧ ¬ Steps3 (v0 :: vs) ∧
      stepChanges (v0 :: vs) = [.minor, .patch] ∧
      classify ((v0 :: vs).getLast (by simp)) v0 = .patch ∧
      (classify ((v0 :: vs).getLast (by simp)) v0).sev < maxSev (stepChanges (v0 :: vs)) := by
  exact ⟨⟨[1, 2, 3, 4], none⟩, [⟨[1, 2, 3, 5], none⟩, ⟨[1, 2, 4], none⟩],
    ⟨(verCmp_lt_iff _ _).1 (by decide), (verCmp_lt_iff _ _).1 (by decide), trivial⟩, by simp,
    fun h => absurd h.1 (by decide), by decide, by decide, by decide⟩

/-- **Idempotence on every string**: whatever `semver_to_pep440` returns it leaves
unchanged when applied again (no hypothesis on the input: Unicode digits, foreign
labels, garbage included); whatever `pep440_to_semver` returns is a fixed point of
`pep440_to_semver`, and normalising twice is normalising once. -/
theorem C34_conversions_idempotent (s t : List Char) :
    (semverToPep s = .ok t → semverToPep t = .ok t) ∧
    (pepToSemver s = .ok t → pepToSemver t = .ok t) ∧
    (normalize s = .ok t → normalize t = .ok t ∧ pepToSemver t = pepToSemver s) := by
  refine ⟨semverToPep_idem s t, ?_, ?_⟩
  · intro h
    unfold pepToSemver at h
    cases hp : parsePep s with
    | none => rw [hp] at h; cases h
    | some v =>
      rw [hp] at h
      simp only [Res.ok.injEq] at h
      subst h
      simp [pepToSemver, (C34_parse_printed v (parsePep_release_ne_nil hp)).2]
  · intro h
    unfold normalize at h
    cases hp : parsePep s with
    | none => rw [hp] at h; cases h
    | some v =>
      rw [hp] at h
      simp only [Res.ok.injEq] at h
      subst h
      simp [normalize, pepToSemver, hp, (C34_parse_printed v (parsePep_release_ne_nil hp)).1]

example : semverToPep ['1', '.', '2', '-', 'r', 'c', '.', '3'] = .ok ['1', '.', '2', 'r', 'c', '3'] ∧
    semverToPep ['1', '.', '2', 'r', 'c', '3'] = .ok ['1', '.', '2', 'r', 'c', '3'] := by decide
example : semverToPep [Char.ofNat 0x661, '-', 'b', '.', Char.ofNat 0x662] = .ok [Char.ofNat 0x661, 'b', Char.ofNat 0x662] := by decide

/-- **`semver_to_pep440` never changes the version a string denotes.**  For *every* string
`s` that `packaging` reads as a release / pre-release version `v` -- any spelling: semver
or PEP 440 form, leading zeros, upper case, `alpha`/`c`/`preview`, surrounding white
space, a final newline -- `semver_to_pep440 s` either raises its label error or returns
a string that `packaging` reads as the same `v`, whose conversion back is the canonical
semver of `v` and whose normal form is the canonical PEP 440 of `v`.  (Inversion of the
scanner, of the regex match and of the PEP 440 parser: accepted strings are ASCII, so the
Unicode digits `\d` admits cannot occur.) -/
theorem C34_semver_to_pep_preserves_version (s : List Char) (v : Ver) (hs : parsePep s = some v) :
    semverToPep s = .labelError ∨
    ∃ t, semverToPep s = .ok t ∧ parsePep t = some v ∧
      pepToSemver t = .ok (showSemver v) ∧ normalize t = .ok (showPep v) := by
  cases h : semverToPep s with
  | labelError => exact Or.inl rfl
  | outside =>
    exfalso
    unfold semverToPep at h
    split at h
    · cases h
    · split at h <;> cases h
  | ok t =>
    right
    have hp := semverToPep_preserves s t v hs h
    exact ⟨t, rfl, hp, by simp [pepToSemver, hp], by simp [normalize, hp]⟩

/-- the label error on a string packaging accepts, and a converted upper-case-free spelling -/
example : parsePep ['1', '.', '0', '-', 'R', 'C', '.', '1'] = some ⟨[1, 0], some (.rc, 1)⟩ ∧
    semverToPep ['1', '.', '0', '-', 'R', 'C', '.', '1'] = .labelError := by decide
example : semverToPep ['0', '1', '.', '0', '-', 'r', 'c', '.', '0', '1', '\n'] = .ok ['0', '1', '.', '0', 'r', 'c', '0', '1'] ∧
    parsePep ['0', '1', '.', '0', 'r', 'c', '0', '1'] = some ⟨[1, 0], some (.rc, 1)⟩ := by decide
example : semverToPep [' ', '1', '.', '0', '-', 'r', 'c', '.', '1'] = .ok [' ', '1', '.', '0', '-', 'r', 'c', '.', '1'] := by decide

/-- **semver → PEP 440 → semver with a final newline** (a version read from a file or a
command's output): `$` of the semver regex matches before it, so a pre-release is
converted and the newline dropped; a final release passes through with its newline,
which `packaging` ignores; either way converting back yields the normalized original. -/
theorem C34_roundtrip_semver_trailing_newline (r : Raw) (h : r.WF) :
    semverToPep (r.semver ++ ['\n']) = .ok (if r.pre.isSome then r.pep else r.semver ++ ['\n']) ∧
    pepToSemver (if r.pre.isSome then r.pep else r.semver ++ ['\n']) = .ok (showSemver r.val) ∧
    pepToSemver (r.semver ++ ['\n']) = .ok (showSemver r.val) := by
  have hm := semverMatch_semver_newline r h
  have hp := parsePep_semver_newline r h
  refine ⟨?_, ?_, by simp [pepToSemver, hp]⟩
  · unfold semverToPep
    rw [hm]
    cases hpre : r.pre with
    | none => simp
    | some p =>
      obtain ⟨l, num⟩ := p
      have hl : l.chars ∈ Gen.Version.labels := by cases l <;> decide
      simp [Raw.pep, hpre, hl]
  · cases hpre : r.pre with
    | none =>
      have hp' := hp
      simp only [Option.isSome_none, Bool.false_eq_true, if_false]
      simp [pepToSemver, hp']
    | some p =>
      simp only [Option.isSome_some, if_true]
      simp [pepToSemver, parsePep_pep r h]

example : semverToPep ['1', '.', '2', '-', 'r', 'c', '.', '3', '\n'] = .ok ['1', '.', '2', 'r', 'c', '3'] := by decide
example : semverToPep ['1', '.', '2', '\n'] = .ok ['1', '.', '2', '\n'] ∧ pepToSemver ['1', '.', '2', '\n'] = .ok ['1', '.', '2'] := by decide

/-- White space around a version (any of the 29 code points `\s` matches, any amount)
is invisible to every function that goes through `Version(...)`: both conversions from
PEP 440 and the normal form are those of the bare string, for both spellings with
arbitrary digit runs. -/
theorem C34_whitespace_irrelevant (r : Raw) (h : r.WF) (pre post : List Char)
    (hpre : ∀ c ∈ pre, isSpace c = true) (hpost : ∀ c ∈ post, isSpace c = true) :
    pepToSemver (pre ++ r.pep ++ post) = .ok (showSemver r.val) ∧
    normalize (pre ++ r.pep ++ post) = .ok (showPep r.val) ∧
    pepToSemver (pre ++ r.semver ++ post) = .ok (showSemver r.val) := by
  obtain ⟨d, t, hs, hd⟩ := r.pep_head h
  obtain ⟨d', t', hs', hd'⟩ := r.semver_head h
  have h1 := parsePep_pad hs hd (r.pep_endsDig h) pre post hpre hpost
  have h2 := parsePep_pad hs' hd' (r.semver_endsDig h) pre post hpre hpost
  rw [parsePep_pep r h] at h1
  rw [parsePep_semver r h] at h2
  exact ⟨by unfold pepToSemver; rw [h1], by unfold normalize; rw [h1], by unfold pepToSemver; rw [h2]⟩

example : isSpace (Char.ofNat 0x2003) = true ∧ isSpace (Char.ofNat 0x85) = true := by decide
example : pepToSemver [Char.ofNat 0x2003, '\t', '1', '.', '0', 'a', '1', Char.ofNat 0x85] = .ok ['1', '.', '0', '-', 'a', '.', '1'] := by decide

/-- Different versions never share a spelling: both printers are injective (on release
tuples of positive length), so neither conversion can merge two versions. -/
theorem C34_spellings_injective (v w : Ver) (hv : v.release ≠ []) (hw : w.release ≠ []) :
    (showPep v = showPep w → v = w) ∧ (showSemver v = showSemver w → v = w) := by
  constructor
  · intro h
    have h1 := (C34_parse_printed v hv).1
    have h2 := (C34_parse_printed w hw).1
    rw [h, h2] at h1
    exact (Option.some.inj h1).symm
  · intro h
    have h1 := (C34_parse_printed v hv).2
    have h2 := (C34_parse_printed w hw).2
    rw [h, h2] at h1
    exact (Option.some.inj h1).symm

example : showPep ⟨[1, 0], none⟩ ≠ showPep ⟨[1, 0, 0], none⟩ := by decide

/-! ## the tag side -/

/-- The sources of the tag functions (regenerated from `/repo` on every run) still have
the shape the model `WfModel/VersionTag.lean` transcribes. -/
theorem C34_tag_source_shape :
    Gen.VersionTag.refsPrefix = ['r', 'e', 'f', 's', '/', 't', 'a', 'g', 's', '/'] ∧
    Gen.VersionTag.refsReplacement = "" ∧
    Gen.VersionTag.stripRefsRules = [
      ("otherwise", "return tag.replace('refs/tags/', '') if tag.startswith('refs/tags/') else tag")] ∧
    Gen.VersionTag.inferTagRules = [
      ("'@' not in strip_refs_prefix(tag)", "raise ValueError"),
      ("not ('@' not in strip_refs_prefix(tag)) and not strip_refs_prefix(tag).split('@', 1)[1].startswith('v')", "raise ValueError"),
      ("not ('@' not in strip_refs_prefix(tag)) and not (not strip_refs_prefix(tag).split('@', 1)[1].startswith('v'))", "return TagMetadata(normalized=strip_refs_prefix(tag), tag_prefix=f'{strip_refs_prefix(tag).split('@', 1)[0]}@', tag_glob=f'{strip_refs_prefix(tag).split('@', 1)[0]}@v*')")] ∧
    Gen.VersionTag.removePrefixRules = [
      ("tag_prefix and not tag.startswith(tag_prefix)", "raise ValueError"),
      ("tag_prefix and not (not tag.startswith(tag_prefix))", "return tag[len(tag_prefix):]"),
      ("not (tag_prefix)", "return tag")] ∧
    Gen.VersionTag.extractSemverRules = [
      ("otherwise", "return remove_tag_prefix(strip_refs_prefix(tag), tag_prefix)[1:] if remove_tag_prefix(strip_refs_prefix(tag), tag_prefix).startswith('v') else remove_tag_prefix(strip_refs_prefix(tag), tag_prefix)")] ∧
    Gen.VersionTag.suffixAndVersionRules = [
      ("otherwise", "return (remove_tag_prefix(strip_refs_prefix(tag), tag_prefix), remove_tag_prefix(strip_refs_prefix(tag), tag_prefix)[1:] if remove_tag_prefix(strip_refs_prefix(tag), tag_prefix).startswith('v') else remove_tag_prefix(strip_refs_prefix(tag), tag_prefix))")] ∧
    Gen.VersionTag.previousTagRules = [
      ("current_tag in list(tags) and list(tags).index(current_tag) + 1 < len(list(tags))", "return list(tags)[list(tags).index(current_tag) + 1]"),
      ("current_tag in list(tags) and not (list(tags).index(current_tag) + 1 < len(list(tags)))", "return None"),
      ("not (current_tag in list(tags))", "return list(tags)[0] if list(tags) else None")] ∧
    Gen.VersionTag.currentVersionRules = [
      ("otherwise", "return (PyProjectContainer.parse(pyproject.read_text())[1].project.name, str(Version(PyProjectContainer.parse(pyproject.read_text())[1].project.version)))")] ∧
    Gen.VersionTag.dockerTagsRules = [
      ("not is_rc", "return [f'{f'{DOCKER_REGISTRY}/{image.imageName}'}:{version}', f'{f'{DOCKER_REGISTRY}/{image.imageName}'}:latest', f'{f'{DOCKER_REGISTRY}/{image.imageName}'}:{'.'.join(version.split('.')[:2])}']"),
      ("not (not is_rc)", "return [f'{f'{DOCKER_REGISTRY}/{image.imageName}'}:{version}']")] ∧
    Gen.VersionTag.tagCommandFlow = [
      "(suffix, semver) = versioning.compute_suffix_and_version(tag, metadata.tag_prefix)",
      "tags = git_utils.list_tags(Path.cwd(), metadata.tag_glob)",
      "previous = git_utils.previous_tag(metadata.normalized, tags)",
      "previous_version = versioning.extract_semver(previous, metadata.tag_prefix) if previous else None",
      "change_type = versioning.detect_change_type(semver, previous_version)",
      "metadata = versioning.infer_tag_metadata(tag)"] ∧
    Gen.VersionTag.pyprojectVersionSites = [
      "_resolve_template: semver_to_pep440(pkg.version)", "apply_sync_values: semver_to_pep440(pkg.version)"] :=
  ⟨rfl, rfl, rfl, rfl, rfl, rfl, rfl, rfl, rfl, rfl, rfl, rfl⟩

/-- **From a tag to the version string.**  For every package name without `@` and
without the substring `refs/tags/`, and every version string `ver` without `/` (every
printed version is one): the tag `<pkg>@v<ver>`, given bare or as `refs/tags/<pkg>@v<ver>`,
is normalised to the bare tag, yields prefix `<pkg>@` and glob `<pkg>@v*`, suffix
`v<ver>` and exactly `ver` as the version handed to `detect_change_type`. -/
theorem C34_tag_pipeline (pkg ver : List Char) (hat : '@' ∉ pkg)
    (hrefs : occursIn Gen.VersionTag.refsPrefix pkg = false) (hver : '/' ∉ ver)
    (tag : List Char) (htag : tag = tagOf pkg ver ∨ tag = Gen.VersionTag.refsPrefix ++ tagOf pkg ver) :
    stripRefs tag = tagOf pkg ver ∧
    inferTagMetadata tag = some ⟨tagOf pkg ver, pkg ++ ['@'], pkg ++ ['@', 'v', '*']⟩ ∧
    computeSuffixAndVersion tag (pkg ++ ['@']) = some ('v' :: ver, ver) ∧
    extractSemver tag (pkg ++ ['@']) = some ver := by
  have hocc := occursIn_refs_tagOf pkg ver hrefs hver
  have hs : stripRefs tag = tagOf pkg ver := by
    rcases htag with rfl | rfl
    · exact stripRefs_plain _ hocc
    · exact stripRefs_refs _ hocc
  have hs2 : stripRefs (tagOf pkg ver) = tagOf pkg ver := stripRefs_plain _ hocc
  have hinf := inferTagMetadata_normal pkg ver hat hs2
  have hrm : removeTagPrefix (tagOf pkg ver) (pkg ++ ['@']) = some ('v' :: ver) := removeTagPrefix_pkg pkg _
  refine ⟨hs, ?_, ?_, ?_⟩
  · -- `inferTagMetadata` only looks at `stripRefs tag`
    have : inferTagMetadata tag = inferTagMetadata (tagOf pkg ver) := by
      unfold inferTagMetadata; rw [hs, hs2]
    rw [this]; exact hinf
  · simp [computeSuffixAndVersion, hs, hrm, dropLowerV]
  · simp [extractSemver, hs, hrm, dropLowerV]

example : occursIn Gen.VersionTag.refsPrefix "llama-index-workflows".toList = false := by decide
example : inferTagMetadata "refs/tags/llama-index-workflows@v1.2.3-rc.1".toList =
    some ⟨"llama-index-workflows@v1.2.3-rc.1".toList, "llama-index-workflows@".toList, "llama-index-workflows@v*".toList⟩ := by
  decide
example : extractSemver "refs/tags/pkg@v1.2.3-rc.1".toList "pkg@".toList = some "1.2.3-rc.1".toList := by decide
/-- the hypotheses matter: `replace` removes *every* occurrence, and a foreign prefix is an error -/
example : stripRefs "refs/tags/a/refs/tags/b@v1".toList = "a/b@v1".toList := by decide
example : extractSemver "other@v1.2.3".toList "pkg@".toList = none := by decide
example : inferTagMetadata "pkg@1.2.3".toList = none ∧ inferTagMetadata "pkg-v1.2.3".toList = none := by decide

/-- the tags of a release history, newest first, spelled by `form` -/
def C34_histTags (pkg : List Char) (form : Ver → List Char) (vs : List Ver) : List (List Char) :=
  vs.map fun v => tagOf pkg (form v)

/-- **The whole `compute-tag-metadata` command over every release history.**  Let the
tag list be any strictly descending list of versions (newest first, as `list_tags`
delivers it), every tag spelled `<pkg>@v<semver>` (or all in PEP 440 spelling).  Then for
every tag of the list that has an older neighbour the command answers the classification
of that version against its neighbour -- never `none`, naming the most significant
component that grew (`changeName3 ∘ fd3`) -- and for the oldest tag it answers `major`;
the `semver` output is the version string and the suffix is `v` + that string. -/
theorem C34_history_pipeline (pkg : List Char) (hat : '@' ∉ pkg)
    (hrefs : occursIn Gen.VersionTag.refsPrefix pkg = false)
    (form : Ver → List Char) (hform : form = showSemver ∨ form = showPep)
    (newer older : List Ver) (c : Ver)
    (hdesc : List.Pairwise (fun a b => Ver.Lt b a) (newer ++ c :: older))
    (hrel : ∀ v ∈ newer ++ c :: older, v.release ≠ [])
    (tag : List Char) (htag : tag = tagOf pkg (form c) ∨ tag = Gen.VersionTag.refsPrefix ++ tagOf pkg (form c)) :
    (∀ p rest, older = p :: rest →
      tagChange tag (C34_histTags pkg form (newer ++ c :: older)) =
        some ⟨'v' :: form c, form c, .ok (classify c p)⟩ ∧
      classify c p ≠ .none ∧ classify c p = changeName3 (fd3 p.release c.release)) ∧
    (older = [] →
      tagChange tag (C34_histTags pkg form (newer ++ c :: older)) = some ⟨'v' :: form c, form c, .ok .major⟩) := by
  -- facts about `form`
  have hslash : ∀ v : Ver, '/' ∉ form v := by
    intro v; rcases hform with rfl | rfl
    · exact slash_not_mem_showSemver v
    · exact slash_not_mem_showPep v
  have hparse : ∀ v : Ver, v.release ≠ [] → parsePep (form v) = some v := by
    intro v hv; rcases hform with rfl | rfl
    · exact (C34_parse_printed v hv).2
    · exact (C34_parse_printed v hv).1
  have hc : c.release ≠ [] := hrel c (by simp)
  obtain ⟨hstrip, hinf, hsv, _⟩ := C34_tag_pipeline pkg (form c) hat hrefs (hslash c) tag htag
  -- the current tag is not among the newer ones
  have hnotin : tagOf pkg (form c) ∉ newer.map fun v => tagOf pkg (form v) := by
    intro hin
    simp only [List.mem_map] at hin
    obtain ⟨x, hx, hxe⟩ := hin
    have hx' : x.release ≠ [] := hrel x (by simp [hx])
    have e : form x = form c := tagOf_inj hxe
    have hxc : x = c := by
      have h1 := hparse x hx'
      rw [e, hparse c hc] at h1
      exact (Option.some.inj h1).symm
    rw [List.pairwise_append] at hdesc
    have := hdesc.2.2 x hx c (by simp)
    rw [hxc] at this
    exact Ver.Lt.irrefl c this
  have hprev : ∀ rest : List Ver,
      previousTag (tagOf pkg (form c)) (C34_histTags pkg form (newer ++ c :: rest)) =
        (rest.map fun v => tagOf pkg (form v)).head? := by
    intro rest
    simp only [C34_histTags, List.map_append, List.map_cons]
    exact previousTag_listed _ _ _ hnotin
  constructor
  · intro p rest hold
    subst hold
    have hp : p.release ≠ [] := hrel p (by simp)
    have hlt : Ver.Lt p c := by
      rw [List.pairwise_append] at hdesc
      have := hdesc.2.1
      rw [List.pairwise_cons] at this
      exact this.1 p (by simp)
    have hex : extractSemver (tagOf pkg (form p)) (pkg ++ ['@']) = some (form p) :=
      (C34_tag_pipeline pkg (form p) hat hrefs (hslash p) _ (Or.inl rfl)).2.2.2
    have hdet := (C34_detect_strings (form c) (form p) c p (hparse c hc) (hparse p hp)).1
    have hne : tagOf pkg (form p) ≠ [] := by simp [tagOf]
    refine ⟨?_, ?_, classify_of_lt hlt⟩
    · unfold tagChange
      rw [hinf]
      simp only [hsv, hprev (p :: rest), List.map_cons, List.head?_cons, hne, if_false, hex, hdet]
    · exact fun hn => (C34_none_iff_not_greater _ _).1 hn hlt
  · intro hold
    subst hold
    unfold tagChange
    rw [hinf]
    simp only [hsv, hprev [], List.map_nil, List.head?_nil, detect]

example : tagChange "refs/tags/pkg@v1.3.0-rc.1".toList
    ["pkg@v1.3.0".toList, "pkg@v1.3.0-rc.1".toList, "pkg@v1.2.9".toList, "pkg@v1.2.8".toList] =
    some ⟨"v1.3.0-rc.1".toList, "1.3.0-rc.1".toList, .ok .minor⟩ := by decide
example : tagChange "pkg@v1.2.8".toList ["pkg@v1.3.0".toList, "pkg@v1.2.8".toList] =
    some ⟨"v1.2.8".toList, "1.2.8".toList, .ok .major⟩ := by decide
/-- the sortedness hypothesis matters: in the order `git tag --sort=-version:refname` prints (a release
candidate *above* its final release) the candidate is compared against the final release -/
example : tagChange "pkg@v1.3.0-rc.1".toList
    ["pkg@v1.3.0-rc.1".toList, "pkg@v1.3.0".toList, "pkg@v1.2.9".toList] =
    some ⟨"v1.3.0-rc.1".toList, "1.3.0-rc.1".toList, .ok .none⟩ := by decide
example : List.Pairwise (fun a b : Ver => Ver.Lt b a) [⟨[1, 3, 0], none⟩, ⟨[1, 3, 0], some (.rc, 1)⟩] := by
  simp only [List.pairwise_cons, List.mem_cons, List.not_mem_nil, or_false, forall_eq, false_imp_iff,
    implies_true, List.Pairwise.nil, and_true]
  exact Or.inr ⟨fun _ => rfl, trivial⟩

/-- **The publish side** (package.json → pyproject → index / registry tags).  For every
semver spelling with arbitrary digit runs: `semver_to_pep440` writes the PEP 440 spelling
into `pyproject.toml`, `current_version` reads it back as the canonical PEP 440 string of
the same version (which converts back to the canonical semver), `is_rc_version` of the
package.json version says whether it is a pre-release, and `docker_image_tags` with that
flag yields the version alone for a pre-release, and version, `latest` and
`<major>.<minor>` (the first two release components) for a final release. -/
theorem C34_publish_pipeline (r : Raw) (h : r.WF) :
    semverToPep r.semver = .ok r.pep ∧
    normalize r.pep = .ok (showPep r.val) ∧
    pepToSemver (showPep r.val) = .ok (showSemver r.val) ∧
    isRc r.semver = r.val.pre.isSome ∧
    (r.pre.isSome → dockerTagParts r.semver (isRc r.semver) = [r.semver]) ∧
    (r.pre = none → dockerTagParts r.semver (isRc r.semver) =
      [r.semver, ['l', 'a', 't', 'e', 's', 't'], joinDot (r.comps.take 2)]) := by
  have hrel : r.val.release ≠ [] := by simpa [Raw.val] using h.1
  have hisrc := isRc_semver r h
  have hpre : r.val.pre.isSome = r.pre.isSome := by cases hp : r.pre <;> simp [Raw.val, hp]
  refine ⟨(C34_roundtrip_semver_leading_zeros r h).1, by simp [normalize, parsePep_pep r h],
    (C34_roundtrip_pep440 r.val hrel).1, by rw [hisrc, hpre], ?_, ?_⟩
  · intro hs
    simp [dockerTagParts, hisrc, hs]
  · intro hn
    have hsem : r.semver = joinDot r.comps := by simp [Raw.semver, hn]
    simp only [dockerTagParts, hisrc, hn, Option.isSome_none, Bool.false_eq_true, if_false]
    rw [hsem, splitDots_joinDot r.comps h.1 h.2.1]

example : dockerTagParts ['1', '.', '2', '.', '3'] (isRc ['1', '.', '2', '.', '3']) =
    [['1', '.', '2', '.', '3'], ['l', 'a', 't', 'e', 's', 't'], ['1', '.', '2']] := by decide
example : dockerTagParts ['1', '.', '2', '.', '3', '-', 'r', 'c', '.', '1'] (isRc ['1', '.', '2', '.', '3', '-', 'r', 'c', '.', '1']) =
    [['1', '.', '2', '.', '3', '-', 'r', 'c', '.', '1']] := by decide
example : dockerTagParts ['7'] false = [['7'], ['l', 'a', 't', 'e', 's', 't'], ['7']] := by decide
