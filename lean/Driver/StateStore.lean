import WfModel.StateStore
import Driver.Util
open StateStore Drv

/-! Line protocol for M5 (fields separated by `|`).

Values are prefix-encoded token streams (tokens separated by one space):
`n` null, `T`/`F`, `i<int>`, `d<cps>` float repr, `s<cps>` string, `a<k>` + k values,
`o<k>` + k × (`k<cps>` value); `<cps>` = comma-separated code points.

Sequential machines:
  `init|spec|mem|sql|<ty>|<schema>`   (ty = `dict` | `typed:<n>`; schema = array of objects)  → `ok`
  `get|<cps path>|<value or ->`  `set|<cps path>|<value>`  `getstate`
  `setstate|same|anc:<k>|dict|other|<object>`  `clear`  `edit|<muts>`  `mutsnap|<cps key>|<value>`  `writeback`
  → `none` | `val <value>` | `state <ty> <object>` | `err:<Class>` | `no-snapshot`
muts = array of `["K",key,v] | ["I",key,n] | ["A",key,v] | ["D",key] | ["R"]`.

Transition system:
  `cinit|mem|sql|<ty>|<schema>|<object or ->`   `ctask|set|..` `ctask|setstate|..` `ctask|clear` `ctask|edit|<chunks>`
  `cspawn|<c>|<p>|<k>` (after the `ctask` lines): task c is created by chunk k of the edit_state body of task p → `ok`
  `crun|<t>` `ccancel|<t>` → `ok <sys>` | `disabled`     `cserial|<t,t,..>` → `<store>`
  (in `<sys>` a task that has not been created yet shows as `U`)
  `cdur|<t>|<d,d,..>` (after the `ctask` lines): the awaits inside the edit_state body of task t take d seconds → `ok`
  `ctick|<d>` d seconds pass → `ok <sys> now=<seconds since the start>`
  `cready` → `ready <t,t,..>`: the tasks whose next section can run now (a task asleep at an await of its body,
  queued behind a held lock, ended or not created yet cannot)
-/
namespace Drv.StateStore

partial def showJson : Json → String
  | .null => "n"
  | .bool true => "T"
  | .bool false => "F"
  | .int i => s!"i{i}"
  | .flt r => "d" ++ showChars r.toList
  | .str s => "s" ++ showChars s.toList
  | .arr xs => " ".intercalate (s!"a{xs.length}" :: xs.map showJson)
  | .obj kvs => " ".intercalate (s!"o{kvs.length}" :: kvs.map fun (kv : String × Json) => "k" ++ showChars kv.1.toList ++ " " ++ showJson kv.2)

def parseStr? (s : String) : Option String := (parseChars? s).map String.ofList

mutual
partial def parseVal : List String → Option (Json × List String)
  | [] => none
  | tok :: rest =>
    if tok == "n" then some (.null, rest)
    else if tok == "T" then some (.bool true, rest)
    else if tok == "F" then some (.bool false, rest)
    else match tok.toList with
      | 'i' :: cs => (String.ofList cs).toInt?.map fun i => (.int i, rest)
      | 'd' :: cs => (parseStr? (String.ofList cs)).map fun s => (.flt s, rest)
      | 's' :: cs => (parseStr? (String.ofList cs)).map fun s => (.str s, rest)
      | 'a' :: cs => match (String.ofList cs).toNat? with
        | some k => (parseVals k rest).map fun (xs, r) => (.arr xs, r)
        | none => none
      | 'o' :: cs => match (String.ofList cs).toNat? with
        | some k => (parsePairs k rest).map fun (xs, r) => (.obj xs, r)
        | none => none
      | _ => none
partial def parseVals : Nat → List String → Option (List Json × List String)
  | 0, r => some ([], r)
  | k + 1, r => match parseVal r with
    | some (v, r1) => (parseVals k r1).map fun (vs, r2) => (v :: vs, r2)
    | none => none
partial def parsePairs : Nat → List String → Option (List (String × Json) × List String)
  | 0, r => some ([], r)
  | k + 1, tok :: r => match tok.toList with
    | 'k' :: cs => match parseStr? (String.ofList cs), parseVal r with
      | some key, some (v, r1) => (parsePairs k r1).map fun (kvs, r2) => ((key, v) :: kvs, r2)
      | _, _ => none
    | _ => none
  | _, [] => none
end

def parseJson? (s : String) : Option Json :=
  match parseVal ((s.splitOn " ").filter (· ≠ "")) with
  | some (v, []) => some v
  | _ => none

def parseObj? (s : String) : Option Obj :=
  match parseJson? s with
  | some (.obj kvs) => some kvs
  | _ => none

def parseTy? (s : String) : Option Ty :=
  if s == "dict" then some .dict
  else match s.splitOn ":" with
    | ["typed", n] => n.toNat?.map .typed
    | _ => none

def showTy : Ty → String
  | .dict => "dict"
  | .typed n => s!"typed:{n}"
  | .other => "other"

def parseSchema? (s : String) : Option Schema :=
  match parseJson? s with
  | some (.arr lv) => lv.mapM fun j => match j with | .obj kvs => some kvs | _ => none
  | _ => none

def parseIncTy? (s : String) : Option IncTy :=
  if s == "same" then some .same
  else if s == "dict" then some .dictState
  else if s == "other" then some .unrelated
  else match s.splitOn ":" with
    | ["anc", k] => k.toNat?.map .ancestor
    | _ => none

def parseMut? : Json → Option Mut
  | .arr [.str "K", .str k, v] => some (.setKey k v)
  | .arr [.str "I", .str k, .int n] => some (.incr k n)
  | .arr [.str "A", .str k, v] => some (.append k v)
  | .arr [.str "D", .str k] => some (.delKey k)
  | .arr [.str "R"] => some .raise
  | _ => none

def parseMuts? : Json → Option (List Mut)
  | .arr ms => ms.mapM parseMut?
  | _ => none

def showErr : Err → String
  | .valueError => "err:ValueError"
  | .attributeError => "err:AttributeError"
  | .bodyError => "err:BodyError"

def showRoot (r : Root) : String := s!"state {showTy r.ty} {showJson (.obj r.data)}"

def showOut : Out → String
  | .none => "none"
  | .val j => "val " ++ showJson j
  | .state r => showRoot r
  | .err e => showErr e
  | .noSnap => "no-snapshot"

/-- the incoming instance must carry exactly the fields of its class -/
def incOk (sc : Schema) (store : Ty) (ity : IncTy) (data : Obj) : Bool :=
  match incTy store ity with
  | .typed n => data.map (·.1) == (fieldsOf sc n).map (·.1)
  | _ => true

def parseOp? (sc : Schema) (ty : Ty) (fs : List String) : Option Op :=
  match fs with
  | ["get", p, d] => match parseStr? p with
    | some path => if d == "-" then some (.get path none) else (parseJson? d).map fun v => .get path (some v)
    | none => none
  | ["set", p, v] => match parseStr? p, parseJson? v with
    | some path, some j => some (.set path j)
    | _, _ => none
  | ["getstate"] => some .getState
  | ["setstate", i, o] => match parseIncTy? i, parseObj? o with
    | some ity, some data => if incOk sc ty ity data then some (.setState ity data) else none
    | _, _ => none
  | ["clear"] => some .clear
  | ["edit", m] => match parseJson? m with
    | some j => (parseMuts? j).map .edit
    | none => none
  | ["mutsnap", k, v] => match parseStr? k, parseJson? v with
    | some key, some j => some (.mutSnap key j)
    | _, _ => none
  | ["writeback"] => some .writeBack
  | _ => none

def parseCOp? (sc : Schema) (ty : Ty) (fs : List String) : Option COp :=
  match fs with
  | ["set", p, v] => match parseStr? p, parseJson? v with
    | some path, some j => some (.set path j)
    | _, _ => none
  | ["setstate", i, o] => match parseIncTy? i, parseObj? o with
    | some ity, some data => if incOk sc ty ity data then some (.setState ity data) else none
    | _, _ => none
  | ["clear"] => some .clear
  | ["edit", m] => match parseJson? m with
    | some (.arr cs) => (cs.mapM parseMuts?).map .edit
    | _ => none
  | _ => none

inductive Machine where
  | none
  | spec (s : Spec)
  | mem (m : Mem)
  | sql (s : Sql)
  | cmem (prog : List COp) (sp : List (Nat × Nat × Nat)) (dur : List (Nat × List Nat)) (init : Mem) (s : TSys Mem)
  | csql (prog : List COp) (sp : List (Nat × Nat × Nat)) (dur : List (Nat × List Nat)) (init : Sql) (s : TSys Sql)

structure St where
  m : Machine := .none
  sc : Schema := []
  ty : Ty := .dict

def showPc (op : Option COp) : Pc → String
  | .idle => "I"
  | .waiting => "W"
  | .body _ rest _ => s!"B{total - rest.length}"
  | .done => "D"
  | .idleC => "Ic"
  | .waitC true => "Wc"
  | .waitC false => "Wm"
  | .bodyC _ rest _ => s!"B{total - rest.length}c"
  | .cancelled => "X"
  | .aborted _ => "A"
where
  total : Nat := match op with | some (.edit cs) => cs.length | _ => 0

def showNats (xs : List Nat) : String := ",".intercalate (xs.map toString)

/-- `(child, parent, chunk)` triples as a `Spawn` map (the first entry of a child counts) -/
def spOf (l : List (Nat × Nat × Nat)) : Spawn := fun c => (l.find? fun e => e.1 == c).map (·.2)

/-- `(task, durations of its awaits)` pairs as a `Durs` map (the first entry of a task counts; default 0) -/
def durOf (l : List (Nat × List Nat)) : Durs := fun t k =>
  match l.find? fun e => e.1 == t with
  | some e => e.2.getD k 0
  | none => 0

def readyOf {σ : Type} (B : Backend σ) (prog : List COp) (sp : Spawn) (dur : Durs) (pat : COp → Option Nat) (s : TSys σ) : List Nat :=
  (List.range prog.length).filter fun t => (TSys.exec B prog sp dur pat s (.act (.run t))).isSome

def showSys {σ : Type} (showStore : σ → String) (prog : List COp) (sp : Spawn) (ss : SpSys σ) : String :=
  let s := ss.sys
  let h := match s.holder with | some t => toString t | none => "-"
  let pcs := (List.range s.pcs.length).map fun t =>
    if ss.live sp t then showPc prog[t]? (s.pcs.getD t .idle) else "U"
  s!"{showStore s.store} holder={h} queue={showNats s.queue} pcs={",".intercalate pcs} log={showNats s.log}"

def showMemStore (m : Mem) : String := showRoot m.root
def showSqlStore (s : Sql) : String :=
  match s.row with
  | some d => "row " ++ showJson (.obj d)
  | none => "norow"

def step (st : St) (line : String) : St × String :=
  let fs := line.splitOn "|"
  match fs with
  | ["init", be, tys, scs] =>
    match parseTy? tys, parseSchema? scs with
    | some ty, some sc =>
      let m : Option Machine :=
        if be == "spec" then some (.spec (Spec.init sc ty))
        else if be == "mem" then some (.mem (Mem.init sc ty))
        else if be == "sql" then some (.sql (Sql.init sc ty))
        else none
      match m with
      | some mm => ({ m := mm, sc := sc, ty := ty }, "ok")
      | none => (st, "bad-op")
    | _, _ => (st, "bad-op")
  | ["cinit", be, tys, scs, ini] =>
    match parseTy? tys, parseSchema? scs with
    | some ty, some sc =>
      let iniObj : Option (Option Obj) := if ini == "-" then some none else (parseObj? ini).map some
      match iniObj with
      | none => (st, "bad-op")
      | some io =>
        if be == "mem" then
          let m0 := Mem.init sc ty
          let m1 := match io with | some d => (Mem.step m0 (.setState .same d)).1 | none => m0
          ({ m := .cmem [] [] [] m1 (TSys.init m1 0), sc := sc, ty := ty }, "ok")
        else if be == "sql" then
          let s0 := Sql.init sc ty
          let s1 := match io with | some d => (Sql.step s0 (.setState .same d)).1 | none => s0
          ({ m := .csql [] [] [] s1 (TSys.init s1 0), sc := sc, ty := ty }, "ok")
        else (st, "bad-op")
    | _, _ => (st, "bad-op")
  | "ctask" :: rest =>
    match parseCOp? st.sc st.ty rest, st.m with
    | some op, .cmem prog sp du ini _ => let p := prog ++ [op]; ({ st with m := .cmem p sp du ini (TSys.init ini p.length) }, "ok")
    | some op, .csql prog sp du ini _ => let p := prog ++ [op]; ({ st with m := .csql p sp du ini (TSys.init ini p.length) }, "ok")
    | _, _ => (st, "bad-op")
  | ["cspawn", cs, ps, ks] =>
    match parseNat? cs, parseNat? ps, parseNat? ks, st.m with
    | some c, some p, some k, .cmem prog sp du ini _ =>
      if sp.any (fun e => e.1 == c) then (st, "bad-op")
      else ({ st with m := .cmem prog (sp ++ [(c, p, k)]) du ini (TSys.init ini prog.length) }, "ok")
    | some c, some p, some k, .csql prog sp du ini _ =>
      if sp.any (fun e => e.1 == c) then (st, "bad-op")
      else ({ st with m := .csql prog (sp ++ [(c, p, k)]) du ini (TSys.init ini prog.length) }, "ok")
    | _, _, _, _ => (st, "bad-op")
  | ["cdur", ts, ds] =>
    match parseNat? ts, parseNats? ds, st.m with
    | some t, some d, .cmem prog sp du ini _ =>
      if du.any (fun e => e.1 == t) then (st, "bad-op")
      else ({ st with m := .cmem prog sp (du ++ [(t, d)]) ini (TSys.init ini prog.length) }, "ok")
    | some t, some d, .csql prog sp du ini _ =>
      if du.any (fun e => e.1 == t) then (st, "bad-op")
      else ({ st with m := .csql prog sp (du ++ [(t, d)]) ini (TSys.init ini prog.length) }, "ok")
    | _, _, _ => (st, "bad-op")
  | ["crun", ts] =>
    match parseNat? ts, st.m with
    | some t, .cmem prog sp du ini s =>
      match TSys.exec memBackend prog (spOf sp) (durOf du) memPatience s (.act (.run t)) with
      | some s' => ({ st with m := .cmem prog sp du ini s' }, "ok " ++ showSys showMemStore prog (spOf sp) s'.sp)
      | none => (st, "disabled")
    | some t, .csql prog sp du ini s =>
      match TSys.exec sqlBackend prog (spOf sp) (durOf du) sqlPatience s (.act (.run t)) with
      | some s' => ({ st with m := .csql prog sp du ini s' }, "ok " ++ showSys showSqlStore prog (spOf sp) s'.sp)
      | none => (st, "disabled")
    | _, _ => (st, "bad-op")
  | ["ccancel", ts] =>
    match parseNat? ts, st.m with
    | some t, .cmem prog sp du ini s =>
      match TSys.exec memBackend prog (spOf sp) (durOf du) memPatience s (.act (.cancel t)) with
      | some s' => ({ st with m := .cmem prog sp du ini s' }, "ok " ++ showSys showMemStore prog (spOf sp) s'.sp)
      | none => (st, "disabled")
    | some t, .csql prog sp du ini s =>
      match TSys.exec sqlBackend prog (spOf sp) (durOf du) sqlPatience s (.act (.cancel t)) with
      | some s' => ({ st with m := .csql prog sp du ini s' }, "ok " ++ showSys showSqlStore prog (spOf sp) s'.sp)
      | none => (st, "disabled")
    | _, _ => (st, "bad-op")
  | ["ctick", ds] =>
    match parseNat? ds, st.m with
    | some d, .cmem prog sp du ini s =>
      match TSys.exec memBackend prog (spOf sp) (durOf du) memPatience s (.tick d) with
      | some s' => ({ st with m := .cmem prog sp du ini s' }, s!"ok {showSys showMemStore prog (spOf sp) s'.sp} now={s'.now}")
      | none => (st, "disabled")
    | some d, .csql prog sp du ini s =>
      match TSys.exec sqlBackend prog (spOf sp) (durOf du) sqlPatience s (.tick d) with
      | some s' => ({ st with m := .csql prog sp du ini s' }, s!"ok {showSys showSqlStore prog (spOf sp) s'.sp} now={s'.now}")
      | none => (st, "disabled")
    | _, _ => (st, "bad-op")
  | ["cready"] =>
    match st.m with
    | .cmem prog sp du _ s => (st, "ready " ++ showNats (readyOf memBackend prog (spOf sp) (durOf du) memPatience s))
    | .csql prog sp du _ s => (st, "ready " ++ showNats (readyOf sqlBackend prog (spOf sp) (durOf du) sqlPatience s))
    | _ => (st, "bad-op")
  | ["cserial", os] =>
    match parseNats? os, st.m with
    | some order, .cmem prog _ _ ini _ => (st, showMemStore (serial memBackend prog ini order))
    | some order, .csql prog _ _ ini _ => (st, showSqlStore (serial sqlBackend prog ini order))
    | _, _ => (st, "bad-op")
  | _ =>
    match st.m with
    | .spec s => match parseOp? st.sc st.ty fs with
      | some op => let (s', o) := s.step op; ({ st with m := .spec s' }, showOut o)
      | none => (st, "bad-op")
    | .mem m => match parseOp? st.sc st.ty fs with
      | some op => let (m', o) := m.step op; ({ st with m := .mem m' }, showOut o)
      | none => (st, "bad-op")
    | .sql s => match parseOp? st.sc st.ty fs with
      | some op => let (s', o) := s.step op; ({ st with m := .sql s' }, showOut o)
      | none => (st, "bad-op")
    | _ => (st, "bad-op")

end Drv.StateStore
