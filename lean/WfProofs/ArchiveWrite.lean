import WfProofs.ArchiveWrong
/-!
Helper lemmas for C33, part 4: what the writer emits; the whole-archive round trip.
-/
namespace Archive
open GenArchive

variable {Y : Type}

/-- every member of one deployment is one of four things -/
theorem mem_writeDep {A : Aead} {C : Codec Y} {pw : Option Bytes} {rnd : Nat → Bytes × Bytes}
    {secrets : List (Name × Y)} {gens : Option (List (Name × Int))} {k : Nat} {d : Option Name × Y} {t : Tagged}
    (h : t ∈ (writeDep A C pw rnd secrets gens k d).1) :
    t = ⟨.cr, depName d, (depName d ++ crSuffix, C.encY d.2)⟩ ∨
    (∃ g, genOf gens (depName d) = some g ∧ t = ⟨.gmeta, depName d, (depName d ++ metaSuffix, C.encMeta g)⟩) ∨
    (∃ s p, alookup (depName d) secrets = some s ∧ encPw writeEncTest pw = some p ∧
      t = ⟨.secEnc, depName d, (depName d ++ secEncSuffix, encrypt A p (rnd k).1 (rnd k).2 (C.encY s))⟩) ∨
    (∃ s, alookup (depName d) secrets = some s ∧ encPw writeEncTest pw = none ∧
      t = ⟨.secClear, depName d, (depName d ++ secClearSuffix, C.encY s)⟩) := by
  have hmeta : ∀ t, t ∈ metaTagged C gens (depName d) →
      ∃ g, genOf gens (depName d) = some g ∧ t = ⟨.gmeta, depName d, (depName d ++ metaSuffix, C.encMeta g)⟩ := by
    intro t ht
    simp only [metaTagged] at ht
    cases hg : genOf gens (depName d) with
    | none => simp [hg] at ht
    | some g => simp [hg] at ht; exact ⟨g, rfl, ht⟩
  simp only [writeDep] at h
  cases hs : alookup (depName d) secrets with
  | none =>
    simp only [hs, List.mem_cons] at h
    rcases h with h | h
    · exact Or.inl h
    · exact Or.inr (Or.inl (hmeta t h))
  | some s =>
    cases hw : encPw writeEncTest pw with
    | none =>
      simp only [hs, hw, List.mem_cons] at h
      rcases h with h | h | h
      · exact Or.inl h
      · exact Or.inr (Or.inr (Or.inr ⟨s, rfl, rfl, h⟩))
      · exact Or.inr (Or.inl (hmeta t h))
    | some p =>
      simp only [hs, hw, List.mem_cons] at h
      rcases h with h | h | h
      · exact Or.inl h
      · exact Or.inr (Or.inr (Or.inl ⟨s, p, rfl, rfl, h⟩))
      · exact Or.inr (Or.inl (hmeta t h))

theorem mem_writeDeps {A : Aead} {C : Codec Y} {pw : Option Bytes} {rnd : Nat → Bytes × Bytes}
    {secrets : List (Name × Y)} {gens : Option (List (Name × Int))} {t : Tagged} :
    ∀ (ds : List (Option Name × Y)) (k : Nat), t ∈ writeDeps A C pw rnd secrets gens k ds →
      ∃ d ∈ ds, ∃ k', t ∈ (writeDep A C pw rnd secrets gens k' d).1
  | [], _, h => by simp [writeDeps] at h
  | d :: ds, k, h => by
    simp only [writeDeps, List.mem_append] at h
    rcases h with h | h
    · exact ⟨d, List.mem_cons_self .., k, h⟩
    · obtain ⟨d', hd', k', hk'⟩ := mem_writeDeps ds _ h
      exact ⟨d', List.mem_cons_of_mem _ hd', k', hk'⟩

/-- distinct dot-free names: all the round trip needs of the names (valid DNS-1035 labels are dot-free) -/
def Backup.wfDot (b : Backup Y) : Prop :=
  (∀ d ∈ b.deps, '.' ∉ depName d) ∧ (b.deps.map depName).Nodup

theorem Backup.wf.wfDot {b : Backup Y} (hb : b.wf) : b.wfDot :=
  ⟨fun d hd => validName_dotfree (hb.1 d hd), hb.2⟩

theorem fresh_empty (m : Option RawManifest) (n : Name) : Fresh ({ manifest := m } : RState Y) n := by
  simp [Fresh]

/-- reading a whole written archive with a compatible password -/
theorem read_write {A : Aead} (hA : A.Lawful) {C : Codec Y} (hC : C.Lawful) (wpw rpw : Option Bytes)
    {rnd : Nat → Bytes × Bytes} (hr : rndWf rnd) (b : Backup Y) (hb : b.wfDot)
    (hc : ∀ d ∈ b.deps, Compat wpw rpw (alookup (depName d) b.secrets)) :
    read A C rpw (write A C wpw rnd b) = .ok ⟨manifestOf wpw b, expectedEntries b⟩ := by
  obtain ⟨hv, hnd⟩ := hb
  have hdeps := read_writeDeps hA hC wpw rpw hr b.secrets b.gens b.deps 0
    ({ manifest := some (RawManifest.ofManifest (manifestOf wpw b)) } : RState Y) hv hnd
    (fun d _ => fresh_empty _ _) hc
  simp only [members] at hdeps
  simp only [read, write, writeTagged, List.map_cons, readMembers, readMember, classify_manifest,
    hC.manifest_rt, hdeps]
  have hver : ¬ (writeVersion ≠ supportedVersion) := by decide
  simp only [finish, stAfter, RawManifest.ofManifest, Option.getD_some, manifestOf, hver, if_false]
  congr 2
  simp only [entriesOf, expectedEntries, crPairs, List.nil_append, List.map_map]
  apply List.map_congr_left
  intro d hd
  simp only [Function.comp, secPairs, metaPairs, secretOf]
  rw [alookup_filterMap depName (fun d => alookup (depName d) b.secrets) b.deps hnd d hd,
    alookup_filterMap depName (fun d => (genOf b.gens (depName d)).map some) b.deps hnd d hd]
  cases genOf b.gens (depName d) <;> rfl

/-- reading a written, encrypted archive fails as soon as the reader fails on encrypted members -/
theorem read_write_fail {A : Aead} (hA : A.Lawful) {C : Codec Y} (hC : C.Lawful) (pw : Bytes)
    (rpw : Option Bytes) {rnd : Nat → Bytes × Bytes} (hr : rndWf rnd) (b : Backup Y) (hb : b.wfDot) (e : Err)
    (hW : encPw writeEncTest (some pw) = some pw)
    (hbad : ∀ (st : RState Y) (n : Name) (k : Nat) (x : Bytes), '.' ∉ n →
      readMember A C rpw st (n ++ secEncSuffix, encrypt A pw (rnd k).1 (rnd k).2 x) = .error e)
    (hex : ∃ d ∈ b.deps, secretOf b d ≠ none) :
    read A C rpw (write A C (some pw) rnd b) = .error e := by
  obtain ⟨hv, hnd⟩ := hb
  have hdeps := read_writeDeps_fail hA hC pw rpw hr b.secrets b.gens e hW hbad b.deps 0
    ({ manifest := some (RawManifest.ofManifest (manifestOf (some pw) b)) } : RState Y) hv hnd
    (fun d _ => fresh_empty _ _) hex
  simp only [members] at hdeps
  simp only [read, write, writeTagged, List.map_cons, readMembers, readMember, classify_manifest,
    hC.manifest_rt, hdeps]

end Archive
