import WfProofs.KeyedLockGlobal
/-! Extensions for C25 (M6): draining a key by fairness steps only, a cancelled
waiter always gets out at its next task step. -/
namespace KeyedLock
open GenKeyedLock

/-! ### draining -/

/-- one unit per holder, two per queued waiter (a waiter needs one step to get in / out
and, if it got in, one more to leave) -/
def drainMeasure (st : KeySt) : Nat :=
  st.inside.length + 2 * (match st.lock with | none => 0 | some l => l.waiters.length)

theorem c25x_progress_decreases {st st' : KeySt} {x : KAct} (hi : Inv st) (hp : isProgress st x = true)
    (h : kstep false st x = .ok st') : drainMeasure st' < drainMeasure st := by
  rcases Inv.shape hi with hs | ⟨l, ins, hs, hinv⟩
  · subst hs; cases x <;> simp [isProgress] at hp
  · subst hs
    obtain ⟨hr, hpos, hm, hh, ht⟩ := hinv
    cases x with
    | enter b => simp [isProgress] at hp
    | cancel b => simp [isProgress] at hp
    | exit b =>
      obtain ⟨hb, hlk, h⟩ := exit_some h
      have hlen : (ins.erase b).length + 1 = ins.length := by
        rw [List.length_erase_of_mem hb]
        have : 0 < ins.length := List.length_pos_of_mem hb
        omega
      split at h
      · subst h; simp only [drainMeasure]; omega
      · subst h; simp only [drainMeasure, length_wakeFirst]; omega
    | resume b =>
      rcases resume_some h with ⟨hf, h⟩ | ⟨hf, h⟩
      · subst h
        have := length_removeW hf
        simp only [drainMeasure, List.length_append, List.length_singleton]; omega
      · have hfb : ∃ f, findW b l.waiters = some f := by rcases hf with h | h <;> exact ⟨_, h⟩
        obtain ⟨fb, hfb⟩ := hfb
        have hlen := length_removeW hfb
        simp only at h
        split at h
        · subst h; simp only [drainMeasure]; omega
        · subst h; simp only [drainMeasure]
          split <;> (try simp only [length_wakeFirst]) <;> omega

theorem c25x_inv_ids_nil {st : KeySt} (hi : Inv st) (h : ids st = []) : st = {} := by
  rcases Inv.shape hi with hs | ⟨l, ins, hs, hl⟩
  · exact hs
  · subst hs
    simp only [ids, List.append_eq_nil_iff, List.map_eq_nil_iff] at h
    have := hl.pos; simp [h.1, h.2] at this

/-- in an invariant state with somebody present a fairness step exists -/
theorem c25x_exists_progress_of_ids {st : KeySt} (hi : Inv st) (h : ids st ≠ []) :
    ∃ x, isProgress st x = true := by
  rcases Inv.shape hi with hs | ⟨l, ins, hs, hl⟩
  · subst hs; simp [ids] at h
  · subst hs
    by_cases hw : l.waiters = []
    · cases ins with
      | nil => simp [ids, hw] at h
      | cons b r => exact ⟨.exit b, by simp [isProgress]⟩
    · exact exists_progress hi rfl hw

theorem c25x_drain {k : Nat} (M : Nat) {s : KL} (hg : GInv s) (hM : drainMeasure (s.slot k) ≤ M) :
    ∃ cont : List Act, cont.length ≤ drainMeasure (s.slot k) ∧ progressCount k s cont = cont.length ∧
      (∀ x ∈ cont, x.key = k) ∧ (run cont s).slot k = {} := by
  induction M generalizing s with
  | zero =>
    refine ⟨[], by simp, rfl, by simp, ?_⟩
    have hi := (hg.2 k).1
    apply c25x_inv_ids_nil hi
    rcases Inv.shape hi with hs | ⟨l, ins, hs, hl⟩
    · rw [hs]; rfl
    · rw [hs] at hM
      have := hl.pos
      simp only [drainMeasure] at hM this; omega
  | succ M ih =>
    by_cases hids : ids (s.slot k) = []
    · exact ⟨[], by simp, rfl, by simp, c25x_inv_ids_nil (hg.2 k).1 hids⟩
    · obtain ⟨xa, hp⟩ := c25x_exists_progress_of_ids (hg.2 k).1 hids
      obtain ⟨st', hst⟩ := progress_enabled (hg.2 k).1 hp
      have hdec := c25x_progress_decreases (hg.2 k).1 hp hst
      have hslot : (stepD s ⟨k, xa⟩).slot k = st' := by
        rw [show k = (⟨k, xa⟩ : Act).key from rfl, stepD_slot _ _ hg.1]
        simp [kstepD, hst]
      obtain ⟨cont, hlen, hpc, hkeys, hend⟩ := ih (s := stepD s ⟨k, xa⟩) (ginv_stepD _ hg) (by rw [hslot]; omega)
      refine ⟨⟨k, xa⟩ :: cont, ?_, ?_, ?_, ?_⟩
      · rw [hslot] at hlen; simp only [List.length_cons]; omega
      · simp only [progressCount, isProgressG, beq_self_eq_true, Bool.true_and, hp, if_true, hpc, List.length_cons]
        omega
      · intro x hx
        rcases List.mem_cons.mp hx with h | h
        · rw [h]
        · exact hkeys x h
      · rw [run_cons]; exact hend

/-! ### a cancelled waiter leaves at its next task step -/

theorem c25x_not_mem_removeW {a : Nat} {ws : List (Nat × Fut)} (hn : (ws.map (·.1)).Nodup) :
    a ∉ (removeW a ws).map (·.1) := by
  induction ws with
  | nil => simp [removeW]
  | cons w r ih =>
    simp only [List.map_cons, List.nodup_cons] at hn
    simp only [removeW]; split
    · rename_i he; rw [← he]; exact hn.1
    · rename_i hne
      simp only [List.map_cons, List.mem_cons, not_or]
      exact ⟨fun h => hne h.symm, ih hn.2⟩

theorem c25x_cancelled_leaves {st : KeySt} {l : Lock} {a : Nat} (hi : Inv st) (hn : (ids st).Nodup)
    (hl : st.lock = some l)
    (hc : findW a l.waiters = some .cancelled ∨ findW a l.waiters = some .wokenCancelled) :
    ∃ st', kstep false st (.resume a) = .ok st' ∧ a ∉ ids st' ∧ st'.inside = st.inside := by
  rcases Inv.shape hi with hs | ⟨l', ins, hs, hinv⟩
  · subst hs; simp at hl
  · subst hs
    simp at hl; subst hl
    cases hk : kstep false ⟨some l', some ((ins.length + l'.waiters.length : Nat) : Int), ins⟩ (.resume a) with
    | error e =>
      exfalso
      simp only [kstep, mainSection, Bool.false_eq_true, if_false, deregister_some] at hk
      rcases hc with h | h <;> simp [h] at hk <;> split at hk <;> cases hk
    | ok st' =>
      refine ⟨st', rfl, ?_⟩
      simp only [ids] at hn
      have hn1 := (List.nodup_append.mp hn).1
      have hn2 := (List.nodup_append.mp hn).2.1
      have hdisj := (List.nodup_append.mp hn).2.2
      have hfa : ∃ f, findW a l'.waiters = some f := by rcases hc with h | h <;> exact ⟨_, h⟩
      obtain ⟨fa, hfa⟩ := hfa
      have hmem : a ∈ l'.waiters.map (·.1) := List.mem_map.mpr ⟨_, findW_mem hfa, rfl⟩
      have hnin : a ∉ ins := fun h => hdisj a h a hmem rfl
      rcases resume_some hk with ⟨hf, _⟩ | ⟨_, h⟩
      · rcases hc with h | h <;> simp [h] at hf
      · simp only at h
        split at h
        · subst h; exact ⟨by simpa [ids] using hnin, rfl⟩
        · subst h
          refine ⟨?_, rfl⟩
          simp only [ids, List.mem_append, not_or]
          refine ⟨hnin, ?_⟩
          split
          · exact c25x_not_mem_removeW hn2
          · rw [map_fst_wakeFirst]; exact c25x_not_mem_removeW hn2

/-! ### FIFO: no overtaking, over histories -/

/-- `b` is not inside and, if queued, is queued behind `a` -/
def Behind (st : KeySt) (a b : Nat) : Prop :=
  b ∉ st.inside ∧ ∀ l, st.lock = some l → (findW b l.waiters = none ∨ idxW a l.waiters < idxW b l.waiters)

theorem c25x_idxW_lt_length {a : Nat} {f : Fut} {ws : List (Nat × Fut)} (h : findW a ws = some f) :
    idxW a ws < ws.length := by
  induction ws with
  | nil => simp [findW] at h
  | cons w r ih =>
    simp only [findW] at h; simp only [idxW]
    split
    · simp
    · rename_i hne; simp only [hne, if_false] at h; have := ih h; simp; omega

theorem c25x_idxW_append_new {b : Nat} {g : Fut} {ws : List (Nat × Fut)} (h : findW b ws = none) :
    idxW b (ws ++ [(b, g)]) = ws.length := by
  induction ws with
  | nil => simp [idxW]
  | cons w r ih =>
    simp only [findW] at h
    split at h
    · cases h
    · rename_i hne; simp only [List.cons_append, idxW, hne, if_false, ih h, List.length_cons]

theorem c25x_idxW_removeW_lt {a b c : Nat} (hab : a ≠ b) (hac : a ≠ c) (hbc : b ≠ c) (ws : List (Nat × Fut))
    (h : idxW a ws < idxW b ws) : idxW a (removeW c ws) < idxW b (removeW c ws) := by
  induction ws with
  | nil => simp [idxW] at h
  | cons w r ih =>
    simp only [removeW]
    split
    · rename_i he
      have h1 : ¬ w.1 = a := fun h' => hac (h'.symm.trans he)
      have h2 : ¬ w.1 = b := fun h' => hbc (h'.symm.trans he)
      simp only [idxW, h1, h2, if_false] at h; omega
    · simp only [idxW] at h ⊢
      by_cases h1 : w.1 = a
      · have h2 : ¬ w.1 = b := fun h' => hab (h1.symm.trans h')
        simp [h1, hab]
      · by_cases h2 : w.1 = b
        · simp [h1, h2] at h
        · simp only [h1, h2, if_false] at h ⊢
          have := ih (by omega); omega

theorem c25x_findW_none_of_map {b : Nat} {ws ws' : List (Nat × Fut)} (hm : ws'.map (·.1) = ws.map (·.1)) :
    findW b ws' = none ↔ findW b ws = none := by
  rw [findW_none_iff, findW_none_iff, hm]

theorem c25x_order_step {st st' : KeySt} {x : KAct} {a b : Nat} (hi : Inv st) (hn : (ids st).Nodup)
    (hl : live st a = true) (hab : a ≠ b) (hb : Behind st a b)
    (h : kstep false st x = .ok st') (hx : x ≠ .cancel a) :
    a ∈ st'.inside ∨ Behind st' a b := by
  rcases Inv.shape hi with hs | ⟨l, ins, hs, hinv⟩
  · subst hs; simp [live] at hl
  · subst hs
    obtain ⟨hr, hp, hm, hh, ht⟩ := hinv
    simp only at hm
    have hlv : LiveF (findW a l.waiters) := by
      obtain ⟨l', h1, h2⟩ := live_iff.mp hl; simp at h1; subst h1; exact h2
    have hsome : ∃ f, findW a l.waiters = some f := by rcases hlv with h | h <;> exact ⟨_, h⟩
    obtain ⟨fa, hfa⟩ := hsome
    obtain ⟨hbi, hbq⟩ := hb
    simp only at hbi
    have hbq := hbq l rfl
    cases x with
    | enter c =>
      obtain ⟨hpc, h⟩ := enter_some h
      rw [not_fastPath_of_live hlv] at h
      simp only [Bool.false_eq_true, if_false] at h
      subst h
      right
      refine ⟨hbi, fun l' hl' => ?_⟩
      simp at hl'; subst hl'
      simp only
      by_cases hcb : c = b
      · subst hcb
        have hnone : findW c l.waiters = none := by
          simp only [present, Bool.or_eq_false_iff] at hpc
          simpa using hpc.2
        right
        rw [idxW_append hfa, c25x_idxW_append_new hnone]
        exact c25x_idxW_lt_length hfa
      · have hbc : b ≠ c := fun h => hcb h.symm
        rw [findW_append_ne hbc]
        cases hfb : findW b l.waiters with
        | none => exact Or.inl rfl
        | some fb =>
          rcases hbq with h0 | h0
          · rw [hfb] at h0; cases h0
          · right; rw [idxW_append hfa, idxW_append hfb]; exact h0
    | cancel c =>
      right
      rcases cancel_some h with h | ⟨_, h⟩ | ⟨_, h⟩
      · subst h; exact ⟨hbi, fun l' hl' => by simp at hl'; subst hl'; exact hbq⟩
      all_goals
        subst h
        refine ⟨hbi, fun l' hl' => ?_⟩
        simp at hl'; subst hl'
        simp only [idxW_setW]
        rcases hbq with h0 | h0
        · exact Or.inl ((c25x_findW_none_of_map (map_fst_setW _ _ _)).mpr h0)
        · exact Or.inr h0
    | resume c =>
      rcases resume_some h with ⟨hf, h⟩ | ⟨hf, h⟩
      · subst h
        by_cases he : a = c
        · left; simp [he]
        · right
          obtain ⟨r, hws⟩ := woken_is_head ht hf rfl
          have hca : ¬ c = a := fun h => he h.symm
          have hcb : ¬ c = b := by
            intro hcb; subst hcb
            rcases hbq with h0 | h0
            · simp [hws, findW] at h0
            · simp [hws, idxW] at h0
          refine ⟨by simp [hbi]; exact fun h => hcb h.symm, fun l' hl' => ?_⟩
          simp at hl'; subst hl'
          simp only [hws, removeW_head]
          simp only [hws, findW, idxW, hca, hcb, if_false] at hbq
          rcases hbq with h0 | h0
          · exact Or.inl h0
          · exact Or.inr (by omega)
      · have hne : a ≠ c := by
          intro he; subst he
          rcases hlv with h1 | h1 <;> rcases hf with h2 | h2 <;> simp [h1] at h2
        have hfc : ∃ f, findW c l.waiters = some f := by rcases hf with h | h <;> exact ⟨_, h⟩
        obtain ⟨fc, hfc⟩ := hfc
        have hlen := length_removeW hfc
        have hfa' : findW a (removeW c l.waiters) = some fa := by rw [findW_removeW_ne hne]; exact hfa
        have hpos := findW_pos hfa'
        simp only at h
        split at h
        · omega
        · subst h
          right
          refine ⟨hbi, fun l' hl' => ?_⟩
          simp at hl'; subst hl'
          simp only [ids] at hn
          have hn2 := (List.nodup_append.mp hn).2.1
          have key : findW b (removeW c l.waiters) = none ∨
              idxW a (removeW c l.waiters) < idxW b (removeW c l.waiters) := by
            by_cases hbc : b = c
            · subst hbc; exact Or.inl (findW_none_iff.mpr (c25x_not_mem_removeW hn2))
            · rcases hbq with h0 | h0
              · exact Or.inl (by rw [findW_removeW_ne hbc]; exact h0)
              · exact Or.inr (c25x_idxW_removeW_lt hab hne hbc _ h0)
          simp only
          split
          · exact key
          · simp only [idxW_wakeFirst]
            rcases key with h0 | h0
            · exact Or.inl ((c25x_findW_none_of_map (map_fst_wakeFirst _)).mpr h0)
            · exact Or.inr h0
    | exit c =>
      obtain ⟨hc, hlk, h⟩ := exit_some h
      have hpos := findW_pos hfa
      simp only [hlk, if_true] at hm
      split at h
      · omega
      · subst h
        right
        refine ⟨fun hmem => hbi (List.mem_of_mem_erase hmem), fun l' hl' => ?_⟩
        simp at hl'; subst hl'
        simp only [idxW_wakeFirst]
        rcases hbq with h0 | h0
        · exact Or.inl ((c25x_findW_none_of_map (map_fst_wakeFirst _)).mpr h0)
        · exact Or.inr h0

theorem c25x_order_stepG {s : KL} {x : Act} {k a b : Nat} (hg : GInv s) (hl : live (s.slot k) a = true)
    (hab : a ≠ b) (hb : Behind (s.slot k) a b) (hx : x ≠ ⟨k, .cancel a⟩) :
    a ∈ ((stepD s x).slot k).inside ∨ (live ((stepD s x).slot k) a = true ∧ Behind ((stepD s x).slot k) a b) := by
  rcases progress_stepG hg hl hx with h | ⟨hl', _, _⟩
  · exact Or.inl h
  · by_cases hk : k = x.key
    · obtain ⟨xk, xa⟩ := x
      simp only at hk; subst hk
      have hxa : xa ≠ .cancel a := fun h => hx (by rw [h])
      have hslot := stepD_slot s ⟨k, xa⟩ hg.1
      simp only at hslot
      rw [hslot] at hl' ⊢
      unfold kstepD at hl' ⊢
      cases hs : kstep false (s.slot k) xa with
      | ok st' =>
        rcases c25x_order_step (hg.2 k).1 (hg.2 k).2 hl hab hb hs hxa with h | h
        · exact Or.inl h
        · simp only [hs] at hl'; exact Or.inr ⟨hl', h⟩
      | error e => exact Or.inr ⟨hl, hb⟩
    · rw [stepD_frame s x hk]; exact Or.inr ⟨hl, hb⟩

theorem c25x_no_overtake {k a b : Nat} (acts : List Act) {s : KL} (hg : GInv s) (hl : live (s.slot k) a = true)
    (hab : a ≠ b) (hb : Behind (s.slot k) a b) (hnc : (⟨k, .cancel a⟩ : Act) ∉ acts) (n : Nat)
    (hin : b ∈ ((run (acts.take n) s).slot k).inside) :
    ∃ m, m ≤ n ∧ a ∈ ((run (acts.take m) s).slot k).inside := by
  induction acts generalizing s n with
  | nil => simp [run] at hin; exact absurd hin hb.1
  | cons x xs ih =>
    cases n with
    | zero => simp [run] at hin; exact absurd hin hb.1
    | succ n =>
      have hx : x ≠ ⟨k, .cancel a⟩ := fun h => hnc (by simp [h])
      have hnc' : (⟨k, .cancel a⟩ : Act) ∉ xs := fun h => hnc (List.mem_cons_of_mem _ h)
      rcases c25x_order_stepG hg hl hab hb hx with h | ⟨hl', hb'⟩
      · exact ⟨1, by omega, by simpa [run] using h⟩
      · simp only [List.take_succ_cons, run_cons] at hin
        obtain ⟨m, hm, hma⟩ := ih (ginv_stepD x hg) hl' hb' hnc' n hin
        exact ⟨m + 1, by omega, by simpa [run] using hma⟩

/-- decidable form of `Behind` -/
def behind (st : KeySt) (a b : Nat) : Bool :=
  !st.inside.contains b &&
    (match st.lock with
     | none => true
     | some l => (findW b l.waiters).isNone || decide (idxW a l.waiters < idxW b l.waiters))

theorem c25x_behind_sound {st : KeySt} {a b : Nat} (h : behind st a b = true) : Behind st a b := by
  simp only [behind, Bool.and_eq_true, Bool.not_eq_true', List.contains_eq_mem, decide_eq_false_iff_not] at h
  refine ⟨h.1, fun l hl => ?_⟩
  have h2 := h.2
  rw [hl] at h2
  simp only [Bool.or_eq_true, Option.isNone_iff_eq_none, decide_eq_true_eq] at h2
  exact h2

end KeyedLock
