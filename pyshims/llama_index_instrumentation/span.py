from __future__ import annotations

from contextvars import ContextVar

active_span_id: ContextVar[str | None] = ContextVar("active_span_id", default=None)
